import GuppyVerif.Lemmas.C19
import GuppyVerif.Gen.C19Lowering
/-! # C19 — Array access is bounds-safe and alias-free

Property theorems only.  `getitem`/`setitem`/`run (emit…)` *execute the op lists the compiler emits*
(`Model/ArraySem.lean`, compared with the op lists extracted from /repo's real lowering on every
run) under the assumed `borrow_arr` semantics; the right-hand sides are plain list operations
(`xs[i]`, `List.set`, `take`/`drop`), i.e. Python's list semantics restricted to non-negative
indices.  All statements are for arbitrary lengths, indices, cell states, pattern shapes and op
sequences.  The only size hypothesis is `length ≤ 2^63` (an array longer than 2^63 elements would make
`itousize (-1) = 2^64-1` a valid index; such arrays do not fit an address space). -/
namespace GuppyVerif.ArraySem
open Spec

variable {α : Type}

/-- **C19 (read)**: `xs[i]` on an array in any borrow state.  In range and present: element `i`
    comes back; a classical read leaves the array unchanged, a linear read marks exactly cell `i`
    as lent.  In range but lent: panic (no alias).  Out of range — negative included — panic. -/
theorem getitem_spec (linear : Bool) (a : Cells α) (i : Int) (hi : IsI64 i) (hn : a.length ≤ 2 ^ 63) :
    getitem linear a i =
      if InRange a.length i then
        match a[i.toNat]? with
        | some (some v) => .ok (v, if linear then a.set i.toNat none else a)
        | _ => .error .alreadyBorrowed
      else .error (if linear then .indexOob else .unwrapFail oobMsg) := by
  by_cases hr : InRange a.length i
  · have hu := itousize_inRange hr hn
    have hlt : i.toNat < a.length := by rw [← hu]; exact (itousize_lt_iff hi hn).mpr hr
    cases linear
    · rw [getitem_classical, hu]; simp only [hr, ↓reduceIte]
      rcases h : a[i.toNat]? with _ | _ | v <;> simp [h]
      · rw [List.getElem?_eq_none_iff] at h; omega
    · rw [getitem_linear, hu]; simp only [hr, ↓reduceIte]
      rcases h : a[i.toNat]? with _ | _ | v <;> simp [h]
      · rw [List.getElem?_eq_none_iff] at h; omega
  · have hge : a.length ≤ itousize i := by
      have := mt (itousize_lt_iff hi hn).mp hr; omega
    have hnone : a[itousize i]? = none := List.getElem?_eq_none hge
    cases linear
    · rw [getitem_classical, hnone]; simp [hr]
    · rw [getitem_linear, hnone]; simp [hr]

/-- **C19 (read, Python list form)**: on an array whose elements are all present, `xs[i]` is
    Python's `xs[i]` for `0 ≤ i < n` and a panic for every other index. -/
theorem getitem_list (linear : Bool) (xs : List α) (i : Int) (hi : IsI64 i)
    (hn : xs.length ≤ 2 ^ 63) :
    getitem linear (ofList xs) i =
      if h : 0 ≤ i ∧ i.toNat < xs.length then
        .ok (xs[i.toNat]'h.2, if linear then (ofList xs).set i.toNat none else ofList xs)
      else .error (if linear then .indexOob else .unwrapFail oobMsg) := by
  have hl : (ofList xs).length = xs.length := by simp [ofList]
  rw [getitem_spec linear _ i hi (by rw [hl]; exact hn), hl]
  by_cases h : 0 ≤ i ∧ i.toNat < xs.length
  · have hr : InRange xs.length i := by unfold InRange; omega
    simp [hr, h, ofList]
  · have hr : ¬ InRange xs.length i := by unfold InRange; omega
    simp [hr, h]

/-- **C19 (negative indices)**: every negative index panics, whatever the array. -/
theorem negative_index_panics (linear : Bool) (a : Cells α) (i : Int) (hi : IsI64 i)
    (hn : a.length ≤ 2 ^ 63) (hneg : i < 0) (v : α) :
    getitem linear a i = .error (if linear then .indexOob else .unwrapFail oobMsg) ∧
    setitem linear a i v = .error (if linear then .indexOob else .unwrapFail oobMsg) := by
  have hge : a.length ≤ itousize i := by
    have := itousize_of_neg hneg hi.1; omega
  have hnone : a[itousize i]? = none := List.getElem?_eq_none hge
  cases linear <;>
    simp [getitem_classical, getitem_linear, setitem_classical, setitem_linear, hnone]

/-- **C19 (no aliasing)**: once element `i` has been lent, lending it again panics — for every
    array state and index (no hypothesis: a successful first borrow implies the index was valid). -/
theorem double_borrow_panics (a a' : Cells α) (i : Int) (v : α)
    (h : getitem true a i = .ok (v, a')) : getitem true a' i = .error .alreadyBorrowed := by
  rw [getitem_linear] at h
  rcases hc : a[itousize i]? with _ | _ | w <;> simp [hc] at h
  obtain ⟨_, rfl⟩ := h
  have hlt : itousize i < a.length := by
    rcases Nat.lt_or_ge (itousize i) a.length with h' | h'
    · exact h'
    · rw [List.getElem?_eq_none h'] at hc; cases hc
  rw [getitem_linear]; simp [hlt]

/-- … and lending a *different* element afterwards behaves exactly as before (frame). -/
theorem borrow_frame (a a' : Cells α) (i : Int) (v : α) (h : getitem true a i = .ok (v, a'))
    (j : Nat) (hj : j ≠ itousize i) : a'[j]? = a[j]? := by
  rw [getitem_linear] at h
  rcases hc : a[itousize i]? with _ | _ | w <;> simp [hc] at h
  obtain ⟨_, rfl⟩ := h
  simp [List.getElem?_set, Ne.symm hj]

/-- **C19 (write)**: `xs[i] = v`.  Classical: in range and present → exactly cell `i` replaced.
    Linear (`return`): in range and lent → cell `i` filled; present → panic.  Out of range → panic. -/
theorem setitem_spec (linear : Bool) (a : Cells α) (i : Int) (v : α) (hi : IsI64 i)
    (hn : a.length ≤ 2 ^ 63) :
    setitem linear a i v =
      if InRange a.length i then
        match a[i.toNat]?, linear with
        | some (some _), false => .ok (a.set i.toNat (some v))
        | some none, true => .ok (a.set i.toNat (some v))
        | some (some _), true => .error .notBorrowed
        | _, _ => .error .alreadyBorrowed
      else .error (if linear then .indexOob else .unwrapFail oobMsg) := by
  by_cases hr : InRange a.length i
  · have hu := itousize_inRange hr hn
    have hlt : i.toNat < a.length := by rw [← hu]; exact (itousize_lt_iff hi hn).mpr hr
    cases linear
    · rw [setitem_classical, hu]; simp only [hr, ↓reduceIte]
      rcases h : a[i.toNat]? with _ | _ | w <;> simp [h]
      · rw [List.getElem?_eq_none_iff] at h; omega
    · rw [setitem_linear, hu]; simp only [hr, ↓reduceIte]
      rcases h : a[i.toNat]? with _ | _ | w <;> simp [h]
      · rw [List.getElem?_eq_none_iff] at h; omega
  · have hge : a.length ≤ itousize i := by
      have := mt (itousize_lt_iff hi hn).mp hr; omega
    have hnone : a[itousize i]? = none := List.getElem?_eq_none hge
    cases linear
    · rw [setitem_classical, hnone]; simp [hr]
    · rw [setitem_linear, hnone]; simp [hr]

/-- **C19 (write, Python list form)**: classical `xs[i] = v` is Python's list assignment for
    `0 ≤ i < n` (all other elements untouched — `List.set`), and a panic otherwise. -/
theorem setitem_list (xs : List α) (i : Int) (v : α) (hi : IsI64 i) (hn : xs.length ≤ 2 ^ 63) :
    setitem false (ofList xs) i v =
      if 0 ≤ i ∧ i.toNat < xs.length then .ok (ofList (xs.set i.toNat v))
      else .error (.unwrapFail oobMsg) := by
  have hl : (ofList xs).length = xs.length := by simp [ofList]
  rw [setitem_spec false _ i v hi (by rw [hl]; exact hn), hl]
  by_cases h : 0 ≤ i ∧ i.toNat < xs.length
  · have hr : InRange xs.length i := by unfold InRange; omega
    simp [hr, h, ofList, List.map_set]
  · have hr : ¬ InRange xs.length i := by unfold InRange; omega
    simp [hr, h]

/-- **C19 (sequences of reads and writes)**: any sequence of classical reads and writes, run
    through the emitted code, behaves like the same sequence on a Python list (same values read,
    same final list), and panics exactly when Python's list semantics restricted to non-negative
    indices fails.  Induction over the sequence. -/
theorem classical_ops_refine_list (ops : List (AOp α))
    (hops : ∀ o ∈ ops, match o with | .read i => IsI64 i | .write i _ => IsI64 i) :
    ∀ (xs log : List α), xs.length ≤ 2 ^ 63 →
      runOps (ofList xs, log) ops = match pyRun (xs, log) ops with
        | some (ys, log') => .ok (ofList ys, log')
        | none => .error (.unwrapFail oobMsg) := by
  induction ops with
  | nil => intro xs log _; simp [runOps, pyRun, pure, Except.pure]
  | cons o os ih =>
    intro xs log hn
    have ho := hops o (by simp)
    have ih' := ih (fun o h => hops o (by simp [h]))
    cases o with
    | read i =>
      simp only [runOps, pyRun, pyStep, getitem_list false xs i ho hn]
      by_cases h : 0 ≤ i ∧ i.toNat < xs.length
      · simp only [h, and_self, ↓reduceDIte, bind, Except.bind, Bool.false_eq_true, ↓reduceIte]
        exact ih' xs _ hn
      · simp [h, bind, Except.bind]
    | write i v =>
      simp only [runOps, pyRun, pyStep, setitem_list xs i v ho hn]
      by_cases h : 0 ≤ i ∧ i.toNat < xs.length
      · simp only [h, and_self, ↓reduceIte, bind, Except.bind]
        exact ih' _ log (by simpa using hn)
      · simp [h, bind, Except.bind]

/-- **C19 (sequences of borrows and returns)**: any sequence of lends and give-backs on a linear
    array, run through the emitted code, behaves like the reference model "Python list + lent
    flag per position": same elements handed out, same final contents and flags; and it panics
    exactly when the reference says the operation is illegal (index not in `0 ≤ i < n`, lending a
    lent element, giving back into an occupied position).  Induction over the sequence. -/
theorem linear_ops_refine_flags (ops : List (LOp α)) (hops : ∀ o ∈ ops, IsI64 o.idx) :
    ∀ (r : Ref α) (log : List α), r.WF → r.vals.length ≤ 2 ^ 63 →
      match refRun (r, log) ops with
      | some (r', log') => runL (r.cells, log) ops = .ok (r'.cells, log')
      | none => ∃ e, runL (r.cells, log) ops = .error e := by
  induction ops with
  | nil => intro r log _ _; simp [refRun, runL, pure, Except.pure]
  | cons o os ih =>
    intro r log hwf hn
    have ho := hops o (by simp)
    have ih' := ih (fun o h => hops o (by simp [h]))
    have hlen := r.cells_length hwf
    cases o with
    | lend i =>
      simp only [LOp.idx] at ho
      simp only [refRun, refStep, runL]
      rw [getitem_spec true r.cells i ho (by rw [hlen]; exact hn), hlen]
      by_cases h : 0 ≤ i ∧ i.toNat < r.vals.length
      · have hr : InRange r.vals.length i := by unfold InRange; omega
        have hk' : i.toNat < r.lent.length := hwf ▸ h.2
        simp only [h, and_self, ↓reduceDIte, hr, ↓reduceIte, r.cells_get hwf _ h.2]
        by_cases hl : r.lent[i.toNat] = true
        · simp [hl, List.getElem?_eq_getElem hk', bind, Except.bind]
        · have hl' : r.lent[i.toNat] = false := by simpa using hl
          simp only [hl', Bool.false_eq_true, ↓reduceIte, List.getElem?_eq_getElem hk', bind,
            Except.bind, r.cells_set_lend]
          exact ih' ⟨r.vals, r.lent.set i.toNat true⟩ _ (by simp [Ref.WF]; exact hwf) hn
      · have hr : ¬ InRange r.vals.length i := by unfold InRange; omega
        simp [h, hr, bind, Except.bind]
    | giveBack i v =>
      simp only [LOp.idx] at ho
      simp only [refRun, refStep, runL]
      rw [setitem_spec true r.cells i v ho (by rw [hlen]; exact hn), hlen]
      by_cases h : 0 ≤ i ∧ i.toNat < r.vals.length
      · have hr : InRange r.vals.length i := by unfold InRange; omega
        have hk' : i.toNat < r.lent.length := hwf ▸ h.2
        simp only [h, and_self, ↓reduceIte, hr, r.cells_get hwf _ h.2]
        by_cases hl : r.lent[i.toNat] = true
        · simp only [hl, ↓reduceIte, List.getElem?_eq_getElem hk', bind, Except.bind,
            r.cells_set_give]
          exact ih' ⟨r.vals.set i.toNat v, r.lent.set i.toNat false⟩ _
            (by simp [Ref.WF]; exact hwf) (by simpa using hn)
        · have hl' : r.lent[i.toNat] = false := by simpa using hl
          simp [hl', List.getElem?_eq_getElem hk', bind, Except.bind]
      · have hr : ¬ InRange r.vals.length i := by unfold InRange; omega
        simp [h, hr, bind, Except.bind]


/-- **C19 / C07 (borrowed element)**: `callee(xs[i])` with a borrowing callee on a linear element
    (borrow, call, return) leaves the array with exactly element `i` replaced by the callee's
    result; out of range panics; a lent element panics. -/
theorem inout_writeback (f : α → α) (c : String) (xs : List α) (i : Int) (hi : IsI64 i)
    (hn : xs.length ≤ 2 ^ 63) :
    run f (emitInout c) [vArr (ofList xs), vInt i] =
      if h : 0 ≤ i ∧ i.toNat < xs.length then
        .ok [vArr (ofList (xs.set i.toNat (f (xs[i.toNat]'h.2))))]
      else .error .indexOob := by
  rw [run_inout]
  by_cases h : 0 ≤ i ∧ i.toNat < xs.length
  · have hr : InRange xs.length i := by unfold InRange; omega
    rw [itousize_inRange hr hn]
    simp [h, ofList, List.map_set]
  · have hr : ¬ InRange xs.length i := by unfold InRange; omega
    have hge : (ofList xs).length ≤ itousize i := by
      have := mt (itousize_lt_iff hi hn).mp hr; simp [ofList]; omega
    rw [List.getElem?_eq_none hge]; simp [h]

/-- **C19 (unpacking)**: `l0, …, *mid, r0, … = xs` (left pops, then right pops, targets assigned
    left to right) gives every target what Python gives it: the left targets `xs[:l]` in order,
    the starred target the middle slice as an array, the right targets `xs[n-r:]` in order; without
    a starred target the remainder is empty and discarded.  For all `l`, `r`, `n`. -/
theorem unpack_order (f : α → α) (xs : List α) (l r : Nat) (starred : Bool)
    (hlen : l + r ≤ xs.length) (hexact : starred = false → l + r = xs.length) :
    run f (emitUnpack l r starred xs.length) [vArr (ofList xs)] =
      .ok ((pyUnpack xs l r).1.map vElem
            ++ (if starred then [vArr (ofList (pyUnpack xs l r).2.1)] else [])
            ++ (pyUnpack xs l r).2.2.map vElem) := by
  -- left pops
  obtain ⟨ext1, hrun1, hnx1, ha1, hes1⟩ :=
    run_emitPops f true l xs (xs.take l) (xs.drop l) [vArr (ofList xs)] 0 xs.length 1
      (popSeq_left l xs (by omega)) rfl rfl rfl
  -- right pops on what is left
  have hdl : (xs.drop l).length = xs.length - l := by simp
  obtain ⟨ext2, hrun2, _, ha2, hes2⟩ :=
    run_emitPops f false r (xs.drop l) ((xs.drop l).reverse.take r)
      ((xs.drop l).take ((xs.drop l).length - r)) ([vArr (ofList xs)] ++ ext1)
      (emitPops true l xs.length 0 1).2.2.1 (xs.length - l) (emitPops true l xs.length 0 1).2.2.2
      (popSeq_right r (xs.drop l) (by omega)) hdl.symm hnx1 ha1
  have hes1' := map_getElem?_append_some (m := ext2) hes1
  have hrev : ((xs.drop l).reverse.take r).reverse = xs.drop (xs.length - r) := by
    rw [List.reverse_take, List.reverse_reverse, List.length_reverse, List.drop_drop, hdl]
    congr 1; omega
  have hes2' : (emitPops false r (xs.length - l) (emitPops true l xs.length 0 1).2.2.1
      (emitPops true l xs.length 0 1).2.2.2).2.1.reverse.map
        (fun w => ([vArr (ofList xs)] ++ ext1 ++ ext2)[w]?)
      = ((xs.drop (xs.length - r)).map vElem).map some := by
    rw [List.map_reverse, hes2, ← hrev]; simp
  unfold run emitUnpack pyUnpack
  simp only [List.length_singleton, ne_eq, not_true_eq_false, ↓reduceIte, runInstrs_append,
    hrun1, hrun2, bind, Except.bind, hdl]
  cases starred with
  | true =>
    simp only [↓reduceIte, runInstrs, pure, Except.pure]
    apply lookup_of_map
    simp only [List.map_append, hes1', hes2', List.map_cons, List.map_nil, ha2, hdl]
  | false =>
    have hex := hexact rfl
    have hemp : (xs.drop l).take ((xs.drop l).length - r) = [] := by
      rw [hdl]; have : xs.length - l - r = 0 := by omega
      rw [this]; simp
    rw [hemp] at ha2
    have hd : runInstr f ([vArr (ofList xs)] ++ ext1 ++ ext2)
        ⟨.discardEmpty, [(emitPops false r (xs.length - l) (emitPops true l xs.length 0 1).2.2.1
          (emitPops true l xs.length 0 1).2.2.2).2.2.1], 0⟩ = .ok ([vArr (ofList xs)] ++ ext1 ++ ext2 ++ []) :=
      runInstr_ok f _ _ [vArr (ofList [])] [] (lookup_of_map _ _ _ (by simp only [List.map_cons, List.map_nil, ha2]))
        (by simp [step, ofList, pure, Except.pure]) rfl
    simp only [Bool.false_eq_true, ↓reduceIte, runInstrs, hd, bind, Except.bind, pure, Except.pure,
      List.append_nil]
    apply lookup_of_map
    simp only [List.map_append, hes1', hes2', List.map_nil, List.append_nil]

/-- **C19 (unpacking binds its targets in pattern order)**: `_assign_array` / `_assign_tuple` bind
    the targets strictly in pattern order, the starred target in its place (`assignOrder`; the named
    probes extracted every run — also with the starred name repeated — are compared with
    `emitUnpackNamed`, which uses this order). -/
theorem unpack_assign_order (l r : Nat) :
    assignOrder l r true = List.range (l + 1 + r) ∧ assignOrder l 0 false = List.range l :=
  ⟨assignOrder_starred l r, assignOrder_plain l⟩

/-- **C19 (a name that occurs several times in an unpacking pattern)**: with targets `names` (pattern
    order: `l` left targets, the starred target at position `l`, `r` right targets; ANY name may be
    repeated, the starred one included) every name ends up with the wire of its RIGHTMOST occurrence
    — Python's left-to-right binding. -/
theorem unpack_named_last_wins (names wires : List Nat) (l r t : Nat)
    (hn : names.length = l + 1 + r) (hw : wires.length = names.length) (ht : t < names.length)
    (hlast : ∀ t', t < t' → t' < names.length → names[t']? ≠ names[t]?) :
    lookupName (bindTargets names wires (assignOrder l r true)) names[t] = wires[t]? := by
  rw [assignOrder_starred, List.getElem?_eq_getElem (hw ▸ ht)]
  have hmem : t ∈ List.range (l + 1 + r) := by simp; omega
  obtain ⟨pre, post, hsplit⟩ := List.append_of_mem hmem
  have hinc : (List.range (l + 1 + r)).Pairwise (· < ·) := List.pairwise_lt_range
  rw [hsplit] at hinc
  have hgt : ∀ t' ∈ post, t < t' := by
    have := (List.pairwise_append.mp hinc).2.1
    exact (List.pairwise_cons.mp this).1
  have hpost_mem : ∀ t' ∈ post, t' < l + 1 + r := by
    intro t' ht'
    have : t' ∈ List.range (l + 1 + r) := by rw [hsplit]; simp [ht']
    simpa using this
  have := lookup_last_occurrence names wires pre post t ht (hw ▸ ht) (by
    intro t' ht'
    have h1 := hpost_mem t' ht'
    refine ⟨by omega, by omega, ?_⟩
    have := hlast t' (hgt t' ht') (by omega)
    rwa [List.getElem?_eq_getElem ht] at this)
  rw [hsplit]
  exact this

/-- regression: with the order used before 535d821 (starred target bound LAST, `assignOrderOld`)
    the statement above is false — witness `*a, a = xs` (names [0, 0]): `a` ended up as the starred
    array (wire 5) whereas Python leaves the last element (wire 6). -/
theorem unpack_named_old_order_deviates :
    ¬ (∀ (names wires : List Nat) (l r t : Nat), names.length = l + 1 + r → wires.length = names.length →
        t < names.length → (∀ t', t < t' → t' < names.length → names[t']? ≠ names[t]?) →
        lookupName (bindTargets names wires (assignOrderOld l r true)) names[t]! = wires[t]?) := by
  intro h
  have := h [0, 0] [5, 6] 0 1 1 rfl rfl (by decide) (by intro t' h1 h2; simp at h2; omega)
  revert this
  decide

/-- **C19 (iteration)**: a `for` loop over an array (`ArrayIter.__next__` until `nothing`) yields
    the elements `0 … n-1` in index order, each exactly once, then stops — and for linear arrays the
    final `discard_all_borrowed` succeeds because every element has been handed out.  Any fuel
    beyond `n + 1` calls gives the same answer. -/
theorem iter_order (linear : Bool) (xs : List α) (hn : xs.length < 2 ^ 63) (extra : Nat) :
    drain linear (xs.length + 1 + extra) ⟨ofList xs, 0⟩ = .ok (some xs) := by
  have := drain_from linear xs hn xs.length 0 extra (by omega)
  simpa [iterCells] using this

/-- **C19 (array comprehension)**: the comprehension loop (start from `new_all_borrowed`, `return`
    element number `count` at index `count`) builds the array of the generated elements in
    generation order. -/
theorem comp_order (xs : List α) (hn : xs.length < 2 ^ 63) :
    xs.foldlM compStep (compInit xs.length) = .ok (ofList xs, (xs.length : Int)) := by
  have := comp_from xs.length hn xs [] (by simp)
  simpa [compInit, newAllBorrowed, ofList] using this

/-- **C19 (iteration over a frozenarray)**: `FrozenarrayIter.__next__` (what a `for` loop or a
    comprehension over a comptime list / `mutable_copy()` runs) yields the elements `0 … n-1` in
    index order, each exactly once, then stops; no index ever goes out of bounds. -/
theorem frozen_iter_order (xs : List α) (hn : xs.length < 2 ^ 63) (extra : Nat) :
    fdrain (xs.length + 1 + extra) ⟨xs, 0⟩ = .ok (some xs) := by
  have := fdrain_from xs hn xs.length 0 extra (by omega)
  simpa using this

/-- **C19 (array comprehension, whole loop)**: the comprehension loop as the compiler lowers it —
    `new_all_borrowed n` and counter `0` fed into a `TailLoop` over the iterator, `__next__` per
    round, `nothing` ⇒ break with the carried array, `some (x, it')` ⇒ `return` of `g x` at index
    `count`, `count + 1`, continue with `it'` (`emitCompLoop`, compared with the loop extracted from
    the real Hugr) — run over an array `xs` evaluates to the array `[g x | x ∈ xs]` in index order,
    for every length; every fuel ≥ n + 1 gives the same result. -/
theorem comp_order_loop (g : α → α) (xs : List α) (hn : xs.length < 2 ^ 63) (extra : Nat) :
    runComp (emitCompLoop xs.length) g (xs.length + 1 + extra) (ofList xs)
      = .ok (some (vArr (ofList (xs.map g)))) := by
  have := runLoop_from g xs hn xs.length 0 extra (by omega)
  simp only [iterCells, ↓reduceIte, List.replicate_zero, List.nil_append, List.drop_zero,
    List.take_zero, List.map_nil, Nat.sub_zero, Int.natCast_zero] at this
  simp only [runComp, CompLoop.init, emitCompLoop, and_self, ↓reduceIte, bind, Except.bind, pure,
    Except.pure, newAllBorrowed]
  have h0 : ofList ([] : List α) ++ List.replicate xs.length (none : Option α)
      = List.replicate xs.length none := by simp [ofList]
  rw [h0] at this
  simp only [emitCompLoop] at this
  rw [this]
  simp


/-- … and one element too many panics instead of overwriting anything. -/
theorem comp_overflow_panics (xs : List α) (e : α) (hn : xs.length < 2 ^ 63) :
    compStep (ofList xs, (xs.length : Int)) e = .error .indexOob := by
  have hi : itousize (xs.length : Int) = xs.length := by
    rw [itousize_of_nonneg (by omega) (by omega)]; simp
  rw [compStep_eq, hi]; simp [ofList]

/-- **C19 (copy)**: `xs.copy()` of an array with all elements present returns the same elements
    in the same order and leaves the original unchanged. -/
theorem copy_spec (f : α → α) (xs : List α) :
    run f emitCopy [vArr (ofList xs)] = .ok [vArr (ofList xs), vArr (ofList xs)] := by
  rw [run_copy]; simp [ofList]

/-! ## T-obj: the op lists extracted from /repo's lowering in this run ARE the emissions the
theorems above are about (`Gen/C19Lowering.lean` is regenerated on every run) -/

/-- the extracted lowerings of `xs[i]`, `xs[i] = v`, `cal(xs[i])`, `xs.copy()` equal the model's
    emissions — so `getitem_spec`, `setitem_spec`, `inout_writeback`, `copy_spec`, … speak about
    the code the compiler produces now -/
theorem extracted_access_eq_emission :
    Gen.getitemClassical = emitGetitem false ∧ Gen.getitemClassicalFixed = emitGetitem false ∧
    Gen.getitemLinear = emitGetitem true ∧ Gen.setitemClassical = emitSetitem false ∧
    Gen.setitemLinear = emitSetitem true ∧ Gen.inoutLinear = emitInout "cal" ∧
    Gen.copyClassical = emitCopy := by decide

/-- the extracted lowerings of five unpacking patterns equal `emitUnpack` at their shapes -/
theorem extracted_unpack_eq_emission :
    Gen.unpack0 = emitUnpackShape Gen.unpack0Shape ∧ Gen.unpack1 = emitUnpackShape Gen.unpack1Shape ∧
    Gen.unpack2 = emitUnpackShape Gen.unpack2Shape ∧ Gen.unpack3 = emitUnpackShape Gen.unpack3Shape ∧
    Gen.unpack4 = emitUnpackShape Gen.unpack4Shape := by decide

/-- the comprehension loop extracted from /repo's lowering in this run is the model's -/
theorem extracted_comp_loop_eq_emission : Gen.compLoop = emitCompLoop Gen.compLoopLen := by decide

/-! ## Non-vacuity: concrete instances -/

example : getitem false (ofList [10, 20, 30]) 1 = .ok (20, ofList [10, 20, 30]) := by rfl
example : getitem false (ofList [10, 20, 30]) (-1) = .error (.unwrapFail oobMsg) := by rfl
example : getitem true (ofList [10, 20, 30]) 3 = .error .indexOob := by rfl
example : getitem true [some 10, none, some 30] 1 = .error .alreadyBorrowed := by rfl
example : setitem false (ofList [10, 20, 30]) 2 7 = .ok (ofList [10, 20, 7]) := by rfl
example : IsI64 (-1) ∧ InRange 3 2 ∧ ¬ InRange 3 (-1) := by unfold IsI64 InRange; omega
/-- `x, *r, x = xs` (names 0, 100, 0; wires 5, 6, 7): x ends up with the wire of the right target -/
example : lookupName (bindTargets [0, 100, 0] [5, 6, 7] (assignOrder 1 1 true)) 0 = some 7 := by decide
/-- the hypotheses of `unpack_named_last_wins` are satisfiable: `x, *r, x` with t = the right `x` -/
example : lookupName (bindTargets [0, 100, 0] [5, 6, 7] (assignOrder 1 1 true)) ([0, 100, 0][2]) = [5, 6, 7][2]? :=
  unpack_named_last_wins [0, 100, 0] [5, 6, 7] 1 1 2 rfl rfl (by decide)
    (by intro t' h1 h2; simp at h2; omega)
/-- `*a, a = xs`: the right `a` wins now -/
example : lookupName (bindTargets [0, 0] [5, 6] (assignOrder 0 1 true)) 0 = some 6 := by decide
example : assignOrder 2 2 true = [0, 1, 2, 3, 4] := by decide
example : assignOrderOld 2 2 true = [0, 1, 3, 4, 2] := by decide
example : pyUnpack [1, 2, 3, 4, 5] 1 2 = ([1], [2, 3], [4, 5]) := by decide
example : drain true 4 ⟨ofList [10, 20, 30], 0⟩ = .ok (some [10, 20, 30]) := by rfl
example : runComp (emitCompLoop 2) (· + 1) 3 (ofList [10, 20]) = .ok (some (vArr (ofList [11, 21]))) := by
  rfl
example : fdrain 4 ⟨[10, 20, 30], 0⟩ = .ok (some [10, 20, 30]) := by rfl
example : [10, 20].foldlM compStep (compInit 2) = .ok (ofList [10, 20], 2) := by rfl
example : pyRun ([1, 2, 3], []) [.write 0 9, .read 0, .read 2] = some ([9, 2, 3], [9, 3]) := by
  decide
example : pyRun ([1, 2, 3], ([] : List Nat)) [.read (-1)] = none := by decide
example : refRun (⟨[1, 2, 3], [false, false, false]⟩, []) [.lend 1, .giveBack 1 9, .lend 1]
    = some (⟨[1, 9, 3], [false, true, false]⟩, [2, 9]) := by decide
example : refRun (⟨[1, 2, 3], [false, false, false]⟩, ([] : List Nat)) [.lend 1, .lend 1] = none := by
  decide

end GuppyVerif.ArraySem
