import GuppyVerif.Lemmas.IntSem
import GuppyVerif.Gen.C04NumTable
/-! # C04 — Numeric operators compute Python's results  (partial: HUGR op semantics assumed)

Property theorems only.  `C04Gen.table` is regenerated from /repo's `std/num.py`, `std/bool.py` and the
operator tables of `expr_checker.py` on every run; `NumEval` gives it a meaning (`evalBin`, `evalUn`,
`evalBuiltin`, …: dispatch exactly as `_synthesize_binary` / `ReversingChecker` / `DunderChecker`, HUGR ops
with the semantics of `Model/IntSem.lean`).  Each theorem has two halves:

* which value the operator computes *according to the table that the code contains now* (closed by `rfl`:
  the kernel evaluates the dispatch through the regenerated table with symbolic operands) — so a changed
  row breaks the build of exactly the theorems of that operator;
* that this value is Python's result on unbounded `Int`, wrapped as the statement says
  (`wrapS` for `int`, `wrapU` for `nat`), for **all** 64-bit operands, under the statement's guard.

Where the full statement is false of the code (D11) the theorem is named `…_partial`, carries the forced
hypothesis, and is followed by a `decide`d counterexample of the full statement.
Float operations are symbolic terms: only their structure is proved (what needs no rounding reasoning). -/
namespace GuppyVerif.C04
open GuppyVerif.IntSem GuppyVerif.NumEval
open GuppyVerif.C04Gen (table)

local notation "I" => Val.int
local notation "N" => Val.nat

/-! ## int: ring operations -/

theorem int_add_correct (a b : W) :
    ∃ r, evalBin table "+" (I a) (I b) = .ok (I r) ∧ r.toInt = wrapS (a.toInt + b.toInt) :=
  ⟨iadd a b, rfl, iadd_toInt a b⟩

theorem int_sub_correct (a b : W) :
    ∃ r, evalBin table "-" (I a) (I b) = .ok (I r) ∧ r.toInt = wrapS (a.toInt - b.toInt) :=
  ⟨isub a b, rfl, isub_toInt a b⟩

theorem int_mul_correct (a b : W) :
    ∃ r, evalBin table "*" (I a) (I b) = .ok (I r) ∧ r.toInt = wrapS (a.toInt * b.toInt) :=
  ⟨imul a b, rfl, imul_toInt a b⟩

theorem int_neg_correct (a : W) :
    ∃ r, evalUn table "-" (I a) = .ok (I r) ∧ r.toInt = wrapS (-a.toInt) :=
  ⟨ineg a, rfl, ineg_toInt a⟩

theorem int_pos_correct (a : W) : evalUn table "+" (I a) = .ok (I a) := rfl

/-- reflected forms: `a.__rsub__(b)` is `b - a`.  Only `__rsub__` and `__radd__` are theorems; the other 32 reflected
    rows are the same `ReversingChecker` row kind and are covered by the tie only (op name + swapped operand wiring of
    every reflected row, and values of the mixed forms that dispatch through them), not by a theorem. -/
theorem int_rsub_correct (a b : W) :
    ∃ r, evalMeth table "__rsub__" [I a, I b] = .ok (I r) ∧ r.toInt = wrapS (b.toInt - a.toInt) :=
  ⟨isub b a, rfl, isub_toInt b a⟩

theorem int_radd_correct (a b : W) :
    ∃ r, evalMeth table "__radd__" [I a, I b] = .ok (I r) ∧ r.toInt = wrapS (b.toInt + a.toInt) :=
  ⟨iadd b a, rfl, iadd_toInt b a⟩

/-- coerced form `nat ∘ int`: the left dunder `nat.__add__` does not accept an `int`, the reflected
    `int.__radd__` does (the `nat` is widened by a no-op); the wrapped result is Python's for *every* nat. -/
theorem nat_int_add_correct (a b : W) :
    ∃ r, evalBin table "+" (N a) (I b) = .ok (I r) ∧ r.toInt = wrapS ((a.toNat : Int) + b.toInt) := by
  refine ⟨iadd a b, rfl, ?_⟩
  rw [iadd_toInt]; apply wrapS_congr
  rw [Int.add_emod, ← toNat_emod_eq_toInt_emod a, ← Int.add_emod]

theorem int_nat_sub_correct (a b : W) :
    ∃ r, evalBin table "-" (I a) (N b) = .ok (I r) ∧ r.toInt = wrapS (a.toInt - (b.toNat : Int)) := by
  refine ⟨isub a b, rfl, ?_⟩
  rw [isub_toInt]; apply wrapS_congr
  rw [Int.sub_emod, ← toNat_emod_eq_toInt_emod b, ← Int.sub_emod]

/-! ## int: bitwise -/

theorem int_and_correct (a b : W) :
    ∃ r, evalBin table "&" (I a) (I b) = .ok (I r) ∧ IsPyAnd r.toInt a.toInt b.toInt :=
  ⟨iand a b, rfl, iand_isPyAnd a b⟩

theorem int_or_correct (a b : W) :
    ∃ r, evalBin table "|" (I a) (I b) = .ok (I r) ∧ IsPyOr r.toInt a.toInt b.toInt :=
  ⟨ior a b, rfl, ior_isPyOr a b⟩

theorem int_xor_correct (a b : W) :
    ∃ r, evalBin table "^" (I a) (I b) = .ok (I r) ∧ IsPyXor r.toInt a.toInt b.toInt :=
  ⟨ixor a b, rfl, ixor_isPyXor a b⟩

theorem int_invert_correct (a : W) :
    ∃ r, evalUn table "~" (I a) = .ok (I r) ∧ r.toInt = pyInvert a.toInt :=
  ⟨inot a, rfl, inot_toInt a⟩

/-- `a << b` for a shift count `b ≥ 0` (the statement asks for `b ∈ [0, 64)`) -/
theorem int_lshift_correct (a b : W) (h0 : 0 ≤ b.toInt) :
    ∃ r, evalBin table "<<" (I a) (I b) = .ok (I r) ∧ r.toInt = wrapS (pyShl a.toInt b.toInt.toNat) :=
  ⟨ishl a b, rfl, ishl_toInt a b h0⟩

/- Full statement: ∀ a b, 0 ≤ b.toInt → b.toInt < 64 → … r.toInt = pyShr a.toInt b.toInt.toNat.
   FALSE of the code: `int.__rshift__` is the *logical* `ishr`. -/
theorem int_rshift_partial (a b : W) (ha : 0 ≤ a.toInt) (h0 : 0 ≤ b.toInt) :
    ∃ r, evalBin table ">>" (I a) (I b) = .ok (I r) ∧ r.toInt = pyShr a.toInt b.toInt.toNat := by
  refine ⟨ishr a b, rfl, ?_⟩
  rw [ishr_toInt_nonneg a b ha, shift_count b h0]

/-- counterexample to the full statement: `-9 >> 1` is `-5` in Python, the code computes `2^63 - 5` -/
theorem int_rshift_counterexample :
    evalBin table ">>" (I (BitVec.ofInt 64 (-9))) (I (BitVec.ofInt 64 1)) = .ok (I (BitVec.ofInt 64 9223372036854775803)) ∧
    pyShr (-9) 1 = -5 := by decide

/-! ## int: division (D11) -/

/- Full statement: ∀ a b, b.toInt ≠ 0 → … r.toInt = wrapS (pyFloorDiv a.toInt b.toInt).
   FALSE of the code: `idiv_s` reads its divisor unsigned. -/
theorem int_floordiv_partial (a b : W) (hb : 0 < b.toInt) :
    ∃ r, evalBin table "//" (I a) (I b) = .ok (I r) ∧ r.toInt = wrapS (pyFloorDiv a.toInt b.toInt) := by
  obtain ⟨q, r, h, hq, _⟩ := idivmod_s_pos a b hb
  refine ⟨q, ?_, ?_⟩
  · show Res.ofOpt "int" (idiv_s a b) = _
    simp [idiv_s, h, Res.ofOpt, tagInt]
  · rw [← hq, wrapS_of_range (toInt_range q).1 (toInt_range q).2]

theorem int_mod_partial (a b : W) (hb : 0 < b.toInt) :
    ∃ r, evalBin table "%" (I a) (I b) = .ok (I r) ∧ r.toInt = wrapS (pyMod a.toInt b.toInt) := by
  obtain ⟨q, r, h, _, hr⟩ := idivmod_s_pos a b hb
  refine ⟨r, ?_, ?_⟩
  · show Res.ofOpt "int" (imod_s a b) = _
    simp [imod_s, h, Res.ofOpt, tagInt]
  · rw [← hr, wrapS_of_range (toInt_range r).1 (toInt_range r).2]

theorem int_divmod_partial (a b : W) (hb : 0 < b.toInt) :
    ∃ q r, evalBuiltin table "divmod" [I a, I b] = .ok (.tup (I q) (I r)) ∧
      q.toInt = wrapS (pyFloorDiv a.toInt b.toInt) ∧ r.toInt = wrapS (pyMod a.toInt b.toInt) := by
  obtain ⟨q, r, h, hq, hr⟩ := idivmod_s_pos a b hb
  refine ⟨q, r, ?_, ?_, ?_⟩
  · show tagPair "tuple[int, int]" (idivmod_s a b) = _
    simp [h, tagPair]
  · rw [← hq, wrapS_of_range (toInt_range q).1 (toInt_range q).2]
  · rw [← hr, wrapS_of_range (toInt_range r).1 (toInt_range r).2]

/-- a zero divisor panics (Python raises `ZeroDivisionError`: outside the statement's guard) -/
theorem int_div_zero (a : W) :
    evalBin table "//" (I a) (I 0) = .panic ∧ evalBin table "%" (I a) (I 0) = .panic ∧
    evalBuiltin table "divmod" [I a, I 0] = .panic := by
  refine ⟨?_, ?_, ?_⟩
  · show Res.ofOpt "int" (idiv_s a 0) = _; simp [idiv_s, idivmod_s, Res.ofOpt]
  · show Res.ofOpt "int" (imod_s a 0) = _; simp [imod_s, idivmod_s, Res.ofOpt]
  · show tagPair "tuple[int, int]" (idivmod_s a 0) = _; simp [idivmod_s, tagPair]

/-- counterexamples to the full statements: `7 // -2` is `-4` and `7 % -2` is `-1` in Python; the code divides
    by `2^64 - 2` and returns `0` and `7` -/
theorem int_floordiv_counterexample :
    evalBin table "//" (I (BitVec.ofInt 64 7)) (I (BitVec.ofInt 64 (-2))) = .ok (I (BitVec.ofInt 64 0)) ∧
    evalBin table "%" (I (BitVec.ofInt 64 7)) (I (BitVec.ofInt 64 (-2))) = .ok (I (BitVec.ofInt 64 7)) ∧
    evalBuiltin table "divmod" [I (BitVec.ofInt 64 7), I (BitVec.ofInt 64 (-2))]
      = .ok (.tup (I (BitVec.ofInt 64 0)) (I (BitVec.ofInt 64 7))) ∧
    pyFloorDiv 7 (-2) = -4 ∧ pyMod 7 (-2) = -1 := by decide

/-! ## int: power, abs -/

theorem int_pow_correct (a b : W) (h0 : 0 ≤ b.toInt) :
    ∃ r, evalBin table "**" (I a) (I b) = .ok (I r) ∧ r.toInt = wrapS (pyPow a.toInt b.toInt.toNat) := by
  refine ⟨ipow a b, ?_, ipow_toInt a b h0⟩
  have hlt : ilt_s b (BitVec.ofInt 64 0) = false := by
    rw [ilt_s_iff]; simp; exact h0
  show (match (Val.bool (ilt_s b (BitVec.ofInt 64 0))) with
        | .bool true => Res.panic | .bool false => Res.ok (I (ipow a b)) | _ => Res.stuck "symbolic condition") = _
  rw [hlt]

/-- a negative exponent panics (the guard written in `int.__pow__`) -/
theorem int_pow_negative (a b : W) (h : b.toInt < 0) : evalBin table "**" (I a) (I b) = .panic := by
  have hlt : ilt_s b (BitVec.ofInt 64 0) = true := by
    rw [ilt_s_iff]; simp; exact h
  show (match (Val.bool (ilt_s b (BitVec.ofInt 64 0))) with
        | .bool true => Res.panic | .bool false => Res.ok (I (ipow a b)) | _ => Res.stuck "symbolic condition") = _
  rw [hlt]

theorem int_abs_correct (a : W) :
    ∃ r, evalBuiltin table "abs" [I a] = .ok (I r) ∧ r.toInt = wrapS (pyAbs a.toInt) :=
  ⟨iabs a, rfl, iabs_toInt a⟩

/-! ## int: comparisons, truth value, conversions -/

theorem int_cmp_correct (a b : W) :
    evalBin table "<" (I a) (I b) = .ok (.bool (decide (a.toInt < b.toInt))) ∧
    evalBin table "<=" (I a) (I b) = .ok (.bool (decide (a.toInt ≤ b.toInt))) ∧
    evalBin table ">" (I a) (I b) = .ok (.bool (decide (a.toInt > b.toInt))) ∧
    evalBin table ">=" (I a) (I b) = .ok (.bool (decide (a.toInt ≥ b.toInt))) ∧
    evalBin table "==" (I a) (I b) = .ok (.bool (decide (a.toInt = b.toInt))) ∧
    evalBin table "!=" (I a) (I b) = .ok (.bool (decide (a.toInt ≠ b.toInt))) := by
  refine ⟨rfl, rfl, rfl, rfl, ?_, ?_⟩
  · show Res.ok (.bool (ieq a b)) = _; rw [ieq_iff_toInt]
  · show Res.ok (.bool (ine a b)) = _; rw [ine_iff_toInt]

theorem int_truth_correct (a : W) :
    evalBuiltin table "bool" [I a] = .ok (.bool (decide (a.toInt ≠ 0))) ∧
    evalNot table (I a) = .ok (.bool (decide (a.toInt = 0))) := by
  have h : ine a (BitVec.ofInt 64 0) = decide (a.toInt ≠ 0) := by rw [ine_iff_toInt]; rfl
  refine ⟨?_, ?_⟩
  · show Res.ok (.bool (ine a (BitVec.ofInt 64 0))) = _; rw [h]
  · show Res.ok (.bool (!ine a (BitVec.ofInt 64 0))) = _; rw [h]; by_cases h0 : a.toInt = 0 <;> simp [h0]

theorem int_conversions (a : W) :
    evalBuiltin table "int" [I a] = .ok (I a) ∧
    evalBuiltin table "float" [I a] = .ok (.flt (.ofS a)) ∧
    (0 ≤ a.toInt → ∃ r, evalBuiltin table "nat" [I a] = .ok (N r) ∧ (r.toNat : Int) = a.toInt) := by
  refine ⟨rfl, rfl, fun h => ⟨a, ?_, (is_to_u_nonneg a h).2⟩⟩
  show Res.ofOpt "nat" (is_to_u a) = _
  rw [(is_to_u_nonneg a h).1]; rfl

/-- `int / int` is `float(a) / float(b)` (both operands rounded first; differs from Python's correctly rounded
    quotient beyond 2^53: D11, float level) -/
theorem int_truediv_structural (a b : W) :
    evalBin table "/" (I a) (I b) = .ok (.flt (.op2 "fdiv" (.ofS a) (.ofS b))) := rfl

/-! ## nat -/

theorem nat_add_correct (a b : W) :
    ∃ r, evalBin table "+" (N a) (N b) = .ok (N r) ∧ (r.toNat : Int) = wrapU ((a.toNat : Int) + b.toNat) :=
  ⟨iadd a b, rfl, iadd_toNat a b⟩

theorem nat_sub_correct (a b : W) :
    ∃ r, evalBin table "-" (N a) (N b) = .ok (N r) ∧ (r.toNat : Int) = wrapU ((a.toNat : Int) - b.toNat) :=
  ⟨isub a b, rfl, isub_toNat a b⟩

theorem nat_mul_correct (a b : W) :
    ∃ r, evalBin table "*" (N a) (N b) = .ok (N r) ∧ (r.toNat : Int) = wrapU ((a.toNat : Int) * b.toNat) :=
  ⟨imul a b, rfl, imul_toNat a b⟩

theorem nat_and_correct (a b : W) :
    ∃ r, evalBin table "&" (N a) (N b) = .ok (N r) ∧ IsPyAnd r.toNat a.toNat b.toNat :=
  ⟨iand a b, rfl, iand_isPyAnd_nat a b⟩

theorem nat_or_correct (a b : W) :
    ∃ r, evalBin table "|" (N a) (N b) = .ok (N r) ∧ IsPyOr r.toNat a.toNat b.toNat :=
  ⟨ior a b, rfl, ior_isPyOr_nat a b⟩

theorem nat_xor_correct (a b : W) :
    ∃ r, evalBin table "^" (N a) (N b) = .ok (N r) ∧ IsPyXor r.toNat a.toNat b.toNat :=
  ⟨ixor a b, rfl, ixor_isPyXor_nat a b⟩

theorem nat_invert_correct (a : W) :
    ∃ r, evalUn table "~" (N a) = .ok (N r) ∧ (r.toNat : Int) = wrapU (pyInvert a.toNat) :=
  ⟨inot a, rfl, inot_toNat a⟩

theorem nat_lshift_correct (a b : W) :
    ∃ r, evalBin table "<<" (N a) (N b) = .ok (N r) ∧ (r.toNat : Int) = wrapU (pyShl a.toNat b.toNat) :=
  ⟨ishl a b, rfl, ishl_toNat a b⟩

/-- the logical shift *is* Python's `>>` on a nat -/
theorem nat_rshift_correct (a b : W) :
    ∃ r, evalBin table ">>" (N a) (N b) = .ok (N r) ∧ (r.toNat : Int) = pyShr a.toNat b.toNat :=
  ⟨ishr a b, rfl, ishr_toNat a b⟩

theorem nat_floordiv_correct (a b : W) (hb : b.toNat ≠ 0) :
    ∃ r, evalBin table "//" (N a) (N b) = .ok (N r) ∧ (r.toNat : Int) = pyFloorDiv a.toNat b.toNat := by
  obtain ⟨q, r, h, hq, _⟩ := idivmod_u_ne a b hb
  refine ⟨q, ?_, hq⟩
  show Res.ofOpt "nat" (idiv_u a b) = _
  simp [idiv_u, h, Res.ofOpt, tagInt]

theorem nat_mod_correct (a b : W) (hb : b.toNat ≠ 0) :
    ∃ r, evalBin table "%" (N a) (N b) = .ok (N r) ∧ (r.toNat : Int) = pyMod a.toNat b.toNat := by
  obtain ⟨q, r, h, _, hr⟩ := idivmod_u_ne a b hb
  refine ⟨r, ?_, hr⟩
  show Res.ofOpt "nat" (imod_u a b) = _
  simp [imod_u, h, Res.ofOpt, tagInt]

theorem nat_divmod_correct (a b : W) (hb : b.toNat ≠ 0) :
    ∃ q r, evalBuiltin table "divmod" [N a, N b] = .ok (.tup (N q) (N r)) ∧
      (q.toNat : Int) = pyFloorDiv a.toNat b.toNat ∧ (r.toNat : Int) = pyMod a.toNat b.toNat := by
  obtain ⟨q, r, h, hq, hr⟩ := idivmod_u_ne a b hb
  refine ⟨q, r, ?_, hq, hr⟩
  show tagPair "tuple[nat, nat]" (idivmod_u a b) = _
  simp [h, tagPair]

theorem nat_pow_correct (a b : W) :
    ∃ r, evalBin table "**" (N a) (N b) = .ok (N r) ∧ (r.toNat : Int) = wrapU (pyPow a.toNat b.toNat) :=
  ⟨ipow a b, rfl, ipow_toNat a b⟩

theorem nat_abs_pos_correct (a : W) :
    evalBuiltin table "abs" [N a] = .ok (N a) ∧ evalUn table "+" (N a) = .ok (N a) := ⟨rfl, rfl⟩

theorem nat_cmp_correct (a b : W) :
    evalBin table "<" (N a) (N b) = .ok (.bool (decide (a.toNat < b.toNat))) ∧
    evalBin table "<=" (N a) (N b) = .ok (.bool (decide (a.toNat ≤ b.toNat))) ∧
    evalBin table ">" (N a) (N b) = .ok (.bool (decide (a.toNat > b.toNat))) ∧
    evalBin table ">=" (N a) (N b) = .ok (.bool (decide (a.toNat ≥ b.toNat))) ∧
    evalBin table "==" (N a) (N b) = .ok (.bool (decide (a.toNat = b.toNat))) ∧
    evalBin table "!=" (N a) (N b) = .ok (.bool (decide (a.toNat ≠ b.toNat))) := by
  refine ⟨rfl, rfl, rfl, rfl, ?_, ?_⟩
  · show Res.ok (.bool (ieq a b)) = _; rw [ieq_iff_toNat]
  · show Res.ok (.bool (ine a b)) = _; rw [ine_iff_toNat]

theorem nat_truth_correct (a : W) :
    evalBuiltin table "bool" [N a] = .ok (.bool (decide (a.toNat ≠ 0))) := by
  show Res.ok (.bool (ine (BitVec.ofInt 64 0) a)) = _
  rw [ine_iff_toNat]
  have : (BitVec.ofInt 64 0).toNat = 0 := by decide
  rw [this]; by_cases h : a.toNat = 0 <;> simp [h] <;> omega

/-- `int(a)` on a nat is a no-op on the bits: the *value* is preserved only for `a < 2^63` (C16 `nat_to_int_value`,
    `nat_to_int_above`); this theorem states the bits, not the value. -/
theorem nat_conversions (a : W) :
    evalBuiltin table "nat" [N a] = .ok (N a) ∧
    evalBuiltin table "int" [N a] = .ok (I a) ∧            -- no-op: value preserved iff < 2^63 (C16)
    evalBuiltin table "float" [N a] = .ok (.flt (.ofU a)) := ⟨rfl, rfl, rfl⟩

theorem nat_truediv_structural (a b : W) :
    evalBin table "/" (N a) (N b) = .ok (.flt (.op2 "fdiv" (.ofU a) (.ofU b))) := rfl

/-! ## bool -/

theorem bool_ops_correct (x y : Bool) :
    evalBin table "&" (.bool x) (.bool y) = .ok (.bool (x && y)) ∧
    evalBin table "|" (.bool x) (.bool y) = .ok (.bool (x || y)) ∧
    evalBin table "^" (.bool x) (.bool y) = .ok (.bool (x != y)) ∧
    evalBin table "==" (.bool x) (.bool y) = .ok (.bool (x == y)) ∧
    evalBin table "!=" (.bool x) (.bool y) = .ok (.bool (x != y)) ∧
    evalNot table (.bool x) = .ok (.bool (!x)) ∧
    evalBuiltin table "bool" [.bool x] = .ok (.bool x) := by
  cases x <;> cases y <;> decide

theorem bool_conversions (x : Bool) :
    evalBuiltin table "int" [.bool x] = .ok (I (if x then 1 else 0)) ∧
    evalBuiltin table "nat" [.bool x] = .ok (N (if x then 1 else 0)) := by
  cases x <;> decide

/-! ## float: structure only (symbolic operands `x`, `y`; every HUGR float op is assumed to be the IEEE op of
     the same name, which is also what CPython uses) -/

theorem float_ops_structural (x y : FTerm) :
    evalBin table "+" (.flt x) (.flt y) = .ok (.flt (.op2 "fadd" x y)) ∧
    evalBin table "-" (.flt x) (.flt y) = .ok (.flt (.op2 "fsub" x y)) ∧
    evalBin table "*" (.flt x) (.flt y) = .ok (.flt (.op2 "fmul" x y)) ∧
    evalBin table "/" (.flt x) (.flt y) = .ok (.flt (.op2 "fdiv" x y)) ∧
    evalBin table "**" (.flt x) (.flt y) = .ok (.flt (.op2 "fpow" x y)) ∧
    evalUn table "-" (.flt x) = .ok (.flt (.op1 "fneg" x)) ∧
    evalUn table "+" (.flt x) = .ok (.flt x) ∧
    evalBuiltin table "abs" [.flt x] = .ok (.flt (.op1 "fabs" x)) ∧
    evalBuiltin table "float" [.flt x] = .ok (.flt x) :=
  ⟨rfl, rfl, rfl, rfl, rfl, rfl, rfl, rfl, rfl⟩

theorem float_cmp_structural (x y : FTerm) :
    evalBin table "<" (.flt x) (.flt y) = .ok (.fbool (.op2 "flt" x y)) ∧
    evalBin table "<=" (.flt x) (.flt y) = .ok (.fbool (.op2 "fle" x y)) ∧
    evalBin table ">" (.flt x) (.flt y) = .ok (.fbool (.op2 "fgt" x y)) ∧
    evalBin table ">=" (.flt x) (.flt y) = .ok (.fbool (.op2 "fge" x y)) ∧
    evalBin table "==" (.flt x) (.flt y) = .ok (.fbool (.op2 "feq" x y)) ∧
    evalBin table "!=" (.flt x) (.flt y) = .ok (.fbool (.op2 "fne" x y)) ∧
    evalBuiltin table "bool" [.flt x] = .ok (.fbool (.op2 "fne" x (.lit "0.0"))) :=
  ⟨rfl, rfl, rfl, rfl, rfl, rfl, rfl⟩

/-- float `//` is `floor(x / y)` of the *rounded* quotient and `%` is built on it — not Python's exact
    floor division (`1.0 // 0.1` is `9.0` in Python, `floor(1.0 / 0.1) = 10.0` here): D11, float level -/
theorem float_floordiv_mod_structural (x y : FTerm) :
    evalBin table "//" (.flt x) (.flt y) = .ok (.flt (.op1 "ffloor" (.op2 "fdiv" x y))) ∧
    evalBin table "%" (.flt x) (.flt y)
      = .ok (.flt (.op2 "fsub" x (.op2 "fmul" (.op1 "ffloor" (.op2 "fdiv" x y)) y))) ∧
    evalBuiltin table "divmod" [.flt x, .flt y]
      = .ok (.tup (.flt (.op1 "ffloor" (.op2 "fdiv" x y)))
                  (.flt (.op2 "fsub" x (.op2 "fmul" (.op1 "ffloor" (.op2 "fdiv" x y)) y)))) :=
  ⟨rfl, rfl, rfl⟩

/-- coerced forms with a float: the integer operand is converted first (signed / unsigned reading), as Python
    does for `int ∘ float` -/
theorem mixed_float_structural (a : W) (y : FTerm) :
    evalBin table "+" (I a) (.flt y) = .ok (.flt (.op2 "fadd" (.ofS a) y)) ∧
    evalBin table "+" (.flt y) (I a) = .ok (.flt (.op2 "fadd" y (.ofS a))) ∧
    evalBin table "-" (N a) (.flt y) = .ok (.flt (.op2 "fsub" (.ofU a) y)) ∧
    evalBin table "/" (.flt y) (N a) = .ok (.flt (.op2 "fdiv" y (.ofU a))) :=
  ⟨rfl, rfl, rfl, rfl⟩

/-! ## non-vacuity: concrete instances of the guarded theorems' hypotheses and a few ground evaluations -/
example : (0 : Int) < (BitVec.ofInt 64 3 : W).toInt := by decide
example : (0 : Int) ≤ (BitVec.ofInt 64 0 : W).toInt := by decide
example : (BitVec.ofInt 64 (-1) : W).toInt < 0 := by decide
example : (BitVec.ofInt 64 5 : W).toNat ≠ 0 := by decide
example : evalBin table "//" (I (BitVec.ofInt 64 (-7))) (I (BitVec.ofInt 64 2)) = .ok (I (BitVec.ofInt 64 (-4))) := by decide
example : pyFloorDiv (-7) 2 = -4 ∧ pyMod (-7) 2 = 1 ∧ pyShr (-9) 1 = -5 := by decide
example : evalBin table "+" (I (BitVec.ofInt 64 9223372036854775807)) (I 1) = .ok (I (BitVec.ofInt 64 (-9223372036854775808))) := by decide
example : wrapS (9223372036854775807 + 1) = -9223372036854775808 := by decide
example : evalBin table "-" (N 0) (N 1) = .ok (N (BitVec.ofNat 64 18446744073709551615)) := by decide
example : evalBuiltin table "abs" [I (BitVec.ofInt 64 (-9223372036854775808))] = .ok (I (BitVec.ofInt 64 (-9223372036854775808))) := by decide

end GuppyVerif.C04
