import GuppyVerif.Lemmas.C27PQ
/-! # C27 — Stack and PriorityQueue follow their reference models

Property theorems only.  Vocabulary (`specStack`, `SpecPQ`, `entries`, `IsMinOf`, `Slots`,
`HeapOrdered`, `PQ.Inv`, `PQ.Reachable`) is in `Spec/C27.lean`; the model (`Stack`, `PQ`, `runStack`,
`runPQ`) in `Model/Coll.lean` mirrors the Guppy source including every take/swap/unwrap error
branch.  All theorems are for every capacity `cap`, element type `α`, state and script — no bound. -/
namespace GuppyVerif.Coll
variable {α : Type}

/-! ## Stack -/

/-- **C27 (Stack is a LIFO list)**: for every capacity and every script of push/pop/peek/len/next,
    the results of the model started on `empty_stack()` equal those of the reference LIFO list
    machine — including the three panics and the fact that nothing else ever panics. -/
theorem stack_refines_list (cap : Nat) (ops : List (Op α)) :
    runStack cap (Stack.empty cap) ops = specStack cap [] ops := by
  simpa using runStack_eq_spec cap ops _ _ (StackRep.empty cap)

/-- **C27 (Stack, from any state satisfying the documented invariant)**: if the first `end` cells
    are `some` and the rest `nothing`, the stack behaves as the LIFO list of its stored entries
    (top = last stored). -/
theorem stack_refines_list_inv (cap : Nat) (s : Stack α) (h : Slots cap s.buf s.end_) (ops : List (Op α)) :
    runStack cap s ops = specStack cap (entries s.buf).reverse ops := by
  obtain ⟨hr, hl⟩ := h.rep
  exact runStack_eq_spec cap ops s _ ⟨hl.symm, hr⟩

/-! ## PriorityQueue -/

/-- **C27 (invariant, base)**: `empty_priority_queue()` satisfies the invariant. -/
theorem pq_inv_empty (cap : Nat) : PQ.Inv cap (PQ.empty cap : PQ α) :=
  ((PQRep.empty cap).inv (fun j _ hj => absurd hj (by simp))).1

/-- **C27 (push)**: in a state satisfying the invariant (slots + heap order), `push` below capacity
    succeeds, re-establishes the invariant, increments `size` and adds exactly the pushed entry to the
    multiset of stored entries; at capacity it panics with "max size reached". -/
theorem pq_push_spec (cap : Nat) (q : PQ α) (v : α) (p : Int) (h : PQ.Inv cap q) :
    (q.size < cap → ∃ q', q.push cap v p = .ok q' ∧ PQ.Inv cap q' ∧ q'.size = q.size + 1 ∧
        (entries q'.buf).Perm ((p, v) :: entries q.buf)) ∧
    (cap ≤ q.size → q.push cap v p = .error .capacity) := by
  obtain ⟨hr, hh⟩ := inv_iff.mp h
  have hs := hr.1
  constructor
  · intro hl
    obtain ⟨q', hp, hr'⟩ := hr.push_ok (by omega) v p
    obtain ⟨hinv, hent⟩ := hr'.inv (pushP_heap hh v p)
    refine ⟨q', hp, hinv, ?_, ?_⟩
    · rw [hr'.1, hs]; simp [pushP, siftUpP_length]
    · rw [hent]; exact pushP_perm _ v p
  · intro hl
    exact hr.push_full (by omega) v p

/-- **C27 (pop)**: in a state satisfying the invariant, `pop` on a non-empty queue succeeds and returns
    an entry of minimal priority among the stored entries, removes exactly that entry from the multiset,
    decrements `size` and re-establishes the invariant; on an empty queue it panics with "is empty". -/
theorem pq_pop_spec (cap : Nat) (q : PQ α) (h : PQ.Inv cap q) :
    (0 < q.size → ∃ p v q', q.pop = .ok (p, v, q') ∧ PQ.Inv cap q' ∧ q'.size = q.size - 1 ∧
        IsMinOf (p, v) (entries q.buf) ∧ (entries q.buf).Perm ((p, v) :: entries q'.buf)) ∧
    (q.size = 0 → q.pop = .error .empty) := by
  obtain ⟨hr, hh⟩ := inv_iff.mp h
  have hs := hr.1
  constructor
  · intro hl
    obtain ⟨r, hr0⟩ : ∃ r, (entries q.buf)[0]? = some r := ⟨_, List.getElem?_eq_getElem (by omega)⟩
    obtain ⟨q', hp, hr'⟩ := hr.pop_ok hr0
    obtain ⟨hinv, hent⟩ := hr'.inv (popP_heap hh)
    have hperm := popP_perm hr0
    refine ⟨r.1, r.2, q', hp, hinv, ?_, root_isMin hh hr0, ?_⟩
    · have := hperm.length_eq
      simp at this
      rw [hr'.1, hs]; omega
    · rw [hent]; exact hperm
  · intro h0
    have : entries q.buf = [] := List.eq_nil_of_length_eq_zero (by omega)
    rw [this] at hr
    exact hr.pop_empty.1

/-- **C27 (peek)**: `peek` on a non-empty queue returns an entry of minimal priority and leaves the
    queue unchanged; on an empty queue it panics with "is empty". -/
theorem pq_peek_spec (cap : Nat) (q : PQ α) (h : PQ.Inv cap q) :
    (0 < q.size → ∃ p v, q.peek = .ok (p, v, q) ∧ IsMinOf (p, v) (entries q.buf)) ∧
    (q.size = 0 → q.peek = .error .empty) := by
  obtain ⟨hr, hh⟩ := inv_iff.mp h
  have hs := hr.1
  constructor
  · intro hl
    obtain ⟨r, hr0⟩ : ∃ r, (entries q.buf)[0]? = some r := ⟨_, List.getElem?_eq_getElem (by omega)⟩
    exact ⟨r.1, r.2, hr.peek_ok hr0, root_isMin hh hr0⟩
  · intro h0
    have : entries q.buf = [] := List.eq_nil_of_length_eq_zero (by omega)
    rw [this] at hr
    exact hr.pop_empty.2.1

/-- **C27 (`pq_inv`)**: every state reachable from `empty_priority_queue()` by successful
    push/pop/peek operations satisfies the invariant: the first `size` cells are `some`, the others
    `nothing`, and the stored prefix is heap-ordered (induction over the operation history). -/
theorem pq_inv (cap : Nat) (q : PQ α) (h : PQ.Reachable cap q) : PQ.Inv cap q := by
  induction h with
  | empty => exact pq_inv_empty cap
  | @push q q' v p _ hp ih =>
    obtain ⟨h1, h2⟩ := pq_push_spec cap q v p ih
    by_cases hl : q.size < cap
    · obtain ⟨q'', hp', hinv, _⟩ := h1 hl
      rw [hp] at hp'; cases hp'; exact hinv
    · rw [h2 (by omega)] at hp; cases hp
  | @pop q q' v p _ hp ih =>
    obtain ⟨h1, h2⟩ := pq_pop_spec cap q ih
    by_cases hl : 0 < q.size
    · obtain ⟨p', v', q'', hp', hinv, _⟩ := h1 hl
      rw [hp] at hp'; cases hp'; exact hinv
    · rw [h2 (by omega)] at hp; cases hp
  | @peek q q' v p _ hp ih =>
    obtain ⟨h1, h2⟩ := pq_peek_spec cap q ih
    by_cases hl : 0 < q.size
    · obtain ⟨p', v', hp', _⟩ := h1 hl
      rw [hp] at hp'; cases hp'; exact ih
    · rw [h2 (by omega)] at hp; cases hp

/-- **C27 (`pq_pop_min`)**: in every reachable state, whatever `pop` or `peek` returns is a stored
    entry whose priority is minimal among all stored entries. -/
theorem pq_pop_min (cap : Nat) (q q' : PQ α) (p : Int) (v : α) (h : PQ.Reachable cap q)
    (hp : q.pop = .ok (p, v, q') ∨ q.peek = .ok (p, v, q')) : IsMinOf (p, v) (entries q.buf) := by
  have hinv := pq_inv cap q h
  by_cases hl : 0 < q.size
  · rcases hp with hp | hp
    · obtain ⟨p', v', q'', hp', _, _, hmin, _⟩ := (pq_pop_spec cap q hinv).1 hl
      rw [hp] at hp'; cases hp'; exact hmin
    · obtain ⟨p', v', hp', hmin⟩ := (pq_peek_spec cap q hinv).1 hl
      rw [hp] at hp'; cases hp'; exact hmin
  · rcases hp with hp | hp
    · rw [(pq_pop_spec cap q hinv).2 (by omega)] at hp; cases hp
    · rw [(pq_peek_spec cap q hinv).2 (by omega)] at hp; cases hp

/-- **C27 (`pq_multiset`)**: in every reachable state a successful `push` adds exactly the pushed
    entry to the multiset of stored entries, a successful `pop` removes exactly the returned one, and
    `peek` changes nothing. -/
theorem pq_multiset (cap : Nat) (q q' : PQ α) (p : Int) (v : α) (h : PQ.Reachable cap q) :
    (q.push cap v p = .ok q' → (entries q'.buf).Perm ((p, v) :: entries q.buf)) ∧
    (q.pop = .ok (p, v, q') → (entries q.buf).Perm ((p, v) :: entries q'.buf)) ∧
    (q.peek = .ok (p, v, q') → q' = q) := by
  have hinv := pq_inv cap q h
  refine ⟨fun hp => ?_, fun hp => ?_, fun hp => ?_⟩
  · by_cases hl : q.size < cap
    · obtain ⟨q'', hp', _, _, hperm⟩ := (pq_push_spec cap q v p hinv).1 hl
      rw [hp] at hp'; cases hp'; exact hperm
    · rw [(pq_push_spec cap q v p hinv).2 (by omega)] at hp; cases hp
  · by_cases hl : 0 < q.size
    · obtain ⟨p', v', q'', hp', _, _, _, hperm⟩ := (pq_pop_spec cap q hinv).1 hl
      rw [hp] at hp'; cases hp'; exact hperm
    · rw [(pq_pop_spec cap q hinv).2 (by omega)] at hp; cases hp
  · by_cases hl : 0 < q.size
    · obtain ⟨p', v', hp', _⟩ := (pq_peek_spec cap q hinv).1 hl
      rw [hp] at hp'; cases hp'; rfl
    · rw [(pq_peek_spec cap q hinv).2 (by omega)] at hp; cases hp

/-- **C27 (`capacity_panics`)**: with the documented slots invariant, `push` panics iff the
    collection is full, and then with the "max size reached" panic (Stack and PriorityQueue); heap
    order is not needed for this. -/
theorem capacity_panics (cap : Nat) :
    (∀ (s : Stack α) (x : α), Slots cap s.buf s.end_ →
      ((∃ e, s.push cap x = .error e) ↔ cap ≤ s.end_) ∧ (cap ≤ s.end_ → s.push cap x = .error .capacity)) ∧
    (∀ (q : PQ α) (v : α) (p : Int), Slots cap q.buf q.size →
      ((∃ e, q.push cap v p = .error e) ↔ cap ≤ q.size) ∧ (cap ≤ q.size → q.push cap v p = .error .capacity)) := by
  constructor
  · intro s x hs
    obtain ⟨hr, hl⟩ := hs.rep
    have hrep : StackRep cap s (entries s.buf) := ⟨hl.symm, hr⟩
    refine ⟨⟨fun ⟨e, he⟩ => ?_, fun hc => ⟨_, hrep.push_full (by omega) x⟩⟩, fun hc => hrep.push_full (by omega) x⟩
    by_cases hc : cap ≤ s.end_
    · exact hc
    · obtain ⟨s', hp, _⟩ := hrep.push_ok (by omega) x
      rw [hp] at he; cases he
  · intro q v p hs
    obtain ⟨hr, hl⟩ := hs.rep
    have hrep : PQRep cap q (entries q.buf) := ⟨hl.symm, hr⟩
    refine ⟨⟨fun ⟨e, he⟩ => ?_, fun hc => ⟨_, hrep.push_full (by omega) v p⟩⟩, fun hc => hrep.push_full (by omega) v p⟩
    by_cases hc : cap ≤ q.size
    · exact hc
    · obtain ⟨q', hp, _⟩ := hrep.push_ok (by omega) v p
      rw [hp] at he; cases he

/-- **C27 (`empty_panics`)**: with the documented slots invariant, `pop` and `peek` panic iff the
    collection is empty, and then with the "is empty" panic (Stack and PriorityQueue). -/
theorem empty_panics (cap : Nat) :
    (∀ (s : Stack α), Slots cap s.buf s.end_ →
      ((∃ e, s.pop = .error e) ↔ s.end_ = 0) ∧ ((∃ e, s.peek = .error e) ↔ s.end_ = 0) ∧
      (s.end_ = 0 → s.pop = .error .empty ∧ s.peek = .error .empty)) ∧
    (∀ (q : PQ α), Slots cap q.buf q.size →
      ((∃ e, q.pop = .error e) ↔ q.size = 0) ∧ ((∃ e, q.peek = .error e) ↔ q.size = 0) ∧
      (q.size = 0 → q.pop = .error .empty ∧ q.peek = .error .empty)) := by
  constructor
  · intro s hs
    obtain ⟨hr, hl⟩ := hs.rep
    have hrep : StackRep cap s (entries s.buf) := ⟨hl.symm, hr⟩
    have hE : s.end_ = 0 → s.pop = .error .empty ∧ s.peek = .error .empty := by
      intro h0
      have : entries s.buf = [] := List.eq_nil_of_length_eq_zero (by omega)
      rw [this] at hrep
      exact ⟨hrep.pop_empty.1, hrep.pop_empty.2.1⟩
    have hN : s.end_ ≠ 0 → (∃ r, s.pop = .ok r) ∧ (∃ r, s.peek = .ok r) := by
      intro h0
      rcases nil_or_snoc (entries s.buf) with hn | ⟨b, x, hb⟩
      · rw [hn] at hl; simp at hl; omega
      · rw [hb] at hrep
        obtain ⟨⟨s', hp, _, _⟩, hpk⟩ := hrep.pop_ok
        exact ⟨⟨_, hp⟩, ⟨_, hpk⟩⟩
    refine ⟨⟨fun ⟨e, he⟩ => ?_, fun h0 => ⟨_, (hE h0).1⟩⟩, ⟨fun ⟨e, he⟩ => ?_, fun h0 => ⟨_, (hE h0).2⟩⟩, hE⟩
    · by_cases h0 : s.end_ = 0
      · exact h0
      · obtain ⟨⟨r, hp⟩, _⟩ := hN h0
        rw [hp] at he; cases he
    · by_cases h0 : s.end_ = 0
      · exact h0
      · obtain ⟨_, ⟨r, hp⟩⟩ := hN h0
        rw [hp] at he; cases he
  · intro q hs
    obtain ⟨hr, hl⟩ := hs.rep
    have hrep : PQRep cap q (entries q.buf) := ⟨hl.symm, hr⟩
    have hE : q.size = 0 → q.pop = .error .empty ∧ q.peek = .error .empty := by
      intro h0
      have : entries q.buf = [] := List.eq_nil_of_length_eq_zero (by omega)
      rw [this] at hrep
      exact ⟨hrep.pop_empty.1, hrep.pop_empty.2.1⟩
    have hN : q.size ≠ 0 → (∃ r, q.pop = .ok r) ∧ (∃ r, q.peek = .ok r) := by
      intro h0
      obtain ⟨r, hr0⟩ : ∃ r, (entries q.buf)[0]? = some r := ⟨_, List.getElem?_eq_getElem (by omega)⟩
      obtain ⟨q', hp, _⟩ := hrep.pop_ok hr0
      exact ⟨⟨_, hp⟩, ⟨_, hrep.peek_ok hr0⟩⟩
    refine ⟨⟨fun ⟨e, he⟩ => ?_, fun h0 => ⟨_, (hE h0).1⟩⟩, ⟨fun ⟨e, he⟩ => ?_, fun h0 => ⟨_, (hE h0).2⟩⟩, hE⟩
    · by_cases h0 : q.size = 0
      · exact h0
      · obtain ⟨⟨r, hp⟩, _⟩ := hN h0
        rw [hp] at he; cases he
    · by_cases h0 : q.size = 0
      · exact h0
      · obtain ⟨_, ⟨r, hp⟩⟩ := hN h0
        rw [hp] at he; cases he

/-- **C27 (PriorityQueue refines the multiset reference model)**: for every capacity and every
    script, the results of the model started on `empty_priority_queue()` are results the reference
    model allows — a multiset from which pop/peek/next return some entry of minimal priority, pop/next
    remove exactly it, push adds exactly one, with exactly the documented panics (lifting of the one-step
    theorems to all operation sequences by induction over the script). -/
theorem pq_refines_multiset (cap : Nat) (ops : List (Op α)) :
    SpecPQ cap [] ops (runPQ cap (PQ.empty cap) ops) :=
  runPQ_spec cap ops _ [] [] (PQRep.empty cap) (fun j _ hj => absurd hj (by simp)) (List.Perm.refl _)

/-- **C27 (PriorityQueue refines the multiset model from any invariant state)**: the same from any
    state satisfying the invariant, the multiset being the entries stored in the buffer. -/
theorem pq_refines_multiset_inv (cap : Nat) (q : PQ α) (h : PQ.Inv cap q) (ops : List (Op α)) :
    SpecPQ cap (entries q.buf) ops (runPQ cap q ops) := by
  obtain ⟨hr, hh⟩ := inv_iff.mp h
  exact runPQ_spec cap ops q _ _ hr hh (List.Perm.refl _)

/-- **C27 (fuel suffices)**: the fuel bound of the model's loops is never hit in a state with the
    slots invariant (a fortiori in reachable states): the loops of the source terminate there. -/
theorem pq_fuel_suffices (cap : Nat) (q : PQ α) (v : α) (p : Int) (h : Slots cap q.buf q.size) :
    q.push cap v p ≠ .error .fuel ∧ q.pop ≠ .error .fuel := by
  obtain ⟨hr, hl⟩ := h.rep
  have hrep : PQRep cap q (entries q.buf) := ⟨hl.symm, hr⟩
  constructor
  · by_cases hc : cap ≤ q.size
    · rw [hrep.push_full (by omega) v p]; intro h; cases h
    · obtain ⟨q', hp, _⟩ := hrep.push_ok (by omega) v p
      rw [hp]; intro h; cases h
  · by_cases h0 : q.size = 0
    · have : entries q.buf = [] := List.eq_nil_of_length_eq_zero (by omega)
      rw [this] at hrep
      rw [hrep.pop_empty.1]; intro h; cases h
    · obtain ⟨r, hr0⟩ : ∃ r, (entries q.buf)[0]? = some r := ⟨_, List.getElem?_eq_getElem (by omega)⟩
      obtain ⟨q', hp, _⟩ := hrep.pop_ok hr0
      rw [hp]; intro h; cases h

/-- **C27 (fuel suffices, unconditionally)**: on ANY state (invariant or not) `push` and `pop` never
    run out of loop fuel: the sift-up index strictly decreases and the sift-down hole index strictly
    increases, so the source's loops terminate within `size + 1` iterations. -/
theorem pq_fuel_unconditional (cap : Nat) (q : PQ α) (v : α) (p : Int) :
    q.push cap v p ≠ .error .fuel ∧ q.pop ≠ .error .fuel :=
  ⟨push_ne_fuel cap q v p, pop_ne_fuel q⟩

/-- **C27 (iteration yields priority order)**: iterating a queue that satisfies the invariant
    (`for e in q`, i.e. `__next__` until `nothing`) yields all stored entries — a permutation of them —
    in non-decreasing priority order, and ends by discarding the empty queue without panic. -/
theorem pq_iter_sorted (cap : Nat) : ∀ (n : Nat) (q : PQ α), PQ.Inv cap q → q.size = n →
    ∃ l, PQ.iterAll (n + 1) q = .ok l ∧ l.Perm (entries q.buf) ∧ l.Pairwise (fun a b => a.1 ≤ b.1) := by
  intro n
  induction n with
  | zero =>
    intro q h hn
    obtain ⟨hr, _⟩ := inv_iff.mp h
    have he : entries q.buf = [] := List.eq_nil_of_length_eq_zero (by rw [← hr.1]; exact hn)
    rw [he] at hr
    refine ⟨[], ?_, by rw [he], List.Pairwise.nil⟩
    rw [iterAll_succ]
    simp [hr.pop_empty.2.2, bind, Except.bind, pure, Except.pure]
  | succ n ih =>
    intro q h hn
    obtain ⟨p, v, q', hp, hinv', hs', hmin, hperm⟩ := (pq_pop_spec cap q h).1 (by omega)
    obtain ⟨hr, _⟩ := inv_iff.mp h
    have hnext := hr.next_ok (by rw [← hr.1]; omega) hp
    obtain ⟨l, hl, hlp, hls⟩ := ih q' hinv' (by omega)
    refine ⟨(p, v) :: l, ?_, ?_, ?_⟩
    · rw [iterAll_succ]
      simp only [hnext, hl, bind, Except.bind, pure, Except.pure]
    · exact (hlp.cons _).trans hperm.symm
    · refine List.Pairwise.cons (fun x hx => ?_) hls
      exact hmin.2 x (hperm.mem_iff.mpr (List.mem_cons_of_mem _ (hlp.mem_iff.mp hx)))

/-! ## Non-vacuity: concrete instances -/

/-- the stack script push 1, push 2, peek, pop, pop, pop on capacity 2 (model = list machine) -/
example : runStack 2 (Stack.empty 2) [.push 1 0, .push 2 0, .peek, .pop, .pop, .pop] =
    ([.unit, .unit, .val 0 2, .val 0 2, .val 0 1, .panic .empty] : List (Res Nat)) := by decide

/-- a reachable non-trivial queue state: after pushing priorities 5, 3, 4 the root holds 3 -/
example : ∃ q : PQ Nat, PQ.Reachable 4 q ∧ q.size = 3 ∧ q.peek = .ok (3, 11, q) := by
  refine ⟨⟨[some (3, 11), some (5, 10), some (4, 12), none], 3⟩, ?_, rfl, rfl⟩
  have h1 : PQ.Reachable 4 (PQ.empty 4 : PQ Nat) := .empty
  have h2 := PQ.Reachable.push (v := 10) (p := 5) (q' := ⟨[some (5, 10), none, none, none], 1⟩) h1 (rfl)
  have h3 := PQ.Reachable.push (v := 11) (p := 3) (q' := ⟨[some (3, 11), some (5, 10), none, none], 2⟩) h2 (rfl)
  exact PQ.Reachable.push (v := 12) (p := 4) h3 (rfl)

/-- the invariant's hypotheses are satisfiable with a full queue, and popping it sifts down -/
example : (⟨[some (1, 0), some (3, 1), some (2, 2)], 3⟩ : PQ Nat).pop =
    .ok (1, 0, ⟨[some (2, 2), some (3, 1), none], 2⟩) := rfl

/-- iteration instance: priorities 5, 3, 4 come out as 3, 4, 5 -/
example : PQ.iterAll 4 (⟨[some (3, 11), some (5, 10), some (4, 12), none], 3⟩ : PQ Nat) =
    .ok [(3, 11), (4, 12), (5, 10)] := rfl

/-- capacity panic instance -/
example : (⟨[some (1, 0)], 1⟩ : PQ Nat).push 1 7 0 = .error .capacity := rfl

end GuppyVerif.Coll
