import GuppyVerif.Gen.C20GateTable
import GuppyVerif.Spec.C20
/-! # C20 — Quantum operations implement their documented gates (partial) -/
namespace GuppyVerif.Gate
open Spec

theorem binding_faithful :
    ∀ s ∈ Spec.gates, ∀ σ : Nat → Exp,
      emit Gen.table fuel s.modl s.name (actuals s.arity σ) = some (s.expected σ) := by
  intro s hs σ
  simp only [Spec.gates, List.mem_cons, List.not_mem_nil, or_false] at hs
  rcases hs with rfl | rfl | rfl | rfl | rfl | rfl | rfl | rfl | rfl | rfl | rfl | rfl | rfl | rfl |
    rfl | rfl | rfl | rfl | rfl | rfl | rfl | rfl | rfl | rfl | rfl | rfl | rfl | rfl | rfl | rfl |
    rfl | rfl | rfl | rfl | rfl | rfl | rfl | rfl <;> rfl

end GuppyVerif.Gate
