import GuppyVerif.Gen.C20GateTable
import GuppyVerif.Spec.C20
import GuppyVerif.Lemmas.C20
import Mathlib.Tactic.FieldSimp
import Mathlib.Tactic.Ring
import Mathlib.Tactic.NormNum
/-! # C20 — Quantum operations implement their documented gates  (partial)

Full statement (properties.jsonl): for every circuit built from the quantum standard library the
emulated state equals the product of the documented gate matrices applied to the listed qubits in
program order, up to global phase; measurement, reset and project_z act as projective Z-basis
operations.  The simulator and the semantics of the `tket.*` ops live outside the repository, so
what is proved here is the part the repository decides:

* `binding_faithful` … `opaque_rows_listed`: over the gate table **regenerated from the source on
  every run** (`Gen/C20GateTable.lean`), every documented function applies exactly the op of its
  documented name, the caller's i-th qubit argument on the op's i-th port, for **all** actual argument
  expressions; rotations get the angle's half turns unscaled (through
  `tket.rotation.from_halfturns_unchecked`), qsystem gates get `float(angle)` = half turns × π;
  the table and the fixed specification `Spec/C20.lean` cover each other.
* `angle_*`: arithmetic on `angle` is arithmetic on the denoted radians (any field of characteristic 0).
* `ch_decomposition`: the circuit `ch` is written as equals the controlled-Hadamard matrix.

Only property theorems and non-vacuity examples live here. -/

namespace GuppyVerif.Gate
open Spec

/-- **C20 (binding)**: for every documented single-op function `s` and *every* assignment `σ` of
    caller expressions to its parameters, the call applies exactly one op — the documented one — with
    `σ 0 … σ (nq-1)` (the qubits, in declaration order) on ports `0 … nq-1`, followed by its angles:
    as rotations of the unscaled half turns (`std.quantum`), as `float(angle)` = half turns × π
    (`std.qsystem`), or as the raw float (internal qsystem bindings). -/
theorem binding_faithful :
    ∀ s ∈ Spec.gates, ∀ σ : Nat → Exp,
      emit Gen.table fuel s.modl s.name (actuals s.arity σ) = some (s.expected σ) := by
  intro s hs σ
  simp only [Spec.gates, List.mem_cons, List.not_mem_nil, or_false] at hs
  rcases hs with rfl | rfl | rfl | rfl | rfl | rfl | rfl | rfl | rfl | rfl | rfl | rfl | rfl | rfl |
    rfl | rfl | rfl | rfl | rfl | rfl | rfl | rfl | rfl | rfl | rfl | rfl | rfl | rfl | rfl | rfl |
    rfl | rfl | rfl | rfl | rfl | rfl | rfl | rfl <;> rfl

/-- **C20 (signatures)**: each documented function declares its qubits first, then its angles, with
    the documented kinds (so "port i" above is "the i-th declared qubit"). -/
theorem signature_faithful :
    ∀ s ∈ Spec.gates, (lookup Gen.table s.modl s.name).map (·.params) = some s.paramKinds := by
  decide

/-- **C20 (`ch`)**: `ch(control, target)` applies `Ry(target, −¼ half turn)`, `CZ(control, target)`,
    `Ry(target, +¼ half turn)` in this order, for all actual arguments. -/
theorem ch_binding (σ : Nat → Exp) :
    ∃ e₁ e₂ : Exp,
      emit Gen.table fuel "quantum" "ch" (actuals 2 σ) = some
        [⟨"tket.quantum.Ry", [.val (σ 1), .rot e₁]⟩,
         ⟨"tket.quantum.CZ", [.val (σ 0), .val (σ 1)]⟩,
         ⟨"tket.quantum.Ry", [.val (σ 1), .rot e₂]⟩] ∧
      e₁.halfturns? (1 : ℚ) = some (-1 / 4) ∧ e₂.halfturns? (1 : ℚ) = some (1 / 4) := by
  -- the two angle expressions are whatever the source writes; only their values are specified
  refine ⟨_, _, rfl, ?_, ?_⟩ <;> norm_num [Exp.halfturns?, Exp.subst]

/-- **C20 (`zz_max`)**: `zz_max(q1, q2)` applies one `ZZPhase(q1, q2, ·)` whose float operand is
    `float` of the angle of ½ half turn, i.e. π/2 radians. -/
theorem zz_max_binding (σ : Nat → Exp) :
    ∃ e : Exp,
      emit Gen.table fuel "qsystem" "zz_max" (actuals 2 σ) = some
        [⟨"tket.qsystem.ZZPhase", [.val (σ 0), .val (σ 1), .val (.toFloat e)]⟩] ∧
      e.halfturns? (1 : ℚ) = some (1 / 2) := by
  refine ⟨_, rfl, ?_⟩
  norm_num [Exp.halfturns?, Exp.subst]

/-- **C20 (functional wrappers)**: for every wrapper of `std/quantum/functional.py` and
    `std/qsystem/functional.py` and all actual arguments, the call applies exactly what the in-place
    function of the same name applies to the same arguments in the same order (and that is defined),
    and returns its qubit arguments in declaration order, followed by the bit of the wrapped call where
    there is one. -/
theorem functional_faithful :
    ∀ f ∈ Spec.functional, ∀ σ : Nat → Exp,
      emit Gen.table fuel f.modl f.name (actuals f.arity σ) =
          emit Gen.table fuel f.baseModl f.name (actuals f.arity σ) ∧
        (emit Gen.table fuel f.modl f.name (actuals f.arity σ)).isSome = true ∧
        returnsOf Gen.table f.modl f.name (actuals f.arity σ) = some (f.expectedReturns σ) := by
  intro f hf σ
  simp only [Spec.functional, List.mem_cons, List.not_mem_nil, or_false] at hf
  rcases hf with rfl | rfl | rfl | rfl | rfl | rfl | rfl | rfl | rfl | rfl | rfl | rfl | rfl | rfl |
    rfl | rfl | rfl | rfl | rfl | rfl | rfl | rfl | rfl | rfl | rfl | rfl | rfl | rfl | rfl <;>
    exact ⟨rfl, rfl, rfl⟩

/-- **C20 (functional wrappers, signatures)**: qubits `@owned` first, then angles. -/
theorem functional_signature_faithful :
    ∀ f ∈ Spec.functional, (lookup Gen.table f.modl f.name).map (·.params) = some f.paramKinds := by
  decide

/-- **C20 (functional wrapper = documented gate)**: a wrapper whose in-place namesake is a documented
    single-op gate applies exactly that op, caller qubit i on port i, angles as documented. -/
theorem functional_gate :
    ∀ f ∈ Spec.functional, ∀ g ∈ Spec.gates, g.modl = f.baseModl → g.name = f.name →
      ∀ σ : Nat → Exp,
        emit Gen.table fuel f.modl f.name (actuals f.arity σ) = some (g.expected σ) := by
  intro f hf g hg h1 h2 σ
  have har : ∀ f ∈ Spec.functional, ∀ g ∈ Spec.gates, g.modl = f.baseModl → g.name = f.name →
      g.arity = f.arity := by decide
  have h3 := har f hf g hg h1 h2
  rw [(functional_faithful f hf σ).1, ← h1, ← h2, ← h3]
  exact binding_faithful g hg σ

/-- **C20 (coverage, spec → table)**: every function the specification documents exists in the source. -/
theorem coverage_spec_to_table :
    ∀ k ∈ Spec.allNames, (lookup Gen.table k.1 k.2).isSome = true := by
  decide

/-- **C20 (coverage, table → spec)**: every top-level function of every module found under
    `std/quantum/` and `std/qsystem/` (functional wrappers and utility modules included) is
    accounted for by the specification (a newly added gate is noticed). -/
theorem coverage_table_to_spec :
    ∀ r ∈ Gen.table, (r.modl, r.name) ∈ Spec.allNames := by
  decide

/-- **C20 (no shadowing)**: no function is defined twice in a module and no name is specified twice
    (`lookup` takes the first row; Python would take the last definition). -/
theorem names_distinct :
    (Gen.table.map fun r => (r.modl, r.name)).Nodup ∧ Spec.allNames.Nodup := by
  decide

/-- **C20 (opaque rows)**: the only bodies the translator could not read as straight-line code are
    the ones the specification lists as unmodelled. -/
theorem opaque_rows_listed :
    ∀ r ∈ Gen.table, r.binding = .opaque → (r.modl, r.name) ∈ Spec.unmodelled ++ Spec.utilities := by
  decide

/-- the constant `std.angles.pi` recorded by the translator is one half turn -/
theorem pi_constant_faithful : Gen.piHalfturnsNum = 1 ∧ Gen.piHalfturnsDen = 1 := by
  decide

/-! Non-vacuity: the specification is non-empty, a concrete swapped-argument call puts the caller's
    qubits on the ports in the order passed, and a wrong arity is an error rather than a gate. -/
example : Spec.gates.length = 38 ∧ Spec.functional.length = 29 ∧ Gen.table.length = 76 := by decide
example : emit Gen.table fuel "quantum.functional" "cy" [.p 1, .p 0] =
    some [⟨"tket.quantum.CY", [.val (.p 1), .val (.p 0)]⟩] ∧
    returnsOf Gen.table "quantum.functional" "cy" [.p 1, .p 0] = some [.p 1, .p 0] := by decide
example : emit Gen.table fuel "quantum" "cx" [.p 1, .p 0] =
    some [⟨"tket.quantum.CX", [.val (.p 1), .val (.p 0)]⟩] := by decide
example : emit Gen.table fuel "quantum" "crz" [.p 1, .p 0, .mulN (.p 2) 2] =
    some [⟨"tket.quantum.CRz", [.val (.p 1), .val (.p 0), .rot (.mulN (.p 2) 2)]⟩] := by decide
example : emit Gen.table fuel "quantum" "cx" [.p 0] = none := by decide
example : emit Gen.table fuel "quantum" "measure_array" [.p 0] = none := by decide

/-- **C20 (`ch` as matrices)**: with the documented matrices of `ry` and `cz`, the circuit of
    `ch_binding` read in program order (θ = half turns × π, so −π/4 first) is the controlled-Hadamard.
    Blocks are over `control ⊕ target`. -/
theorem ch_decomposition :
    Mat.onTarget (Mat.Ry (Real.pi / 4)) * Mat.controlled Mat.Zm * Mat.onTarget (Mat.Ry (-(Real.pi / 4)))
      = Mat.controlled Mat.Hm := by
  simp only [Mat.onTarget, Mat.controlled, Matrix.fromBlocks_multiply, Matrix.mul_zero, Matrix.zero_mul,
    add_zero, zero_add, Matrix.mul_one, Mat.ry_inv, Mat.ry_z_ry, Mat.rot_quarter_eq_H]

end GuppyVerif.Gate

namespace GuppyVerif.Angle
open Spec

set_option linter.unusedSectionVars false
set_option linter.unnecessarySeqFocus false

variable {K : Type} [Field K] [CharZero K] [DecidableEq K] (π : K)

/-- **C20 (angle → float)**: `float(a)` is the angle in radians. -/
theorem angle_float (a : Angle K) : toFloat π a = radians π a := by
  unfold toFloat radians; field_simp

/-- **C20 (angle +, −, unary −)**: addition, subtraction and negation of angles are addition,
    subtraction and negation of the denoted radians. -/
theorem angle_add_sub_neg (a b : Angle K) :
    radians π (add a b) = radians π a + radians π b ∧
    radians π (sub a b) = radians π a - radians π b ∧
    radians π (neg a) = -radians π a := by
  unfold radians add sub neg
  refine ⟨?_, ?_, ?_⟩ <;> ring

/-- **C20 (angle × float, float × angle)**: scaling an angle scales the radians. -/
theorem angle_mul (a : Angle K) (x : K) :
    radians π (mul a x) = radians π a * x ∧ radians π (rmul a x) = x * radians π a := by
  unfold radians mul rmul
  constructor <;> ring

/-- **C20 (angle / float)**: dividing by a non-zero float divides the radians; dividing by zero is an
    error of the exact model. -/
theorem angle_truediv (a : Angle K) (x : K) :
    (x ≠ 0 → ∃ c, truediv a x = some c ∧ radians π c = radians π a / x) ∧
    (x = 0 → truediv a x = none) := by
  constructor
  · intro hx
    refine ⟨⟨a.halfturns / x⟩, by simp [truediv, hx], ?_⟩
    unfold radians; field_simp
  · intro hx; simp [truediv, hx]

/-- **C20 (float / angle)** as the code has it: `x / a` is the *angle* whose half turns are
    `x / a.halfturns` (so `(x / a).halfturns * a.halfturns = x`); zero half turns is an error. -/
theorem angle_rtruediv (a : Angle K) (x : K) :
    (a.halfturns ≠ 0 → ∃ c, rtruediv a x = some c ∧ c.halfturns * a.halfturns = x) ∧
    (a.halfturns = 0 → rtruediv a x = none) := by
  constructor
  · intro h
    exact ⟨⟨x / a.halfturns⟩, by simp [rtruediv, h], by field_simp⟩
  · intro h; simp [rtruediv, h]

/-- **C20 (angle ==)**: angles compare equal exactly when they denote the same radians (π ≠ 0). -/
theorem angle_eq_iff (hπ : π ≠ 0) (a b : Angle K) :
    eq a b = true ↔ radians π a = radians π b := by
  unfold eq radians
  simp only [decide_eq_true_eq]
  constructor
  · intro h; rw [h]
  · intro h
    have h2 : (2 : K) ≠ 0 := two_ne_zero
    field_simp at h
    exact h

/-- **C20 (constant pi)**: `pi` denotes π radians, and two of them a full turn. -/
theorem angle_pi : radians π (pi : Angle K) = π ∧ radians π (add pi pi) = 2 * π := by
  unfold radians pi add
  constructor <;> field_simp <;> ring

/-! Non-vacuity over ℚ with π := 22/7 (any non-zero element will do). -/
example : radians (22 / 7 : ℚ) (add ⟨1 / 2⟩ ⟨1 / 4⟩) = 3 / 4 * (22 / 7) := by
  norm_num [radians, add]
example : truediv (⟨1⟩ : Angle ℚ) 4 = some ⟨1 / 4⟩ ∧ truediv (⟨1⟩ : Angle ℚ) 0 = none := by
  constructor <;> simp [truediv]
example : eq (⟨1 / 2⟩ : Angle ℚ) ⟨2 / 4⟩ = true := by
  simp [eq]; norm_num

end GuppyVerif.Angle
