import GuppyVerif.Lemmas.C30
/-! # C30 — Source span containment and intersection follow interval semantics

Property theorems only (helpers live in `Lemmas/C30.lean`, the specification vocabulary in
`Spec/C30.lean`).  The specification is *denotational*: a well-formed span denotes the
closed interval of positions `(line, col)` of its file between start and end in
lexicographic order; the Python operators are characterised against that set. -/
namespace GuppyVerif.Span

/-- **C30 (location in span)**: `loc in span` iff the location lies between the span's
    start and end (same file). -/
theorem containsLoc_iff (s : Span) (l : Loc) (hs : s.WF) :
    s.containsLoc l = true ↔ Mem l s := by
  unfold Span.containsLoc Mem Span.file
  by_cases hf : s.start.file = l.file
  · have h1 := le_iff_of_file (a := s.start) (b := l) hf
    have h2 := le_iff_of_file (a := l) (b := s.stop) (hf.symm.trans hs.1)
    simp only [hf, ne_eq, not_true_eq_false, ↓reduceIte, Bool.and_eq_true, h1, h2, true_and]
  · simp only [ne_eq, hf, not_false_eq_true, ↓reduceIte, Bool.false_eq_true, false_iff]
    intro h; exact hf h.1.symm

/-- **C30 (span in span), literal form of the statement**: `a in b` iff same file,
    a's start at or after b's start and a's end at or before b's end. -/
theorem containsSpan_iff (b a : Span) (ha : a.WF) (hb : b.WF) :
    b.containsSpan a = true ↔
      a.start.file = b.start.file ∧ PosLe b.start.line b.start.col a.start.line a.start.col ∧
        PosLe a.stop.line a.stop.col b.stop.line b.stop.col := by
  unfold Span.containsSpan Span.file
  by_cases hf : b.start.file = a.start.file
  · have h1 := le_iff_of_file (a := b.start) (b := a.start) hf
    have h2 := le_iff_of_file (a := a.stop) (b := b.stop) (ha.1.symm.trans (hf.symm.trans hb.1))
    simp only [hf, ne_eq, not_true_eq_false, ↓reduceIte, Bool.and_eq_true, h1, h2, true_and]
  · simp only [ne_eq, hf, not_false_eq_true, ↓reduceIte, Bool.false_eq_true, false_iff]
    intro h; exact hf h.1.symm

/-- **C30 (span in span), interval semantics**: `a in b` iff every location of `a` is a
    location of `b`. -/
theorem containsSpan_iff_subset (b a : Span) (ha : a.WF) (hb : b.WF) :
    b.containsSpan a = true ↔ ∀ l, Mem l a → Mem l b := by
  rw [containsSpan_iff b a ha hb]
  constructor
  · rintro ⟨hf, h1, h2⟩ l ⟨lf, l1, l2⟩
    exact ⟨lf.trans hf, h1.trans l1, l2.trans h2⟩
  · intro h
    have hs := h a.start ⟨rfl, PosLe.refl _ _, ha.2⟩
    have he := h a.stop ⟨ha.1.symm, ha.2, PosLe.refl _ _⟩
    exact ⟨hs.1, hs.2.1, he.2.2⟩

/-- **C30 (intersection)**: for well-formed spans of one file, `a & b` never raises; it is
    `None` exactly when no location belongs to both, and otherwise a well-formed span
    denoting exactly the common locations. -/
theorem inter_spec (a b : Span) (ha : a.WF) (hb : b.WF) (hf : a.start.file = b.start.file) :
    match a.inter b with
    | .none => ∀ l, ¬ (Mem l a ∧ Mem l b)
    | .some c => c.WF ∧ ∀ l, Mem l c ↔ (Mem l a ∧ Mem l b)
    | .error => False := by
  unfold Span.inter Span.file
  simp only [hf, ne_eq, not_true_eq_false, ↓reduceIte]
  have f1 : b.stop.file = a.start.file := hb.1.symm.trans hf.symm
  have f2 : a.stop.file = b.start.file := ha.1.symm.trans hf
  have l1 := lt_iff_of_file (a := b.stop) (b := a.start) f1
  have l2 := lt_iff_of_file (a := a.stop) (b := b.start) f2
  by_cases h1 : Loc.lt b.stop a.start = true
  · simp only [h1, Bool.true_or, ↓reduceIte]
    rintro l ⟨⟨_, la1, _⟩, ⟨_, _, lb2⟩⟩
    exact (l1.mp h1) (la1.trans lb2)
  by_cases h2 : Loc.lt a.stop b.start = true
  · simp only [h2, Bool.or_true, ↓reduceIte]
    rintro l ⟨⟨_, _, la2⟩, ⟨_, lb1, _⟩⟩
    exact (l2.mp h2) (lb1.trans la2)
  have n1 : PosLe a.start.line a.start.col b.stop.line b.stop.col :=
    Classical.not_not.mp (fun h => h1 (l1.mpr h))
  have n2 : PosLe b.start.line b.start.col a.stop.line a.stop.col :=
    Classical.not_not.mp (fun h => h2 (l2.mpr h))
  simp only [h1, h2, Bool.or_self, Bool.false_eq_true, ↓reduceIte]
  have hwf : Span.WF ⟨Loc.max a.start b.start, Loc.min a.stop b.stop⟩ := by
    unfold Span.WF
    rcases max_cases a.start b.start hf with ⟨e, hm⟩ | ⟨e, hm⟩ <;>
    rcases min_cases a.stop b.stop (f2.trans hb.1) with ⟨e', hm'⟩ | ⟨e', hm'⟩ <;>
    simp only [e, e']
    · exact ha
    · exact ⟨hf.trans hb.1, n1⟩
    · exact ⟨hf.symm.trans ha.1, n2⟩
    · exact hb
  obtain ⟨sp, hsp⟩ := (mk?_iff _ _).mpr hwf
  simp only [hsp]
  have hsp' : sp = ⟨Loc.max a.start b.start, Loc.min a.stop b.stop⟩ := by
    unfold Span.mk? at hsp; split at hsp
    · cases hsp
    · split at hsp
      · cases hsp
      · exact (Option.some.inj hsp).symm
  subst hsp'
  refine ⟨hwf, fun l => ?_⟩
  unfold Mem
  rcases max_cases a.start b.start hf with ⟨e, hm⟩ | ⟨e, hm⟩ <;>
  rcases min_cases a.stop b.stop (f2.trans hb.1) with ⟨e', hm'⟩ | ⟨e', hm'⟩ <;>
  simp only [e, e'] <;> constructor
  · rintro ⟨lf, p1, p2⟩; exact ⟨⟨lf, p1, p2⟩, lf.trans hf, hm.trans p1, p2.trans hm'⟩
  · rintro ⟨h, _⟩; exact h
  · rintro ⟨lf, p1, p2⟩; exact ⟨⟨lf, p1, p2.trans hm'⟩, lf.trans hf, hm.trans p1, p2⟩
  · rintro ⟨⟨lf, p1, _⟩, _, _, q2⟩; exact ⟨lf, p1, q2⟩
  · rintro ⟨lf, p1, p2⟩; exact ⟨⟨lf.trans hf.symm, hm.trans p1, p2⟩, lf, p1, p2.trans hm'⟩
  · rintro ⟨⟨_, _, p2⟩, lf, q1, _⟩; exact ⟨lf, q1, p2⟩
  · rintro ⟨lf, p1, p2⟩; exact ⟨⟨lf.trans hf.symm, hm.trans p1, p2.trans hm'⟩, lf, p1, p2⟩
  · rintro ⟨_, h⟩; exact h

/-- **C30 (different files)**: spans of different files are never contained in or
    intersecting each other; a location of another file is never in a span. -/
theorem different_files (a b : Span) (l : Loc) :
    (a.start.file ≠ b.start.file → a.containsSpan b = false ∧ a.inter b = .none) ∧
    (a.start.file ≠ l.file → a.containsLoc l = false) := by
  unfold Span.containsSpan Span.inter Span.containsLoc Span.file
  constructor
  · intro h; simp [h]
  · intro h; simp [h]

/-! Non-vacuity: concrete well-formed spans meeting the hypotheses, with a non-trivial
    intersection. -/
example : Span.WF ⟨⟨"f", 1, 4⟩, ⟨"f", 3, 0⟩⟩ ∧ Span.WF ⟨⟨"f", 2, 2⟩, ⟨"f", 5, 1⟩⟩ ∧
    Span.inter ⟨⟨"f", 1, 4⟩, ⟨"f", 3, 0⟩⟩ ⟨⟨"f", 2, 2⟩, ⟨"f", 5, 1⟩⟩ =
      .some ⟨⟨"f", 2, 2⟩, ⟨"f", 3, 0⟩⟩ := by
  refine ⟨⟨rfl, Or.inl (by decide)⟩, ⟨rfl, Or.inl (by decide)⟩, by decide⟩

end GuppyVerif.Span
