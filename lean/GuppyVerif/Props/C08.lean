import GuppyVerif.Lemmas.C08Bfs
import GuppyVerif.Lemmas.C08Complete
import GuppyVerif.Lemmas.C08Used
import GuppyVerif.Lemmas.C08Term
import GuppyVerif.Props.C09
/-! # C08 — Use-before-definition and path-dependent types are rejected exactly

Property theorems only.  `checkCfg` is the model of `check_cfg` (entry `check_bb`, then the BFS
over control-flow edges with block signatures and `check_rows_match`); it returns all candidate
errors of the first failing step (`none` = out of fuel; `check_terminates` shows an explicit
amount of fuel always suffices).  All statements are for arbitrary CFGs with arbitrary
statement (event) lists — no size bound. -/
namespace GuppyVerif.UseDef
open GuppyVerif.Dataflow

/-- everything the checker can report -/
theorem checkCfg_spec {U : UCfg} (hU : U.WF) {A : Ana} (hA : AnaOK U A) (fuel : Nat)
    (r : Except (List Err) Compiled) (h : checkCfg U A fuel = some r) :
    match r with
    | .ok _ => ∀ x, ¬ Undef U x
    | .error es => es ≠ [] ∧
        ((∃ x, Undef U x) ∧ (∀ e ∈ es, ∃ x, e = .notDefined x ∧ Undef U x) ∨
         (∀ x, ¬ Undef U x) ∧ (∀ e ∈ es, ∃ x, e = .branchType x ∧ TypeConflict U x)) := by
  unfold checkCfg at h
  have hentry := checkBB_entry hU hA
  cases hck : checkBB U A U.entry U.args with
  | error es =>
    simp only [hck] at h hentry
    cases h
    obtain ⟨hne, hall⟩ := hentry
    refine ⟨hne, Or.inl ⟨?_, hall⟩⟩
    obtain ⟨e, he⟩ := List.exists_mem_of_ne_nil _ hne
    obtain ⟨x, _, hx⟩ := hall e he
    exact ⟨x, hx⟩
  | ok outs =>
    simp only [hck] at h hentry
    obtain ⟨hno, houts, hrow, hsucc⟩ := hentry
    have hc : CompOK U A [(U.entry, U.args, outs)] := by
      intro b row outs' hf
      rw [findC_cons] at hf
      split at hf
      · rename_i hb; cases hf; subst hb
        refine ⟨hU.entry_mem, hrow, houts, hsucc, fun x => ⟨_, .entry, fun t ht => ht⟩⟩
      · cases hf
    have hq : QOK U (revEnum U.entry (U.succ U.entry ++ U.dsucc U.entry)) [(U.entry, U.args, outs)] := by
      intro p i b hm
      obtain ⟨hp, hs⟩ := mem_revEnum hm
      subst hp
      refine ⟨U.args, outs, by rw [findC_cons]; simp, hs, ?_⟩
      exact List.mem_of_getElem? hs
    have := bfs_spec hU hA fuel _ _ r hc hq h
    cases r with
    | ok c => exact hno
    | error es => exact ⟨this.1, Or.inr ⟨hno, this.2⟩⟩

/-- **C08, first sentence.**  The checker reports "not defined" iff some local (or unknown)
    variable is read on a control-flow path from the entry before any assignment; every variable
    it may name is one of those. -/
theorem undefined_iff_path {U : UCfg} (hU : U.WF) {A : Ana} (hA : AnaOK U A) (fuel : Nat)
    (r : Except (List Err) Compiled) (h : checkCfg U A fuel = some r) :
    ((∃ es x, r = .error es ∧ Err.notDefined x ∈ es) ↔ ∃ x, Undef U x) ∧
    (∀ es x, r = .error es → Err.notDefined x ∈ es → Undef U x) := by
  have hs := checkCfg_spec hU hA fuel r h
  cases r with
  | ok c =>
    refine ⟨⟨?_, fun ⟨x, hx⟩ => absurd hx (hs x)⟩, ?_⟩
    · rintro ⟨es, x, he, _⟩; cases he
    · intro es x he; cases he
  | error es =>
    obtain ⟨hne, hcase⟩ := hs
    rcases hcase with ⟨hex, hall⟩ | ⟨hno, hall⟩
    · refine ⟨⟨fun _ => hex, fun _ => ?_⟩, ?_⟩
      · obtain ⟨e, he⟩ := List.exists_mem_of_ne_nil _ hne
        obtain ⟨x, rfl, _⟩ := hall e he
        exact ⟨es, x, rfl, he⟩
      · intro es' x he hx
        cases he
        obtain ⟨y, hy, hu⟩ := hall _ hx
        cases hy; exact hu
    · refine ⟨⟨?_, fun ⟨x, hx⟩ => absurd hx (hno x)⟩, ?_⟩
      · rintro ⟨es', x, he, hx⟩
        cases he
        obtain ⟨y, hy, _⟩ := hall _ hx
        cases hy
      · intro es' x he hx
        cases he
        obtain ⟨y, hy, _⟩ := hall _ hx
        cases hy

/-- **C08, second sentence (soundness).**  A "different types" error names a variable that
    reaches a block with two different types along two paths and is read after that join. -/
theorem branchtype_sound {U : UCfg} (hU : U.WF) {A : Ana} (hA : AnaOK U A) (fuel : Nat)
    (es : List Err) (h : checkCfg U A fuel = some (.error es)) (x : Var)
    (hx : Err.branchType x ∈ es) : TypeConflict U x ∧ ∀ y, ¬ Undef U y := by
  have hs := checkCfg_spec hU hA fuel _ h
  obtain ⟨_, hcase⟩ := hs
  rcases hcase with ⟨_, hall⟩ | ⟨hno, hall⟩
  · obtain ⟨y, hy, _⟩ := hall _ hx; cases hy
  · obtain ⟨y, hy, hc⟩ := hall _ hx
    cases hy; exact ⟨hc, hno⟩

/-- **C08, second sentence (completeness).**  If the check succeeds, no variable that is read
    after a join can arrive there with two different types: the BFS has compared every edge it
    follows, and `check_rows_match` accepted all of them. -/
theorem accepted_no_conflict {U : UCfg} (hU : U.WF) {A : Ana} (hA : AnaOK U A) (fuel : Nat)
    (c : Compiled) (h : checkCfg U A fuel = some (.ok c)) (x : Var) : ¬ TypeConflict U x := by
  unfold checkCfg at h
  have hentry := checkBB_entry hU hA
  cases hck : checkBB U A U.entry U.args with
  | error es => simp [hck] at h
  | ok outs =>
    simp only [hck] at h hentry
    obtain ⟨_, houts, hrow, hsucc⟩ := hentry
    have hc : CompOK U A [(U.entry, U.args, outs)] := by
      intro b row outs' hf
      rw [findC_cons] at hf
      split at hf
      · rename_i hb; cases hf; subst hb
        exact ⟨hU.entry_mem, hrow, houts, hsucc, fun x => ⟨_, .entry, fun t ht => ht⟩⟩
      · cases hf
    have hq : QOK U (revEnum U.entry (U.succ U.entry ++ U.dsucc U.entry)) [(U.entry, U.args, outs)] := by
      intro p i b hm
      obtain ⟨hp, hs⟩ := mem_revEnum hm
      subst hp
      refine ⟨U.args, outs, by rw [findC_cons]; simp, hs, ?_⟩
      exact List.mem_of_getElem? hs
    have he : EdgeDone U [(U.entry, U.args, outs)] (revEnum U.entry (U.succ U.entry ++ U.dsucc U.entry)) := by
      intro b row outs' hf i s hs
      rw [findC_cons] at hf
      split at hf
      · rename_i hb; subst hb
        left
        have : followed U U.entry = U.succ U.entry ++ U.dsucc U.entry := by simp [followed]
        rw [this] at hs
        exact revEnum_mem hs
      · cases hf
    obtain ⟨hcf, hef, hmono⟩ := bfs_complete hU hA fuel _ _ c hc hq he h
    have hent : findC U.entry c = some (U.args, outs) := hmono _ _ (by rw [findC_cons]; simp)
    rintro ⟨b, t₁, t₂, hne, h1, h2, hlive⟩
    obtain ⟨hbb, hAS⟩ := tyAt_mem hU h1
    have hl : x ∈ A.live b := (hA.live b hbb x).mpr hlive
    obtain ⟨row, outs1, hf1, a1⟩ := tyAt_agrees hU hA hcf hef hent h1
    obtain ⟨row', outs2, hf2, a2⟩ := tyAt_agrees hU hA hcf hef hent h2
    rw [hf1] at hf2; cases hf2
    have e1 := a1 hl (hAS rfl)
    have e2 := a2 hl (hAS rfl)
    rw [e1] at e2
    exact hne (Option.some.inj e2)

/-- **C08, second sentence, both directions**: provided no variable is undefined, the check
    reports a type error iff some variable has a path-dependent type where it is read. -/
theorem branchtype_iff {U : UCfg} (hU : U.WF) {A : Ana} (hA : AnaOK U A) (fuel : Nat)
    (r : Except (List Err) Compiled) (h : checkCfg U A fuel = some r) (hno : ∀ x, ¬ Undef U x) :
    (∃ es x, r = .error es ∧ Err.branchType x ∈ es) ↔ ∃ x, TypeConflict U x := by
  constructor
  · rintro ⟨es, x, he, hx⟩
    subst he
    exact ⟨x, (branchtype_sound hU hA fuel es h x hx).1⟩
  · rintro ⟨x, hx⟩
    cases r with
    | ok c => exact absurd hx (accepted_no_conflict hU hA fuel c h x)
    | error es =>
      have hs := checkCfg_spec hU hA fuel _ h
      obtain ⟨hne, hcase⟩ := hs
      obtain ⟨e, he⟩ := List.exists_mem_of_ne_nil _ hne
      rcases hcase with ⟨⟨y, hy⟩, _⟩ | ⟨_, hall⟩
      · exact absurd hy (hno y)
      · obtain ⟨y, hy, _⟩ := hall e he
        subst hy
        exact ⟨es, y, rfl, he⟩

/-- **C08, third sentence.**  A program free of both problems is never rejected for these
    reasons: the check succeeds. -/
theorem accepts_otherwise {U : UCfg} (hU : U.WF) {A : Ana} (hA : AnaOK U A) (fuel : Nat)
    (r : Except (List Err) Compiled) (h : checkCfg U A fuel = some r)
    (h1 : ∀ x, ¬ Undef U x) (h2 : ∀ x, ¬ TypeConflict U x) : ∃ c, r = .ok c := by
  have hs := checkCfg_spec hU hA fuel r h
  cases r with
  | ok c => exact ⟨c, rfl⟩
  | error es =>
    obtain ⟨hne, hcase⟩ := hs
    obtain ⟨e, he⟩ := List.exists_mem_of_ne_nil _ hne
    rcases hcase with ⟨_, hall⟩ | ⟨_, hall⟩
    · obtain ⟨x, _, hu⟩ := hall e he; exact absurd hu (h1 x)
    · obtain ⟨x, _, hc⟩ := hall e he; exact absurd hc (h2 x)

/-- The internal failure modes of `check_cfg` are unreachable: `check_rows_match` never looks up
    a name missing from one of the rows (rows flowing into a block always have the same keys),
    and every queued edge index is valid. -/
theorem no_internal_error {U : UCfg} (hU : U.WF) {A : Ana} (hA : AnaOK U A) (fuel : Nat)
    (es : List Err) (h : checkCfg U A fuel = some (.error es)) (n : Nat) :
    Err.internal n ∉ es := by
  intro hm
  have hs := checkCfg_spec hU hA fuel _ h
  obtain ⟨_, hcase⟩ := hs
  rcases hcase with ⟨_, hall⟩ | ⟨_, hall⟩
  · obtain ⟨y, hy, _⟩ := hall _ hm; cases hy
  · obtain ⟨y, hy, _⟩ := hall _ hm; cases hy

/-- The analysis results that `check` computes (any scheduler, by C09) satisfy `AnaOK`. -/
theorem anaOK_of_runs {U : UCfg} (hU : U.WF) (s₁ s₂ : List Blk → Blk) (f₁ f₂ : Nat) (l : LSt) (a : ASt)
    (hl : liveRun U.cfg s₁ f₁ (liveInit U.cfg []) = some l)
    (ha : assRun U.cfg ⟨U.argNames, U.argNames⟩ s₂ f₂ (assInit U.cfg ⟨U.argNames, U.argNames⟩) = some a) :
    AnaOK U ⟨l.vals, a.befD, a.befM⟩ := by
  constructor
  · intro b hb x
    have := liveRun_correct U.cfg hU.cfg [] s₁ f₁ l hl b hb x
    rw [this]; unfold LiveSpec; simp
  · intro x
    have := (assRun_correct U.cfg hU.cfg ⟨U.argNames, U.argNames⟩ s₂ f₂ a ha U.entry hU.entry_mem x).1
    show x ∈ a.befD U.entry ↔ _
    rw [this]
    constructor
    · rintro ⟨_, hn⟩
      exact Classical.not_not.mp fun hx => hn (.root hU.entry_root hx)
    · intro hx
      refine ⟨List.mem_append_right _ hx, fun hn => ?_⟩
      cases hn with
      | root _ h => exact h hx
      | step he _ _ =>
        have : _ ∈ U.pred U.entry ++ U.dpred U.entry := he
        rw [hU.entry_root] at this
        exact absurd this List.not_mem_nil

/-- **End to end**: analyses (any visiting order) followed by the check decide exactly the
    path-based reading. -/
theorem check_spec {U : UCfg} (hU : U.WF) (fuel : Nat) (r : Except (List Err) Compiled)
    (h : check U fuel = some r) :
    ((∃ es x, r = .error es ∧ Err.notDefined x ∈ es) ↔ ∃ x, Undef U x) ∧
    (∀ es x, r = .error es → Err.branchType x ∈ es → TypeConflict U x) ∧
    ((∀ x, ¬ Undef U x) → (∀ x, ¬ TypeConflict U x) → ∃ c, r = .ok c) := by
  unfold check at h
  simp only at h
  split at h
  · rename_i l a hl ha
    have hA := anaOK_of_runs hU _ _ fuel fuel l a hl ha
    refine ⟨(undefined_iff_path hU hA fuel r h).1, ?_, accepts_otherwise hU hA fuel r h⟩
    intro es x he hx
    subst he
    exact (branchtype_sound hU hA fuel es h x hx).1
  · cases h

/-- **What "read" means at statement level** (`VariableVisitor`): a block counts as reading `x`
    iff one of its statements reads `x` before any statement of the block assigns it. -/
theorem used_iff_read_before_write (U : UCfg) (b : Blk) (x : Var) :
    x ∈ U.cfg.used b ↔ ReadBeforeWrite x (U.events b) := by
  show x ∈ usedOf (U.events b) [] [] ↔ _
  rw [mem_usedOf_gen]
  simp

/-- **The model of `check_cfg` terminates**: with `checkBound U` fuel (explicit: the number of
    followed edges plus the two analysis bounds of C09) `check` returns a verdict, never "out of
    fuel".  Together with `check_spec` this is total correctness of the model. -/
theorem check_terminates {U : UCfg} (hU : U.WF) (fuel : Nat) (hf : checkBound U ≤ fuel) :
    (check U fuel).isSome = true :=
  check_isSome U hU fuel hf

/-- total correctness: a verdict exists and it is the path-based one -/
theorem check_total {U : UCfg} (hU : U.WF) :
    ∃ r, check U (checkBound U) = some r ∧
      ((∃ es x, r = .error es ∧ Err.notDefined x ∈ es) ↔ ∃ x, Undef U x) ∧
      ((∀ x, ¬ Undef U x) → (∀ x, ¬ TypeConflict U x) → ∃ c, r = .ok c) := by
  obtain ⟨r, hr⟩ := Option.isSome_iff_exists.mp (check_terminates hU _ (Nat.le_refl _))
  have hs := check_spec hU _ r hr
  exact ⟨r, hr, hs.1, hs.2.2⟩


/-- **Unreachable code cannot change the types seen by reachable code.**  In a pruned CFG (what
    `CFGBuilder.build` hands to the checker; the harness checks `Pruned` on every captured CFG) every typed
    path that arrives at a really reachable block runs over real edges only: the never-taken edges and the
    code behind them contribute no type to live code. -/
theorem reachable_types_from_real_paths {U : UCfg} (hP : Pruned U) {x : Var} {b : Blk} {o : Option Ty}
    (h : TyAt U x b o) (hb : RealReach U b) : TyAtReal U x b o := by
  induction h with
  | entry => exact .entry
  | @edge p s o _ he ih =>
    obtain ⟨hp, hs⟩ := hP p s he hb
    exact .edge (ih hp) hs

/-- conversely a real typed path is a typed path (no hypothesis) -/
theorem tyAtReal_tyAt {U : UCfg} {x : Var} {b : Blk} {o : Option Ty} (h : TyAtReal U x b o) :
    TyAt U x b o := by
  induction h with
  | entry => exact .entry
  | edge _ hs ih => exact .edge ih (List.mem_append_left _ hs)

/-- **A rejection at a reachable join is caused by real paths.**  If the variable named in a
    "different types" error conflicts at a really reachable block, two real paths give it two types. -/
theorem reachable_conflict_is_real {U : UCfg} (hP : Pruned U) {x : Var} {b : Blk} {t₁ t₂ : Ty}
    (h₁ : TyAt U x b (some t₁)) (h₂ : TyAt U x b (some t₂)) (hb : RealReach U b) :
    TyAtReal U x b (some t₁) ∧ TyAtReal U x b (some t₂) :=
  ⟨reachable_types_from_real_paths hP h₁ hb, reachable_types_from_real_paths hP h₂ hb⟩


theorem livePathReal_dead {U : UCfg} (hP : Pruned U) {x : Var} {b : Blk}
    (h : LivePathReal U x b) (hb : ¬ RealReach U b) : DeadRead U x := by
  induction h with
  | @use b hu => exact ⟨b, hb, hu⟩
  | @step b c _ hs _ ih =>
    exact ih fun hc => hb (hP b c (List.mem_append_left _ hs) hc).1

/-- **Where a "not defined" rejection comes from.**  In a pruned CFG a path on which `x` is read before
    being assigned either runs over real edges only (a path the program can take, branch conditions
    ignored) or ends at a read inside unreachable code. -/
theorem livePath_real_or_dead {U : UCfg} (hP : Pruned U) {x : Var} {b : Blk}
    (h : LivePath U.cfg x b) : LivePathReal U x b ∨ DeadRead U x := by
  induction h with
  | use hu => exact Or.inl (.use hu)
  | @step b c hna he _ ih =>
    rcases ih with hr | hd
    · by_cases hc : RealReach U c
      · exact Or.inl (.step hna (hP b c he hc).2 hr)
      · exact Or.inr (livePathReal_dead hP hr hc)
    · exact Or.inr hd

/-- so: a program whose unreachable code reads nothing unassigned is rejected as "not defined" only for a
    real path from the entry -/
theorem undef_real_or_dead {U : UCfg} (hP : Pruned U) {x : Var} (h : Undef U x) :
    LivePathReal U x U.entry ∨ DeadRead U x :=
  livePath_real_or_dead hP h.2.2

/-! ## Non-vacuity: `if c: x = 1` / `else: pass`, then read `x`; and a re-typed variable. -/

/-- blocks 0 (entry; reads c=1) → 2 (x=5 := int) | 3 ; both → 4 (reads x) → 1 (exit) -/
def exU (tyElse : Option Ty) : UCfg where
  blocks := [0, 1, 2, 3, 4]
  succ := fun b => match b with | 0 => [2, 3] | 2 => [4] | 3 => [4] | 4 => [1] | _ => []
  dsucc := fun _ => []
  pred := fun b => match b with | 2 => [0] | 3 => [0] | 4 => [2, 3] | 1 => [4] | _ => []
  dpred := fun _ => []
  entry := 0
  events := fun b => match b with
    | 0 => [.use 1] | 2 => [.asg 5 10]
    | 3 => (match tyElse with | some t => [.asg 5 t] | none => [])
    | 4 => [.use 5] | _ => []
  args := [(1, 11)]
  globals := []

example : (match check (exU none) 50 with | some (.error es) => es == [.notDefined 5] | _ => false) = true := by
  decide
example : (match check (exU (some 12)) 50 with | some (.error es) => es == [.branchType 5] | _ => false) = true := by
  decide
example : (match check (exU (some 10)) 50 with | some (.ok _) => true | _ => false) = true := by decide
example : Undef (exU none) 5 :=
  ⟨by decide, Or.inl (by decide),
    .step (by decide) (show 3 ∈ (exU none).cfg.succ 0 ++ (exU none).cfg.dsucc 0 by decide)
      (.step (by decide) (show 4 ∈ (exU none).cfg.succ 3 ++ (exU none).cfg.dsucc 3 by decide)
        (.use (by decide)))⟩

/-- dead code nested behind the entry's `return`: 0 (entry, returns) → 1 (exit), 0 ⇢ 2 (dead branch) →
    3 (x := int) | 4 (x := float), both → 5 (reads x); the jump 5 → 1 back into live code is pruned -/
def exD : UCfg where
  blocks := [0, 1, 2, 3, 4, 5]
  succ := fun b => match b with | 0 => [1] | 2 => [3, 4] | 3 => [5] | 4 => [5] | _ => []
  dsucc := fun b => match b with | 0 => [2] | _ => []
  pred := fun b => match b with | 1 => [0] | 3 => [2] | 4 => [2] | 5 => [3, 4] | _ => []
  dpred := fun b => match b with | 2 => [0] | _ => []
  entry := 0
  events := fun b => match b with
    | 2 => [.use 1] | 3 => [.asg 5 10] | 4 => [.asg 5 12] | 5 => [.use 5] | _ => []
  args := [(1, 11)]
  globals := []

example : (match check exD 50 with | some (.error es) => es == [.branchType 5] | _ => false) = true := by
  decide

theorem exD_reach_aux {s : Blk} (h : RealReach exD s) : s = 0 ∨ s = 1 := by
  induction h with
  | entry => exact Or.inl rfl
  | @step p s _ hs ih =>
    rcases ih with rfl | rfl
    · right; simpa [exD] using hs
    · simp [exD] at hs

example : Pruned exD := by
  intro p s he hs
  rcases exD_reach_aux hs with rfl | rfl
  · -- nothing jumps to the entry
    have : ∀ p, (0 : Blk) ∉ exD.succ p ++ exD.dsucc p := by
      intro p; unfold exD; simp only; split <;> split <;> simp
    exact absurd he (this p)
  · have hp : p = 0 := by
      unfold exD at he; simp only at he
      split at he <;> split at he <;> simp_all
    subst hp
    exact ⟨.entry, by simp [exD]⟩

end GuppyVerif.UseDef
