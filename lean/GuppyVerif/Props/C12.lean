import GuppyVerif.Lemmas.C12Sound
import GuppyVerif.Lemmas.C12Star
import GuppyVerif.Lemmas.C12Term
import GuppyVerif.Lemmas.C12Compl
import GuppyVerif.Lemmas.C12Exact
import GuppyVerif.Lemmas.C12Bound
import GuppyVerif.Lemmas.C12LinCompl
import GuppyVerif.Lemmas.C12Call
import GuppyVerif.Lemmas.C12CallIff
import GuppyVerif.Lemmas.C12Fuel
import GuppyVerif.Lemmas.C12GenCall
import GuppyVerif.Lemmas.C12GenCallCompl
import GuppyVerif.Lemmas.C12GenCallCheck
/-! # C12 — type inference finds an instantiation exactly when one exists

Property theorems about `Model/Unify.lean` (the model of `unify`, `_unify_var`, `_occurs`, `_unify_args`,
`Substituter` in `tys/ty.py`, `tys/subst.py` after the two `fix:` commits for D5 and D16).

Vocabulary (Spec/C12.lean): `Solves θ σ` — the total assignment `θ` satisfies every equation `v ≐ σ(v)`;
`Unifies θ s t`; `FlagEq` — identical up to the ownership flags of function inputs; `Extends`; `Acyclic` —
a rank on variables decreases along bindings (consistent prior); `passes σ n` — `n` `Substituter` passes.
All statements are for every environment, every pair of terms and every prior; no size bound. -/
namespace GuppyVerif.Unify

/-- **Soundness** (any fuel).  A returned substitution extends the prior, every solution of it solves the
    prior and makes `s` and `t` identical (up to ownership flags), and it is acyclic if the prior was. -/
theorem unify_sound (E : Env) (f : Nat) (s t : Tm) (σ₀ σ : Subst) (h : unify E f s t σ₀ = .ok σ) :
    Extends σ₀ σ ∧ (∀ θ, Solves θ σ → Solves θ σ₀ ∧ Unifies θ s t) ∧ (Acyclic σ₀ → Acyclic σ) := by
  have g := unify_good E f s t σ₀ σ h
  exact ⟨g.ext, fun θ hθ => ⟨hθ.of_extends g.ext, g.eq θ hθ⟩, g.acyc⟩

/-- **Soundness under full application.**  For a consistent prior, applying the returned substitution
    often enough (any number of passes `n ≥ N`) makes both sides identical up to flags, and the result is a
    fixpoint: no bound variable is left, one more pass changes nothing. -/
theorem unify_sound_applied (E : Env) (f : Nat) (s t : Tm) (σ₀ σ : Subst) (h₀ : Acyclic σ₀)
    (h : unify E f s t σ₀ = .ok σ) :
    ∃ N, ∀ n, N ≤ n →
      FlagEq (applyN σ n s) (applyN σ n t) ∧
      Saturated σ (applyN σ n s) ∧ Saturated σ (applyN σ n t) ∧
      apply σ (applyN σ n s) = applyN σ n s ∧ apply σ (applyN σ n t) = applyN σ n t := by
  have g := unify_good E f s t σ₀ σ h
  have ha : Acyclic σ := g.acyc h₀
  obtain ⟨N₁, h₁⟩ := passes_solves ha
  obtain ⟨N₂, h₂⟩ := applyN_saturated ha s
  obtain ⟨N₃, h₃⟩ := applyN_saturated ha t
  refine ⟨N₁ + N₂ + N₃, fun n hn => ?_⟩
  have hs := h₂ n (by omega)
  have ht := h₃ n (by omega)
  refine ⟨?_, hs, ht, apply_saturated hs, apply_saturated ht⟩
  rw [applyN_eq_inst, applyN_eq_inst]
  apply g.eq
  intro v u hv
  unfold FlagEq
  rw [h₁ n (by omega) v u hv]

/-- **Soundness with `applyStar`** (what the design states): on a consistent prior, applying the returned
    substitution exhaustively — `|σ|` `Substituter` passes, which is what `applyStar` does — makes both sides
    identical up to flags and leaves no bound variable. -/
theorem unify_sound_applyStar (E : Env) (f : Nat) (s t : Tm) (σ₀ σ : Subst) (h₀ : Acyclic σ₀)
    (h : unify E f s t σ₀ = .ok σ) :
    FlagEq (applyStar σ s) (applyStar σ t) ∧ Saturated σ (applyStar σ s) ∧ Saturated σ (applyStar σ t) := by
  have g := unify_good E f s t σ₀ σ h
  have ha : Acyclic σ := g.acyc h₀
  refine ⟨?_, applyN_len_saturated ha _ (Nat.le_refl _) s, applyN_len_saturated ha _ (Nat.le_refl _) t⟩
  unfold applyStar
  rw [applyN_eq_inst, applyN_eq_inst]
  apply g.eq
  intro v u hv
  unfold FlagEq
  rw [passes_len_solves ha _ (Nat.le_refl _) v u hv]

/-- The ownership-flag rule at the root: two function types only unify when they have the same
    parameters, the same number of inputs, and no pair of inputs that are both linear carries different
    flags.  (For function types nested deeper the rule is part of the model but only this root statement is
    proved; see notes/C12.md.) -/
theorem unify_flags_respected_partial (E : Env) (f : Nat) (fl₁ fl₂ : List Nat) (p₁ p₂ : Nat) (as bs : List Tm)
    (σ₀ σ : Subst) (h : unify E f (.node (.func fl₁ p₁) as) (.node (.func fl₂ p₂) bs) σ₀ = .ok σ) :
    p₁ = p₂ ∧ fl₁.length = fl₂.length ∧ flagsClash E fl₁ fl₂ as bs = false := by
  cases f with
  | zero => simp [unify, unifyStep] at h
  | succ f =>
    simp only [unify, unifyStep] at h
    split at h
    · rename_i e
      split at h
      · cases h
      · rename_i hl
        split at h
        · cases h
        · rename_i hc
          exact ⟨e, by simpa using hl, by simpa using hc⟩
    · cases h

/-- **Termination.**  On a consistent (acyclic) prior the recursion of `unify` is finite: some fuel `n`
    yields a proper outcome (a substitution or `None`), and every larger fuel yields the same outcome.
    (Proved by a lexicographic measure — unbound variables of the finite universe, ranks, sizes; see
    `unify_terminates_explicit` for a closed formula.) -/
theorem unify_terminates (E : Env) (s t : Tm) (σ₀ : Subst) (h₀ : Acyclic σ₀) :
    ∃ n, unify E n s t σ₀ ≠ .oof ∧ ∀ m, n ≤ m → unify E m s t σ₀ = unify E n s t σ₀ :=
  unify_terminates_aux E s t σ₀ h₀

/-- **Termination with an explicit fuel.**  `fuelBound s t σ₀` — a polynomial in the number of variables, the
    number of bindings and the total size of the terms in play (see `Model/Unify.lean`) — bounds the recursion
    depth of `unify` on every consistent prior: with that fuel, or more, the outcome is a substitution or `None`,
    and it is the same outcome.  The model driver runs with exactly this fuel. -/
theorem unify_terminates_explicit (E : Env) (s t : Tm) (σ₀ : Subst) (h₀ : Acyclic σ₀) (n : Nat)
    (hn : fuelBound s t σ₀ ≤ n) :
    unify E n s t σ₀ ≠ .oof ∧ unify E n s t σ₀ = unify E (fuelBound s t σ₀) s t σ₀ :=
  ⟨unify_fuelBound E s t σ₀ h₀ n hn,
   unify_mono E hn s t σ₀ (unify_fuelBound E s t σ₀ h₀ _ (Nat.le_refl _))⟩

/-- Fuel only decides whether an outcome is reached, never which one. -/
theorem unify_fuel_irrelevant (E : Env) (s t : Tm) (σ₀ : Subst) (n m : Nat)
    (hn : unify E n s t σ₀ ≠ .oof) (hm : unify E m s t σ₀ ≠ .oof) :
    unify E n s t σ₀ = unify E m s t σ₀ := by
  rw [← unify_mono E (Nat.le_max_left n m) s t σ₀ hn, ← unify_mono E (Nat.le_max_right n m) s t σ₀ hm]

/-- **Existence ⇐ success** (no side conditions): when `unify` returns a substitution on a consistent
    prior, an assignment exists that solves the prior and makes both sides identical (up to flags) — namely
    enough passes of the result. -/
theorem unify_success_gives_unifier (E : Env) (f : Nat) (s t : Tm) (σ₀ σ : Subst) (h₀ : Acyclic σ₀)
    (h : unify E f s t σ₀ = .ok σ) : ∃ θ, Solves θ σ₀ ∧ Unifies θ s t := by
  have g := unify_good E f s t σ₀ σ h
  obtain ⟨N, hN⟩ := passes_solves (g.acyc h₀)
  have hθ : Solves (passes σ N) σ := fun v u hv => by unfold FlagEq; rw [hN N (Nat.le_refl _) v u hv]
  exact ⟨passes σ N, hθ.of_extends g.ext, g.eq _ hθ⟩

/-- **Completeness** — full statement of the property: *if some assignment solves the consistent prior and
    makes `s` and `t` identical, `unify` returns a substitution.*  Proved here for well-sorted inputs
    (`Tm.wf`, `WfSubst`: what Python's static types guarantee) and under `NoLinear E`, i.e. when no type is
    linear so that the ownership-flag rule never fires.  The gap: with linear inputs the code applies the
    flag rule to the types *as written* (a variable is linear iff declared so), which is neither sound nor
    complete for "identical after instantiation"; see notes/C12.md. -/
theorem unify_complete_partial (E : Env) (hE : NoLinear E) (s t : Tm) (σ₀ : Subst)
    (hs : s.wf = true) (ht : t.wf = true) (hw : WfSubst σ₀) (h₀ : Acyclic σ₀)
    (θ : V → Tm) (hθ : Solves θ σ₀) (hu : Unifies θ s t) :
    ∃ n σ, ∀ m, n ≤ m → unify E m s t σ₀ = .ok σ := by
  obtain ⟨n, hn, hst⟩ := unify_terminates_aux E s t σ₀ h₀
  have hc := (unify_compl E hE θ n s t σ₀ hs ht hw hθ hu).1
  cases hres : unify E n s t σ₀ with
  | oof => exact absurd hres hn
  | fail => exact absurd hres hc
  | ok σ => exact ⟨n, σ, fun m hm => by rw [hst m hm, hres]⟩

/-- **Most general** (same hypotheses): every assignment that solves the prior and unifies `s` and `t`
    also solves the returned substitution, and factors through it: `θ = θ ∘ σᵏ` up to flags for every number
    of passes `k` — in particular through the full application of `σ`. -/
theorem unify_mgu_partial (E : Env) (hE : NoLinear E) (f : Nat) (s t : Tm) (σ₀ σ : Subst)
    (hs : s.wf = true) (ht : t.wf = true) (hw : WfSubst σ₀) (h : unify E f s t σ₀ = .ok σ)
    (θ : V → Tm) (hθ : Solves θ σ₀) (hu : Unifies θ s t) :
    Solves θ σ ∧ ∀ k x, FlagEq (inst θ (applyN σ k x)) (inst θ x) := by
  have hsol := ((unify_compl E hE θ f s t σ₀ hs ht hw hθ hu).2 σ h).1
  exact ⟨hsol, fun k x => solves_applyN hsol k x⟩

/-- **Exactly when** (same hypotheses): `unify` succeeds iff a unifier respecting the prior exists. -/
theorem unify_iff_partial (E : Env) (hE : NoLinear E) (s t : Tm) (σ₀ : Subst)
    (hs : s.wf = true) (ht : t.wf = true) (hw : WfSubst σ₀) (h₀ : Acyclic σ₀) :
    (∃ n σ, unify E n s t σ₀ = .ok σ) ↔ ∃ θ, Solves θ σ₀ ∧ Unifies θ s t := by
  constructor
  · rintro ⟨n, σ, h⟩; exact unify_success_gives_unifier E n s t σ₀ σ h₀ h
  · rintro ⟨θ, hθ, hu⟩
    obtain ⟨n, σ, h⟩ := unify_complete_partial E hE s t σ₀ hs ht hw h₀ θ hθ hu
    exact ⟨n, σ, h n (Nat.le_refl _)⟩

/-- **Completeness for exact unifiers, every environment.**  If an assignment solves the consistent
    well-sorted prior and makes `s` and `t` literally identical (ownership flags included), `unify` returns
    a substitution — whatever is linear.  (Partial w.r.t. the property: the premise asks for identity including
    the flags of non-linear inputs, which the property would let differ.) -/
theorem unify_complete_exact_partial (E : Env) (s t : Tm) (σ₀ : Subst)
    (hs : s.wf = true) (ht : t.wf = true) (hw : WfSubst σ₀) (h₀ : Acyclic σ₀)
    (θ : V → Tm) (hθ : SolvesX θ σ₀) (hu : UnifiesX θ s t) :
    ∃ n σ, ∀ m, n ≤ m → unify E m s t σ₀ = .ok σ := by
  obtain ⟨n, hn, hst⟩ := unify_terminates_aux E s t σ₀ h₀
  have hc := (unify_complX E θ n s t σ₀ hs ht hw hθ hu).1
  cases hres : unify E n s t σ₀ with
  | oof => exact absurd hres hn
  | fail => exact absurd hres hc
  | ok σ => exact ⟨n, σ, fun m hm => by rw [hst m hm, hres]⟩

/-- **Most general for exact unifiers, every environment**: such an assignment solves the returned
    substitution exactly and is unchanged by pre-composing any number of passes of it: `θ = θ ∘ σᵏ`. -/
theorem unify_mgu_exact_partial (E : Env) (f : Nat) (s t : Tm) (σ₀ σ : Subst)
    (hs : s.wf = true) (ht : t.wf = true) (hw : WfSubst σ₀) (h : unify E f s t σ₀ = .ok σ)
    (θ : V → Tm) (hθ : SolvesX θ σ₀) (hu : UnifiesX θ s t) :
    SolvesX θ σ ∧ ∀ k x, inst θ (applyN σ k x) = inst θ x := by
  have hsol := ((unify_complX E θ f s t σ₀ hs ht hw hθ hu).2 σ h).1
  exact ⟨hsol, fun k x => solvesX_applyN hsol k x⟩

/-! ### the literal reading of the flag clause, for assignments that keep linearity

`LinEq E` is the property's own "identical, respecting that linear inputs must agree on ownership flags".
For assignments `θ` with `LinInv E θ` (instantiating does not change which types are linear — e.g. every
variable is mapped to a type with the variable's declared copy/drop capabilities, `linInv_of_bounds`) the code
is sound, complete and most general with respect to it.  Without `LinInv` it is not: see the two `…_false`
theorems below. -/

/-- soundness, literal reading -/
theorem unify_sound_lin_partial (E : Env) (f : Nat) (s t : Tm) (σ₀ σ : Subst) (h : unify E f s t σ₀ = .ok σ)
    (θ : V → Tm) (hθ : LinInv E θ) (hsol : SolvesL E θ σ) : SolvesL E θ σ₀ ∧ UnifiesL E θ s t := by
  obtain ⟨e, hs⟩ := unify_soundL E θ hθ f s t σ₀ σ h
  exact ⟨hsol.of_extends e, hs hsol⟩

/-- completeness, literal reading -/
theorem unify_complete_lin_partial (E : Env) (s t : Tm) (σ₀ : Subst)
    (hs : s.wf = true) (ht : t.wf = true) (hw : WfSubst σ₀) (h₀ : Acyclic σ₀)
    (θ : V → Tm) (hθ : LinInv E θ) (hsol : SolvesL E θ σ₀) (hu : UnifiesL E θ s t) :
    ∃ n σ, ∀ m, n ≤ m → unify E m s t σ₀ = .ok σ := by
  obtain ⟨n, hn, hst⟩ := unify_terminates_aux E s t σ₀ h₀
  have hc := (unify_complL E θ hθ n s t σ₀ hs ht hw hsol hu).1
  cases hres : unify E n s t σ₀ with
  | oof => exact absurd hres hn
  | fail => exact absurd hres hc
  | ok σ => exact ⟨n, σ, fun m hm => by rw [hst m hm, hres]⟩

/-- most general, literal reading: every linearity-keeping unifier that respects the prior solves the result -/
theorem unify_mgu_lin_partial (E : Env) (f : Nat) (s t : Tm) (σ₀ σ : Subst)
    (hs : s.wf = true) (ht : t.wf = true) (hw : WfSubst σ₀) (h : unify E f s t σ₀ = .ok σ)
    (θ : V → Tm) (hθ : LinInv E θ) (hsol : SolvesL E θ σ₀) (hu : UnifiesL E θ s t) : SolvesL E θ σ :=
  ((unify_complL E θ hθ f s t σ₀ hs ht hw hsol hu).2 σ h).1

/-- non-vacuity: `Q` (definition 4) and variable 4 linear; `θ(?4) = Q`, every other variable ↦ `int`;
    `(?4 @owned) -> None` against `(Q @owned) -> None` -/
example : let E : Env := { vNoCopy := [4], vNoDrop := [4], dNoCopy := [4], dNoDrop := [4] }
    let θ : V → Tm := fun v => if v = 4 then .node (.opaque 4) [] else .atom (.num 2)
    LinInv E θ ∧ SolvesL E θ [] ∧
      UnifiesL E θ (.node (.func [2] 0) [.targ (.var 4), .targ (.atom .none)])
        (.node (.func [2] 0) [.targ (.node (.opaque 4) []), .targ (.atom .none)]) := by
  intro E θ
  refine ⟨linInv_of_bounds ?_ ?_, fun _ _ h => by simp [lookup] at h, rfl⟩
  · intro v
    by_cases e : v = 4
    · subst e; rfl
    · simp [θ, e, E, copyable]
  · intro v
    by_cases e : v = 4
    · subst e; rfl
    · simp [θ, e, E, droppable]

/-! ### the literal reading of the ownership-flag clause is false of the code (known findings)

`LinEq E` (equality of `norm E` normal forms) is the property's literal "identical, respecting that linear inputs must agree on flags".  The code
evaluates linearity on the types as written, so with respect to `linEq` after instantiation it is neither
complete nor sound for assignments that change which inputs are linear (for the others see
`unify_sound_lin_partial`, `unify_complete_lin_partial`).  Both witnesses are replayed on the real code by the check
(`corpus/c12/k01_flag_rule_literal.json`, reported as KNOWN-FINDING). -/

/-- not complete: `(?T @owned) -> None` against `(?T) -> None` with `?T` (variable 4) declared linear is
    rejected for every fuel, although `T := int` makes both sides `LinEq`-identical (`int` is not linear). -/
theorem unify_complete_linear_flags_false :
    ∃ (E : Env) (s t : Tm) (θ : V → Tm), s.wf = true ∧ t.wf = true ∧
      UnifiesL E θ s t ∧ ∀ n σ, unify E n s t [] ≠ .ok σ := by
  refine ⟨{ vNoCopy := [4], vNoDrop := [4] },
    .node (.func [2] 0) [.targ (.var 4), .targ (.atom .none)],
    .node (.func [0] 0) [.targ (.var 4), .targ (.atom .none)],
    fun _ => .atom (.num 2), rfl, rfl, rfl, ?_⟩
  intro n σ
  cases n with
  | zero => simp [unify]
  | succ n =>
    have h1 : unify { vNoCopy := [4], vNoDrop := [4] } 1
        (.node (.func [2] 0) [.targ (.var 4), .targ (.atom .none)])
        (.node (.func [0] 0) [.targ (.var 4), .targ (.atom .none)]) [] = .fail := rfl
    rw [unify_mono _ (Nat.succ_le_succ (Nat.zero_le n)) _ _ _ (by rw [h1]; intro h; cases h), h1]
    intro h; cases h

/-- not sound: `(?T @owned) -> None` against `(Q) -> None` with `?T` (variable 0) declared copyable and `Q`
    (definition 4) linear succeeds with `T := Q`; after applying the result the linear input `Q` carries
    different flags on the two sides.  (`check_inst` rejects `T := Q` later; `unify` itself does not.) -/
theorem unify_sound_linear_flags_false :
    ∃ (E : Env) (s t : Tm) (σ : Subst), s.wf = true ∧ t.wf = true ∧ unify E 3 s t [] = .ok σ ∧
      ¬ LinEq E (applyStar σ s) (applyStar σ t) :=
  ⟨{ dNoCopy := [4], dNoDrop := [4] },
    .node (.func [2] 0) [.targ (.var 0), .targ (.atom .none)],
    .node (.func [0] 0) [.targ (.node (.opaque 4) []), .targ (.atom .none)],
    [(0, .node (.opaque 4) [])], rfl, rfl, rfl, by
      intro h
      have : norm { dNoCopy := [4], dNoDrop := [4] } (.node (.func [2] 0) [.targ (.node (.opaque 4) []), .targ (.atom .none)])
           = norm { dNoCopy := [4], dNoDrop := [4] } (.node (.func [0] 0) [.targ (.node (.opaque 4) []), .targ (.atom .none)]) := h
      simp [norm, normH, normFlags, normList, linear, copyable, droppable, copyableArgs, droppableArgs] at this⟩

/-! ### the corollary for generic function values (`check_type_against`, parametrised case) -/

/-- **Generic call, soundness.**  When `check_type_against` accepts a generic function value `act = forall
    params. body` (no inference variables in `body`) against an expected type `exp`, the returned instantiation
    `ins` has one variable-free entry per parameter, and ONE pass of the returned substitution `σ'` (this is how
    every caller applies it) makes `exp` identical (up to flags) to `body[params := ins]`. -/
theorem generic_call_sound (E : Env) (fuel p0 : Nat) (exp : Tm) (fresh : List V) (fl : List Nat) (p : Nat)
    (args ins : List Tm) (σ' : Subst) (hact : ∀ a ∈ args, a.vars = [])
    (h : checkAgainst E fuel p0 exp fresh (.node (.func fl p) args) = .ok ins σ') :
    FlagEq (apply σ' exp) (.node (.func fl p0) (instBList ins args)) ∧
      ins.length = fresh.length ∧ ∀ t ∈ ins, t.vars = [] :=
  checkAgainst_sound E fuel p0 exp fresh fl p args ins σ' hact h

/-- non-vacuity, and D18: `forall T. T -> T` against `(?8) -> int` gives `T := int` and the *resolved*
    solution `?8 := int` (before the fix the solution of `?8` was the callee's internal variable `?2000`) -/
example : checkAgainst {} 9 0 (.node (.func [0] 0) [.targ (.var 8), .targ (.atom (.num 2))]) [2000]
    (.node (.func [0] 1) [.targ (.atom (.bvar 0)), .targ (.atom (.bvar 0))])
    = .ok [.atom (.num 2)] [(8, .atom (.num 2))] := by rfl

/-- **Generic call, exactly when** (closed expected type).  A generic function value `forall params. body`
    whose parameters all occur in its signature is accepted against a variable-free expected type `exp` exactly
    when some instantiation `ρ` of the parameters makes the signature identical to `exp` (up to flags).
    Partial: proved where the ownership-flag rule cannot fire (`NoLinear E`), for well-sorted inputs; for expected
    types that still contain inference variables only `generic_call_sound` is proved (the code additionally
    demands that the principal instantiation is variable-free, which is checked in the tie). -/
theorem generic_call_closed_iff_partial (E : Env) (hE : NoLinear E) (p0 : Nat) (exp : Tm) (fresh : List V)
    (fl : List Nat) (p : Nat) (args : List Tm)
    (hexp : exp.vars = []) (hexpwf : exp.wf = true) (hact : ∀ a ∈ args, a.vars = []) (hactwf : wfArgs args = true)
    (hfresh : fresh.Nodup)
    (hocc : ∀ f ∈ fresh, f ∈ (Tm.node (.func fl p0) (instBList (fresh.map .var) args)).vars) :
    (∃ n ins σ', checkAgainst E n p0 exp fresh (.node (.func fl p) args) = .ok ins σ') ↔
      ∃ ρ : List Tm, ρ.length = fresh.length ∧ FlagEq exp (.node (.func fl p0) (instBList ρ args)) := by
  constructor
  · rintro ⟨n, ins, σ', h⟩
    obtain ⟨h1, h2, _⟩ := checkAgainst_sound E n p0 exp fresh fl p args ins σ' hact h
    refine ⟨ins, h2, ?_⟩
    have : apply σ' exp = exp := inst_id_of exp _ (fun y hy => by rw [hexp] at hy; cases hy)
    rw [this] at h1
    exact h1
  · rintro ⟨ρ, hl, hfit⟩
    obtain ⟨n, ins, h⟩ := checkAgainst_complete_closed E hE p0 exp fresh fl p args hexp hexpwf hact hactwf
      hfresh hocc ρ hl hfit
    exact ⟨n, ins, [], h n (Nat.le_refl _)⟩

/-- non-vacuity of the hypotheses: `forall T. (T, T) -> T` against `(int, int) -> int` -/
example : NoLinear {} ∧
    (Tm.node (.func [0, 0] 0) [.targ (.atom (.num 2)), .targ (.atom (.num 2)), .targ (.atom (.num 2))]).vars = [] ∧
    wfArgs [.targ (.atom (.bvar 0)), .targ (.atom (.bvar 0)), .targ (.atom (.bvar 0))] = true ∧
    [2000].Nodup ∧
    (∀ f ∈ [2000], f ∈ (Tm.node (.func [0, 0] 0) (instBList ([2000].map .var)
        [.targ (.atom (.bvar 0)), .targ (.atom (.bvar 0)), .targ (.atom (.bvar 0))])).vars) ∧
    checkAgainst {} 9 0
      (.node (.func [0, 0] 0) [.targ (.atom (.num 2)), .targ (.atom (.num 2)), .targ (.atom (.num 2))]) [2000]
      (.node (.func [0, 0] 1) [.targ (.atom (.bvar 0)), .targ (.atom (.bvar 0)), .targ (.atom (.bvar 0))])
      = .ok [.atom (.num 2)] [] :=
  ⟨noLinear_default, rfl, rfl, by simp, by simp [instBList, instB, Tm.vars, varsList], rfl⟩

/-! ### generic CALLS: `synthesize_call` / `check_call` on first-order arguments (Model/GenCall.lean)

Fragment: the declared signature has no inference variables; every argument expression is `Ex.Closed` — its
synthesised type (variables, literals, monomorphic function names, previously checked nested calls: `Ex.val`;
tuple literals: `Ex.tup`) has no inference variables; no numeric coercions, no `@comptime`/`inout` inputs. -/

/-- **Generic call, soundness (synthesis position).**  If `synthesize_call` accepts, the returned instantiation
    `ins` has one variable-free entry per parameter, respects the copy/drop bounds (`check_inst`), makes every
    declared input type identical (up to flags) to the synthesised type of the corresponding argument — tuple
    literals included, whatever order the components were solved in — and the returned type is the declared
    return type under that same instantiation. -/
theorem generic_call_synth_sound (E : Env) (sg : Sig) (fresh : List V) (es : List Ex) (ins : List Tm) (ret : Tm)
    (hin : ∀ a ∈ sg.inputs, a.vars = []) (hout : sg.out.vars = []) (hes : ∀ e ∈ es, e.Closed)
    (h : synthCall E sg fresh es = .accept ins ret) :
    es.length = sg.inputs.length ∧ CallOk E sg fresh es ins ret := by
  unfold synthCall at h
  split at h
  · cases h
  · rename_i hl
    exact ⟨by simpa using hl, (finishCall_sound E sg fresh es [] ins ret hin hout hes
      (fun _ _ h' => by simp [lookup] at h') h).1⟩

/-- **Generic call, soundness (checking position, closed expected type `ty`)**: as above, and the expected type
    is identical (up to flags) to the instantiated return type — also when the instantiation could only be found
    from the expected type (return-only type variables). -/
theorem generic_call_check_sound (E : Env) (sg : Sig) (fresh fresh₂ : List V) (es : List Ex) (ty : Tm)
    (ins : List Tm) (ret : Tm) (hlen : fresh₂.length = fresh.length)
    (hin : ∀ a ∈ sg.inputs, a.vars = []) (hout : sg.out.vars = []) (hes : ∀ e ∈ es, e.Closed) (hty : ty.vars = [])
    (h : checkCall E sg fresh fresh₂ es ty = .accept ins ret) :
    es.length = sg.inputs.length ∧ ins.length = fresh.length ∧ (∀ t ∈ ins, t.vars = []) ∧
      boundsOk E sg.bounds ins = true ∧ All2 (fun e p => FlagEq (instB ins p) e.synth) es sg.inputs ∧
      ret = instB ins sg.out ∧ FlagEq ty ret := by
  unfold checkCall at h
  split at h
  · cases h
  · rename_i hl
    have hnil : ClosedImgs [] := fun _ _ h' => by simp [lookup] at h'
    cases h1 : finishCall E sg fresh es [] with
    | accept ins₁ ret₁ =>
      simp only [h1] at h
      cases hu : unifyT E ty ret₁ [] with
      | ok s =>
        simp only [hu, CallOut.accept.injEq] at h
        obtain ⟨rfl, rfl⟩ := h
        obtain ⟨ok, _⟩ := finishCall_sound E sg fresh es [] ins₁ ret₁ hin hout hes hnil h1
        have hrc : ret₁.vars = [] := by rw [ok.ret]; exact vars_instB_closed ins₁ ok.closed _ hout
        have ck := unifyT_sound E hrc hu
        have := ck.eq
        rw [apply_closed_term s hty] at this
        exact ⟨by simpa using hl, ok.len, ok.closed, ok.bounds, ok.fits, ok.ret, this⟩
      | fail => simp [hu] at h
      | oof => simp [hu] at h
    | infer =>
      simp only [h1] at h
      cases hu : unifyT E ty (instB (fresh₂.map Tm.var) sg.out) [] with
      | ok σ₀ =>
        simp only [hu] at h
        have h0 : ClosedImgs σ₀ := unify_closed2 E _ _ _ [] σ₀ hu hty hnil
        obtain ⟨ok, σ, hσc, hext, hret⟩ := finishCall_sound E sg fresh₂ es σ₀ ins ret hin hout hes h0 h
        have g := unify_good E _ _ _ [] σ₀ hu
        have hsol : Solves (asFun σ) σ₀ := (asFun_solves_closed hσc).of_extends hext
        have := g.eq (asFun σ) hsol
        have e1 : inst (asFun σ) ty = ty := inst_id_of ty _ (fun y hy => by rw [hty] at hy; cases hy)
        rw [e1] at this
        exact ⟨by simpa using hl, by rw [ok.len, hlen], ok.closed, ok.bounds, ok.fits, ok.ret, by rw [hret]; exact this⟩
      | fail => simp [hu] at h
      | oof => simp [hu] at h
    | oof => simp [h1] at h
    | arity => simp [h1] at h
    | mismatch => simp [h1] at h
    | bounds => simp [h1] at h

/-- **Generic call, exactly when** (synthesis position; arbitrary argument expressions: synthesised closed types
    and arbitrarily nested tuple literals).  `synthesize_call` accepts ⇔ some instantiation `ρ` of the quantified
    parameters, respecting their copy/drop bounds, makes every declared input type identical (up to flags) to the
    (synthesised) type of the corresponding argument; and the instantiation it returns is that `ρ` (up to flags), the
    returned type being the declared return type under it.  The threaded substitution stays most general after every
    component (`Agree`), so later components remain unifiable whenever a global solution exists.
    Remaining gaps (hence `_partial`): `NoLinear E` (needed only because `unify`'s flag rule is evaluated on types as
    written, D17), every parameter occurs in some input (in synthesis position a return-only parameter is rejected
    by the code; see `generic_call_check_iff_partial`), well-sorted closed inputs, no numeric coercions in the model. -/
theorem generic_call_iff_partial (E : Env) (hE : NoLinear E) (sg : Sig) (fresh : List V) (es : List Ex)
    (hin : ∀ p ∈ sg.inputs, p.vars = [] ∧ p.wf = true) (hout : sg.out.vars = [])
    (hes : ∀ e ∈ es, e.Closed ∧ e.synth.wf = true) (hfresh : fresh.Nodup)
    (hocc : ∀ f ∈ fresh, ∃ p ∈ sg.inputs, f ∈ (instB (fresh.map Tm.var) p).vars) :
    ((∃ ins ret, synthCall E sg fresh es = .accept ins ret) ↔
      ∃ ρ : List Tm, ρ.length = fresh.length ∧ boundsOk E sg.bounds ρ = true ∧
        All2 (fun e p => FlagEq (instB ρ p) e.synth) es sg.inputs) ∧
    (∀ ρ : List Tm, ρ.length = fresh.length → boundsOk E sg.bounds ρ = true →
        All2 (fun e p => FlagEq (instB ρ p) e.synth) es sg.inputs →
        ∃ ins, synthCall E sg fresh es = .accept ins (instB ins sg.out) ∧ All2 FlagEq ins ρ) := by
  refine ⟨⟨?_, ?_⟩, ?_⟩
  · rintro ⟨ins, ret, h⟩
    obtain ⟨_, ok⟩ := generic_call_synth_sound E sg fresh es ins ret (fun a ha => (hin a ha).1) hout
      (fun e he => (hes e he).1) h
    exact ⟨ins, ok.len, ok.bounds, ok.fits⟩
  · rintro ⟨ρ, hl, hb, hf⟩
    obtain ⟨ins, h, _⟩ := synthCall_complete_ex E hE sg fresh es ρ hin hout hes hfresh hl hocc hf hb
    exact ⟨ins, _, h⟩
  · intro ρ hl hb hf
    exact synthCall_complete_ex E hE sg fresh es ρ hin hout hes hfresh hl hocc hf hb

/-- **Generic call, exactly when** (checking position, closed expected type `ty`): `check_call` accepts ⇔ some
    instantiation within the bounds makes every input fit its argument AND the declared return type fit `ty`; the
    returned instantiation is that one.  Here a parameter only has to occur in some input *or in the return type*
    (return-only type variables are solved from the expected type by the second path of `check_call`).
    Gaps: `NoLinear E`, well-sorted closed inputs, no coercions. -/
theorem generic_call_check_iff_partial (E : Env) (hE : NoLinear E) (sg : Sig) (fresh fresh₂ : List V) (es : List Ex)
    (ty : Tm) (hin : ∀ p ∈ sg.inputs, p.vars = [] ∧ p.wf = true) (hout : sg.out.vars = []) (houtw : sg.out.wf = true)
    (hes : ∀ e ∈ es, e.Closed ∧ e.synth.wf = true) (hty : ty.vars = []) (htyw : ty.wf = true)
    (hf1 : fresh.Nodup) (hf2 : fresh₂.Nodup) (hlen : fresh₂.length = fresh.length)
    (hocc : ∀ f ∈ fresh₂, (∃ p ∈ sg.inputs, f ∈ (instB (fresh₂.map Tm.var) p).vars) ∨
        f ∈ (instB (fresh₂.map Tm.var) sg.out).vars) :
    ((∃ ins ret, checkCall E sg fresh fresh₂ es ty = .accept ins ret) ↔
      ∃ ρ : List Tm, ρ.length = fresh.length ∧ boundsOk E sg.bounds ρ = true ∧
        All2 (fun e p => FlagEq (instB ρ p) e.synth) es sg.inputs ∧ FlagEq ty (instB ρ sg.out)) ∧
    (∀ ρ : List Tm, ρ.length = fresh.length → boundsOk E sg.bounds ρ = true →
        All2 (fun e p => FlagEq (instB ρ p) e.synth) es sg.inputs → FlagEq ty (instB ρ sg.out) →
        ∃ ins, checkCall E sg fresh fresh₂ es ty = .accept ins (instB ins sg.out) ∧ All2 FlagEq ins ρ) := by
  have compl : ∀ ρ : List Tm, ρ.length = fresh.length → boundsOk E sg.bounds ρ = true →
      All2 (fun e p => FlagEq (instB ρ p) e.synth) es sg.inputs → FlagEq ty (instB ρ sg.out) →
      ∃ ins, checkCall E sg fresh fresh₂ es ty = .accept ins (instB ins sg.out) ∧ All2 FlagEq ins ρ :=
    fun ρ hl hb hf hr => checkCall_complete E hE sg fresh fresh₂ es ty ρ hin hout houtw hes hty htyw hf1 hf2 hl
      (by rw [hl, hlen]) hocc hf hr hb
  refine ⟨⟨?_, ?_⟩, compl⟩
  · rintro ⟨ins, ret, h⟩
    obtain ⟨_, h2, _, h4, h5, h6, h7⟩ := generic_call_check_sound E sg fresh fresh₂ es ty ins ret hlen
      (fun a ha => (hin a ha).1) hout (fun e he => (hes e he).1) hty h
    exact ⟨ins, h2, h4, h5, by rw [← h6]; exact h7⟩
  · rintro ⟨ρ, hl, hb, hf, hr⟩
    obtain ⟨ins, h, _⟩ := compl ρ hl hb hf hr
    exact ⟨ins, _, h⟩

/-- non-vacuity of `generic_call_check_iff_partial`: `mk : forall T. (int) -> T` against expected `bool` (return-only
    type variable, solved from the expected type); nested tuple literal for `generic_call_iff_partial`:
    `f : forall T. ((T, (T, int))) -> T` on `((x: bool, (y: bool, 1)))` -/
example : checkCall {} ⟨[.atom (.num 2)], .atom (.bvar 0), [(true, true)]⟩ [2000] [3000] [.val (.atom (.num 2))]
    (.node (.opaque 0) []) = .accept [.node (.opaque 0) []] (.node (.opaque 0) []) := by rfl

example : synthCall {} ⟨[.node .tuple [.targ (.atom (.bvar 0)), .targ (.node .tuple [.targ (.atom (.bvar 0)), .targ (.atom (.num 2))])]],
      .atom (.bvar 0), [(true, true)]⟩ [2000]
    [.tup [.val (.node (.opaque 0) []), .tup [.val (.node (.opaque 0) []), .val (.atom (.num 2))]]]
    = .accept [.node (.opaque 0) []] (.node (.opaque 0) []) := by rfl

/-- non-vacuity of `generic_call_iff_partial`: `pair : forall T U. (T, Option[U], T) -> U` on `(int, Option[bool], int)` -/
example : NoLinear {} ∧ [2000, 2002].Nodup ∧
    (∀ f ∈ [2000, 2002], ∃ p ∈ [Tm.atom (.bvar 0), .node (.opaque 3) [.targ (.atom (.bvar 1))], .atom (.bvar 0)],
        f ∈ (instB ([2000, 2002].map Tm.var) p).vars) ∧
    synthCall {} ⟨[.atom (.bvar 0), .node (.opaque 3) [.targ (.atom (.bvar 1))], .atom (.bvar 0)], .atom (.bvar 1),
        [(true, true), (true, true)]⟩ [2000, 2002]
      ([.atom (.num 2), .node (.opaque 3) [.targ (.node (.opaque 0) [])], .atom (.num 2)].map Ex.val)
      = .accept [.atom (.num 2), .node (.opaque 0) []] (.node (.opaque 0) []) :=
  ⟨noLinear_default, by simp, by simp [instB, instBList, Tm.vars, varsList], rfl⟩

/-- non-vacuity: `first : forall T. (T, T) -> T` on the tuple literal `(x: int, y: int)` is accepted with `T := int`;
    on `(x: int, y: bool)` it is rejected (the seeded `visit_Tuple` mutant accepted it) -/
example : synthCall {} ⟨[.node .tuple [.targ (.atom (.bvar 0)), .targ (.atom (.bvar 0))]], .atom (.bvar 0), [(true, true)]⟩
    [2000] [.tup [.val (.atom (.num 2)), .val (.atom (.num 2))]] = .accept [.atom (.num 2)] (.atom (.num 2)) := by rfl

example : synthCall {} ⟨[.node .tuple [.targ (.atom (.bvar 0)), .targ (.atom (.bvar 0))]], .atom (.bvar 0), [(true, true)]⟩
    [2000] [.tup [.val (.atom (.num 2)), .val (.node (.opaque 0) [])]] = .mismatch := by rfl

/-! ### non-vacuity -/

/-- the hypotheses of the completeness theorems are satisfiable: default environment, `(?2)` against `(int)` -/
example : NoLinear {} ∧ (Tm.node .tuple [.targ (.var 2)]).wf = true ∧ WfSubst [] ∧ Acyclic [] ∧
    Solves (fun _ => .atom (.num 2)) [] ∧
    Unifies (fun _ => .atom (.num 2)) (.node .tuple [.targ (.var 2)]) (.node .tuple [.targ (.atom (.num 2))]) :=
  ⟨noLinear_default, rfl, fun _ _ h => by simp [lookup] at h, ⟨fun _ => 0, fun _ _ h => by simp [lookup] at h⟩,
   fun _ _ h => by simp [lookup] at h, rfl⟩

/-- the explicit bound on the concrete run above (actual recursion depth there: 5) -/
example : fuelBound (.node .tuple [.targ (.var 2), .targ (.var 0)])
    (.node .tuple [.targ (.node .tuple [.targ (.atom (.num 2))]), .targ (.var 4)])
    [(4, .node .tuple [.targ (.var 6)])] = 2091 := by decide

/-- acyclicity cannot be dropped: on the cyclic substitution the unrepaired code used to return
    (`{?0 ↦ (?2), ?2 ↦ (?0)}`, D5) a further `unify(?0, ?2, σ)` never reaches an outcome -/
example : unify {} 25 (.var 0) (.var 2)
    [(0, .node .tuple [.targ (.var 2)]), (2, .node .tuple [.targ (.var 0)])] = .oof := by rfl

/-- a concrete successful run with a non-empty acyclic prior: `unify((?2, ?0), ((int), ?4), {?4 ↦ (?6)})` -/
example : unify {} 5 (.node .tuple [.targ (.var 2), .targ (.var 0)])
    (.node .tuple [.targ (.node .tuple [.targ (.atom (.num 2))]), .targ (.var 4)])
    [(4, .node .tuple [.targ (.var 6)])]
    = .ok [(0, .node .tuple [.targ (.var 6)]), (2, .node .tuple [.targ (.atom (.num 2))]),
           (4, .node .tuple [.targ (.var 6)])] := by rfl

example : Acyclic [(4, .node .tuple [.targ (.var 6)])] := by
  refine ⟨fun v => if v = 4 then 1 else 0, ?_⟩
  intro v u h y hy
  simp only [lookup] at h
  split at h
  · rename_i e; subst e; cases h; simp [Tm.vars, varsList] at hy; subst hy; simp
  · cases h

/-- D5 (the witness that produced a cyclic result before the fix): now rejected -/
example : unify {} 9 (.node .tuple [.targ (.var 2), .targ (.var 0)])
    (.node .tuple [.targ (.node .tuple [.targ (.var 0)]), .targ (.node .tuple [.targ (.var 2)])]) [] = .fail := by rfl

/-- D16: `ConstValue(bool, True)` against `ConstValue(nat, 1)` (same value code, different type code) -/
example : unify {} 9 (.atom (.cval 3 1)) (.atom (.cval 0 1)) [] = .fail := by rfl

/-- the flag rule fires: `(Q @owned) -> None` against `(Q) -> None` with `Q` linear (definition 4) -/
example : unify { dNoCopy := [4], dNoDrop := [4] } 9
    (.node (.func [2] 0) [.targ (.node (.opaque 4) []), .targ (.atom .none)])
    (.node (.func [0] 0) [.targ (.node (.opaque 4) []), .targ (.atom .none)]) [] = .fail := by rfl

/-- hypotheses of the exact theorems, in an environment where `Q` (definition 4) is linear:
    `(?2 @owned) -> None` against `(Q @owned) -> None` with `θ(?2) = Q` -/
example : SolvesX (fun _ => .node (.opaque 4) []) [] ∧
    UnifiesX (fun _ => .node (.opaque 4) [])
      (.node (.func [2] 0) [.targ (.var 2), .targ (.atom .none)])
      (.node (.func [2] 0) [.targ (.node (.opaque 4) []), .targ (.atom .none)]) :=
  ⟨fun _ _ h => by simp [lookup] at h, rfl⟩

end GuppyVerif.Unify
