import GuppyVerif.Model.Unify
/-! C12 property theorems (under construction) -/
