import GuppyVerif.Lemmas.C33Closure
/-! # C33 — which nested functions are capturing closures (the gate's trigger)

`checkNested` / `checkOuter` (Model/ClosureGate.lean) mirror the gate in
`check_nested_func_def`: liveness of the nested body, `captured = live ∩ ctx.locals − params`.
The specification (`Spec/C33Closure.lean`) says positionally what "uses a local of the enclosing
function" means and never mentions types. -/
namespace GuppyVerif.ClosureGate

open Spec

/-- **C33 (capturing closures are gated)**: a nested function definition is rejected with the
    capturing-closures diagnostic iff experimental features are off and it uses — before assigning
    it itself, and not as one of its own parameters — a name that is a local of the enclosing
    function; if it uses none it is accepted under both settings. -/
theorem closure_gated_iff_captures (flag : Bool) (locals : List (Nat × VKind)) (f : Inner) :
    (checkNested flag locals f = .reject ↔ flag = false ∧ Captures (locals.map (·.1)) f) ∧
    (¬ Captures (locals.map (·.1)) f → checkNested flag locals f = .accept) := by
  have hc := captured_ne_nil_iff locals f
  unfold checkNested
  cases h : captured locals f with
  | nil =>
    rw [h] at hc
    have : ¬ Captures (locals.map (·.1)) f := fun c => (hc.mpr c) rfl
    simp [this]
  | cons c cs =>
    rw [h] at hc
    have hcap : Captures (locals.map (·.1)) f := hc.mp (by simp)
    cases flag
    · simp [hcap]
    · simp only [Bool.not_true, Bool.false_eq_true, ↓reduceIte, false_and, iff_false]
      refine ⟨?_, fun hn => absurd hcap hn⟩
      split <;> simp

/-- **C33 (the gate does not look at types)**: whether the captured locals are values or
    functions (a `Callable` parameter, `g = double`, a sibling nested function) is irrelevant —
    for one nested definition and for a whole enclosing function whose locals are re-typed at will. -/
theorem closure_gate_ignores_types (flag : Bool) (κ : Nat → VKind) (items : List Item) :
    ∀ (locals locals' : List (Nat × VKind)), locals.map (·.1) = locals'.map (·.1) →
      checkOuter flag locals items = checkOuter flag locals' (items.map (retype κ)) := by
  induction items with
  | nil => intro l l' _; rfl
  | cons it rest ih =>
    intro l l' h
    cases it with
    | localVar x k =>
      simp only [List.map_cons, retype, checkOuter]
      exact ih _ _ (names_step h x k (κ x))
    | nested f =>
      simp only [List.map_cons, retype, checkOuter]
      have : checkNested flag l f = checkNested flag l' f := by
        unfold checkNested; rw [captured_congr h f]
      rw [this]
      cases checkNested flag l' f with
      | accept => exact ih _ _ (names_step h f.name .func .func)
      | reject => rfl
      | illegalAssign => rfl

/-! Non-vacuity: enclosing function with a value parameter 0, a `Callable` parameter 1, a
    function-valued local 2; name 9 is a global.  (a) captures only the Callable, (b) shadows the
    local by a parameter, (c) assigns before reading, (d) reads then assigns a captured name. -/
def exLocals : List (Nat × VKind) := [(2, .func), (1, .func), (0, .value)]

example : checkNested false exLocals ⟨5, [7], [⟨[1, 7], none⟩]⟩ = .reject ∧
    checkNested true exLocals ⟨5, [7], [⟨[1, 7], none⟩]⟩ = .accept ∧
    checkNested false exLocals ⟨5, [1], [⟨[1, 9], none⟩]⟩ = .accept ∧
    checkNested false exLocals ⟨5, [7], [⟨[7], some 0⟩, ⟨[0], none⟩]⟩ = .accept ∧
    checkNested false exLocals ⟨5, [7], [⟨[0], some 6⟩, ⟨[7], some 0⟩, ⟨[6], none⟩]⟩ = .reject ∧
    checkNested true exLocals ⟨5, [7], [⟨[0], some 6⟩, ⟨[7], some 0⟩, ⟨[6], none⟩]⟩ = .illegalAssign := by
  decide

/-- a sibling nested function (itself capturing nothing) used by a later one -/
example : checkOuter false [] [.localVar 0 .value, .nested ⟨3, [7], [⟨[7], none⟩]⟩,
      .nested ⟨4, [7], [⟨[3, 7], none⟩]⟩] = .reject ∧
    checkOuter false [] [.localVar 0 .value, .nested ⟨3, [7], [⟨[7, 3], none⟩]⟩] = .accept := by decide

end GuppyVerif.ClosureGate
