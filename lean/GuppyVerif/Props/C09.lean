import GuppyVerif.Lemmas.C09Run
import GuppyVerif.Lemmas.C09Term
import GuppyVerif.Lemmas.C09TermA
/-! # C09 — Dataflow analyses equal the path-based solution in any visit order

Property theorems only.  All are for an arbitrary well-formed CFG (`Cfg.WF`: edges recorded
at both ends and closed over the block list — what `CFG.link`/`dummy_link` maintain), with
arbitrary use/assign sets, dummy edges, unreachable blocks and cycles, **no bound on size**,
and for **every** visiting order: `LReach`/`AReach` let any queued block be popped next.

The path theorems are about every run that ends with an empty worklist (`liveRun`/`assRun`
return `none` if the fuel runs out); `liveRun_terminates` / `assRun_terminates` show that both
worklists do end, under every scheduler, within explicit bounds. -/
namespace GuppyVerif.Dataflow

/-- **Liveness = path semantics, any order.**  After any run of the backward worklist that ends
    with no block queued, `x` is live before `b` iff `x` is read on some path from `b` before
    being reassigned — or, for the variables declared live initially (borrowed parameters), the
    path never terminates. -/
theorem live_iff_path (g : Cfg) (hg : g.WF) (init : List Var) (t : LSt)
    (hr : LReach g (liveInit g init) t) (hq : ∀ c ∈ g.blocks, c ∉ t.queue)
    (b : Blk) (hb : b ∈ g.blocks) (x : Var) :
    x ∈ t.vals b ↔ LiveSpec g init x b := by
  have hi := linv_reach g hg init hr (linv_init g init)
  constructor
  · intro hx
    by_cases hp : LivePath g x b
    · exact Or.inl hp
    · rcases hi.sound b x hx with h | h
      · exact Or.inr ⟨h, infPath_of_stable hg hi hq hb hx hp⟩
      · exact absurd h hp
  · rintro (h | ⟨hx, h⟩)
    · exact mem_of_livePath hg hi hq hb h
    · exact hi.above b x hx (Or.inr h)

/-- The statement's sentence verbatim, when no variable is declared live initially. -/
theorem live_iff_path_literal (g : Cfg) (hg : g.WF) (t : LSt)
    (hr : LReach g (liveInit g []) t) (hq : ∀ c ∈ g.blocks, c ∉ t.queue)
    (b : Blk) (hb : b ∈ g.blocks) (x : Var) :
    x ∈ t.vals b ↔ LivePath g x b := by
  rw [live_iff_path g hg [] t hr hq b hb x]
  unfold LiveSpec
  simp

/-- **Liveness does not depend on the visiting order.** -/
theorem live_schedule_independent (g : Cfg) (hg : g.WF) (init : List Var) (t₁ t₂ : LSt)
    (h₁ : LReach g (liveInit g init) t₁) (h₂ : LReach g (liveInit g init) t₂)
    (q₁ : ∀ c ∈ g.blocks, c ∉ t₁.queue) (q₂ : ∀ c ∈ g.blocks, c ∉ t₂.queue)
    (b : Blk) (hb : b ∈ g.blocks) : SetEq (t₁.vals b) (t₂.vals b) := by
  intro x
  rw [live_iff_path g hg init t₁ h₁ q₁ b hb x, live_iff_path g hg init t₂ h₂ q₂ b hb x]

/-- The executable worklist, under any scheduler whatsoever, computes the path semantics. -/
theorem liveRun_correct (g : Cfg) (hg : g.WF) (init : List Var) (sched : List Blk → Blk)
    (fuel : Nat) (t : LSt) (h : liveRun g sched fuel (liveInit g init) = some t)
    (b : Blk) (hb : b ∈ g.blocks) (x : Var) :
    x ∈ t.vals b ↔ LiveSpec g init x b := by
  obtain ⟨hr, he⟩ := liveRun_reach g sched fuel _ _ h
  exact live_iff_path g hg init t hr (fun c _ => by rw [he]; exact List.not_mem_nil) b hb x

/-- fuel that always suffices for the liveness worklist -/
def liveBound (g : Cfg) (init : List Var) : Nat :=
  ((livePairs g init).length + 1) * (g.blocks.length + 1)

/-- **The liveness worklist terminates under every scheduler**, within `liveBound` pops
    (each pop either leaves the values alone and shrinks the worklist, or flips one of finitely
    many (block, variable) memberships, each of which can flip only once). -/
theorem liveRun_terminates (g : Cfg) (hg : g.WF) (init : List Var) (sched : List Blk → Blk)
    (fuel : Nat) (hf : liveBound g init ≤ fuel) :
    (liveRun g sched fuel (liveInit g init)).isSome = true := by
  apply liveRun_isSome g hg init sched fuel _ (ltinv_init g init)
  refine Nat.le_trans ?_ hf
  unfold livePot liveBound
  have h1 : (livePairs g init).countP (pending init (liveInit g init).vals) ≤ (livePairs g init).length :=
    List.countP_le_length
  have h2 := countP_queue_le g (liveInit g init).queue
  calc _ ≤ (livePairs g init).length * (g.blocks.length + 1) + g.blocks.length :=
        Nat.add_le_add (Nat.mul_le_mul_right _ h1) h2
    _ ≤ _ := by rw [Nat.add_mul]; omega

/-- total correctness: with `liveBound` fuel the run returns, and returns the path semantics -/
theorem liveRun_total (g : Cfg) (hg : g.WF) (init : List Var) (sched : List Blk → Blk) :
    ∃ t, liveRun g sched (liveBound g init) (liveInit g init) = some t ∧
      ∀ b ∈ g.blocks, ∀ x, x ∈ t.vals b ↔ LiveSpec g init x b := by
  have h := liveRun_terminates g hg init sched _ (Nat.le_refl _)
  obtain ⟨t, ht⟩ := Option.isSome_iff_exists.mp h
  exact ⟨t, ht, fun b hb x => liveRun_correct g hg init sched _ t ht b hb x⟩

/-- **Definite assignment = all paths, any order.**  `x` is definitely assigned before `b` iff
    no backward path from `b` reaches a root (a block without predecessors, the entry) without
    passing an assignment to `x` or finding `x` assigned before the root.  (`allVars` is the
    analysis' universe; see `defass_iff_all_paths_reachable`.) -/
theorem defass_iff_all_paths (g : Cfg) (hg : g.WF) (P : AParams) (t : ASt)
    (hr : AReach g P (assInit g P) t) (hq : ∀ c ∈ g.blocks, c ∉ t.queue)
    (b : Blk) (hb : b ∈ g.blocks) (x : Var) :
    x ∈ t.befD b ↔ x ∈ allVars g P ∧ ¬ NotDef g P x b := by
  have hi := ainv_reach g hg P hr (ainv_init g P)
  constructor
  · intro hx
    exact ⟨hi.dsub b hb x hx, fun hn => not_mem_of_notDef hg hi hq hb hn hx⟩
  · rintro ⟨hx, hn⟩
    exact hi.dabove b x hx hn

/-- For blocks reachable from a root the universe restriction disappears: the statement's
    sentence verbatim ("assigned on all paths from the entry"). -/
theorem defass_iff_all_paths_reachable (g : Cfg) (hg : g.WF) (P : AParams) (t : ASt)
    (hr : AReach g P (assInit g P) t) (hq : ∀ c ∈ g.blocks, c ∉ t.queue)
    (b : Blk) (hb : b ∈ g.blocks) (hfr : FromRoot g b) (x : Var) :
    x ∈ t.befD b ↔ ¬ NotDef g P x b := by
  rw [defass_iff_all_paths g hg P t hr hq b hb x]
  constructor
  · exact fun h => h.2
  · intro hn
    exact ⟨Classical.not_not.mp fun hx => hn (notDef_of_fromRoot hg hb hfr hx), hn⟩

/-- **Maybe assignment = some path, any order.** -/
theorem maybeass_iff_some_path (g : Cfg) (hg : g.WF) (P : AParams) (t : ASt)
    (hr : AReach g P (assInit g P) t) (hq : ∀ c ∈ g.blocks, c ∉ t.queue)
    (b : Blk) (hb : b ∈ g.blocks) (x : Var) :
    x ∈ t.befM b ↔ MaybePath g P x b ∨ (x ∈ P.entryMaybe ∧ InfBack g b) := by
  have hi := ainv_reach g hg P hr (ainv_init g P)
  constructor
  · intro hx
    by_cases hp : MaybePath g P x b
    · exact Or.inl hp
    · rcases hi.msound b x hx with h | h
      · exact Or.inr ⟨h, infBack_of_stable hg hi hq hb hx h hp⟩
      · exact absurd h hp
  · rintro (h | ⟨hx, h⟩)
    · exact mem_of_maybePath hg hi hq hb h
    · exact hi.mabove b x hx (Or.inr h)

/-- For blocks reachable from a root: exactly "assigned on some path from the entry". -/
theorem maybeass_iff_some_path_reachable (g : Cfg) (hg : g.WF) (P : AParams) (t : ASt)
    (hr : AReach g P (assInit g P) t) (hq : ∀ c ∈ g.blocks, c ∉ t.queue)
    (b : Blk) (hb : b ∈ g.blocks) (hfr : FromRoot g b) (x : Var) :
    x ∈ t.befM b ↔ MaybePath g P x b := by
  rw [maybeass_iff_some_path g hg P t hr hq b hb x]
  constructor
  · rintro (h | ⟨hx, _⟩)
    · exact h
    · exact maybePath_of_fromRoot hfr hx
  · exact Or.inl

/-- **Assignment results do not depend on the visiting order.** -/
theorem ass_schedule_independent (g : Cfg) (hg : g.WF) (P : AParams) (t₁ t₂ : ASt)
    (h₁ : AReach g P (assInit g P) t₁) (h₂ : AReach g P (assInit g P) t₂)
    (q₁ : ∀ c ∈ g.blocks, c ∉ t₁.queue) (q₂ : ∀ c ∈ g.blocks, c ∉ t₂.queue)
    (b : Blk) (hb : b ∈ g.blocks) :
    SetEq (t₁.befD b) (t₂.befD b) ∧ SetEq (t₁.befM b) (t₂.befM b) := by
  refine ⟨fun x => ?_, fun x => ?_⟩
  · rw [defass_iff_all_paths g hg P t₁ h₁ q₁ b hb x, defass_iff_all_paths g hg P t₂ h₂ q₂ b hb x]
  · rw [maybeass_iff_some_path g hg P t₁ h₁ q₁ b hb x, maybeass_iff_some_path g hg P t₂ h₂ q₂ b hb x]

/-- The executable forward worklist, under any scheduler, computes the path semantics. -/
theorem assRun_correct (g : Cfg) (hg : g.WF) (P : AParams) (sched : List Blk → Blk)
    (fuel : Nat) (t : ASt) (h : assRun g P sched fuel (assInit g P) = some t)
    (b : Blk) (hb : b ∈ g.blocks) (x : Var) :
    (x ∈ t.befD b ↔ x ∈ allVars g P ∧ ¬ NotDef g P x b) ∧
    (x ∈ t.befM b ↔ MaybePath g P x b ∨ (x ∈ P.entryMaybe ∧ InfBack g b)) := by
  obtain ⟨hr, he⟩ := assRun_reach g P sched fuel _ _ h
  have hq : ∀ c ∈ g.blocks, c ∉ t.queue := fun c _ => by rw [he]; exact List.not_mem_nil
  exact ⟨defass_iff_all_paths g hg P t hr hq b hb x, maybeass_iff_some_path g hg P t hr hq b hb x⟩

/-- fuel that always suffices for the assignment worklist -/
def assBound (g : Cfg) (P : AParams) : Nat :=
  (2 * (assPairs g P).length + 1) * (g.blocks.length + 1)

/-- **The assignment worklist terminates under every scheduler**, within `assBound` pops. -/
theorem assRun_terminates (g : Cfg) (hg : g.WF) (P : AParams) (sched : List Blk → Blk)
    (fuel : Nat) (hf : assBound g P ≤ fuel) :
    (assRun g P sched fuel (assInit g P)).isSome = true := by
  apply assRun_isSome g hg P sched fuel _ (atinv_init g hg P)
  refine Nat.le_trans ?_ hf
  unfold assPot assBound
  have h1 : (assPairs g P).countP (pendD (assInit g P).aftD) ≤ (assPairs g P).length := List.countP_le_length
  have h2 : (assPairs g P).countP (pendM P (assInit g P).aftM) ≤ (assPairs g P).length := List.countP_le_length
  have h3 := countP_queue_le g (assInit g P).queue
  calc _ ≤ (2 * (assPairs g P).length) * (g.blocks.length + 1) + g.blocks.length :=
        Nat.add_le_add (Nat.mul_le_mul_right _ (by omega)) h3
    _ ≤ _ := by rw [Nat.add_mul]; omega

/-- total correctness of the forward analysis -/
theorem assRun_total (g : Cfg) (hg : g.WF) (P : AParams) (sched : List Blk → Blk) :
    ∃ t, assRun g P sched (assBound g P) (assInit g P) = some t ∧
      ∀ b ∈ g.blocks, ∀ x,
        (x ∈ t.befD b ↔ x ∈ allVars g P ∧ ¬ NotDef g P x b) ∧
        (x ∈ t.befM b ↔ MaybePath g P x b ∨ (x ∈ P.entryMaybe ∧ InfBack g b)) := by
  have h := assRun_terminates g hg P sched _ (Nat.le_refl _)
  obtain ⟨t, ht⟩ := Option.isSome_iff_exists.mp h
  exact ⟨t, ht, fun b hb x => assRun_correct g hg P sched _ t ht b hb x⟩

/-! ## Non-vacuity: a CFG with a loop, a dummy edge into otherwise unreachable code, and a
    scheduler that is not index order; the hypotheses above are met and the runs terminate. -/

/-- 0 → 1 ⇄ 2, 1 → 3 (exit), dummy edge 0 ⇢ 4 → 3.  x=7 assigned in 0, used in 2; y=8 used in 4. -/
def exCfg : Cfg where
  blocks := [0, 1, 2, 3, 4]
  succ := fun b => match b with | 0 => [1] | 1 => [2, 3] | 2 => [1] | 4 => [3] | _ => []
  dsucc := fun b => match b with | 0 => [4] | _ => []
  pred := fun b => match b with | 1 => [0, 2] | 2 => [1] | 3 => [1, 4] | _ => []
  dpred := fun b => match b with | 4 => [0] | _ => []
  used := fun b => match b with | 2 => [7] | 4 => [8] | _ => []
  assigned := fun b => match b with | 0 => [7] | _ => []

theorem exCfg_wf : exCfg.WF := by
  refine ⟨?_, ?_, ?_⟩
  · intro b hb c hc
    simp only [exCfg, List.mem_cons, List.not_mem_nil, or_false] at hb
    rcases hb with rfl | rfl | rfl | rfl | rfl <;> simp [Edge, exCfg] at hc ⊢ <;>
      first | (rcases hc with rfl | rfl <;> decide) | (subst hc; decide)
  · intro b hb c hc
    simp only [exCfg, List.mem_cons, List.not_mem_nil, or_false] at hb
    rcases hb with rfl | rfl | rfl | rfl | rfl <;> simp [PEdge, exCfg] at hc ⊢ <;>
      first | (rcases hc with rfl | rfl <;> decide) | (subst hc; decide)
  · intro b c
    unfold Edge PEdge exCfg
    simp only
    constructor
    · intro h
      match b, h with
      | 0, h => simp at h; rcases h with rfl | rfl <;> simp
      | 1, h => simp at h; rcases h with rfl | rfl <;> simp
      | 2, h => simp at h; subst h; simp
      | 4, h => simp at h; subst h; simp
      | 3, h => simp at h
      | (n + 5), h => simp at h
    · intro h
      match c, h with
      | 1, h => simp at h; rcases h with rfl | rfl <;> simp
      | 2, h => simp at h; subst h; simp
      | 3, h => simp at h; rcases h with rfl | rfl <;> simp
      | 4, h => simp at h; subst h; simp
      | 0, h => simp at h
      | (n + 5), h => simp at h

example : (liveRun exCfg (fun q => q.getLast!) 50 (liveInit exCfg [])).isSome = true := by decide
example : ((liveRun exCfg (fun q => q.getLast!) 50 (liveInit exCfg [])).map (·.vals 0)) = some [8] := by
  decide
example : (assRun exCfg ⟨[], []⟩ (fun q => q.getLast!) 50 (assInit exCfg ⟨[], []⟩)).isSome = true := by
  decide
example : LivePath exCfg 8 0 :=
  .step (by decide) (show 4 ∈ exCfg.succ 0 ++ exCfg.dsucc 0 by decide) (.use (by decide))

end GuppyVerif.Dataflow
