import GuppyVerif.Lemmas.C17
/-! # C17 — Integer literals are range-checked and preserved exactly

Property theorems only.  The model (`Model/IntLit.lean`) mirrors `_int_bounds_check`,
`python_value_to_guppy_type`, the checker's constant / comptime cases, the builder's negative-literal
folding and the `IntVal` / `UnsignedIntVal` encodings; the ranges of the statement are the plain
decimal predicates `InIntRange` / `InNatRange` of `Spec/C17.lean`.  All theorems quantify over *all*
integers (no width bound on the literal). -/
namespace GuppyVerif.IntLit
open GuppyVerif.IntSem

/-- **C17 (int)**: an integer constant is accepted at type `int` iff it lies in [-2^63, 2^63-1] -/
theorem accept_int_iff (v : Int) : checkConst v .int = .ok .int ↔ InIntRange v := by
  unfold checkConst
  rw [show ((Kind.int == Kind.nat) = false) from rfl, valueType_no_hint]
  by_cases h : InIntRange v <;> simp [h, against]

/-- … and outside that range the outcome is `IntOverflowError`, nothing else -/
theorem reject_int_overflow (v : Int) (h : ¬ InIntRange v) : checkConst v .int = .overflow := by
  unfold checkConst
  rw [show ((Kind.int == Kind.nat) = false) from rfl, valueType_no_hint]
  simp [h]

/-- **C17 (nat)**: an integer constant is accepted at type `nat` iff it lies in [0, 2^64-1] -/
theorem accept_nat_iff (v : Int) : checkConst v .nat = .ok .nat ↔ InNatRange v := by
  unfold checkConst
  rw [show ((Kind.nat == Kind.nat) = true) from rfl, valueType_nat_hint]
  by_cases h0 : 0 ≤ v
  · by_cases h : InNatRange v <;> simp [h0, h, against]
  · have hn : ¬ InNatRange v := fun h => h0 h.1
    by_cases h : InIntRange v <;> simp [h0, h, hn, against, Kind.rank]

/-- how a constant is rejected at `nat`: negative ⇒ it is typed `int` (mismatch) unless it overflows `int`;
    too large ⇒ overflow -/
theorem reject_nat_class (v : Int) (h : ¬ InNatRange v) :
    checkConst v .nat = (if 0 ≤ v then .overflow else if InIntRange v then .mismatch else .overflow) := by
  unfold checkConst
  rw [show ((Kind.nat == Kind.nat) = true) from rfl, valueType_nat_hint]
  by_cases h0 : 0 ≤ v
  · simp [h0, h]
  · by_cases hi : InIntRange v <;> simp [h0, hi, against, Kind.rank]

/-- **C17 (comptime)**: `comptime(e)` evaluating to `v` is accepted at `int` / `nat` on the same ranges -/
theorem comptime_accept_iff (v : Int) (k : Kind) : checkComptime v k = .ok k ↔ AcceptAt v k := by
  unfold checkComptime AcceptAt
  cases k
  · rw [show ((Kind.nat == Kind.nat) = true) from rfl, valueType_nat_hint]
    by_cases h0 : 0 ≤ v
    · by_cases h : InNatRange v <;> simp [h0, h]
    · have hn : ¬ InNatRange v := fun h => h0 h.1
      by_cases h : InIntRange v <;> simp [h0, h, hn]
  · rw [show ((Kind.int == Kind.nat) = false) from rfl, valueType_no_hint]
    by_cases h : InIntRange v <;> simp [h]
  · rw [show ((Kind.float == Kind.nat) = false) from rfl, valueType_no_hint]
    by_cases h : InIntRange v <;> simp [h]

/-- **C17 (literal syntax)**: a literal `n` or a negated literal `-n` is accepted at `int` iff its Python
    value is in range (the builder folds `-n` into one constant *before* the range check). -/
theorem lit_accept_int_iff (n : Nat) :
    (checkLit (.pos n) .int = .ok .int ↔ InIntRange (Lit.pos n).pyVal) ∧
    (checkLit (.neg (.pos n)) .int = .ok .int ↔ InIntRange (Lit.neg (.pos n)).pyVal) := by
  exact ⟨accept_int_iff _, accept_int_iff _⟩

/-- … and at `nat` (so `-0` is a `nat`, `-1` is not) -/
theorem lit_accept_nat_iff (n : Nat) :
    (checkLit (.pos n) .nat = .ok .nat ↔ InNatRange (Lit.pos n).pyVal) ∧
    (checkLit (.neg (.pos n)) .nat = .ok .nat ↔ InNatRange (Lit.neg (.pos n)).pyVal) := by
  exact ⟨accept_nat_iff _, accept_nat_iff _⟩

/-- **C17 (`-9223372036854775808`)**: the most negative `int` is accepted as a literal although its
    magnitude alone overflows, and the compiled constant reads back as exactly that value. -/
theorem neg_fold_min :
    checkLit (.neg (.pos 9223372036854775808)) .int = .ok .int ∧
    checkLit (.pos 9223372036854775808) .int = .overflow ∧
    (evalFolded (fold (.neg (.pos 9223372036854775808)))).map BitVec.toInt = some (-9223372036854775808) := by
  decide

/-- **C17 (value, signed)**: on the accepted range the `ConstInt` payload emitted for an `int` constant
    exists, is a 64-bit value, and reads back (two's complement) as exactly `v`. -/
theorem encode_decode_int (v : Int) (h : InIntRange v) :
    ∃ u, payload v .int = some u ∧ u < 2 ^ 64 ∧ decodeS u = v := by
  obtain ⟨h1, h2⟩ := h
  unfold payload toUnsigned INT_WIDTH decodeS
  simp only [Nat.reduceShiftLeft, Nat.reduceSub]
  by_cases hneg : v < 0
  · refine ⟨((18446744073709551616 : Int) + v).toNat, ?_, ?_, ?_⟩
    · have : ¬ (v < -(9223372036854775808 : Int) ∨ v > 9223372036854775808 - 1) := by omega
      simp [hneg]; omega
    · omega
    · rw [BitVec.toInt_ofNat']
      have e : (((18446744073709551616 : Int) + v).toNat : Int) = 18446744073709551616 + v := by omega
      rw [e, Int.bmod_def]; simp only [Nat.reducePow, Int.cast_ofNat_Int]; omega
  · refine ⟨v.toNat, ?_, ?_, ?_⟩
    · simp [hneg]; omega
    · omega
    · rw [BitVec.toInt_ofNat']
      have e : (v.toNat : Int) = v := by omega
      rw [e, Int.bmod_def]; simp only [Nat.reducePow, Int.cast_ofNat_Int]; omega

/-- **C17 (value, unsigned)** -/
theorem encode_decode_nat (v : Int) (h : InNatRange v) :
    ∃ u, payload v .nat = some u ∧ u < 2 ^ 64 ∧ decodeU u = v := by
  obtain ⟨h1, h2⟩ := h
  refine ⟨v.toNat, ?_, ?_, ?_⟩
  · simp [payload, h1]
  · omega
  · unfold decodeU
    rw [BitVec.toNat_ofNat, Nat.mod_eq_of_lt (by omega)]; omega

/-- **C17 (accepted ⇒ preserved)**: whatever the checker accepts at `int`/`nat` is encoded and read back
    exactly (composition of the acceptance and encoding theorems). -/
theorem accepted_value_preserved (v : Int) (k : Kind) (h : checkConst v k = .ok k) (hk : k ≠ .float) :
    ∃ u, payload v k = some u ∧ u < 2 ^ 64 ∧ (match k with | .nat => decodeU u | _ => decodeS u) = v := by
  cases k
  · exact encode_decode_nat v ((accept_nat_iff v).mp h)
  · exact encode_decode_int v ((accept_int_iff v).mp h)
  · exact absurd rfl hk

/-- **C17 (literal value)**: an accepted (negated) literal evaluates to its Python value -/
theorem lit_value (l : Lit) (hl : (∃ n, l = .pos n) ∨ (∃ n, l = .neg (.pos n)))
    (h : checkLit l .int = .ok .int) :
    ∃ w, evalFolded (fold l) = some w ∧ w.toInt = l.pyVal := by
  have key : ∀ v : Int, InIntRange v → ∃ w, evalFolded (.const v) = some w ∧ w.toInt = v := by
    intro v hv
    obtain ⟨u, hu, _, hd⟩ := encode_decode_int v hv
    exact ⟨BitVec.ofNat 64 u, by simp [evalFolded, hu], hd⟩
  rcases hl with ⟨n, rfl⟩ | ⟨n, rfl⟩
  · exact key _ ((accept_int_iff _).mp h)
  · exact key _ ((accept_int_iff _).mp h)

/-- the type given to a comptime int under a hint equals the hint's kind exactly on the statement's range -/
theorem valueType_eq_iff (v : Int) (k : Kind) : valueType v (k == .nat) = some k ↔ AcceptAt v k := by
  have := comptime_accept_iff v k
  unfold checkComptime at this
  cases hv : valueType v (k == .nat) with
  | none => simpa [hv] using this
  | some act => by_cases hk : act = k <;> simpa [hv, hk] using this

/-- **C17 (tuple constants)**: `comptime((v₁,…,vₙ))` at `tuple[k₁,…,kₙ]` is accepted iff the lengths agree and
    every component is acceptable at its kind -/
theorem tuple_accept_iff (vs : List Int) (ks : List Kind) :
    (∃ k, checkComptimeTuple vs ks = .ok k) ↔ AllAccept vs ks := by
  induction vs generalizing ks with
  | nil =>
    cases ks with
    | nil => simp [checkComptimeTuple, AllAccept]
    | cons k ks => simp [checkComptimeTuple, AllAccept]
  | cons v vs ih =>
    cases ks with
    | nil => simp [checkComptimeTuple, AllAccept]
    | cons k ks =>
      have ih' := ih ks
      unfold AllAccept
      rw [← ih', ← valueType_eq_iff]
      rw [checkComptimeTuple]
      cases hv : valueType v (k == .nat) with
      | none => simp
      | some act =>
        cases hr : checkComptimeTuple vs ks with
        | ok k' => by_cases hk : act = k <;> simp [hk]
        | overflow => simp
        | mismatch => simp
        | incoherent => simp

/-- `listType` with a running element kind: accepted iff every element is typed that kind -/
theorem listType_ok_iff (hint : Bool) (vs : List Int) (k : Kind) :
    (∀ k', listType hint vs (some k) = .ok k' ↔ (k' = k ∧ ∀ v ∈ vs, valueType v hint = some k)) := by
  induction vs with
  | nil => intro k'; simp [listType]; exact eq_comm
  | cons v vs ih =>
    intro k'
    rw [listType]
    cases hv : valueType v hint with
    | none => simp [hv]
    | some t =>
      by_cases ht : t = k
      · subst ht; simp [ih, hv]
      · simp [ht, hv]

/-- **C17 (array constants)**: `comptime([v₁,…,vₙ])` at `frozenarray[k, n]` is accepted iff every element is
    acceptable at `k` -/
theorem list_accept_iff (vs : List Int) (k : Kind) :
    checkComptimeList vs k = .ok k ↔ ∀ v ∈ vs, AcceptAt v k := by
  cases vs with
  | nil => simp [checkComptimeList, listType]
  | cons v vs =>
    rw [checkComptimeList, listType]
    cases hv : valueType v (k == .nat) with
    | none =>
      have : ¬ AcceptAt v k := fun h => by rw [(valueType_eq_iff v k).mpr h] at hv; cases hv
      simp [this]
    | some t =>
      have hl := listType_ok_iff (k == .nat) vs t
      simp only [List.mem_cons, forall_eq_or_imp, ← valueType_eq_iff, hv]
      cases hr : listType (k == .nat) vs (some t) with
      | ok k' =>
        obtain ⟨rfl, hall⟩ := (hl k').mp hr
        by_cases ht : k' = k
        · subst ht; simp; exact hall
        · simp [ht]
      | overflow | mismatch | incoherent =>
        simp only [false_iff, reduceCtorEq]
        rintro ⟨ht, h⟩
        have ht' : t = k := Option.some.inj ht
        subst ht'
        have := (hl t).mpr ⟨rfl, h⟩
        rw [hr] at this; cases this

/-- the literal iff above is stated for 0 or 1 minus signs only: with two, it is FALSE of the code — only the innermost
    minus folds, the outer one is a run-time `ineg`, so `-(-9223372036854775808)` is accepted although its Python value
    `2^63` is out of range (it evaluates to `wrapS (2^63) = -2^63`: C04's wrap-around of an expression, not a literal) -/
theorem deeper_negation_not_range_checked :
    checkLit (.neg (.neg (.pos 9223372036854775808))) .int = .ok .int ∧
    ¬ InIntRange (Lit.neg (.neg (.pos 9223372036854775808))).pyVal ∧
    (evalFolded (fold (.neg (.neg (.pos 9223372036854775808))))).map BitVec.toInt = some (-9223372036854775808) := by
  decide

/-! ## non-vacuity / concrete instances -/
example : checkConst 9223372036854775807 .int = .ok .int := by decide
example : checkConst 9223372036854775808 .int = .overflow := by decide
example : checkConst (-9223372036854775809) .int = .overflow := by decide
example : checkConst 18446744073709551615 .nat = .ok .nat := by decide
example : checkConst 18446744073709551616 .nat = .overflow := by decide
example : checkConst (-1) .nat = .mismatch := by decide
example : checkLit (.neg (.pos 0)) .nat = .ok .nat := by decide
example : payload (-1) .int = some 18446744073709551615 := by decide
example : decodeS 18446744073709551615 = -1 := by decide
example : decodeU 18446744073709551615 = 18446744073709551615 := by decide
example : InIntRange (-9223372036854775808) := by decide
example : ∃ k, checkComptimeTuple [-5, 7] [.int, .nat] = .ok k := ⟨.int, by decide⟩
example : checkComptimeList [1, 18446744073709551615] .nat = .ok .nat := by decide
example : checkComptimeList [1, -1] .nat = .incoherent := by decide
/-- deeper negations are *expressions*: only the innermost minus folds, the outer one is `ineg` at run time,
    so `-(-9223372036854775808)` is accepted and evaluates to `wrapS (2^63) = -2^63` (C04's wrap-around,
    not a literal) -/
example : checkLit (.neg (.neg (.pos 9223372036854775808))) .int = .ok .int ∧
    (evalFolded (fold (.neg (.neg (.pos 9223372036854775808))))).map BitVec.toInt = some (-9223372036854775808) := by
  decide

end GuppyVerif.IntLit
