import GuppyVerif.Lemmas.C31
import GuppyVerif.Lemmas.C31Names
/-! # C31 — Printed types read back as the same type; distinct variables get distinct names

Property theorems only.  Model: `Model/Print.lean` (the REPAIRED `TypePrinter`, CPython's expression
parser on the printed fragment, `type_from_ast`/`arg_from_ast`/`check_all_args`); vocabulary:
`Spec/C31.lean`; helpers: `Lemmas/C31.lean`, `Lemmas/C31Names.lean`.

Full statement of the round trip (as in properties.jsonl): *for every type without function
components the printed string parses back to the same type*.  It is FALSE of the code for constant
arguments that cannot be written in an annotation (an `int`-typed value, a negative number, `inf`,
`nan`: `roundtrip_false_int_const`, `roundtrip_false_negative`, `roundtrip_false_inf`), so the
theorem carries the hypothesis `WFTy` (constants are nat / bool / non-negative finite float values or
free constant variables) and is named `_partial`. -/
namespace GuppyVerif.Print

/-- **C31 (round trip)**: for every well-formed first-order type — no function component, no
    existential variable; definitions resolvable under their own name and arguments kind-correct;
    nat / bool / non-negative-float constants; free bound variables named by the parameter context —
    reading the printed tokens back (`ast.parse`, then `type_from_ast`) succeeds and yields the type
    with its `preserve` flags cleared, which Python's `==` (`Ty.beq`) identifies with the type itself.
    `hcd`: the copy/drop classification does not depend on `preserve` (true of the model's classifier:
    `classify_ignores_preserve`). -/
theorem parse_print_partial (W : World) (hcd : W.cd.IgnoresPreserve) (t : Ty) (h : WFTy W t) :
    readToks W.env W.ctx W.cd (printToks t) = .ok (normTy t) ∧ Ty.beq (normTy t) t = true :=
  ⟨readToks_print W hcd t h, beq_norm_ty t⟩

/-- the two stages separately: CPython's parser yields the expression `astTy t` … -/
theorem parse_print_stage1 (W : World) (t : Ty) (h : WFTy W t) : parseToks (printToks t) = .ok (astTy t) :=
  parseToks_print W t h

/-- … and `type_from_ast` maps that expression to the type -/
theorem parse_print_stage2 (W : World) (hcd : W.cd.IgnoresPreserve) (t : Ty) (h : WFTy W t) :
    typeFromAst W.env W.ctx W.cd (astTy t) = .ok (normTy t) := by
  simp [typeFromAst, read_ty W hcd t h, asType]

/-- the model's own classifier (`Type.copyable` / `Type.droppable`) satisfies `hcd` -/
theorem classify_ignores_preserve (env : Env) : (classify env).IgnoresPreserve :=
  classify_ignoresPreserve env

/-! ### non-vacuity: a concrete world and type satisfying the hypotheses -/
def exEnv : Env where
  defs := fun s =>
    if s = "int" then some (.num .int)
    else if s = "nat" then some (.num .nat)
    else if s = "bool" then some (.opaque "bool" [] false false false)
    else if s = "array" then
      some (.opaque "array" [.ty 0 "T" false false, .const 1 "n" (.num .nat) false] true false false)
    else if s = "Option" then some (.opaque "Option" [.ty 0 "T" false false] false false false)
    else if s = "G2" then
      some (.struct "G2" [.ty 0 "T" true false, .const 1 "n" (.num .nat) false]
        [.opaque "array" [.ty (.bvar "T" 0 true false), .const (.bvar (.num .nat) "n" 1)]])
    else if s = "Si" then some (.struct "Si" [.const 0 "x" (.num .int) false] [.num .int])
    else if s = "Sf" then some (.struct "Sf" [.const 0 "x" (.num .float) false] [.num .int])
    else none
  lists := false

def exCtx : Ctx := fun s =>
  if s = "T" then some (.ty 0 "T" true true) else if s = "k" then some (.const 1 "k" (.num .nat) false) else none

def exWorld : World := ⟨exEnv, exCtx, classify exEnv⟩

/-- `Option[((int,), G2[T, k], array[bool, 3]),]` over the context `T: Copy+Drop, k: nat` -/
def exTy : Ty :=
  .opaque "Option" [.ty (.tuple
    [.tuple [.num .int] true,
     .struct "G2" [.ty (.bvar "T" 0 true true), .const (.bvar (.num .nat) "k" 1)]
       [.opaque "array" [.ty (.bvar "T" 0 true false), .const (.bvar (.num .nat) "n" 1)]],
     .opaque "array" [.ty boolTy, .const (.val (.num .nat) (.int 3))]] false)]

example : WFTy exWorld exTy := by
  simp [exTy, exWorld, exEnv, exCtx, WFTy, WFTys, WFArg, WFArgs, WFConst, ArgsFit, ParamFits, GroundConstTy,
    constTy, kindName, boolTy, classify, cls, clsTys, clsArgs, clsArgList, band2, Env.intrinsic]
  exact ⟨3, rfl⟩

example : (printStr exTy) = some "Option[((int,), G2[T, k], array[bool, 3]),]" := by decide

example : readToks exEnv exCtx (classify exEnv) (printToks exTy) = .ok (normTy exTy) :=
  (parse_print_partial exWorld (classify_ignores_preserve exEnv) exTy (by
    simp [exTy, exWorld, exEnv, exCtx, WFTy, WFTys, WFArg, WFArgs, WFConst, ArgsFit, ParamFits, GroundConstTy,
      constTy, kindName, boolTy, classify, cls, clsTys, clsArgs, clsArgList, band2, Env.intrinsic]
    exact ⟨3, rfl⟩)).1

/-! ### the full statement is false of the code: constants that cannot be written back -/
/-- the error a read-back ends with, if any -/
def errOf : Except PErr Ty → Option PErr
  | .error e => some e
  | .ok _ => none

/-- `Si[5]` with an `int`-typed 5: printed `Si[5]`, read back as a `nat` 5, rejected (TypeMismatchError) -/
theorem roundtrip_false_int_const :
    errOf (readToks exEnv exCtx (classify exEnv)
      (printToks (.struct "Si" [.const (.val (.num .int) (.int 5))] [.num .int]))) = some .typeMismatch := by
  decide

/-- `Si[-1]`: `-1` is a `UnaryOp`, no type argument (InvalidTypeArgError) -/
theorem roundtrip_false_negative :
    errOf (readToks exEnv exCtx (classify exEnv)
      (printToks (.struct "Si" [.const (.val (.num .int) (.int (-1)))] [.num .int]))) = some .invalidTypeArg := by
  decide

/-- `Sf[inf]`: `inf` is read as a name (VarNotDefinedError) -/
theorem roundtrip_false_inf :
    errOf (readToks exEnv exCtx (classify exEnv)
      (printToks (.struct "Sf" [.const (.val (.num .float) (.float "inf"))] [.num .int]))) = some .varNotDefined := by
  decide

/-! ## Names -/

/-- **C31 (names)**: in the printed form of a closed generic function type of rank 1 (repeated
    parameter names, comptime-generated parameters and existential variables allowed; all display names
    identifier-like, i.e. without `'` and `?`), or of any non-generic type whose free bound variables are
    named by a context of pairwise distinct names, two variable occurrences carry the same printed name
    iff they are the same variable (same de Bruijn index / same existential id). -/
theorem distinct_vars_distinct_names (ctxNames : List String) (t : Ty) (h : NamesOK ctxNames t) :
    ∀ o1 ∈ varOccs (printToks t), ∀ o2 ∈ varOccs (printToks t), (o1.2 = o2.2 ↔ o1.1 = o2.1) := by
  cases t with
  | func ins o ps cs =>
    simp only [NamesOK] at h
    rcases h with ⟨hne, hps, hins, ho⟩ | h
    · exact names_generic ins o ps cs hne hps hins ho
    · exact names_open ctxNames _ h
  | num k => exact names_open ctxNames _ (by simpa [NamesOK] using h)
  | none p => exact names_open ctxNames _ (by simpa [NamesOK] using h)
  | bvar n i c d => exact names_open ctxNames _ (by simpa [NamesOK] using h)
  | evar n i c d => exact names_open ctxNames _ (by simpa [NamesOK] using h)
  | tuple ts p => exact names_open ctxNames _ (by simpa [NamesOK] using h)
  | «opaque» n as => exact names_open ctxNames _ (by simpa [NamesOK] using h)
  | struct n as fs => exact names_open ctxNames _ (by simpa [NamesOK] using h)

/-- **C31 (fresh names)**: the names `_fresh_name` hands out for any list of display names
    (`T`, `T'1`, `T'2`, …) are pairwise distinct, one per display name — provided display names never
    contain `'` (they are Python identifiers). -/
theorem fresh_names_nodup (ds : List String) (h : ∀ d ∈ ds, NoQuote d) :
    (pushParams .init ds).bound.Nodup ∧ (pushParams .init ds).bound.length = ds.length :=
  fresh_bound NoQuote (fun _ hd => hd) ds h

/-- the hypothesis of `fresh_names_nodup` is needed: a display name containing a quote can collide -/
theorem fresh_names_quote_collision : ¬ (pushParams .init ["T", "T", "T'1"]).bound.Nodup := by decide

/-- `forall T, T'1, n. (T @owned, ?T'2) -> (T'1, ?T'2, array[?T'3, n])`: three parameters two of which are
    called `T`, two existential variables also called `T` -/
def exFn : Ty :=
  .func [.mk (.bvar "T" 0 false false) ⟨false, true, false⟩, .mk (.evar "T" 7 true true) ⟨false, false, false⟩]
    (.tuple [.bvar "T" 1 true true, .evar "T" 7 true true,
      .opaque "array" [.ty (.evar "T" 9 true true), .const (.bvar (.num .nat) "n" 2)]] false)
    [.ty 0 "T" false false, .ty 1 "T" true true, .const 2 "n" (.num .nat) false] []

example : printStr exFn = some "forall T, T'1, n: nat. (T @owned, ?T'2) -> (T'1, ?T'2, array[?T'3, n])" := by
  decide

example : NamesOK [] exFn := by
  refine Or.inl ⟨by simp, ?_, ?_, ?_⟩ <;>
    simp [ParamsOK, paramName, paramIdx, paramTyBody, Body, BodyTys, BodyIns, BodyIn, BodyArgs, BodyArg,
      BodyConst, IdentLike, NoQuote]

example : ∀ d ∈ ["T", "T", "n", "T"], NoQuote d := by simp [NoQuote]

/-- the closedness hypothesis is needed: a generic function type mentioning a variable beyond its own
    parameters prints that variable with its bare display name (`forall T. T -> T`, two variables) -/
theorem names_false_for_open_generic :
    let t : Ty := .func [.mk (.bvar "T" 0 false false) ⟨false, false, false⟩] (.bvar "T" 1 false false)
      [.ty 0 "T" false false] []
    (.bound 0, "T") ∈ varOccs (printToks t) ∧ (.bound 1, "T") ∈ varOccs (printToks t) := by
  decide

/-! ## Round 6: existential variables of both kinds, ids from the session allocator -/

theorem alloc_run_ge (ks : List EKind) : ∀ (a : Alloc), ∀ x ∈ a.run ks, a.next ≤ x.2 := by
  induction ks with
  | nil => intro a x hx; simp [Alloc.run] at hx
  | cons k ks ih =>
    intro a x hx
    simp only [Alloc.run, List.mem_cons] at hx
    rcases hx with rfl | hx
    · simp
    · have := ih ⟨a.next + 1⟩ x hx
      simp at this; omega

/-- **C31 (allocator)**: any sequence of `.fresh` calls of either kind on the shared counter hands out
    pairwise distinct ids — in particular a type variable and a const variable never share an id. -/
theorem fresh_ids_distinct_across_kinds (ks : List EKind) : ∀ (a : Alloc), ((a.run ks).map (·.2)).Nodup := by
  induction ks with
  | nil => intro a; simp [Alloc.run]
  | cons k ks ih =>
    intro a
    simp only [Alloc.run, List.map_cons, List.nodup_cons, List.mem_map, not_exists, not_and]
    refine ⟨?_, ih _⟩
    intro x hx e
    have := alloc_run_ge ks ⟨a.next + 1⟩ x hx
    simp at this; omega

theorem evarOccs_sub : ∀ (toks : List Tok) (o : EKind × Nat × String), o ∈ evarOccs toks →
    (VarId.exist o.2.1, o.2.2) ∈ varOccs toks
  | [], o, h => by simp [evarOccs] at h
  | t :: r, o, h => by
      cases t with
      | evar s id c =>
        simp only [evarOccs, List.mem_cons] at h
        simp only [varOccs, List.mem_cons]
        rcases h with rfl | h
        · exact Or.inl rfl
        · exact Or.inr (evarOccs_sub r o h)
      | ident s v =>
        simp only [evarOccs] at h
        cases v <;> simp only [varOccs, List.mem_cons] <;> first
          | exact evarOccs_sub r o h
          | exact Or.inr (evarOccs_sub r o h)
      | _ => simp only [evarOccs] at h; simp only [varOccs]; exact evarOccs_sub r o h

/-- **C31 (names, both kinds)**: if the existential variables of `t` (type AND const variables) were
    handed out by one run of the shared allocator — explicit hypothesis: ids are unique across kinds —
    then two existential occurrences in the printed form carry the same name iff they are the same
    variable, a variable being (kind, id).  In particular `?T` never stands for a type variable and a
    const variable at once.  Without the hypothesis this is false: `per_kind_counters_share_a_name`. -/
theorem evars_of_both_kinds_distinct_names (ctxNames : List String) (t : Ty) (h : NamesOK ctxNames t)
    (a : Alloc) (ks : List EKind)
    (halloc : ∀ o ∈ evarOccs (printToks t), (o.1, o.2.1) ∈ a.run ks) :
    ∀ o1 ∈ evarOccs (printToks t), ∀ o2 ∈ evarOccs (printToks t),
      (o1.2.2 = o2.2.2 ↔ (o1.1, o1.2.1) = (o2.1, o2.2.1)) := by
  intro o1 h1 o2 h2
  have hn := distinct_vars_distinct_names ctxNames t h _ (evarOccs_sub _ o1 h1) _ (evarOccs_sub _ o2 h2)
  simp only [VarId.exist.injEq] at hn
  rw [hn]
  constructor
  · intro e
    have m1 := halloc o1 h1
    have m2 := halloc o2 h2
    have hnd := fresh_ids_distinct_across_kinds ks a
    have := nodup_map_inj (·.2) _ hnd _ m1 _ m2 e
    exact this
  · intro e; exact congrArg Prod.snd e

/-- with one counter per kind (the seeded variant) the first type variable and the first const
    variable both get id 0 … -/
theorem per_kind_counters_collide :
    Alloc2.run ⟨0, 0⟩ [.ty, .const] = [(.ty, 0), (.const, 0)] := by decide

/-- … and `array[?T, ?n]` built from them prints as `array[?T, ?T]`: one name for two variables -/
theorem per_kind_counters_share_a_name :
    let t : Ty := .opaque "array" [.ty (.evar "T" 0 true true), .const (.evar (.num .nat) "n" 0)]
    printStr t = some "array[?T, ?T]" ∧
      evarOccs (printToks t) = [(.ty, 0, "?T"), (.const, 0, "?T")] := by decide

/-- non-vacuity: the shared allocator gives `?T` and `?n` different ids and they print apart -/
example :
    let t : Ty := .opaque "array" [.ty (.evar "T" 0 true true), .const (.evar (.num .nat) "T" 1)]
    (Alloc.run ⟨0⟩ [.ty, .const] = [(.ty, 0), (.const, 1)]) ∧ printStr t = some "array[?T, ?T'1]" := by decide

end GuppyVerif.Print
