import GuppyVerif.Lemmas.C06Crash
/-! # C06 — Linearity: qubits are used exactly once on every path

Property theorems only.  `checkCfg` (Model/Linearity.lean) is the model of
`check_cfg_linearity` with its two passes; `Good` (Spec/C06.lean) is the ownership semantics
over CFG paths.  All statements are for **every** program of the core fragment: any CFG
(`Prog.WF`), statements given as the visitor's sequence of place-level actions (so nested call
expressions with their order of consumption are covered), any decomposition of places into
leaves (struct fields, tuple elements, nested), and **kinds that belong to bindings, not to
names**: a variable may be re-bound at a type of the other kind (`Prog.KindsOK` = the CFG is
well-kinded, what the type checker establishes).  No size bound.  The place-level liveness
inside `checkCfg` is the C09 worklist, characterised by `liveRun_correct` for any scheduler. -/
namespace GuppyVerif.Linearity

theorem blockEvs_nil_of_not_mem {P : Prog} {l : Leaf} (hl : l ∉ P.leafIds) {b : Blk} (hb : b ∈ P.blocks) :
    P.blockEvs l b = [] := by
  unfold Prog.leafIds at hl
  simp only [List.mem_append, List.mem_flatMap, not_or, not_exists, not_and] at hl
  obtain ⟨hbl, hrest⟩ := hl
  unfold Prog.blockEvs
  have h1 : (P.stmts b).flatMap (Stmt.evs l) = [] := by
    rw [List.flatMap_eq_nil_iff]
    intro st hst
    have hst' := (hrest b hb).2 st hst
    unfold Stmt.evs
    rw [List.append_eq_nil_iff, List.flatMap_eq_nil_iff, List.flatMap_eq_nil_iff]
    constructor
    · intro a ha
      have := hst'.1 a ha
      cases a with
      | use p borrow =>
        simp only [Act.evs, leafEvs_eq_nil]
        intro xk hxk e
        exact this (List.mem_map.mpr ⟨xk, hxk, e⟩)
      | give p =>
        simp only [Act.evs, leafEvs_eq_nil]
        intro xk hxk e
        exact this (List.mem_map.mpr ⟨xk, hxk, e⟩)
      | dropAfter => rfl
      | moveOut => rfl
    · intro t ht
      rw [leafEvs_eq_nil]
      intro xk hxk e
      exact hst'.2 t ht (List.mem_map.mpr ⟨xk, hxk, e⟩)
  rw [h1]
  simp [hbl]

theorem kindsOK_of_b {P : Prog} (hw : P.WF) (h : P.kindsOKb = true) : P.KindsOK := by
  unfold Prog.kindsOKb at h
  simp only [Bool.and_eq_true, List.all_eq_true, List.contains_iff_mem] at h
  obtain ⟨h1, h2⟩ := h
  refine ⟨fun b hb l hl => h1 b hb l hl, ?_⟩
  intro l b hb
  by_cases hl : l ∈ P.leafIds
  · have := h2 l hl b hb
    cases hk : krun (P.rowKind b l) (P.blockEvs l b) with
    | none => simp [hk] at this
    | some k =>
      simp only [hk, List.all_eq_true] at this
      refine ⟨k, rfl, ?_⟩
      intro c hc hrow
      have := this c hc
      simpa [hrow] using this
  · refine ⟨P.rowKind b l, by rw [blockEvs_nil_of_not_mem hl hb]; rfl, ?_⟩
    intro c hc hrow
    exfalso
    apply hl
    unfold Prog.leafIds
    simp only [List.mem_append, List.mem_flatMap]
    exact Or.inr ⟨c, hw.closed b hb c hc, Or.inl hrow⟩

/-- **Soundness.**  If the checker accepts a well-kinded CFG, then on every path from the entry
    (finite or not), for every leaf: a linear binding is used only while its value is held, no
    binding — of whatever kind — is assigned while a linear value is held under the leaf, the
    borrowed leaves and nothing else are held when the exit is reached, a held value always has
    a continuation that reads it (no leak, also in loops that never terminate; a borrowed leaf
    may idle on a path that never returns); and no whole borrowed variable is moved, consumed,
    returned or reassigned, no linear result discarded, no unnamed linear value lent, in
    reachable code. -/
theorem lin_sound (P : Prog) (hw : P.WF) (hk : P.KindsOK) (h : checkCfg P = .ok ()) : Good P := by
  obtain ⟨C⟩ := cert_of_accept hw.closed h
  refine ⟨fun l => leafGood hw hk C.toPreCert C.edges, ?_⟩
  rintro b ⟨bs, hwk⟩
  exact static_ok hw C.toPreCert (walk_blocks hw hwk)

/-- The same in terms of what the line-protocol driver evaluates on every extracted CFG. -/
theorem lin_sound_exec (P : Prog) (hw : P.wfb = true) (hk : P.kindsOKb = true) (h : accepts P = true) :
    Good P :=
  lin_sound P (wf_of_wfb hw) (kindsOK_of_b (wf_of_wfb hw) hk) (accepts_iff.mp h)

/-- every place of the program is a variable that is its own single leaf (no tuple / struct
    typed variables, no field access): the first stage of the design -/
def Place.IsVar (p : Place) : Prop := p.isLeaf = true ∧ ∃ x k, p.leaves = [(x, k)] ∧ p.var = some x

def Act.VarsOnly : Act → Prop
  | .use p _ => p.IsVar
  | .give p => p.IsVar
  | .dropAfter => True
  | .moveOut => True

def Stmt.VarsOnly (st : Stmt) : Prop := (∀ a ∈ st.acts, a.VarsOnly) ∧ ∀ p ∈ st.tgts, p.IsVar

/-- Soundness for the variable-only fragment (a special case of `lin_sound`). -/
theorem lin_sound_vars (P : Prog) (hw : P.WF) (hk : P.KindsOK) (_hv : ∀ b, ∀ st ∈ P.stmts b, st.VarsOnly)
    (h : checkCfg P = .ok ()) : Good P :=
  lin_sound P hw hk h

/-- **The place-level liveness inside the checker terminates**, for every program, every scope
    table and every visiting order, within the fuel the model grants (an instance of the C09
    theorem `liveRun_terminates`). -/
theorem live_terminates (P : Prog) (hw : P.WF) (sc : Blk → Scope) (init : List Leaf) (sched : List Blk → Blk) :
    (Dataflow.liveRun (flowCfg P sc) sched (liveFuel (flowCfg P sc) init)
      (Dataflow.liveInit (flowCfg P sc) init)).isSome = true :=
  liveRun_flow_isSome P hw.closed sc init sched

/-! ## Completeness

Full statement (kept for reference; it is **false of the code**, see `lin_complete_false_G1/G2`):
`P.WF → P.KindsOK → (every block but the exit is reachable) → Good P → checkCfg P = .ok ()`. -/

/-- **Completeness (partial: `NoGap`).**  Every path good, ownership rules respected, CFG
    well-kinded, outside the two known gaps of the code ⇒ the checker accepts: no
    `AlreadyUsedError`, `PlaceNotUsedError`, `NotOwnedError`, `BorrowShadowedError`,
    `BorrowSubPlaceUsedError`, `UnnamedExprNotUsedError`, `DropAfterCallError`, no internal
    error, no fuel exhaustion. -/
theorem lin_complete_partial (P : Prog) (hw : P.WF) (hk : P.KindsOK)
    (hr : ∀ b ∈ P.blocks, b ≠ P.exit → Reachable P b) (hgap : NoGap P) (hg : Good P) :
    checkCfg P = .ok () := by
  cases h : checkCfg P with
  | ok u => cases u; rfl
  | error e =>
    have := checkCfg_no_user_err hw hk hr hgap hg h
    subst this
    exact absurd h (checkCfg_no_crash hw hk hg hgap)

/-- Completeness for the variable-only fragment (a special case of `lin_complete_partial`). -/
theorem lin_complete_vars_partial (P : Prog) (hw : P.WF) (hk : P.KindsOK)
    (_hv : ∀ b, ∀ st ∈ P.stmts b, st.VarsOnly)
    (hr : ∀ b ∈ P.blocks, b ≠ P.exit → Reachable P b) (hgap : NoGap P) (hg : Good P) :
    checkCfg P = .ok () :=
  lin_complete_partial P hw hk hr hgap hg

/-- On a well-kinded CFG the block signatures cover what is read (no separate hypothesis). -/
theorem kinds_cover_rows (P : Prog) (hw : P.WF) (hk : P.KindsOK) :
    ∀ b ∈ P.blocks, ∀ l, WillUse P l b → l ∈ P.row b :=
  fun _ hb _ h => willUse_row hw hk hb h

/-! ## Non-vacuity: a borrowed struct `s` (leaves 0, 1), an owned qubit `q` (2), a bool `c` (3).
    ```
    def f(s: S, q: qubit @owned, c: bool) -> qubit:
        x = s.a            # block 0     (x = leaf 4)
        if c: use(x); s.a = mk()   # block 2
        else: s.a = x              # block 3
        while c: bor(q)    # blocks 4 (head), 5 (body)
        return q           # block 6; exit = block 1
    ``` -/

def pl (x : Leaf) (k : Bool := true) : Place := ⟨[(x, k)], none, true⟩
def vr (v : Var) (x : Leaf) (k : Bool := true) : Place := ⟨[(x, k)], some v, true⟩
def stUse (ps : List Place) : Stmt := ⟨ps.map fun p => Act.use p false, [], false⟩
def stMove (tgts srcs : List Place) : Stmt := ⟨srcs.map fun p => Act.use p false, tgts, false⟩

def exProg : Prog where
  borrowedVars := [0]
  borrowedLeaves := [0, 1]
  blocks := [0, 1, 2, 3, 4, 5, 6]
  entry := 0
  exit := 1
  exitReachable := true
  row := fun b => match b with | 0 => [0, 1, 2, 3] | 1 => [0, 1] | _ => [0, 1, 2, 3, 4]
  rowLin := fun b => match b with | 0 => [0, 1, 2] | 1 => [0, 1] | _ => [0, 1, 2, 4]
  stmts := fun b => match b with
    | 0 => [stMove [vr 3 4] [pl 0], stUse [vr 2 3 false]]
    | 2 => [stUse [vr 3 4], stMove [pl 0] []]
    | 3 => [stMove [pl 0] [vr 3 4]]
    | 4 => [stUse [vr 2 3 false]]
    | 5 => [⟨[.use (vr 1 2) true, .give (vr 1 2)], [], false⟩]
    | 6 => [stUse [vr 1 2]]
    | _ => []
  succ := fun b => match b with | 0 => [3, 2] | 2 => [4] | 3 => [4] | 4 => [6, 5] | 5 => [4] | 6 => [1] | _ => []

theorem exProg_wfb : exProg.wfb = true := by decide +kernel
theorem exProg_wf : exProg.WF := wf_of_wfb exProg_wfb
theorem exProg_kinds : exProg.KindsOK := kindsOK_of_b exProg_wf (by decide +kernel)

example : accepts exProg = true := by decide +kernel
example : Good exProg := lin_sound_exec exProg exProg_wfb (by decide +kernel) (by decide +kernel)

/-- forgetting to put the field back is rejected -/
def exBad : Prog := { exProg with stmts := fun b => if b = 3 then [] else exProg.stmts b }
example : (match checkCfg exBad with | .error e => some e | .ok _ => none) = some (.usedThenLive true) := by
  decide +kernel

/-- and the specification has teeth: `exBad` is not good — on the path 0 → 3 → 4 → 6 → exit the
    borrowed field `s.a` (leaf 0) has been moved out when it should be handed back -/
example : ¬ Good exBad := by
  intro hg
  have w0 : Walk exBad [] 0 := Walk.entry
  have w3 : Walk exBad [0] 3 := Walk.step w0 (by decide)
  have w4 : Walk exBad [0, 3] 4 := Walk.step w3 (by decide)
  have w6 : Walk exBad [0, 3, 4] 6 := Walk.step w4 (by decide)
  have w1 : Walk exBad [0, 3, 4, 6] 1 := Walk.step w6 (by decide)
  exact (hg.leaves 0).noBadUse _ _ w1 (by decide)

theorem exProg_reach : ∀ b ∈ exProg.blocks, b ≠ exProg.exit → Reachable exProg b := by
  have w0 : Walk exProg [] 0 := Walk.entry
  have w3 : Walk exProg [0] 3 := Walk.step w0 (by decide)
  have w2 : Walk exProg [0] 2 := Walk.step w0 (by decide)
  have w4 : Walk exProg [0, 2] 4 := Walk.step w2 (by decide)
  have w5 : Walk exProg [0, 2, 4] 5 := Walk.step w4 (by decide)
  have w6 : Walk exProg [0, 2, 4] 6 := Walk.step w4 (by decide)
  intro b hb hne
  simp only [exProg, List.mem_cons, List.not_mem_nil, or_false] at hb
  rcases hb with rfl | rfl | rfl | rfl | rfl | rfl | rfl
  · exact ⟨_, w0⟩
  · exact absurd rfl hne
  · exact ⟨_, w2⟩
  · exact ⟨_, w3⟩
  · exact ⟨_, w4⟩
  · exact ⟨_, w5⟩
  · exact ⟨_, w6⟩

theorem exProg_noGap : NoGap exProg := by
  right
  refine ⟨rfl, ?_⟩
  have r1 : ReachExit exProg 1 := ReachExit.exit
  have r6 : ReachExit exProg 6 := ReachExit.step (c := 1) (by decide) r1
  have r4 : ReachExit exProg 4 := ReachExit.step (c := 6) (by decide) r6
  have r5 : ReachExit exProg 5 := ReachExit.step (c := 4) (by decide) r4
  have r2 : ReachExit exProg 2 := ReachExit.step (c := 4) (by decide) r4
  have r3 : ReachExit exProg 3 := ReachExit.step (c := 4) (by decide) r4
  have r0 : ReachExit exProg 0 := ReachExit.step (c := 2) (by decide) r2
  intro b hb
  simp only [exProg, List.mem_cons, List.not_mem_nil, or_false] at hb
  rcases hb with rfl | rfl | rfl | rfl | rfl | rfl | rfl <;> assumption

example : checkCfg exProg = .ok () :=
  lin_complete_partial exProg exProg_wf exProg_kinds exProg_reach exProg_noGap
    (lin_sound exProg exProg_wf exProg_kinds (accepts_iff.mp (by decide +kernel)))

/-! ## Non-vacuity for re-binding (the shape of fix 0c7baf7) and nested calls

    ```
    def f(q: qubit @owned, c: bool, r: qubit @owned) -> bool:   # q = leaf 0, c = 1, r = 3
        if c: pass                   # block 0 -> 2 | 3 -> 4
        b = measure(idq(q))          # block 4: nested call; b = leaf 2
        q = 1                        #          `q` re-bound at type int
        use2(r, mk())                #          nested call as second argument
        return b                     # exit = block 1
    ``` -/

def rebindProg : Prog where
  borrowedVars := []
  borrowedLeaves := []
  blocks := [0, 1, 2, 3, 4]
  entry := 0
  exit := 1
  exitReachable := true
  row := fun b => match b with | 0 => [0, 1, 3] | 1 => [] | _ => [0, 3]
  rowLin := fun b => match b with | 0 => [0, 3] | 1 => [] | _ => [0, 3]
  stmts := fun b => match b with
    | 0 => [stUse [vr 1 1 false]]
    | 4 => [stMove [vr 2 2 false] [vr 0 0], stMove [vr 0 0 false] [], stUse [vr 3 3], stUse [vr 2 2 false]]
    | _ => []
  succ := fun b => match b with | 0 => [3, 2] | 2 => [4] | 3 => [4] | 4 => [1] | _ => []

theorem rebindProg_wfb : rebindProg.wfb = true := by decide +kernel
example : Good rebindProg :=
  lin_sound_exec rebindProg rebindProg_wfb (by decide +kernel) (by decide +kernel)

/-! ## Non-vacuity for subscript borrows of a linear array

    ```
    def f(qs: array[qubit, 2], i: int) -> None:     # qs borrowed: one linear leaf 0; i = leaf 1
        h(qs[i])        # visit i; bind %tmp0 (leaf 2); __getitem__(qs, %tmp0): lend qs, hand back;
                        # after the call: bind %tmp1 (leaf 3); __setitem__(qs, %tmp0, %tmp1); hand qs back
    ``` -/

def arr : Place := vr 0 0
def tmp (x : Leaf) : Place := ⟨[(x, false)], some x, true⟩

def subscriptProg : Prog where
  borrowedVars := [0]
  borrowedLeaves := [0]
  blocks := [0, 1]
  entry := 0
  exit := 1
  exitReachable := true
  row := fun b => match b with | 0 => [0, 1] | _ => [0]
  rowLin := fun _ => [0]
  stmts := fun b => match b with
    | 0 => [⟨[.use (vr 1 1 false) false, .give (tmp 2), .use arr true, .use (tmp 2) false, .give arr,
              .give (tmp 3), .use arr true, .use (tmp 2) false, .use (tmp 3) false, .give arr, .give arr], [], false⟩]
    | _ => []
  succ := fun b => match b with | 0 => [1] | _ => []

theorem subscriptProg_wfb : subscriptProg.wfb = true := by decide +kernel
example : Good subscriptProg :=
  lin_sound_exec subscriptProg subscriptProg_wfb (by decide +kernel) (by decide +kernel)

/-- moving the element out instead is rejected -/
def subscriptBad : Prog := { subscriptProg with stmts := fun b => if b = 0 then [⟨[.moveOut], [], false⟩] else [] }
example : (match checkCfg subscriptBad with | .error e => some e | .ok _ => none) = some .moveOutOfSubscript := by
  decide +kernel

/-! ## The full completeness statement is false of the code (gaps G1, G2)

    G1:
    ```
    def f(q: qubit, c: bool) -> None:      # q borrowed (leaf 0), c = leaf 1
        if c:                               # block 0 -> 2 | 3
            while True: pass                # block 2 -> 2
        # block 3 -> exit (block 1)
    ```
    Every path is good — on the path that never returns the caller's qubit is simply never
    touched — but the checker reports `PlaceNotUsedError`, because the borrowed leaves are made
    live by default only when the exit is unreachable altogether.

    G2:
    ```
    def f(s: S) -> None:        # s borrowed: leaves 0 (s.a), 1 (s.b)
        use(s.a)                # block 0 -> 2
        while True: pass        # block 2 -> 2;  exit = block 1, unreachable
    ```
    No path ever hands `s` back, so moving `s.a` out for good breaks nothing; the checker reports
    `BorrowSubPlaceUsedError` (it wants to thread the borrowed leaves through the loop). -/

/-- a leaf under which nothing is ever held and whose events never change that is good -/
theorem leafGood_of_inert {P : Prog} {l : Leaf} (h0 : P.initOwned l = false)
    (h : ∀ b, runEvs false (P.blockEvs l b) = some false) : LeafGood P l := by
  have htr : ∀ bs, runEvs false (P.trace l bs) = some false := by
    intro bs
    induction bs with
    | nil => rfl
    | cons b bs ih =>
      unfold Prog.trace at ih ⊢
      rw [List.flatMap_cons, runEvs_append, h b]
      exact ih
  refine ⟨?_, ?_, ?_⟩
  · intro bs b _; rw [h0, htr]; simp
  · intro bs _; rw [h0, htr]
  · intro bs b _ hrun; rw [h0, htr] at hrun; cases hrun

def gapG1 : Prog where
  borrowedVars := [0]
  borrowedLeaves := [0]
  blocks := [0, 1, 2, 3]
  entry := 0
  exit := 1
  exitReachable := true
  row := fun b => match b with | 0 => [0, 1] | _ => [0]
  rowLin := fun _ => [0]
  stmts := fun b => match b with | 0 => [stUse [vr 1 1 false]] | _ => []
  succ := fun b => match b with | 0 => [3, 2] | 2 => [2] | 3 => [1] | _ => []

theorem gapG1_wf : gapG1.WF := wf_of_wfb (by decide +kernel)
theorem gapG1_kinds : gapG1.KindsOK := kindsOK_of_b gapG1_wf (by decide +kernel)

theorem gapG1_walk {bs : List Blk} {b : Blk} (h : Walk gapG1 bs b) :
    (b = 0 ∨ b = 1 ∨ b = 2 ∨ b = 3) ∧ gapG1.trace 0 bs = [] := by
  induction h with
  | entry => exact ⟨Or.inl rfl, rfl⟩
  | @step bs b c _ hcb ih =>
    obtain ⟨hb, ht⟩ := ih
    rw [trace_snoc, ht]
    rcases hb with rfl | rfl | rfl | rfl
    · refine ⟨?_, by decide⟩
      have : c = 3 ∨ c = 2 := by simpa [gapG1] using hcb
      rcases this with rfl | rfl <;> simp
    · simp [gapG1] at hcb
    · refine ⟨?_, by decide⟩
      have : c = 2 := by simpa [gapG1] using hcb
      simp [this]
    · refine ⟨?_, by decide⟩
      have : c = 1 := by simpa [gapG1] using hcb
      simp [this]

theorem gapG1_good : Good gapG1 := by
  have u1 : WillUse gapG1 0 1 := .here (by decide)
  have u3 : WillUse gapG1 0 3 := .later (c := 1) (by decide) (by decide) u1
  have u0 : WillUse gapG1 0 0 := .later (c := 3) (by decide) (by decide) u3
  refine ⟨?_, ?_⟩
  · intro l
    by_cases hl0 : l = 0
    · subst hl0
      refine ⟨?_, ?_, ?_⟩
      · intro bs b hwk
        obtain ⟨hb, ht⟩ := gapG1_walk hwk
        rw [trace_snoc, ht]
        rcases hb with rfl | rfl | rfl | rfl <;> decide
      · intro bs hwk
        obtain ⟨_, ht⟩ := gapG1_walk hwk
        rw [trace_snoc, ht]
        decide
      · intro bs b hwk _
        obtain ⟨hb, _⟩ := gapG1_walk hwk
        rcases hb with rfl | rfl | rfl | rfl
        · exact Or.inl u0
        · exact Or.inl u1
        · exact Or.inr ⟨by decide, fun _ => 2, rfl, fun _ => ⟨show gapG1.blockEvs 0 2 = [] by decide,
            show 2 ∈ gapG1.succ 2 by decide⟩⟩
        · exact Or.inl u3
    · refine leafGood_of_inert ?_ ?_
      · simp [Prog.initOwned, gapG1]; exact hl0
      · intro b
        have hnb : l ∉ gapG1.borrowedLeaves := by simp [gapG1]; exact hl0
        unfold Prog.blockEvs
        simp only [hnb, and_false, if_false, List.append_nil]
        cases b with
        | zero =>
          by_cases h1 : 1 = l
          · subst h1; decide
          · simp [gapG1, stUse, Stmt.evs, Act.evs, leafEvs, vr, h1, runEvs]
        | succ n => rfl
  · rintro b ⟨bs, hwk⟩ st hst
    obtain ⟨hb, _⟩ := gapG1_walk hwk
    rcases hb with rfl | rfl | rfl | rfl
    · have : st = stUse [vr 1 1 false] := by simpa [gapG1] using hst
      subst this
      simp [Stmt.StaticOK, Act.StaticOK, stUse, isInoutVar, vr, gapG1]
    all_goals simp [gapG1] at hst

/-- **The unrestricted completeness statement fails** (known gap G1; the witness is replayed on
    the real checker by the harness: corpus `gap-G1-borrowed-qubit-dead-end-loop`). -/
theorem lin_complete_false_G1 :
    ∃ P : Prog, P.WF ∧ P.KindsOK ∧ (∀ b ∈ P.blocks, b ≠ P.exit → Reachable P b) ∧ Good P ∧
      checkCfg P = .error .placeNotUsed := by
  refine ⟨gapG1, gapG1_wf, gapG1_kinds, ?_, gapG1_good, ?_⟩
  · have w0 : Walk gapG1 [] 0 := Walk.entry
    have w3 : Walk gapG1 [0] 3 := Walk.step w0 (by decide)
    have w2 : Walk gapG1 [0] 2 := Walk.step w0 (by decide)
    intro b hb hne
    simp only [gapG1, List.mem_cons, List.not_mem_nil, or_false] at hb
    rcases hb with rfl | rfl | rfl | rfl
    · exact ⟨_, w0⟩
    · exact absurd rfl hne
    · exact ⟨_, w2⟩
    · exact ⟨_, w3⟩
  · have : (match checkCfg gapG1 with | .error e => some e | .ok _ => none) = some .placeNotUsed := by
      decide +kernel
    cases h : checkCfg gapG1 with
    | error e => rw [h] at this; simp at this; rw [this]
    | ok u => rw [h] at this; simp at this

def gapG2 : Prog where
  borrowedVars := [0]
  borrowedLeaves := [0, 1]
  blocks := [0, 1, 2]
  entry := 0
  exit := 1
  exitReachable := false
  row := fun _ => [0, 1]
  rowLin := fun _ => [0, 1]
  stmts := fun b => match b with | 0 => [stUse [pl 0]] | _ => []
  succ := fun b => match b with | 0 => [2] | 2 => [2] | _ => []

theorem gapG2_wf : gapG2.WF := wf_of_wfb (by decide +kernel)
theorem gapG2_kinds : gapG2.KindsOK := kindsOK_of_b gapG2_wf (by decide +kernel)

theorem gapG2_walk {bs : List Blk} {b : Blk} (h : Walk gapG2 bs b) :
    (bs = [] ∧ b = 0) ∨ (b = 2 ∧ gapG2.trace 0 bs = [⟨Op.use, true⟩] ∧ gapG2.trace 1 bs = []) := by
  induction h with
  | entry => exact Or.inl ⟨rfl, rfl⟩
  | @step bs b c _ hcb ih =>
    right
    rcases ih with ⟨rfl, rfl⟩ | ⟨rfl, h0, h1⟩
    · have : c = 2 := by simpa [gapG2] using hcb
      subst this
      exact ⟨rfl, by decide, by decide⟩
    · have : c = 2 := by simpa [gapG2] using hcb
      subst this
      refine ⟨rfl, ?_, ?_⟩
      · rw [trace_snoc, h0]; decide
      · rw [trace_snoc, h1]; decide

theorem gapG2_good : Good gapG2 := by
  refine ⟨?_, ?_⟩
  · intro l
    by_cases hl0 : l = 0
    · subst hl0
      refine ⟨?_, ?_, ?_⟩
      · intro bs b hwk
        rcases gapG2_walk hwk with ⟨rfl, rfl⟩ | ⟨rfl, h0, _⟩
        · decide
        · rw [trace_snoc, h0]; decide
      · intro bs hwk
        rcases gapG2_walk hwk with ⟨_, h⟩ | ⟨h, _, _⟩ <;> simp [gapG2] at h
      · intro bs b hwk hrun
        rcases gapG2_walk hwk with ⟨rfl, rfl⟩ | ⟨rfl, h0, _⟩
        · exact Or.inl (.here (by decide))
        · rw [h0] at hrun
          simp [runEvs, Ev.step, Prog.initOwned, gapG2] at hrun
    · by_cases hl1 : l = 1
      · subst hl1
        refine ⟨?_, ?_, ?_⟩
        · intro bs b hwk
          rcases gapG2_walk hwk with ⟨rfl, rfl⟩ | ⟨rfl, _, h1⟩
          · decide
          · rw [trace_snoc, h1]; decide
        · intro bs hwk
          rcases gapG2_walk hwk with ⟨_, h⟩ | ⟨h, _, _⟩ <;> simp [gapG2] at h
        · intro bs b hwk _
          right
          refine ⟨by decide, ?_⟩
          rcases gapG2_walk hwk with ⟨rfl, rfl⟩ | ⟨rfl, _, _⟩
          · refine ⟨fun i => match i with | 0 => 0 | _ + 1 => 2, rfl, fun i => ?_⟩
            cases i with
            | zero => exact ⟨by decide, by decide⟩
            | succ i => exact ⟨show gapG2.blockEvs 1 2 = [] by decide, show 2 ∈ gapG2.succ 2 by decide⟩
          · exact ⟨fun _ => 2, rfl, fun _ => ⟨show gapG2.blockEvs 1 2 = [] by decide,
              show 2 ∈ gapG2.succ 2 by decide⟩⟩
      · refine leafGood_of_inert ?_ ?_
        · simp [Prog.initOwned, gapG2]; exact ⟨hl0, hl1⟩
        · intro b
          have hnb : l ∉ gapG2.borrowedLeaves := by simp [gapG2]; exact ⟨hl0, hl1⟩
          unfold Prog.blockEvs
          simp only [hnb, and_false, if_false, List.append_nil]
          cases b with
          | zero =>
            have : ¬ 0 = l := fun e => hl0 e.symm
            simp [gapG2, stUse, Stmt.evs, Act.evs, leafEvs, pl, this, runEvs]
          | succ n => rfl
  · rintro b ⟨bs, hwk⟩ st hst
    rcases gapG2_walk hwk with ⟨_, rfl⟩ | ⟨rfl, _, _⟩
    · have : st = stUse [pl 0] := by simpa [gapG2] using hst
      subst this
      simp [Stmt.StaticOK, Act.StaticOK, stUse, isInoutVar, pl]
    · simp [gapG2] at hst

/-- **The unrestricted completeness statement fails also for functions that never return**
    (known gap G2; corpus `gap-G2-borrowed-field-moved-out-never-returns`). -/
theorem lin_complete_false_G2 :
    ∃ P : Prog, P.WF ∧ P.KindsOK ∧ (∀ b ∈ P.blocks, b ≠ P.exit → Reachable P b) ∧ Good P ∧
      checkCfg P = .error (.usedThenLive true) := by
  refine ⟨gapG2, gapG2_wf, gapG2_kinds, ?_, gapG2_good, ?_⟩
  · have w0 : Walk gapG2 [] 0 := Walk.entry
    have w2 : Walk gapG2 [0] 2 := Walk.step w0 (by decide)
    intro b hb hne
    simp only [gapG2, List.mem_cons, List.not_mem_nil, or_false] at hb
    rcases hb with rfl | rfl | rfl
    · exact ⟨_, w0⟩
    · exact absurd rfl hne
    · exact ⟨_, w2⟩
  · have : (match checkCfg gapG2 with | .error e => some e | .ok _ => none) = some (.usedThenLive true) := by
      decide +kernel
    cases h : checkCfg gapG2 with
    | error e => rw [h] at this; simp at this; rw [this]
    | ok u => rw [h] at this; simp at this

end GuppyVerif.Linearity
