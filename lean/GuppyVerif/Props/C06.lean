import GuppyVerif.Lemmas.C06Crash
/-! # C06 — Linearity: qubits are used exactly once on every path

Property theorems only.  `checkCfg` (Model/Linearity.lean) is the model of
`check_cfg_linearity` with its two passes; `Good` (Spec/C06.lean) is the ownership semantics
over CFG paths.  All statements are for **every** program of the flat core fragment: any CFG
(`Prog.WF`: the shape of the CFGs the checker receives), any statements, any decomposition of
places into leaves (so struct fields and tuple elements, nested arbitrarily, are covered — the
variable-only stage is the special case where every place is its own single leaf), no size bound.
The place-level liveness inside `checkCfg` is the C09 worklist; its result is characterised by
the C09 theorem `liveRun_correct`, for any scheduler. -/
namespace GuppyVerif.Linearity

/-- **Soundness.**  If the checker accepts, then on every path from the entry (finite or not)
    every linear leaf is used only while owned and never overwritten while owned, the borrowed
    leaves — and nothing else — are owned when the exit is reached, an owned leaf always has a
    continuation that reads it (no leak, also in loops that never terminate; a borrowed leaf may
    idle on a path that never returns), and no whole borrowed variable is moved, consumed,
    returned or reassigned, nor a linear result discarded, in reachable code. -/
theorem lin_sound (P : Prog) (hw : P.WF) (h : checkCfg P = .ok ()) : Good P := by
  obtain ⟨C⟩ := cert_of_accept hw.closed h
  refine ⟨fun l hl => leafGood hw C.toPreCert hl C.edges, ?_⟩
  rintro b ⟨bs, hwk⟩
  exact static_ok C.toPreCert (walk_blocks hw hwk)

/-- The same, in terms of what the line-protocol driver evaluates on every extracted CFG:
    the executable shape check `wfb` and the executable verdict `accepts`. -/
theorem lin_sound_exec (P : Prog) (hw : P.wfb = true) (h : accepts P = true) : Good P :=
  lin_sound P (wf_of_wfb hw) (accepts_iff.mp h)

/-- every place of the program is a variable that is its own single leaf (no tuple / struct
    typed variables, no field access): the first stage of the design -/
def Place.IsVar (p : Place) : Prop := p.isLeaf = true ∧ ∃ x, p.leaves = [x] ∧ p.var = some x

def Stmt.VarsOnly : Stmt → Prop
  | .move tgts srcs => (∀ p ∈ tgts, p.IsVar) ∧ ∀ p ∈ srcs, p.IsVar
  | .call tgts args _ => (∀ p ∈ tgts, p.IsVar) ∧ ∀ a ∈ args, a.place.IsVar
  | .ret srcs => ∀ p ∈ srcs, p.IsVar

/-- Soundness for the variable-only fragment (a special case of `lin_sound`). -/
theorem lin_sound_vars (P : Prog) (hw : P.WF) (_hv : ∀ b, ∀ st ∈ P.stmts b, st.VarsOnly)
    (h : checkCfg P = .ok ()) : Good P :=
  lin_sound P hw h

/-! ## Non-vacuity: a borrowed struct `s` (leaves 0, 1), an owned qubit `q` (2), a bool `c` (3).
    ```
    def f(s: S, q: qubit @owned, c: bool) -> qubit:
        x = s.a            # block 0     (x = leaf 4)
        if c: use(x); s.a = mk()   # block 2
        else: s.a = x              # block 3
        while c: bor(q)    # blocks 4 (head), 5 (body)
        return q           # block 6; exit = block 1
    ``` -/

def pl (x : Leaf) : Place := ⟨[x], none, true⟩
def vr (v : Var) (x : Leaf) : Place := ⟨[x], some v, true⟩

def exProg : Prog where
  lin := fun l => l != 3
  borrowedVars := [0]
  borrowedLeaves := [0, 1]
  blocks := [0, 1, 2, 3, 4, 5, 6]
  entry := 0
  exit := 1
  exitReachable := true
  row := fun b => match b with | 0 => [0, 1, 2, 3] | 1 => [0, 1] | _ => [0, 1, 2, 3, 4]
  stmts := fun b => match b with
    | 0 => [.move [vr 3 4] [pl 0], .move [] [vr 2 3]]
    | 2 => [.call [] [.owned (vr 3 4)] false, .call [pl 0] [] false]
    | 3 => [.move [pl 0] [vr 3 4]]
    | 4 => [.move [] [vr 2 3]]
    | 5 => [.call [] [.inout (vr 1 2)] false]
    | 6 => [.ret [vr 1 2]]
    | _ => []
  succ := fun b => match b with | 0 => [3, 2] | 2 => [4] | 3 => [4] | 4 => [6, 5] | 5 => [4] | 6 => [1] | _ => []

theorem exProg_wf : exProg.WF := by
  refine ⟨by decide, by decide, by decide, by decide, rfl, rfl, by decide⟩

example : accepts exProg = true := by decide +kernel
example : Good exProg := lin_sound exProg exProg_wf (accepts_iff.mp (by decide +kernel))

/-- forgetting to put the field back is rejected -/
def exBad : Prog := { exProg with stmts := fun b => if b = 3 then [] else exProg.stmts b }
example : (match checkCfg exBad with | .error e => some e | .ok _ => none) = some (.usedThenLive true) := by
  decide +kernel

/-- and the specification has teeth: `exBad` is not good — on the path 0 → 3 → 4 → 6 → exit the
    borrowed field `s.a` (leaf 0) has been moved out when it should be handed back -/
example : ¬ Good exBad := by
  intro hg
  have w0 : Walk exBad [] 0 := Walk.entry
  have w3 : Walk exBad [0] 3 := Walk.step w0 (by decide)
  have w4 : Walk exBad [0, 3] 4 := Walk.step w3 (by decide)
  have w6 : Walk exBad [0, 3, 4] 6 := Walk.step w4 (by decide)
  have w1 : Walk exBad [0, 3, 4, 6] 1 := Walk.step w6 (by decide)
  exact (hg.leaves 0 (by decide)).noBadUse _ _ w1 (by decide)

/-! ## Completeness

Full statement (kept for reference; it is **false of the code**, see `lin_complete_false_G1`):
`P.WF → (every block but the exit is reachable) → Good P → checkCfg P = .ok ()`.

What is proved: outside the two known gaps (`NoGap`: no borrowed linear leaf, or the exit is
reachable from every block) a good program is never rejected with a user error; the only other
outcome of the model is `crash` (a place that is in no scope: excluded by the type checker's
invariants on block signatures, C08).  The liveness worklist provably finishes within the
model's fuel for every scheduler (`liveRun_flow_isSome`, Lemmas/C06Term*.lean), so the outcome
`fuel` cannot occur. -/

/-- **Completeness (partial: `NoGap`, and up to the internal outcome `crash`).**
    If every path from the entry is good and the ownership rules are respected, the checker does
    not raise `AlreadyUsedError`, `PlaceNotUsedError`, `NotOwnedError`, `BorrowShadowedError`,
    `BorrowSubPlaceUsedError` or `UnnamedExprNotUsedError`. -/
theorem lin_complete_partial (P : Prog) (hw : P.WF)
    (hr : ∀ b ∈ P.blocks, b ≠ P.exit → Reachable P b) (hgap : NoGap P) (hg : Good P) :
    ∀ e, checkCfg P = .error e → e = .crash :=
  fun _ h => checkCfg_no_user_err hw hr hgap hg h

/-- Completeness for the variable-only fragment (a special case of `lin_complete_partial`). -/
theorem lin_complete_vars_partial (P : Prog) (hw : P.WF) (_hv : ∀ b, ∀ st ∈ P.stmts b, st.VarsOnly)
    (hr : ∀ b ∈ P.blocks, b ≠ P.exit → Reachable P b) (hgap : NoGap P) (hg : Good P) :
    ∀ e, checkCfg P = .error e → e = .crash :=
  lin_complete_partial P hw hr hgap hg

/-- **The place-level liveness inside the checker terminates**, for every program, every scope
    table and every visiting order, within the fuel the model grants (so `checkCfg` never returns
    `fuel` after pass 1 succeeded). -/
theorem live_terminates (P : Prog) (sc : Blk → Scope) (init : List Leaf) (sched : List Blk → Blk) :
    (Dataflow.liveRun (flowCfg P sc) sched (liveFuel (flowCfg P sc) init)
      (Dataflow.liveInit (flowCfg P sc) init)).isSome = true :=
  liveRun_flow_isSome P sc init sched

/-! non-vacuity of `lin_complete_partial`: `exProg` meets all hypotheses -/

theorem exProg_reach : ∀ b ∈ exProg.blocks, b ≠ exProg.exit → Reachable exProg b := by
  have w0 : Walk exProg [] 0 := Walk.entry
  have w3 : Walk exProg [0] 3 := Walk.step w0 (by decide)
  have w2 : Walk exProg [0] 2 := Walk.step w0 (by decide)
  have w4 : Walk exProg [0, 2] 4 := Walk.step w2 (by decide)
  have w5 : Walk exProg [0, 2, 4] 5 := Walk.step w4 (by decide)
  have w6 : Walk exProg [0, 2, 4] 6 := Walk.step w4 (by decide)
  intro b hb hne
  simp only [exProg, List.mem_cons, List.not_mem_nil, or_false] at hb
  rcases hb with rfl | rfl | rfl | rfl | rfl | rfl | rfl
  · exact ⟨_, w0⟩
  · exact absurd rfl hne
  · exact ⟨_, w2⟩
  · exact ⟨_, w3⟩
  · exact ⟨_, w4⟩
  · exact ⟨_, w5⟩
  · exact ⟨_, w6⟩

theorem exProg_noGap : NoGap exProg := by
  right
  refine ⟨rfl, ?_⟩
  have r1 : ReachExit exProg 1 := ReachExit.exit
  have r6 : ReachExit exProg 6 := ReachExit.step (c := 1) (by decide) r1
  have r4 : ReachExit exProg 4 := ReachExit.step (c := 6) (by decide) r6
  have r5 : ReachExit exProg 5 := ReachExit.step (c := 4) (by decide) r4
  have r2 : ReachExit exProg 2 := ReachExit.step (c := 4) (by decide) r4
  have r3 : ReachExit exProg 3 := ReachExit.step (c := 4) (by decide) r4
  have r0 : ReachExit exProg 0 := ReachExit.step (c := 2) (by decide) r2
  intro b hb
  simp only [exProg, List.mem_cons, List.not_mem_nil, or_false] at hb
  rcases hb with rfl | rfl | rfl | rfl | rfl | rfl | rfl <;> assumption

example : ∀ e, checkCfg exProg = .error e → e = .crash :=
  lin_complete_partial exProg exProg_wf exProg_reach exProg_noGap
    (lin_sound exProg exProg_wf (accepts_iff.mp (by decide +kernel)))

/-- **No internal error**: when the block signatures cover what is read (`RowsOK`: a leaf that
    some continuation reads before redefining it is in the block's input row — the type checker's
    variable-level liveness and definedness checks provide this) the checker never fails on a
    place that is in no scope.  Independent of linearity. -/
theorem lin_no_crash_partial (P : Prog) (hw : P.WF) (hrows : RowsOK P) (hgap : NoGap P) :
    checkCfg P ≠ .error .crash :=
  checkCfg_no_crash hw hrows hgap

/-- **Completeness, with acceptance as conclusion** (partial only in `NoGap`): every path good,
    ownership rules respected, signatures covering what is read ⇒ the checker accepts. -/
theorem lin_complete_rows_partial (P : Prog) (hw : P.WF)
    (hr : ∀ b ∈ P.blocks, b ≠ P.exit → Reachable P b) (hgap : NoGap P) (hrows : RowsOK P) (hg : Good P) :
    checkCfg P = .ok () := by
  cases h : checkCfg P with
  | ok u => cases u; rfl
  | error e =>
    have := lin_complete_partial P hw hr hgap hg e h
    subst this
    exact absurd h (lin_no_crash_partial P hw hrows hgap)

theorem not_willUse_of_no_evs {P : Prog} {l : Leaf} (h : ∀ b, P.blockEvs l b = []) (b : Blk) : ¬ WillUse P l b := by
  intro hu
  induction hu with
  | here hh => simp [h] at hh
  | later _ _ _ ih => exact ih

theorem exProg_rows : RowsOK exProg := by
  intro b hb (x : Nat) hu
  by_cases hx : x ≤ 4
  · -- the five leaves of the program: decide block by block
    have hx' : x = 0 ∨ x = 1 ∨ x = 2 ∨ x = 3 ∨ x = 4 := by omega
    simp only [exProg, List.mem_cons, List.not_mem_nil, or_false] at hb
    rcases hb with rfl | rfl | rfl | rfl | rfl | rfl | rfl
    · rcases hx' with rfl | rfl | rfl | rfl | rfl
      · decide
      · decide
      · decide
      · decide
      · exfalso
        cases hu with
        | here hh => exact absurd hh (by decide)
        | later he _ _ => exact absurd he (by decide)
    · rcases hx' with rfl | rfl | rfl | rfl | rfl
      · decide
      · decide
      all_goals
        exfalso
        cases hu with
        | here hh => exact absurd hh (by decide)
        | later _ hc _ => simp [exProg] at hc
    all_goals (rcases hx' with rfl | rfl | rfl | rfl | rfl <;> decide)
  · exfalso
    refine not_willUse_of_no_evs (P := exProg) (l := x) ?_ b hu
    intro c
    have h0 : x ≠ 0 := by omega
    have h1 : x ≠ 1 := by omega
    have h2 : x ≠ 2 := by omega
    have h3 : x ≠ 3 := by omega
    have h4 : x ≠ 4 := by omega
    have hb : x ∉ exProg.borrowedLeaves := by simp [exProg]; omega
    unfold Prog.blockEvs
    simp only [hb, and_false, if_false, List.append_nil]
    match c with
    | 0 | 2 | 3 | 4 | 5 | 6 =>
      simp [exProg, Stmt.evs, placesEvs, leafEvs, pl, vr, Arg.place, Arg.isInout, Ne.symm h0, Ne.symm h1, Ne.symm h2,
        Ne.symm h3, Ne.symm h4]
    | 1 => rfl
    | (n + 7) => rfl

example : checkCfg exProg = .ok () :=
  lin_complete_rows_partial exProg exProg_wf exProg_reach exProg_noGap exProg_rows
    (lin_sound exProg exProg_wf (accepts_iff.mp (by decide +kernel)))

/-! ## The full completeness statement is false of the code (gap G1)

    ```
    def f(q: qubit, c: bool) -> None:      # q borrowed (leaf 0), c = leaf 1
        if c:                               # block 0 -> 2 | 3
            while True: pass                # block 2 -> 2
        # block 3 -> exit (block 1)
    ```
    Every path is good — on the path that never returns the caller's qubit is simply never
    touched — but the checker reports `PlaceNotUsedError`, because the borrowed leaves are made
    live by default only when the exit is unreachable altogether. -/

def gapG1 : Prog where
  lin := fun l => l == 0
  borrowedVars := [0]
  borrowedLeaves := [0]
  blocks := [0, 1, 2, 3]
  entry := 0
  exit := 1
  exitReachable := true
  row := fun b => match b with | 0 => [0, 1] | _ => [0]
  stmts := fun b => match b with | 0 => [.move [] [vr 1 1]] | _ => []
  succ := fun b => match b with | 0 => [3, 2] | 2 => [2] | 3 => [1] | _ => []

theorem gapG1_wf : gapG1.WF := by
  refine ⟨by decide, by decide, by decide, by decide, rfl, rfl, by decide⟩

theorem gapG1_walk {bs : List Blk} {b : Blk} (h : Walk gapG1 bs b) :
    (b = 0 ∨ b = 1 ∨ b = 2 ∨ b = 3) ∧ gapG1.trace 0 bs = [] := by
  induction h with
  | entry => exact ⟨Or.inl rfl, rfl⟩
  | @step bs b c _ hcb ih =>
    obtain ⟨hb, ht⟩ := ih
    rw [trace_snoc, ht]
    rcases hb with rfl | rfl | rfl | rfl
    · refine ⟨?_, by decide⟩
      have : c = 3 ∨ c = 2 := by simpa [gapG1] using hcb
      rcases this with rfl | rfl <;> simp
    · simp [gapG1] at hcb
    · refine ⟨?_, by decide⟩
      have : c = 2 := by simpa [gapG1] using hcb
      simp [this]
    · refine ⟨?_, by decide⟩
      have : c = 1 := by simpa [gapG1] using hcb
      simp [this]

theorem gapG1_good : Good gapG1 := by
  have u1 : WillUse gapG1 0 1 := .here (by decide)
  have u3 : WillUse gapG1 0 3 := .later (c := 1) (by decide) (by decide) u1
  have u0 : WillUse gapG1 0 0 := .later (c := 3) (by decide) (by decide) u3
  refine ⟨?_, ?_⟩
  · intro l hl
    have hl0 : l = 0 := by simpa [gapG1] using hl
    subst hl0
    refine ⟨?_, ?_, ?_⟩
    · intro bs b hwk
      obtain ⟨hb, ht⟩ := gapG1_walk hwk
      rw [trace_snoc, ht]
      rcases hb with rfl | rfl | rfl | rfl <;> decide
    · intro bs hwk
      obtain ⟨_, ht⟩ := gapG1_walk hwk
      rw [trace_snoc, ht]
      decide
    · intro bs b hwk _
      obtain ⟨hb, _⟩ := gapG1_walk hwk
      rcases hb with rfl | rfl | rfl | rfl
      · exact Or.inl u0
      · exact Or.inl u1
      · exact Or.inr ⟨by decide, fun _ => 2, rfl, fun _ => ⟨show gapG1.blockEvs 0 2 = [] by decide,
          show 2 ∈ gapG1.succ 2 by decide⟩⟩
      · exact Or.inl u3
  · rintro b ⟨bs, hwk⟩ st hst
    obtain ⟨hb, _⟩ := gapG1_walk hwk
    rcases hb with rfl | rfl | rfl | rfl
    · have : st = .move [] [vr 1 1] := by simpa [gapG1] using hst
      subst this
      simp [Stmt.StaticOK, isInoutVar, vr, gapG1]
    all_goals simp [gapG1] at hst

/-- **The unrestricted completeness statement fails** (known gap G1; the witness is replayed on
    the real checker by the harness: corpus `gap-G1-borrowed-qubit-dead-end-loop`). -/
theorem lin_complete_false_G1 :
    ∃ P : Prog, P.WF ∧ (∀ b ∈ P.blocks, b ≠ P.exit → Reachable P b) ∧ Good P ∧
      checkCfg P = .error .placeNotUsed := by
  refine ⟨gapG1, gapG1_wf, ?_, gapG1_good, ?_⟩
  · have w0 : Walk gapG1 [] 0 := Walk.entry
    have w3 : Walk gapG1 [0] 3 := Walk.step w0 (by decide)
    have w2 : Walk gapG1 [0] 2 := Walk.step w0 (by decide)
    intro b hb hne
    simp only [gapG1, List.mem_cons, List.not_mem_nil, or_false] at hb
    rcases hb with rfl | rfl | rfl | rfl
    · exact ⟨_, w0⟩
    · exact absurd rfl hne
    · exact ⟨_, w2⟩
    · exact ⟨_, w3⟩
  · have : (match checkCfg gapG1 with | .error e => some e | .ok _ => none) = some .placeNotUsed := by
      decide +kernel
    cases h : checkCfg gapG1 with
    | error e => rw [h] at this; simp at this; rw [this]
    | ok u => rw [h] at this; simp at this

/-! ## Gap G2: a function that never returns

    ```
    def f(s: S) -> None:        # s borrowed: leaves 0 (s.a), 1 (s.b)
        use(s.a)                # block 0 -> 2
        while True: pass        # block 2 -> 2;  exit = block 1, unreachable
    ```
    No path ever hands `s` back, so moving `s.a` out for good breaks nothing; the checker reports
    `BorrowSubPlaceUsedError` (it wants to thread the borrowed leaves through the loop). -/

def gapG2 : Prog where
  lin := fun _ => true
  borrowedVars := [0]
  borrowedLeaves := [0, 1]
  blocks := [0, 1, 2]
  entry := 0
  exit := 1
  exitReachable := false
  row := fun _ => [0, 1]
  stmts := fun b => match b with | 0 => [.call [] [.owned (pl 0)] false] | _ => []
  succ := fun b => match b with | 0 => [2] | 2 => [2] | _ => []

theorem gapG2_wf : gapG2.WF := by
  refine ⟨by decide, by decide, by decide, by decide, rfl, rfl, by decide⟩

theorem gapG2_walk {bs : List Blk} {b : Blk} (h : Walk gapG2 bs b) :
    (bs = [] ∧ b = 0) ∨ (b = 2 ∧ gapG2.trace 0 bs = [Ev.use] ∧ gapG2.trace 1 bs = []) := by
  induction h with
  | entry => exact Or.inl ⟨rfl, rfl⟩
  | @step bs b c _ hcb ih =>
    right
    rcases ih with ⟨rfl, rfl⟩ | ⟨rfl, h0, h1⟩
    · have : c = 2 := by simpa [gapG2] using hcb
      subst this
      exact ⟨rfl, by decide, by decide⟩
    · have : c = 2 := by simpa [gapG2] using hcb
      subst this
      refine ⟨rfl, ?_, ?_⟩
      · rw [trace_snoc, h0]; decide
      · rw [trace_snoc, h1]; decide

theorem gapG2_good : Good gapG2 := by
  have idle2 : ∀ l, (l = 0 ∨ l = 1) → MayIdle gapG2 l 2 := by
    intro l hl
    refine ⟨fun _ => 2, rfl, fun _ => ⟨?_, show 2 ∈ gapG2.succ 2 by decide⟩⟩
    show gapG2.blockEvs l 2 = []
    rcases hl with rfl | rfl <;> decide
  refine ⟨?_, ?_⟩
  · intro l _
    by_cases hl0 : l = 0
    · subst hl0
      refine ⟨?_, ?_, ?_⟩
      · intro bs b hwk
        rcases gapG2_walk hwk with ⟨rfl, rfl⟩ | ⟨rfl, h0, _⟩
        · decide
        · rw [trace_snoc, h0]; decide
      · intro bs hwk
        rcases gapG2_walk hwk with ⟨_, h⟩ | ⟨h, _, _⟩ <;> simp [gapG2] at h
      · intro bs b hwk hrun
        rcases gapG2_walk hwk with ⟨rfl, rfl⟩ | ⟨rfl, h0, _⟩
        · exact Or.inl (.here (by decide))
        · rw [h0] at hrun
          simp [runEvs, Ev.step, Prog.initOwned, gapG2] at hrun
    · by_cases hl1 : l = 1
      · subst hl1
        refine ⟨?_, ?_, ?_⟩
        · intro bs b hwk
          rcases gapG2_walk hwk with ⟨rfl, rfl⟩ | ⟨rfl, _, h1⟩
          · decide
          · rw [trace_snoc, h1]; decide
        · intro bs hwk
          rcases gapG2_walk hwk with ⟨_, h⟩ | ⟨h, _, _⟩ <;> simp [gapG2] at h
        · intro bs b hwk _
          right
          refine ⟨by decide, ?_⟩
          rcases gapG2_walk hwk with ⟨rfl, rfl⟩ | ⟨rfl, _, _⟩
          · refine ⟨fun i => match i with | 0 => 0 | _ + 1 => 2, rfl, fun i => ?_⟩
            cases i with
            | zero => exact ⟨by decide, by decide⟩
            | succ i => exact ⟨show gapG2.blockEvs 1 2 = [] by decide, show 2 ∈ gapG2.succ 2 by decide⟩
          · exact idle2 1 (Or.inr rfl)
      · -- leaves that occur nowhere: never owned, never touched
        have hev : ∀ b, gapG2.blockEvs l b = [] := by
          intro b
          have hne : ∀ x, x ∈ [0, 1] → ¬ x = l := by
            intro x hx e
            simp at hx
            rcases hx with rfl | rfl
            · exact hl0 e.symm
            · exact hl1 e.symm
          have hnb : l ∉ gapG2.borrowedLeaves := by
            simp [gapG2]; exact ⟨hl0, hl1⟩
          unfold Prog.blockEvs
          simp only [hnb, and_false, if_false, List.append_nil]
          by_cases hb : b = 0
          · subst hb
            simp [gapG2, Stmt.evs, placesEvs, leafEvs, pl, Arg.place, Arg.isInout]
            exact fun e => hl0 e.symm
          · have : gapG2.stmts b = [] := by
              cases b with
              | zero => exact absurd rfl hb
              | succ n => rfl
            rw [this]; rfl
        have htr : ∀ bs, gapG2.trace l bs = [] := by
          intro bs
          unfold Prog.trace
          simp [hev]
        have hinit : gapG2.initOwned l = false := by
          simp [Prog.initOwned, gapG2]; exact ⟨hl0, hl1⟩
        refine ⟨?_, ?_, ?_⟩
        · intro bs b _; rw [htr]; simp [runEvs]
        · intro bs _; rw [htr, hinit]; rfl
        · intro bs b _ hrun; rw [htr, hinit] at hrun; simp [runEvs] at hrun
  · rintro b ⟨bs, hwk⟩ st hst
    rcases gapG2_walk hwk with ⟨_, rfl⟩ | ⟨rfl, _, _⟩
    · have : st = .call [] [.owned (pl 0)] false := by simpa [gapG2] using hst
      subst this
      simp [Stmt.StaticOK, isInoutVar, pl, Arg.place]
    · simp [gapG2] at hst

/-- **The unrestricted completeness statement fails also for functions that never return**
    (known gap G2; corpus `gap-G2-borrowed-field-moved-out-never-returns`). -/
theorem lin_complete_false_G2 :
    ∃ P : Prog, P.WF ∧ (∀ b ∈ P.blocks, b ≠ P.exit → Reachable P b) ∧ Good P ∧
      checkCfg P = .error (.usedThenLive true) := by
  refine ⟨gapG2, gapG2_wf, ?_, gapG2_good, ?_⟩
  · have w0 : Walk gapG2 [] 0 := Walk.entry
    have w2 : Walk gapG2 [0] 2 := Walk.step w0 (by decide)
    intro b hb hne
    simp only [gapG2, List.mem_cons, List.not_mem_nil, or_false] at hb
    rcases hb with rfl | rfl | rfl
    · exact ⟨_, w0⟩
    · exact absurd rfl hne
    · exact ⟨_, w2⟩
  · have : (match checkCfg gapG2 with | .error e => some e | .ok _ => none) = some (.usedThenLive true) := by
      decide +kernel
    cases h : checkCfg gapG2 with
    | error e => rw [h] at this; simp at this; rw [this]
    | ok u => rw [h] at this; simp at this

end GuppyVerif.Linearity
