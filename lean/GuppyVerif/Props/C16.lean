import GuppyVerif.Spec.C16
import GuppyVerif.Gen.C16Coerce
/-! # C16 — Implicit numeric coercions only widen

Property theorems only.  `C16Gen.cfg` is regenerated from /repo's source on every run (Kind enum values,
`Kind.__lt__`, the comparison in `try_coerce_to`, the method-name template, the implementation of each
`__nat__/__int__/__float__`), so these theorems are re-checked against what the code says *now*.
The quantifier over kinds is finite (3 × 3): case analysis + `decide` is a complete proof.
The value theorems quantify over all 64-bit values and over an arbitrary rounding function `ofInt`
(the assumed semantics of `convert_u` / `convert_s`). -/
namespace GuppyVerif.Coerce
open GuppyVerif.IntLit (Kind)
open GuppyVerif.IntSem
open GuppyVerif.C16Gen (cfg)

/-- **C16 (direction)**: an implicit coercion is inserted iff (actual, expected) ∈ {(nat,int), (nat,float), (int,float)}.
    (`against` = `check_type_against`, the path of every synthesized expression.) -/
theorem coerce_iff_widening (act exp : Kind) :
    (against cfg act exp).isCoerced = true ↔ Widening act exp := by
  cases act <;> cases exp <;> decide

/- Full statement over expression forms:
     ∀ form act exp, (checkExpr cfg form act exp).isCoerced = true ↔ Widening act exp
   It is FALSE of the code for call results and comptime expressions (`coerce_iff_widening_false_for_calls`),
   so it is proved with the hypothesis `form = .synth`. -/
theorem coerce_iff_widening_partial (form : Form) (act exp : Kind) (hf : form = .synth) :
    (checkExpr cfg form act exp).isCoerced = true ↔ Widening act exp := by
  subst hf; exact coerce_iff_widening act exp

/-- the negation of the full statement, with its witness: a call result of type `nat` used where `int` is
    expected is a type mismatch, not a coercion (`x: int = h()` with `h() -> nat` is rejected although
    `y = h(); x: int = y` is accepted).  Replayed on the real checker: known finding D17. -/
theorem coerce_iff_widening_false_for_calls :
    ¬ (∀ form act exp, (checkExpr cfg form act exp).isCoerced = true ↔ Widening act exp) := by
  intro h
  exact absurd ((h .call .nat .int).mpr (by decide)) (by decide)

/-- **C16 (never narrows)**, for every expression form: a narrowing use is always a type mismatch. -/
theorem never_narrows_any_form (form : Form) (act exp : Kind) (h : Narrowing act exp) :
    checkExpr cfg form act exp = .mismatch := by
  cases form <;> cases act <;> cases exp <;> first | decide | exact absurd h (by decide)

/-- … and no form ever inserts a coercion outside the widening relation -/
theorem coerced_only_if_widening (form : Form) (act exp : Kind)
    (h : (checkExpr cfg form act exp).isCoerced = true) : Widening act exp := by
  cases form <;> cases act <;> cases exp <;> first | decide | exact absurd h (by decide)

/-- **C16 (never narrows, never gets stuck)**: every pair is either identical (nothing inserted), a widening
    (coerced) or a type mismatch; a narrowing use is always a mismatch. -/
theorem against_classification (act exp : Kind) :
    against cfg act exp =
      if act = exp then .same
      else if Widening act exp then against cfg act exp   -- coerced; the implementation is `coerce_impl`
      else .mismatch := by
  cases act <;> cases exp <;> decide

theorem never_narrows (act exp : Kind) (h : Narrowing act exp) : against cfg act exp = .mismatch := by
  cases act <;> cases exp <;> first | decide | exact absurd h (by decide)

/-- **C16 (which conversion)**: nat→int is a no-op on the bits, nat→float is the *unsigned* conversion,
    int→float the *signed* one; nat→float is one step (not nat→int→float). -/
theorem coerce_impl :
    against cfg .nat .int = .coerced "noop" ∧
    against cfg .nat .float = .coerced "hugr:arithmetic.conversions.convert_u" ∧
    against cfg .int .float = .coerced "hugr:arithmetic.conversions.convert_s" := by
  decide

/-- **C16 (operator operands)**: `a ∘ b` with `a : E`, `b : A` is typed at the wider of the two kinds and a
    coercion is inserted exactly on the narrower operand. -/
theorem operand_widens (e a : Kind) :
    operand cfg e a =
      if a = e then some (e, .same, .same)
      else if Widening a e then some (e, .same, against cfg a e)
      else some (a, against cfg e a, .same) := by
  cases e <;> cases a <;> decide

/-- **C16 (subscript index, read and write-back)**: an index of kind `nat` is widened to the `int` parameter of
    `__getitem__` *and* of the implicit `__setitem__` of an assignable place (`xs[n] = v`, `xs[n] += 1`, lending `qs[n]`): the
    write path accepts exactly what the read path accepts, with the same (no-op) coercion; a `float` index is rejected. -/
theorem index_place_widens (idx : Kind) :
    indexWrite cfg idx = indexRead cfg idx ∧ indexPlace cfg idx = against cfg idx .int ∧
    ((indexPlace cfg idx = .same ∨ (indexPlace cfg idx).isCoerced = true) ↔ (idx = .nat ∨ idx = .int)) := by
  cases idx <;> decide

/-- **C16 (value, nat → int)**: the inserted no-op preserves the value whenever it is representable
    in `int`, i.e. below 2^63 … -/
theorem nat_to_int_value {F : Type} (ofInt : Int → F) (w : W) (h : valueOf .nat w < 2 ^ 63) :
    ∃ w', applyImpl ofInt "noop" w = some (.bits w') ∧ valueOf .int w' = valueOf .nat w := by
  refine ⟨w, rfl, ?_⟩
  simp only [valueOf] at *
  rw [BitVec.toInt_eq_toNat_cond]
  split <;> omega

/-- … and at or above 2^63 (not representable) the `int` reads as `value - 2^64` (stated, not a violation
    of the statement, whose guard excludes it). -/
theorem nat_to_int_above (w : W) (h : 2 ^ 63 ≤ valueOf .nat w) :
    valueOf .int w = valueOf .nat w - 2 ^ 64 := by
  simp only [valueOf] at *
  rw [BitVec.toInt_eq_toNat_cond]
  split <;> omega

/-- **C16 (value, → float)**: for every 64-bit value the conversion inserted for an integer kind used at
    `float` yields the rounding `ofInt` of exactly that kind's reading of the bits (so a `nat ≥ 2^63` is not
    converted as a negative number).  `ofInt` = the assumed round-to-nearest of `convert_s`/`convert_u`. -/
theorem to_float_value {F : Type} (ofInt : Int → F) (act : Kind) (impl : String) (w : W)
    (h : against cfg act .float = .coerced impl) :
    ∃ f, applyImpl ofInt impl w = some (.flt f) ∧ f = ofInt (valueOf act w) := by
  cases act
  · have : impl = "hugr:arithmetic.conversions.convert_u" := by
      have h2 := coerce_impl.2.1; rw [h2] at h; exact (Out.coerced.inj h).symm
    subst this; exact ⟨_, rfl, rfl⟩
  · have : impl = "hugr:arithmetic.conversions.convert_s" := by
      have h2 := coerce_impl.2.2; rw [h2] at h; exact (Out.coerced.inj h).symm
    subst this; exact ⟨_, rfl, rfl⟩
  · have hs : against cfg .float .float = .same := by decide
    rw [hs] at h; cases h

/-! ## non-vacuity -/
example : (against cfg .nat .float).isCoerced = true := by decide
example : against cfg .int .nat = .mismatch := by decide
example : against cfg .float .int = .mismatch := by decide
example : against cfg .int .int = .same := by decide
example : checkExpr cfg .call .nat .int = .mismatch := by decide
example : checkExpr cfg .comptime .int .float = .mismatch := by decide
example : indexPlace cfg .nat = .coerced "noop" := by decide
example : indexPlace cfg .float = .mismatch := by decide
example : Widening .nat .int := by decide
example : ¬ Widening .int .nat := by decide
example : valueOf .nat (BitVec.ofNat 64 5) < 2 ^ 63 := by decide
example : valueOf .int (BitVec.ofNat 64 (2 ^ 63)) = -9223372036854775808 := by decide
example : operand cfg .float .nat = some (.float, .same, .coerced "hugr:arithmetic.conversions.convert_u") := by decide

end GuppyVerif.Coerce
