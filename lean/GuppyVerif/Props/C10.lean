import GuppyVerif.Lemmas.C10
import GuppyVerif.Gen.C10SetSites
import GuppyVerif.Props.C09
/-! # C10 — Compiler output and diagnostics are deterministic  *(partial)*

CPython is deterministic except for the iteration order of sets (and of dicts keyed by
objects inserted in set order).  `Gen.setSites` is the inventory — regenerated from /repo's
source on every run — of every place that constructs, iterates or pops a set.  The theorems
below show, for the sites that do iterate, that the result does not depend on the order the set
yields its elements; `all_sites_classified` ties the inventory to these arguments.  The analysis
worklists are no longer sets (they pop in insertion order); C09's `live_schedule_independent` /
`ass_schedule_independent` show their variable sets would not depend on the order anyway. -/
namespace GuppyVerif.Determ
open GuppyVerif.Dataflow

/-- **`update_reachable`, any pop order**: a block ends up flagged reachable iff a path of real
    edges leads to it from the entry. -/
theorem reach_iff_path (succ : Blk → List Blk) (entry : Blk) (t : RSt)
    (hr : RReach succ (reachInit entry) t) (hq : t.queue = []) (b : Blk) :
    t.reach b = true ↔ Path succ entry b := by
  have hi := rinv_reach succ entry hr (rinv_init succ entry)
  constructor
  · exact hi.sound b
  · intro hp
    induction hp with
    | refl =>
      rcases hi.entryc with h | h
      · exact h
      · rw [hq] at h; exact absurd h List.not_mem_nil
    | tail _ hc ih =>
      rcases hi.closed _ ih _ hc with h | h
      · exact h
      · rw [hq] at h; exact absurd h List.not_mem_nil

/-- reachability flags do not depend on the pop order -/
theorem reach_order_free (succ : Blk → List Blk) (entry : Blk) (t₁ t₂ : RSt)
    (h₁ : RReach succ (reachInit entry) t₁) (h₂ : RReach succ (reachInit entry) t₂)
    (q₁ : t₁.queue = []) (q₂ : t₂.queue = []) : t₁.reach = t₂.reach := by
  funext b
  have a := reach_iff_path succ entry t₁ h₁ q₁ b
  have c := reach_iff_path succ entry t₂ h₂ q₂ b
  cases h1 : t₁.reach b <;> cases h2 : t₂.reach b <;> simp_all

/-- the executable worklist under any scheduler -/
theorem reachRun_correct (succ : Blk → List Blk) (entry : Blk) (sched : List Blk → Blk) (fuel : Nat)
    (t : RSt) (h : reachRun succ sched fuel (reachInit entry) = some t) (b : Blk) :
    t.reach b = true ↔ Path succ entry b := by
  obtain ⟨hr, hq⟩ := reachRun_reach succ sched fuel _ _ h
  exact reach_iff_path succ entry t hr hq b

/-- **Iterating `sorted(a set)`**: whatever order the set yields its elements in (any
    permutation), the sorted list is the same. -/
theorem sorted_order_free (l₁ l₂ : List Nat) (h : l₁.Perm l₂) : pySorted l₁ = pySorted l₂ := by
  unfold pySorted
  apply List.Perm.eq_of_pairwise (le := fun a b => decide (a ≤ b) = true)
  · intro a b _ _ h1 h2; simp at h1 h2; omega
  · exact List.pairwise_mergeSort natLe_trans natLe_total l₁
  · exact List.pairwise_mergeSort natLe_trans natLe_total l₂
  · exact (List.mergeSort_perm l₁ _).trans (h.trans (List.mergeSort_perm l₂ _).symm)

/-- `check_rows_match` (after sorting) reports the same variable whatever the set order. -/
theorem firstMismatch_order_free (ty1 ty2 : Nat → Nat) (k₁ k₂ : List Nat) (h : k₁.Perm k₂) :
    firstMismatch ty1 ty2 k₁ = firstMismatch ty1 ty2 k₂ := by
  unfold firstMismatch; rw [sorted_order_free k₁ k₂ h]

/-- `sort_vars` gives the same row order for every arrangement of the same variables. -/
theorem sortVars_order_free (d : Nat → Bool) (r₁ r₂ : List Nat) (h : r₁.Perm r₂) :
    sortVars d r₁ = sortVars d r₂ := by
  unfold sortVars
  apply List.Perm.eq_of_pairwise (le := fun a b => varLe d a b = true)
  · intro a b _ _ h1 h2; exact varLe_antisymm d a b h1 h2
  · exact List.pairwise_mergeSort (varLe_trans d) (varLe_total d) r₁
  · exact List.pairwise_mergeSort (varLe_trans d) (varLe_total d) r₂
  · exact (List.mergeSort_perm r₁ _).trans (h.trans (List.mergeSort_perm r₂ _).symm)

/-- `partially_monomorphize_args`: the index assignments commute. -/
theorem assignAll_order_free (args : List Nat) (v₁ v₂ : List Nat) (acc : List (Option Nat))
    (h : v₁.Perm v₂) : assignAll args v₁ acc = assignAll args v₂ acc := by
  unfold assignAll
  apply List.Perm.foldl_eq' h
  intro x _ y _ z
  by_cases e : x = y
  · subst e; rfl
  · exact List.set_comm _ _ e

/-- `min(a set, key)` does not depend on the set's order. -/
theorem minOf_order_free (l₁ l₂ : List Nat) (h : l₁.Perm l₂) : minOf l₁ = minOf l₂ := by
  unfold minOf
  apply List.Perm.foldl_eq' h
  intro x _ y _ z
  cases z with
  | none => simp only; congr 1; (repeat' split) <;> omega
  | some m => simp only; congr 1; (repeat' split) <;> omega

/-- **The inventory is covered**: every set site found in /repo's current source is one that has
    been examined and classified.  The key of a site is (file, function, kind, number of such places
    in that function): a new site in a new function, a further site in a listed function, or a site
    whose kind changes (a set that starts being iterated) makes this proof fail; code motion inside a
    function does not.  `classify` may answer `unproven` — see the next theorem. -/
theorem all_sites_classified : ∀ s ∈ Gen.setSites, (classify s).isSome = true := by decide

/-- …and the only sites classified without an order-freedom argument (`unproven`) are the two
    named in `knownUncovered` (`check_call`'s choice of an unsolved variable for a sub-note): the
    uncovered part cannot grow without this proof failing. -/
theorem unproven_sites_are_the_known_ones :
    ∀ s ∈ Gen.setSites, classify s = some .unproven → s ∈ knownUncovered := by decide

/-- the sites that are *not* covered by an order-freedom argument (reported in evidence) -/
def uncovered : List (String × String × String × Nat) :=
  Gen.setSites.filter fun s => classify s == some .unproven

/-! Non-vacuity: a graph with a cycle and an unreachable block; a concrete permutation. -/
example : (reachRun (fun b => match b with | 0 => [1, 2] | 1 => [0] | 3 => [1] | _ => [])
    (fun q => q.getLast!) 20 (reachInit 0)).map (fun t => [t.reach 0, t.reach 2, t.reach 3]) =
    some [true, true, false] := by decide
example : pySorted [3, 1, 2] = pySorted [2, 3, 1] := sorted_order_free _ _ (by decide)
example : Gen.setSites.length > 30 := by decide

end GuppyVerif.Determ
