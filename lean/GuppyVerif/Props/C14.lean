import GuppyVerif.Lemmas.C14Misc
import GuppyVerif.Lemmas.C14HugrSubst
import GuppyVerif.Gen.C14TypeDefs
/-! # C14 — Copy/drop classification is structural and matches HUGR bounds

Property theorems only.  `D` is the table of opaque type definitions and `aff` the list
`AFFINE_EXTENSION_TYS`; both are regenerated from /repo on every run (`Gen/C14TypeDefs.lean`) and
`gen_table_ok` re-checks the hypotheses `TableOk aff D` / `affOk aff` for them.  All theorems hold
for every type (arbitrary nesting; generic structs through their instantiated fields). -/
namespace GuppyVerif.CopyDrop
open GuppyVerif

/-- the regenerated table satisfies the consistency conditions every theorem below assumes -/
theorem gen_table_ok : TableOk Gen.affineExtTys Gen.typeDefs ∧ affOk Gen.affineExtTys = true := by
  refine ⟨tableOk_iff.mp (by decide), by decide⟩

/-- **intrinsic rules** (for the regenerated table): qubits are neither copyable nor droppable, arrays
    are never copyable (but droppable), bools and strings are both; numbers, `None` and function types
    are both whatever they contain. -/
theorem intrinsic_rules :
    (intrinsic Gen.typeDefs .copy "qubit" = false ∧ intrinsic Gen.typeDefs .drop "qubit" = false) ∧
    (intrinsic Gen.typeDefs .copy "array" = false ∧ intrinsic Gen.typeDefs .drop "array" = true) ∧
    (intrinsic Gen.typeDefs .copy "bool" = true ∧ intrinsic Gen.typeDefs .drop "bool" = true) ∧
    (intrinsic Gen.typeDefs .copy "str" = true ∧ intrinsic Gen.typeDefs .drop "str" = true) ∧
    (∀ D k, copyable D (.num k) = true ∧ droppable D (.num k) = true) ∧
    (∀ D p, copyable D (.none p) = true ∧ droppable D (.none p) = true) ∧
    (∀ D ins o ps cs, copyable D (.func ins o ps cs) = true ∧ droppable D (.func ins o ps cs) = true) := by
  refine ⟨by decide, by decide, by decide, by decide, ?_, ?_, ?_⟩ <;> intros <;>
    simp [copyable, droppable, flagG]

/-- **structural rule** for either flag `s`: a tuple has the flag iff all elements have it; a struct iff
    all its fields — the definition's fields *instantiated with the type's arguments*, as
    `StructType.fields` — and all its type arguments have it; an opaque type iff its definition does not
    forbid it and all type arguments have it; variables carry their declared flag. -/
theorem flag_structural (D : List OpaqueDef) (s : Sel) :
    (∀ ts p, flagG D true s [] (.tuple ts p) = ts.all (flagG D true s [])) ∧
    (∀ n as fs fields, Ty.structFields as fs = some fields →
      flagG D true s [] (.struct n as fs) =
        (fields.all (flagG D true s []) && (typeArgs as).all (flagG D true s []))) ∧
    (∀ n as, flagG D true s [] (.opaque n as) =
        (intrinsic D s n && (typeArgs as).all (flagG D true s []))) ∧
    (∀ n i c d, flagG D true s [] (.bvar n i c d) = selFlag s c d) ∧
    (∀ n i c d, flagG D true s [] (.evar n i c d) = selFlag s c d) := by
  refine ⟨?_, ?_, ?_, ?_, ?_⟩
  · intro ts p; simp only [flagG, flagGList_eq_all]
  · intro n as fs fields hf
    have := flagGList_subst D true s fs as [] fields hf
    simp only [List.append_nil] at this
    simp only [flagG, Bool.not_true, Bool.false_or, ← this, flagGList_eq_all, flagGArgs_eq_all]
  · intro n as; simp only [flagG, flagGArgs_eq_all]
  · intro n i c d; simp [flagG]
  · intro n i c d; simp [flagG]

/-- **C14 (copyable is structural)** -/
theorem copyable_structural (D : List OpaqueDef) :
    (∀ ts p, copyable D (.tuple ts p) = ts.all (copyable D)) ∧
    (∀ n as fs fields, Ty.structFields as fs = some fields →
      copyable D (.struct n as fs) = (fields.all (copyable D) && (typeArgs as).all (copyable D))) ∧
    (∀ n as, copyable D (.opaque n as) = (intrinsic D .copy n && (typeArgs as).all (copyable D))) ∧
    (∀ n i c d, copyable D (.bvar n i c d) = c) :=
  let h := flag_structural D .copy
  ⟨h.1, h.2.1, h.2.2.1, h.2.2.2.1⟩

/-- **C14 (droppable is structural)** -/
theorem droppable_structural (D : List OpaqueDef) :
    (∀ ts p, droppable D (.tuple ts p) = ts.all (droppable D)) ∧
    (∀ n as fs fields, Ty.structFields as fs = some fields →
      droppable D (.struct n as fs) = (fields.all (droppable D) && (typeArgs as).all (droppable D))) ∧
    (∀ n as, droppable D (.opaque n as) = (intrinsic D .drop n && (typeArgs as).all (droppable D))) ∧
    (∀ n i c d, droppable D (.bvar n i c d) = d) :=
  let h := flag_structural D .drop
  ⟨h.1, h.2.1, h.2.2.1, h.2.2.2.1⟩

/-- **C14 (`Type.hugr_bound`)**: Guppy's own bound of a type is `Copyable` exactly when the type is
    copyable (whenever it is defined, i.e. no unsolved existential variable among the arguments). -/
theorem hugr_bound_iff_copyable {aff : List String} {D : List OpaqueDef} (hT : TableOk aff D)
    (t : Ty) (b : HBound) (hk : known D t = true) (hb : hugrBound D t = some b) :
    b = .copyable ↔ copyable D t = true :=
  hb_ty D aff hT t b hk hb

/-- **C14 (copyable ⇒ HUGR-copyable, and no drop)**: the HUGR type of a copyable Guppy type is a
    `Copyable` HUGR type and never gets a drop operation. -/
theorem copyable_sound {aff : List String} {D : List OpaqueDef} (hT : TableOk aff D)
    (hA : affOk aff = true) (t : Ty) (h : HTy) (hh : toHugr D t = some h) (hc : copyable D t = true) :
    typeBound h = .copyable ∧ requiresDrop aff h = false :=
  rel_top (closed_Ra true hT hA) t h hh hc

theorem copyable_no_drop {aff : List String} {D : List OpaqueDef} (hT : TableOk aff D)
    (hA : affOk aff = true) (t : Ty) (h : HTy) (hh : toHugr D t = some h) (hc : copyable D t = true) :
    requiresDrop aff h = false :=
  (copyable_sound hT hA t h hh hc).2

/-- **C14 (drops)**: whenever the HUGR type of a droppable Guppy type is `Linear` (so the value cannot be
    discarded implicitly in HUGR), `requires_drop` holds and `insert_drops` adds an explicit drop. -/
theorem linear_droppable_requires_drop {aff : List String} {D : List OpaqueDef} (hT : TableOk aff D)
    (t : Ty) (h : HTy) (hh : toHugr D t = some h) (hd : droppable D t = true)
    (hl : typeBound h = .linear) : requiresDrop aff h = true :=
  rel_top (closed_Rb true hT) t h hh hd hl

/-- **C14 (what the HUGR bound reflects)**: the HUGR type is `Copyable` exactly when the type is copyable
    *not counting the type arguments of struct types* (fields only). -/
theorem hugr_copyable_iff_core {aff : List String} {D : List OpaqueDef} (hT : TableOk aff D)
    (hA : affOk aff = true) (t : Ty) (h : HTy) (hh : toHugr D t = some h) :
    typeBound h = .copyable ↔ coreCopyable D t = true :=
  ⟨rel_top (closed_Rd hT) t h hh, fun hc => (rel_top (closed_Ra false hT hA) t h hh hc).1⟩

/-- **C14 (`bound_iff_copyable`, partial)** — full statement: `typeBound (toHugr t) = Copyable ↔ copyable t`
    for all types.  It is false of the code (`bound_iff_copyable_false`); it holds when no struct in the
    type has a phantom parameter (`noPhantom`: wherever all fields of a struct are copyable, so are its
    type arguments). -/
theorem bound_iff_copyable_partial {aff : List String} {D : List OpaqueDef} (hT : TableOk aff D)
    (hA : affOk aff = true) (t : Ty) (h : HTy) (hh : toHugr D t = some h)
    (hnp : noPhantom D .copy t = true) : typeBound h = .copyable ↔ copyable D t = true := by
  rw [hugr_copyable_iff_core hT hA t h hh]
  unfold coreCopyable copyable
  rw [np_flag D .copy t [] hnp]

/-- **C14 (`affine_requires_drop`, partial)** — full statement: `droppable t ∧ ¬copyable t →
    requiresDrop (toHugr t)`; false of the code in general (`affine_requires_drop_false`), true without
    phantom parameters. -/
theorem affine_requires_drop_partial {aff : List String} {D : List OpaqueDef} (hT : TableOk aff D)
    (hA : affOk aff = true) (t : Ty) (h : HTy) (hh : toHugr D t = some h)
    (hnp : noPhantom D .copy t = true) (haff : Affine D t) : requiresDrop aff h = true := by
  apply linear_droppable_requires_drop hT t h hh haff.1
  cases hb : typeBound h with
  | linear => rfl
  | copyable =>
    have := (bound_iff_copyable_partial hT hA t h hh hnp).mp hb
    rw [haff.2] at this
    cases this

/-- **C14 (`to_hugr` is structural)**: a tuple lowers to a `Sum` with the single row of its elements' HUGR
    types; a struct to the single row of the HUGR types of its fields *instantiated with the arguments*
    (`StructType.fields`); a bound variable to `Variable(idx, Copyable iff copyable)`. -/
theorem toHugr_structural (D : List OpaqueDef) :
    (∀ ts p, toHugr D (.tuple ts p) = (toHugrEList D [] ts).map tupleOf) ∧
    (∀ n as fs fields, Ty.structFields as fs = some fields →
      toHugr D (.struct n as fs) = (toHugrEList D [] fields).map tupleOf) ∧
    (∀ n i c d, toHugr D (.bvar n i c d) = some (.var i (flagB c))) := by
  refine ⟨?_, ?_, ?_⟩
  · intro ts p
    simp only [toHugr, toHugrE]
    cases toHugrEList D [] ts <;> rfl
  · intro n as fs fields hf
    have := toHugrEList_subst D fs as [] fields hf
    simp only [List.append_nil] at this
    simp only [toHugr, toHugrE, this]
    cases toHugrEList D (envArgs D [] as) fs <;> rfl
  · intro n i c d
    simp [toHugr, toHugrE, varH]

/-- **C14 (`to_hugr` shapes of the builtin generic types)**: for any table in which the definition `n` has
    the given shape — `Option[T]` is the sum `[[], [T]]`, `array[T, n]` the `borrow_array<n, T>`,
    `frozenarray[T, n]` the `static_array<T>` (defined only for Copyable `T`), `SizedIter[T, n]` the
    underlying `T`. -/
theorem toHugr_shapes {D : List OpaqueDef} {n : String} {d : OpaqueDef} (hl : lookup D n = some d)
    (t : Ty) (c : Const) :
    (d.shape = .option → toHugr D (.opaque n [.ty t]) = (toHugr D t).map optionOf) ∧
    (∀ e r, d.shape = .array e r → toHugr D (.opaque n [.ty t, .const c]) =
      (toHugr D t).bind (fun h => (constArgE [] c).map (fun a => .ext e r [a, .ty h]))) ∧
    (∀ e r, d.shape = .staticArray e r → toHugr D (.opaque n [.ty t, .const c]) =
      (toHugr D t).bind (fun h => if typeBound h = .copyable then some (.ext e r [.ty h]) else none)) ∧
    (d.shape = .underlying → toHugr D (.opaque n [.ty t, .const c]) = toHugr D t) := by
  refine ⟨?_, ?_, ?_, ?_⟩
  · intro hs; simp only [toHugr, toHugrE, hl, hs]; cases toHugrE D [] t <;> rfl
  · intro e r hs; simp only [toHugr, toHugrE, hl, hs]
    cases toHugrE D [] t <;> cases constArgE [] c <;> rfl
  · intro e r hs; simp only [toHugr, toHugrE, hl, hs]; cases toHugrE D [] t <;> rfl
  · intro hs; simp only [toHugr, toHugrE, hl, hs]

/-- the regenerated table gives `Option`, `array`, `frozenarray`, `SizedIter` those shapes, with the HUGR
    extension types `borrow_array` (explicitly Linear) and `static_array` (bound of its element) -/
theorem gen_shapes :
    (∃ d, lookup Gen.typeDefs "Option" = some d ∧ d.shape = .option) ∧
    (∃ d, lookup Gen.typeDefs "array" = some d ∧
      d.shape = .array "collections.borrow_arr.borrow_array" (.explicit .linear)) ∧
    (∃ d, lookup Gen.typeDefs "frozenarray" = some d ∧
      d.shape = .staticArray "collections.static_array.static_array" .joinArgs) ∧
    (∃ d, lookup Gen.typeDefs "SizedIter" = some d ∧ d.shape = .underlying) := by
  refine ⟨?_, ?_, ?_, ?_⟩ <;> simp [lookup, Gen.typeDefs]

/-- `Ph[qubit, 0]` for `@guppy.struct class Ph[T, n: nat]: x: int` -/
def phantomLinear : Ty :=
  .struct "Ph" [.ty (.opaque "qubit" []), .const (.val (.num .nat) (.int 0))] [.num .int]

/-- `Ph[array[int, 0], 0]` -/
def phantomAffine : Ty :=
  .struct "Ph" [.ty (.opaque "array" [.ty (.num .int), .const (.val (.num .nat) (.int 0))]),
    .const (.val (.num .nat) (.int 0))] [.num .int]

/-- the full `bound_iff_copyable` is **false** of the code: a struct with a phantom type parameter
    instantiated with `qubit` is not copyable, yet lowers to the Copyable HUGR type `Tuple(int)`.
    (Replayed on the real classes by the check: known finding `bound:Ph[qubit, 0]`.) -/
theorem bound_iff_copyable_false :
    ∃ t, known Gen.typeDefs t = true ∧ (toHugr Gen.typeDefs t).map typeBound = some .copyable ∧
      copyable Gen.typeDefs t = false :=
  ⟨phantomLinear, by decide, by decide, by decide⟩

/-- the full `affine_requires_drop` is **false** of the code: `Ph[array[int,0],0]` is affine but its HUGR
    type needs no drop.  (Known finding `drop:Ph[array[int, 0], 0]`.) -/
theorem affine_requires_drop_false :
    ∃ t, known Gen.typeDefs t = true ∧ Affine Gen.typeDefs t ∧
      (toHugr Gen.typeDefs t).map (requiresDrop Gen.affineExtTys) = some false :=
  ⟨phantomAffine, by decide, ⟨by decide, by decide⟩, by decide⟩

/-! ## Non-vacuity -/
section Examples
def intT : Ty := .num .int
def arr3 : Ty := .opaque "array" [.ty intT, .const (.val (.num .nat) (.int 3))]
/-- `G1[array[int,3]]` for `class G1[T]: x: T; y: int` -/
def g1arr : Ty := .struct "G1" [.ty arr3] [.bvar "T" 0 false false, intT]
/-- `Option[(G1[array[int,3]], T)]` with an affine type variable -/
def nested : Ty := .opaque "Option" [.ty (.tuple [g1arr, .bvar "T" 0 false true] false)]

-- the struct rule is used with real instantiated fields
example : (Ty.structFields [.ty arr3] [.bvar "T" 0 false false, intT]).map
    (fun fs => fs.map (fun f => (copyable Gen.typeDefs f, droppable Gen.typeDefs f))) =
      some [(false, true), (true, true)] := by decide
-- an affine nested type without phantom parameters: hypotheses of `affine_requires_drop_partial` hold
example : known Gen.typeDefs nested = true ∧ noPhantom Gen.typeDefs .copy nested = true ∧
    Affine Gen.typeDefs nested ∧ (toHugr Gen.typeDefs nested).isSome = true := by
  refine ⟨by decide, by decide, ⟨by decide, by decide⟩, by decide⟩
-- a copyable nested type: hypotheses of `copyable_sound`
example : copyable Gen.typeDefs (.tuple [intT, .opaque "Option" [.ty (.opaque "bool" [])]] false) = true ∧
    (toHugr Gen.typeDefs (.tuple [intT, .opaque "Option" [.ty (.opaque "bool" [])]] false)).isSome = true := by
  refine ⟨by decide, by decide⟩
-- `hugrBound` is defined on it
example : hugrBound Gen.typeDefs nested = some .linear := by decide
-- a droppable type with Linear HUGR type: hypotheses of `linear_droppable_requires_drop`
example : droppable Gen.typeDefs arr3 = true ∧
    (toHugr Gen.typeDefs arr3).map typeBound = some .linear := by
  refine ⟨by decide, by decide⟩
end Examples

end GuppyVerif.CopyDrop
