import GuppyVerif.Lemmas.C26
/-! # C26 — Loaded pytket circuits act like the circuit (wiring part)

Property theorems only.  `loadPytket c useArrays md outs` models
`guppy.load_pytket(name, circ, use_arrays=…)` followed by lowering: `c` holds the attributes read
from the pytket circuit, `md` the `TKET1.input_parameters` metadata of the converted circuit
function and `outs` its output port types.  The converted function's interface (qubits, bits,
parameters in metadata order → qubits, bits) is an assumption about `Tk2Circuit`
(`InnerOutsOk`, and the reading of call port `i` as circuit qubit `c.qubits[i]`); pytket's
listing order is the assumption `PytketView` (decided by `Circ.viewOk` on the real object at run
time).  All statements are for arbitrary circuits: any number/size of registers, bits, symbols. -/
namespace GuppyVerif.Pytket

/-- the run-time check `Circ.viewOk` establishes the assumption `PytketView` -/
theorem viewOk_sound (c : Circ) (h : c.viewOk = true) : PytketView c := by
  simp only [Circ.viewOk, Bool.and_eq_true] at h
  exact ⟨strictlyIncreasing_pairwise _ h.1.1.1, strictlyIncreasing_pairwise _ h.1.1.2,
    isSubseq_sublist _ _ h.1.2, isSubseq_sublist _ _ h.2⟩

/-- **C26 (qubits, individual arguments)**: the `i`-th passed qubit is a borrowed `qubit`
    argument, feeds input port `i` of the circuit function, comes back from output port `i` as the
    `i`-th qubit output (after the `n_bits` bools), and port `i` is the circuit qubit of
    lexicographic rank `i`. -/
theorem qubit_i_to_i (c : Circ) (md : Option (List String)) (outs : List PortTy) (sig : Sig)
    (w : Wiring) (hv : PytketView c) (ho : InnerOutsOk c outs)
    (h : loadPytket c false md outs = .ok (sig, w)) (i : Nat) (hi : i < c.nQubits) :
    sig.inputs[i]? = some ⟨.scalar .qubit, .inout⟩ ∧
    w.callArgs[i]? = some (.port (.input i)) ∧
    w.outputs[c.nBits + i]? = some (.wire (.call i)) ∧
    unitRank c.qubits (c.qubits[i]'hi) = i := by
  obtain ⟨hs, hw⟩ := loadPytket_ok h
  have hsig : sig = signatureFlat c := by
    simp only [signatureFromCircuit, Bool.false_eq_true, ↓reduceIte] at hs
    exact (Except.ok.inj hs).symm
  subst hsig
  obtain ⟨ps, _, hargs, houts⟩ := compileOuter_flat hw
  have hlen : (signatureFlat c).inputs.length = c.nQubits + c.nSyms := by simp [signatureFlat]
  refine ⟨?_, ?_, ?_, unitRank_getElem c.qubits hv.qubits_sorted i hi⟩
  · simp only [signatureFlat]
    rw [List.getElem?_append_left (by simpa using hi)]
    simp [hi]
  · rw [hargs, hlen, range_add_take, List.append_assoc,
      List.getElem?_append_left (by simpa using hi)]
    simp [hi]
  · rw [houts, outWires_ok c outs ho, List.map_append,
      List.getElem?_append_right (by simp)]
    simp [hi]

/-- **C26 (qubits, register arrays)**: element `e` of the `r`-th array argument is circuit qubit
    `name_r[e]`; it has lexicographic rank `i = size_0 + … + size_{r-1} + e` among the circuit's
    qubits, feeds input port `i` of the circuit function, and output port `i` is put back at
    element `e` of the `r`-th qubit array returned (after one array per bit register). -/
theorem qubit_i_to_i_arrays (c : Circ) (md : Option (List String)) (outs : List PortTy)
    (sig : Sig) (w : Wiring) (hv : PytketView c) (ho : InnerOutsOk c outs)
    (h : loadPytket c true md outs = .ok (sig, w))
    (r : Nat) (hr : r < c.qregs.length) (e : Nat) (he : e < c.qregs[r].size) :
    ∃ hi : flatPos (sizes c.qregs) r e < c.nQubits,
      sig.inputs[r]? = some ⟨.array .qubit c.qregs[r].size, .inout⟩ ∧
      w.callArgs[flatPos (sizes c.qregs) r e]? =
        some (.port (.unpack .qubit c.qregs[r].size r e)) ∧
      c.qubits[flatPos (sizes c.qregs) r e] = ⟨c.qregs[r].name, [e]⟩ ∧
      unitRank c.qubits ⟨c.qregs[r].name, [e]⟩ = flatPos (sizes c.qregs) r e ∧
      ∃ ls, w.outputs[c.cregs.length + r]? = some (.newArray .qubit c.qregs[r].size ls) ∧
        ls[e]? = some (.call (flatPos (sizes c.qregs) r e)) := by
  obtain ⟨hs, hw⟩ := loadPytket_ok h
  obtain ⟨htq, htc, hin, _⟩ := signatureFromCircuit_arrays hs
  obtain ⟨ps, _, hargs, houts⟩ := compileOuter_arrays hw
  have hq : regUnits c.qregs = c.qubits :=
    hv.qregs_sub.eq_of_length (by rw [regUnits_length, htq]; rfl)
  have hi : flatPos (sizes c.qregs) r e < c.nQubits := htq ▸ flatPos_lt_total c.qregs r hr e he
  have hu : c.qubits[flatPos (sizes c.qregs) r e] = ⟨c.qregs[r].name, [e]⟩ := by
    have := regUnits_getElem? c.qregs r hr e he
    rw [hq, List.getElem?_eq_getElem hi] at this
    exact Option.some.inj this
  refine ⟨hi, ?_, ?_, hu, ?_, ?_⟩
  · rw [hin, List.getElem?_append_left (by simpa using hr)]
    simp [hr]
  · rw [hargs, List.append_assoc,
      List.getElem?_append_left (by rw [unpackAll_length, htq]; exact hi)]
    have := unpackAll_getElem? c.qregs 0 r hr e he
    simpa using this
  · rw [← hu]; exact unitRank_getElem c.qubits hv.qubits_sorted _ hi
  · refine ⟨((outWires c outs).drop (total c.cregs + flatPos (sizes c.qregs) r 0)).take
      c.qregs[r].size, ?_, ?_⟩
    · rw [houts, List.getElem?_append_right (by simp [packFrom_length]), packFrom_length,
        Nat.add_sub_cancel_left]
      exact packFrom_getElem? .qubit _ c.qregs (total c.cregs) r hr
    · rw [outWires_ok c outs ho, List.getElem?_take_of_lt he, List.getElem?_drop, htc,
        List.getElem?_append_right (by simp; omega)]
      have : c.nBits + flatPos (sizes c.qregs) r 0 + e -
          ((List.range c.nBits).map fun b => OutLeaf.opaque (c.nQubits + b)).length =
          flatPos (sizes c.qregs) r e := by
        simp [flatPos]; omega
      rw [this]
      simp [hi]

/-- **C26 (no qubit is left out)**: with arrays, every circuit qubit is an element of exactly the
    array the previous theorem speaks about. -/
theorem every_qubit_in_some_array (c : Circ) (md : Option (List String)) (outs : List PortTy)
    (sig : Sig) (w : Wiring) (h : loadPytket c true md outs = .ok (sig, w))
    (i : Nat) (hi : i < c.nQubits) :
    ∃ (r : Nat) (hr : r < c.qregs.length) (e : Nat),
      e < c.qregs[r].size ∧ flatPos (sizes c.qregs) r e = i := by
  obtain ⟨hs, _⟩ := loadPytket_ok h
  obtain ⟨htq, _, _, _⟩ := signatureFromCircuit_arrays hs
  exact exists_flatPos c.qregs i (htq ▸ hi)

/-- **C26 (parameters)**: the circuit function's `j`-th parameter port (symbol `po[j]` of the
    metadata order) is fed, through `UnpackTuple`, by the parameter the caller passes in
    position `k` where `k` is the lexicographic rank of `po[j]` among all symbol names — i.e. the
    parameter passed in position `k` is bound to the symbol of rank `k`. -/
theorem param_by_lex_rank (c : Circ) (ua : Bool) (po : List String) (outs : List PortTy)
    (sig : Sig) (w : Wiring) (hn : po.Nodup) (hs : c.nSyms ≠ 0)
    (h : loadPytket c ua (some po) outs = .ok (sig, w)) :
    po.length = c.nSyms ∧
    ∀ (j : Nat) (hj : j < po.length),
      lexRank po po[j] < c.nSyms ∧
      w.callArgs[c.nQubits + c.nBits + j]? =
        some (.untuple (passedParam c ua (lexRank po po[j]))) := by
  obtain ⟨hsig, hw⟩ := loadPytket_ok h
  cases ua with
  | false =>
    have hsig' : sig = signatureFlat c := by
      simp only [signatureFromCircuit, Bool.false_eq_true, ↓reduceIte] at hsig
      exact (Except.ok.inj hsig).symm
    subst hsig'
    obtain ⟨ps, hps, hargs, _⟩ := compileOuter_flat hw
    have hlen : (signatureFlat c).inputs.length = c.nQubits + c.nSyms := by simp [signatureFlat]
    rw [hlen] at hps hargs
    simp only [paramArgs, hs, ↓reduceIte, lexParamPorts_flat] at hps
    obtain ⟨hpo, hps'⟩ := wireParams_ok po hn _ c.nSyms ps hps
    refine ⟨hpo, fun j hj => ?_⟩
    obtain ⟨hi, _⟩ := sorted_getElem_lexRank po hn po[j] (List.getElem_mem hj)
    have hr : lexRank po po[j] < c.nSyms := by
      rw [← hpo, ← (sorted_perm strLt po).length_eq]; exact hi
    refine ⟨hr, ?_⟩
    rw [hargs, range_add_take, List.getElem?_append_right (by simp)]
    simp [hps', hj, passedParam]
  | true =>
    obtain ⟨htq, _, hin, _⟩ := signatureFromCircuit_arrays hsig
    obtain ⟨ps, hps, hargs, _⟩ := compileOuter_arrays hw
    have hlen : sig.inputs.length = c.qregs.length + 1 := by simp [hin, hs]
    rw [hlen] at hps
    simp only [paramArgs, hs, ↓reduceIte, lexParamPorts_arrays] at hps
    obtain ⟨hpo, hps'⟩ := wireParams_ok po hn _ c.nSyms ps hps
    refine ⟨hpo, fun j hj => ?_⟩
    obtain ⟨hi, _⟩ := sorted_getElem_lexRank po hn po[j] (List.getElem_mem hj)
    have hr : lexRank po po[j] < c.nSyms := by
      rw [← hpo, ← (sorted_perm strLt po).length_eq]; exact hi
    refine ⟨hr, ?_⟩
    rw [hargs, List.getElem?_append_right (by simp [unpackAll_length, htq])]
    simp [hps', hj, passedParam, unpackAll_length, htq]

/-- **C26 (outputs)**: in both modes the returned wires, arrays flattened, are one opaque bool
    per classical bit (made from the circuit function's bit outputs, in bit order) followed by
    the qubits (in qubit order); without arrays these are exactly the function's outputs and the
    declared return type is one `bool` per bit. -/
theorem outputs_bits_then_qubits (c : Circ) (ua : Bool) (md : Option (List String))
    (outs : List PortTy) (sig : Sig) (w : Wiring) (ho : InnerOutsOk c outs)
    (h : loadPytket c ua md outs = .ok (sig, w)) :
    (outLeaves w.outputs).length = c.nBits + c.nQubits ∧
    (∀ b, b < c.nBits → (outLeaves w.outputs)[b]? = some (.opaque (c.nQubits + b))) ∧
    (∀ i, i < c.nQubits → (outLeaves w.outputs)[c.nBits + i]? = some (.call i)) ∧
    (ua = false → w.outputs.length = c.nBits + c.nQubits ∧ OutputMatches c.nBits sig.output) := by
  obtain ⟨hs, hw⟩ := loadPytket_ok h
  have hleaves : outLeaves w.outputs = outWires c outs ∧
      (ua = false → w.outputs.length = c.nBits + c.nQubits ∧ OutputMatches c.nBits sig.output) := by
    cases ua with
    | false =>
      obtain ⟨ps, _, _, houts⟩ := compileOuter_flat hw
      have hsig : sig = signatureFlat c := by
        simp only [signatureFromCircuit, Bool.false_eq_true, ↓reduceIte] at hs
        exact (Except.ok.inj hs).symm
      refine ⟨by rw [houts, outLeaves_map_wire], fun _ => ⟨?_, ?_⟩⟩
      · rw [houts, outWires_ok c outs ho]; simp
      · rw [hsig]; exact rowToType_replicate_matches _
    | true =>
      obtain ⟨_, htc, _, _⟩ := signatureFromCircuit_arrays hs
      obtain ⟨htq, _⟩ := signatureFromCircuit_arrays hs
      obtain ⟨ps, _, _, houts⟩ := compileOuter_arrays hw
      refine ⟨?_, fun h => by cases h⟩
      rw [houts, outLeaves_append, outLeaves_packFrom, outLeaves_packFrom, htc, htq,
        List.drop_zero, ← List.take_add]
      apply List.take_of_length_le
      rw [outWires_ok c outs ho]; simp
  rw [hleaves.1, outWires_ok c outs ho]
  refine ⟨by simp, fun b hb => ?_, fun i hi => ?_, hleaves.2⟩
  · rw [List.getElem?_append_left (by simpa using hb)]; simp [hb]
  · rw [List.getElem?_append_right (by simp)]; simp [hi]

/-- **C26 (bit registers, arrays)**: the `r`-th returned array has one opaque bool per bit of the
    `r`-th bit register, element `e` being made from the circuit function's output for bit
    `name_r[e]`, which has lexicographic rank `size_0 + … + size_{r-1} + e` among the bits. -/
theorem bit_arrays_by_register (c : Circ) (md : Option (List String)) (outs : List PortTy)
    (sig : Sig) (w : Wiring) (hv : PytketView c) (ho : InnerOutsOk c outs)
    (h : loadPytket c true md outs = .ok (sig, w))
    (r : Nat) (hr : r < c.cregs.length) (e : Nat) (he : e < c.cregs[r].size) :
    ∃ hb : flatPos (sizes c.cregs) r e < c.nBits,
      c.bits[flatPos (sizes c.cregs) r e] = ⟨c.cregs[r].name, [e]⟩ ∧
      unitRank c.bits ⟨c.cregs[r].name, [e]⟩ = flatPos (sizes c.cregs) r e ∧
      ∃ ls, w.outputs[r]? = some (.newArray .bool c.cregs[r].size ls) ∧
        ls[e]? = some (.opaque (c.nQubits + flatPos (sizes c.cregs) r e)) := by
  obtain ⟨hs, hw⟩ := loadPytket_ok h
  obtain ⟨_, htc, _, _⟩ := signatureFromCircuit_arrays hs
  obtain ⟨ps, _, _, houts⟩ := compileOuter_arrays hw
  have hq : regUnits c.cregs = c.bits :=
    hv.cregs_sub.eq_of_length (by rw [regUnits_length, htc]; rfl)
  have hb : flatPos (sizes c.cregs) r e < c.nBits := htc ▸ flatPos_lt_total c.cregs r hr e he
  have hu : c.bits[flatPos (sizes c.cregs) r e] = ⟨c.cregs[r].name, [e]⟩ := by
    have := regUnits_getElem? c.cregs r hr e he
    rw [hq, List.getElem?_eq_getElem hb] at this
    exact Option.some.inj this
  refine ⟨hb, hu, ?_, ?_⟩
  · rw [← hu]; exact unitRank_getElem c.bits hv.bits_sorted _ hb
  · refine ⟨((outWires c outs).drop (0 + flatPos (sizes c.cregs) r 0)).take c.cregs[r].size, ?_, ?_⟩
    · rw [houts, List.getElem?_append_left (by simpa [packFrom_length] using hr)]
      exact packFrom_getElem? .bool _ c.cregs 0 r hr
    · rw [outWires_ok c outs ho, List.getElem?_take_of_lt he, List.getElem?_drop,
        List.getElem?_append_left (by simp [flatPos] at hb ⊢; omega)]
      have : 0 + flatPos (sizes c.cregs) r 0 + e = flatPos (sizes c.cregs) r e := by
        simp [flatPos]
      rw [this]
      simp [hb]

/-- **C26 (stubs)**: `@guppy.pytket(circ)` accepts a stub, with the stub's own signature, iff the
    body is empty, the signature checks, and it matches the circuit's shape: one borrowed qubit
    per circuit qubit, then one angle per free symbol, returning one bool per bit. -/
theorem stub_accept_iff_signature (c : Circ) (s : Stub) (ty : Sig) :
    parseStub c s = .accepted ty ↔
      hasEmptyBody s.body = true ∧ s.sig = some ty ∧ StubMatches c ty := by
  unfold parseStub
  cases hb : hasEmptyBody s.body
  · simp
  · cases hsig : s.sig with
    | none => simp
    | some stub =>
      simp only [Bool.not_true, Bool.false_eq_true, ↓reduceIte, true_and, Option.some.injEq]
      by_cases hm : (signatureFlat c).inputs = stub.inputs ∧ (signatureFlat c).output = stub.output
      · have : ((signatureFlat c).inputs == stub.inputs && (signatureFlat c).output == stub.output) = true := by
          simp [hm.1, hm.2]
        simp only [this, Bool.not_true, Bool.false_eq_true, ↓reduceIte, StubResult.accepted.injEq]
        constructor
        · intro e; subst e; exact ⟨rfl, (stubMatches_iff c stub).mpr hm⟩
        · exact fun h => h.1
      · have : ((signatureFlat c).inputs == stub.inputs && (signatureFlat c).output == stub.output) = false := by
          rw [Bool.eq_false_iff]; intro h
          simp only [Bool.and_eq_true, beq_iff_eq] at h
          exact hm h
        simp only [this, Bool.not_false, ↓reduceIte, reduceCtorEq, false_iff, not_and]
        intro e hmm; subst e
        exact hm ((stubMatches_iff c stub).mp hmm)

/-- **C26 (stub rejections, in the order of the checks)**: a non-empty body is reported first,
    then a signature that does not check, then a mismatch (with the circuit's signature as the
    hint). -/
theorem stub_rejections (c : Circ) (s : Stub) :
    (hasEmptyBody s.body = false → parseStub c s = .bodyNotEmpty) ∧
    (hasEmptyBody s.body = true → s.sig = none → parseStub c s = .signatureError) ∧
    (∀ ty, hasEmptyBody s.body = true → s.sig = some ty → ¬ StubMatches c ty →
      parseStub c s = .mismatch (signatureFlat c)) := by
  refine ⟨fun hb => by simp [parseStub, hb], fun hb hs => by simp [parseStub, hb, hs], ?_⟩
  intro ty hb hs hm
  have hacc := (stub_accept_iff_signature c s ty).not.mpr (fun h => hm h.2.2)
  unfold parseStub at hacc ⊢
  simp only [hb, hs, Bool.not_true, Bool.false_eq_true, ↓reduceIte] at hacc ⊢
  cases hbb : ((signatureFlat c).inputs == ty.inputs && (signatureFlat c).output == ty.output)
  · simp
  · simp [hbb] at hacc

/-- **C26 (arrays need complete registers)**: with `use_arrays=True` the circuit is refused with
    `PytketUnitsOutsideRegisters` exactly when some qubit or bit is not a unit of a listed
    (complete) register; nothing else makes the signature fail. -/
theorem arrays_rejected_iff_units_outside_registers (c : Circ) (md : Option (List String))
    (outs : List PortTy) (hv : PytketView c) :
    loadPytket c true md outs = .error (.sig .unitsOutsideRegisters) ↔
      ¬ (regUnits c.qregs = c.qubits ∧ regUnits c.cregs = c.bits) := by
  have hq : regUnits c.qregs = c.qubits ↔ total c.qregs = c.nQubits :=
    ⟨fun h => by rw [← regUnits_length, h]; rfl,
     fun h => hv.qregs_sub.eq_of_length (by rw [regUnits_length, h]; rfl)⟩
  have hb : regUnits c.cregs = c.bits ↔ total c.cregs = c.nBits :=
    ⟨fun h => by rw [← regUnits_length, h]; rfl,
     fun h => hv.cregs_sub.eq_of_length (by rw [regUnits_length, h]; rfl)⟩
  rw [hq, hb]
  unfold loadPytket signatureFromCircuit
  by_cases h : total c.qregs = c.nQubits ∧ total c.cregs = c.nBits
  · simp only [h.1, h.2, ne_eq, not_true_eq_false, decide_false, Bool.or_self, Bool.false_eq_true,
      ↓reduceIte, and_self, iff_false]
    split <;> simp
  · have h' : ¬total c.qregs = c.nQubits ∨ ¬total c.cregs = c.nBits :=
      Decidable.not_and_iff_not_or_not.mp h
    simp [h', h]

/-! ## Non-vacuity

A circuit with two qubit registers `a` (1) and `z` (2), bit registers `b` (1) and `m` (2) and
two symbols that tket reports in the order `t, a` (not sorted).  The hypotheses of all theorems
hold for it, the parameter permutation is not the identity, and the rank statements are
non-trivial. -/

def exampleCirc : Circ :=
  { qubits := [⟨"a", [0]⟩, ⟨"z", [0]⟩, ⟨"z", [1]⟩], bits := [⟨"b", [0]⟩, ⟨"m", [0]⟩, ⟨"m", [1]⟩],
    qregs := [⟨"a", 1⟩, ⟨"z", 2⟩], cregs := [⟨"b", 1⟩, ⟨"m", 2⟩], nSyms := 2 }

def exampleOuts : List PortTy := [.qubit, .qubit, .qubit, .bool, .bool, .bool]

example : PytketView exampleCirc := viewOk_sound _ (by decide)
example : InnerOutsOk exampleCirc exampleOuts := rfl
example : ["t", "a"].Nodup ∧ lexRank ["t", "a"] "t" = 1 ∧ lexRank ["t", "a"] "a" = 0 := by decide

example : loadPytket exampleCirc false (some ["t", "a"]) exampleOuts =
    .ok (⟨[⟨.scalar .qubit, .inout⟩, ⟨.scalar .qubit, .inout⟩, ⟨.scalar .qubit, .inout⟩,
            ⟨.scalar .angle, .noFlags⟩, ⟨.scalar .angle, .noFlags⟩],
          .tuple [.scalar .bool, .scalar .bool, .scalar .bool]⟩,
         ⟨[.port (.input 0), .port (.input 1), .port (.input 2), .falseConst, .falseConst, .falseConst,
           .untuple (.input 4), .untuple (.input 3)],
          [.wire (.opaque 3), .wire (.opaque 4), .wire (.opaque 5),
           .wire (.call 0), .wire (.call 1), .wire (.call 2)]⟩) := by decide

example : loadPytket exampleCirc true (some ["t", "a"]) exampleOuts =
    .ok (⟨[⟨.array .qubit 1, .inout⟩, ⟨.array .qubit 2, .inout⟩, ⟨.array .angle 2, .noFlags⟩],
          .tuple [.array .bool 1, .array .bool 2]⟩,
         ⟨[.port (.unpack .qubit 1 0 0), .port (.unpack .qubit 2 1 0), .port (.unpack .qubit 2 1 1),
           .falseConst, .falseConst, .falseConst,
           .untuple (.unpack .angle 2 2 1), .untuple (.unpack .angle 2 2 0)],
          [.newArray .bool 1 [.opaque 3], .newArray .bool 2 [.opaque 4, .opaque 5],
           .newArray .qubit 1 [.call 0], .newArray .qubit 2 [.call 1, .call 2]]⟩) := by decide

/-- a matching stub is accepted; the same stub with the angle before the qubits is a mismatch -/
example : parseStub exampleCirc ⟨[.ellipsis], some (signatureFlat exampleCirc)⟩ =
    .accepted (signatureFlat exampleCirc) := by decide
example : parseStub exampleCirc ⟨[.ellipsis],
    some ⟨[⟨.scalar .angle, .noFlags⟩, ⟨.scalar .qubit, .inout⟩, ⟨.scalar .qubit, .inout⟩,
      ⟨.scalar .qubit, .inout⟩, ⟨.scalar .angle, .noFlags⟩], (signatureFlat exampleCirc).output⟩⟩ =
    .mismatch (signatureFlat exampleCirc) := by decide

/-- the defect witness: qubits `r[0], r[1], r[5], x[3]` (no complete register).  The repaired
    `_signature_from_circuit` refuses it; `compile_outer` alone (what ran before the fix) feeds
    `False` constants into the circuit's qubit ports and leaves four ports unconnected. -/
def strayCirc : Circ :=
  { qubits := [⟨"r", [0]⟩, ⟨"r", [1]⟩, ⟨"r", [5]⟩, ⟨"x", [3]⟩], bits := [⟨"c", [0]⟩, ⟨"c", [1]⟩, ⟨"k", [2]⟩],
    qregs := [], cregs := [⟨"c", 2⟩], nSyms := 0 }

example : PytketView strayCirc := viewOk_sound _ (by decide)
example : loadPytket strayCirc true none [.qubit, .qubit, .qubit, .qubit, .bool, .bool, .bool] =
    .error (.sig .unitsOutsideRegisters) := by decide
example : (compileOuter strayCirc true 0 none
      [.qubit, .qubit, .qubit, .qubit, .bool, .bool, .bool]).toOption.map (·.callArgs) =
    some [.falseConst, .falseConst, .falseConst] := by decide

/-- degenerate shape: a purely classical circuit (no qubits, bit registers `hi` (2) and `lo` (1)).
    The hypotheses of the theorems hold (so `outputs_bits_then_qubits` and `bit_arrays_by_register`
    speak about it: every returned bool array is built from the call's bit outputs `0, 1 | 2`), in
    both modes; likewise the circuit with nothing at all. -/
def classicalCirc : Circ :=
  { qubits := [], bits := [⟨"hi", [0]⟩, ⟨"hi", [1]⟩, ⟨"lo", [0]⟩],
    qregs := [], cregs := [⟨"hi", 2⟩, ⟨"lo", 1⟩], nSyms := 0 }

example : PytketView classicalCirc := viewOk_sound _ (by decide)
example : InnerOutsOk classicalCirc [.bool, .bool, .bool] := rfl
example : loadPytket classicalCirc true none [.bool, .bool, .bool] =
    .ok (⟨[], .tuple [.array .bool 2, .array .bool 1]⟩,
         ⟨[.falseConst, .falseConst, .falseConst],
          [.newArray .bool 2 [.opaque 0, .opaque 1], .newArray .bool 1 [.opaque 2]]⟩) := by decide
example : loadPytket classicalCirc false none [.bool, .bool, .bool] =
    .ok (⟨[], .tuple [.scalar .bool, .scalar .bool, .scalar .bool]⟩,
         ⟨[.falseConst, .falseConst, .falseConst],
          [.wire (.opaque 0), .wire (.opaque 1), .wire (.opaque 2)]⟩) := by decide
example : loadPytket ⟨[], [], [], [], 0⟩ true none [] = .ok (⟨[], .none⟩, ⟨[], []⟩) := by decide
example : parseStub classicalCirc ⟨[], some ⟨[], .tuple [.scalar .bool, .scalar .bool, .scalar .bool]⟩⟩ =
    .accepted ⟨[], .tuple [.scalar .bool, .scalar .bool, .scalar .bool]⟩ := by decide

/-! ## Histories

A session is any list of events: loads (each with the identity of the circuit object and the
state of that object *at that moment*) interleaved with anything else (creating, extending,
deleting circuit objects, identity reuse).  Full statement: the `k`-th load of *every* session
yields exactly what compiling its own snapshot yields — whatever was loaded before, under
whatever object identities, and whatever happens afterwards.  A conversion cache keyed by object
identity (`runSession true`) falsifies this; the counterexample is below. -/

/-- **C26 (history)**: the result of a load depends only on the circuit as it is at that load. -/
theorem load_depends_only_on_current_circuit (before after : List Event) (obj : Nat)
    (s : Snapshot) :
    (session (before ++ .load obj s :: after))[loadsIn before]? = some (compileSnapshot s) := by
  unfold session
  rw [runSession_false, List.filterMap_append, List.getElem?_append_right (by rw [length_filterMap_loads]),
    length_filterMap_loads]
  simp

/-- **C26 (history independence)**: two sessions with arbitrary different pasts (and different
    object identities) that end with a load of circuits in the same state end with the same result. -/
theorem history_independent (h₁ h₂ : List Event) (o₁ o₂ : Nat) (s : Snapshot) :
    (session (h₁ ++ [.load o₁ s])).getLast? = (session (h₂ ++ [.load o₂ s])).getLast? := by
  unfold session
  simp [runSession_false, List.filterMap_append]

/-- and a session produces exactly one result per load -/
theorem one_result_per_load (evs : List Event) : (session evs).length = loadsIn evs := by
  unfold session; rw [runSession_false, length_filterMap_loads]

/-! Non-vacuity and the counterexample: one circuit object (identity 7) is loaded with a single
    `H`, extended by a measurement into a new bit, and loaded again.  The code's session gives the
    second load its own shape and content; a cache keyed by identity gives it the stale content
    `H:1` and stale port types (so the declared bool result is not even wired). -/
def stage1 : Snapshot :=
  ⟨⟨[⟨"q", [0]⟩], [], [⟨"q", 1⟩], [], 0⟩, false, ⟨none, [.qubit], ["H:1"]⟩⟩
def stage2 : Snapshot :=
  ⟨⟨[⟨"q", [0]⟩], [⟨"c", [0]⟩], [⟨"q", 1⟩], [⟨"c", 1⟩], 0⟩, false,
    ⟨none, [.qubit, .bool], ["H:1", "Measure:1"]⟩⟩

example : session [.load 7 stage1, .other, .load 7 stage2] =
    [.ok (⟨[⟨.scalar .qubit, .inout⟩], .none⟩, ⟨[.port (.input 0)], [.wire (.call 0)]⟩, ["H:1"]),
     .ok (⟨[⟨.scalar .qubit, .inout⟩], .leaf (.scalar .bool)⟩,
          ⟨[.port (.input 0), .falseConst], [.wire (.opaque 1), .wire (.call 0)]⟩,
          ["H:1", "Measure:1"])] := by decide

example : (runSession true [] [.load 7 stage1, .other, .load 7 stage2])[1]? ≠
    some (compileSnapshot stage2) := by decide
example : (runSession true [] [.load 7 stage1, .other, .load 7 stage2])[1]? =
    some (.ok (⟨[⟨.scalar .qubit, .inout⟩], .leaf (.scalar .bool)⟩,
          ⟨[.port (.input 0), .falseConst], [.wire (.call 0)]⟩, ["H:1"])) := by decide

end GuppyVerif.Pytket
