import GuppyVerif.Lemmas.C28
/-! # C28 — Emulator configurations are immutable and reproducible

Property theorems only.  `step true` (Model/EmuConfig.lean) is `EmulatorInstance` after the
repair of D10; `step false` is the original code.  Histories are arbitrary lists of
`newSim` (user builds a simulator object), `derive i d` (any `with_*` / `*_sim` method on any
instance created so far) and `run i`.  The behaviour of an instance is `view`: the arguments its
`run()` would hand to `SeleneInstance.run_shots`, simulator object by content
(class, `random_seed`). -/
namespace GuppyVerif.EmuConfig

open Spec

theorem WF_initial (n : Nat) : WF (initial n) := by
  intro c hc; simp [initial] at hc; subst hc; simp [initial]

theorem LogOK_initial (n : Nat) : LogOK (initial n) := by
  intro e he; simp [initial] at he

/-- **C28 (immutability)**: take any history from a fresh instance, stop anywhere (`s₁`), continue
    with any further history (`s₂`): every instance that existed at `s₁` would still run with
    exactly the same arguments. -/
theorem derive_preserves_earlier (n : Nat) (ops₁ ops₂ : List Op) (s₁ s₂ : State)
    (h₁ : runOps true (initial n) ops₁ = some s₁) (h₂ : runOps true s₁ ops₂ = some s₂)
    (j : Nat) (hj : j < s₁.insts.length) :
    view s₂ j = view s₁ j ∧ (view s₁ j).isSome = true := by
  obtain ⟨hw₁, _, _⟩ := runOps_fixed ops₁ (initial n) s₁ (WF_initial n) h₁
  obtain ⟨_, _, hv⟩ := runOps_fixed ops₂ s₁ s₂ hw₁ h₂
  refine ⟨hv j hj, ?_⟩
  unfold view
  rw [List.getElem?_eq_getElem hj]
  exact argsOf_isSome _ _ (hw₁ _ (List.getElem_mem hj))

/-- **C28 (reproducibility)**: in any history, all runs of the same instance — whatever was
    derived or run in between — pass identical arguments, equal to what the instance shows at
    the end; with a fixed seed the simulator's effective seed is definite (selene prefers the
    component's own `random_seed`, else `random_seed=`). -/
theorem run_reproducible (n : Nat) (ops : List Op) (s : State)
    (h : runOps true (initial n) ops = some s) (j : Nat) (a b : RunArgs)
    (ha : (j, a) ∈ s.log) (hb : (j, b) ∈ s.log) :
    a = b ∧ view s j = some a ∧ (∀ v, a.seed = some v → a.effSimSeed.isSome = true) := by
  have hl := runOps_logOK ops (initial n) s (WF_initial n) (LogOK_initial n) h
  have h1 := (hl _ ha).2
  have h2 := (hl _ hb).2
  simp only at h1 h2
  refine ⟨Option.some.inj (h1.symm.trans h2), h1, ?_⟩
  intro v hv
  unfold RunArgs.effSimSeed
  cases a.simSeed <;> simp [hv]

/-- **C28 (a derivation is a pure function of the parent's behaviour)**: the new instance shows
    `applyD` of what the parent shows — with `with_simulator`'s object taken by content — so the
    behaviour of every instance is the fold of its derivation path from the base instance. -/
theorem derive_is_pure (s s' : State) (i : Nat) (d : Deriv) (hw : WF s)
    (hs : step true s (.derive i d) = some s') :
    view s' s.insts.length = (view s i).bind fun a => applyD (fun k => s.heap[k]?) a d := by
  simp only [step] at hs
  cases hi : s.insts[i]? with
  | none => simp [hi] at hs
  | some c =>
    have hc : c.sim < s.heap.length := hw c (List.mem_of_getElem? hi)
    simp only [hi] at hs
    cases hd : derive true s.heap c d with
    | none => simp [hd] at hs
    | some r =>
      obtain ⟨h', c'⟩ := r
      simp only [hd, Option.some.injEq] at hs
      subst hs
      simp only [view, hi, List.getElem?_concat_length]
      cases d <;> simp only [derive] at hd
      case seed v =>
        rw [List.getElem?_eq_getElem hc] at hd
        simp only [↓reduceIte, Option.some.injEq, Prod.mk.injEq] at hd
        obtain ⟨rfl, rfl⟩ := hd
        simp [argsOf, List.getElem?_eq_getElem hc, applyD]
      case simulator sid =>
        split at hd
        · rename_i hsid
          simp only [Option.some.injEq, Prod.mk.injEq] at hd
          obtain ⟨rfl, rfl⟩ := hd
          simp [argsOf, List.getElem?_eq_getElem hc, List.getElem?_eq_getElem hsid, applyD]
        · cases hd
      all_goals
        simp only [Option.some.injEq, Prod.mk.injEq] at hd
        obtain ⟨rfl, rfl⟩ := hd
        simp [argsOf, List.getElem?_eq_getElem hc, applyD]

/-- **D10**: the original `with_seed` (writes `random_seed` of the shared simulator object)
    violates immutability — `a = base.with_seed(1); b = a.with_seed(2)` changes what `a` runs with. -/
theorem d10_original_code_violates :
    ∃ (ops₁ ops₂ : List Op) (s₁ s₂ : State) (j : Nat),
      runOps false (initial 1) ops₁ = some s₁ ∧ runOps false s₁ ops₂ = some s₂ ∧
      j < s₁.insts.length ∧ view s₂ j ≠ view s₁ j :=
  ⟨[.derive 0 (.seed (some 1))], [.derive 1 (.seed (some 2))], _, _, 1, rfl, rfl, by decide, by decide⟩

/-! Non-vacuity: a history with sibling derivations, a user simulator shared by two instances,
    reseeding, and repeated runs of an early instance. -/
def exOps : List Op :=
  [.derive 0 (.seed (some 1)), .run 1, .derive 1 (.seed (some 2)), .newSim (.custom 7) (some 5),
   .derive 1 (.simulator 3), .derive 3 (.seed none), .derive 1 .stabilizer, .run 1, .derive 2 (.shots 10),
   .run 1, .run 3, .run 4]

example : ((runOps true (initial 2) exOps).map fun s => s.log.map fun e => (e.1, e.2.simKind, e.2.simSeed, e.2.seed)) =
    some [(1, .quest, some 1, some 1), (1, .quest, some 1, some 1), (1, .quest, some 1, some 1),
          (3, .custom 7, some 5, some 1), (4, .custom 7, none, none)] := by decide

end GuppyVerif.EmuConfig
