import GuppyVerif.Lemmas.C28
/-! # C28 — Emulator configurations are immutable and reproducible

Property theorems only.  `step true` (Model/EmuConfig.lean) is `EmulatorInstance` after the
repair of D10; `step false` is the original code.  Histories are arbitrary lists of
`newSim` (user builds a simulator object), `derive i d` (any `with_*` / `*_sim` method on any
instance created so far) and `run i`.  The behaviour of an instance is `view`: the arguments its
`run()` would hand to `SeleneInstance.run_shots`, simulator object by content
(class, `random_seed`). -/
namespace GuppyVerif.EmuConfig

open Spec

theorem WF_initial (n : Nat) : WF (initial n) := by
  refine ⟨by simp [initial], ?_⟩
  intro c hc; simp [initial] at hc; subst hc; simp [initial, defaultInst]

theorem LogOK_initial (n : Nat) : LogOK (initial n) := by
  intro e he; simp [initial] at he

/-- **C28 (immutability)**: take any history from a fresh instance and builder, stop anywhere
    (`s₁`), continue with any further history (`s₂`): every instance that existed at `s₁` would
    still run with exactly the same arguments on the same `SeleneInstance` (same build arguments). -/
theorem derive_preserves_earlier (n : Nat) (ops₁ ops₂ : List Op) (s₁ s₂ : State)
    (h₁ : runOps true (initial n) ops₁ = some s₁) (h₂ : runOps true s₁ ops₂ = some s₂)
    (j : Nat) (hj : j < s₁.insts.length) :
    view s₂ j = view s₁ j ∧ originArgs s₂ j = originArgs s₁ j ∧ (view s₁ j).isSome = true := by
  obtain ⟨hw₁, _⟩ := runOps_fixed ops₁ (initial n) s₁ (WF_initial n) h₁
  obtain ⟨_, e⟩ := runOps_fixed ops₂ s₁ s₂ hw₁ h₂
  exact ⟨view_stable s₁ s₂ hw₁ e j hj, originArgs_stable s₁ s₂ hw₁ e j hj, view_isSome s₁ hw₁ j hj⟩

/-- **C28 (builder immutability)**: in the same setting every *builder* that existed at `s₁` would
    still pass exactly the same arguments to `selene_sim.build`, and (previous theorem) every
    instance built from it is unchanged — whatever was derived from it, built or run afterwards. -/
theorem builder_derive_preserves_earlier (n : Nat) (ops₁ ops₂ : List Op) (s₁ s₂ : State)
    (h₁ : runOps true (initial n) ops₁ = some s₁) (h₂ : runOps true s₁ ops₂ = some s₂)
    (j : Nat) (hj : j < s₁.builders.length) :
    bview s₂ j = bview s₁ j ∧ (bview s₁ j).isSome = true ∧
    (∀ e ∈ s₁.blog, e ∈ s₂.blog) ∧
    (∀ i, i < s₁.insts.length → view s₂ i = view s₁ i ∧ originArgs s₂ i = originArgs s₁ i) := by
  obtain ⟨hw₁, _⟩ := runOps_fixed ops₁ (initial n) s₁ (WF_initial n) h₁
  obtain ⟨_, e⟩ := runOps_fixed ops₂ s₁ s₂ hw₁ h₂
  refine ⟨bview_stable s₁ s₂ e j hj, ?_, ?_, fun i hi =>
    ⟨view_stable s₁ s₂ hw₁ e i hi, originArgs_stable s₁ s₂ hw₁ e i hi⟩⟩
  · simp [bview, List.getElem?_eq_getElem hj]
  · obtain ⟨x, hx⟩ := e.blog
    intro b hb; rw [hx]; exact List.mem_append_left _ hb

/-- **C28 (reproducibility)**: in any history, all runs of the same instance — whatever was
    derived or run in between — pass identical arguments, equal to what the instance shows at
    the end; with a fixed seed the simulator's effective seed is definite (selene prefers the
    component's own `random_seed`, else `random_seed=`). -/
theorem run_reproducible (n : Nat) (ops : List Op) (s : State)
    (h : runOps true (initial n) ops = some s) (j : Nat) (a b : RunArgs)
    (ha : (j, a) ∈ s.log) (hb : (j, b) ∈ s.log) :
    a = b ∧ view s j = some a ∧ (∀ v, a.seed = some v → a.effSimSeed.isSome = true) := by
  have hl := runOps_logOK ops (initial n) s (WF_initial n) (LogOK_initial n) h
  have h1 := (hl _ ha).2
  have h2 := (hl _ hb).2
  simp only at h1 h2
  refine ⟨Option.some.inj (h1.symm.trans h2), h1, ?_⟩
  intro v hv
  unfold RunArgs.effSimSeed
  cases a.simSeed <;> simp [hv]

/-- **C28 (a derivation is a pure function of the parent's behaviour)**: the new instance shows
    `applyD` of what the parent shows — with `with_simulator`'s object taken by content — so the
    behaviour of every instance is the fold of its derivation path from the base instance. -/
theorem derive_is_pure (s s' : State) (i : Nat) (d : Deriv) (hw : WF s)
    (hs : step true s (.derive i d) = some s') :
    view s' s.insts.length =
      ((view s i).bind fun a => applyD (fun k => s.heap[k]?) (fun k => s.comps[k]?) a d) ∧
    originArgs s' s.insts.length = originArgs s i :=
  ⟨(derive_step_pure s s' i d hw hs).1, (derive_step_pure s s' i d hw hs).2.1⟩

/-- **C28 (builder path, then instance path)**: start anywhere in any history (`s`), follow a builder
    derivation path `bp` from builder `b`, `build(pkg, n)`, then follow an instance derivation path
    `ip` from the built instance — with arbitrary other operations on any builder or instance before
    every step (`junk`).  The final instance runs with `foldD ip (defaults n)` on a `SeleneInstance`
    built with `foldl applyB bp (what b showed)`: a pure function of the two paths. -/
theorem build_then_derive_pure (n₀ : Nat) (ops : List Op) (s s₁ s₂ s₃ sf : State) (b b' n j : Nat)
    (B : BuildArgs) (bp : List (List Op × BDeriv)) (junk : List Op) (ip : List (List Op × Deriv))
    (h₀ : runOps true (initial n₀) ops = some s) (hb : bview s b = some B)
    (h₁ : chainB s b bp = some (s₁, b')) (h₂ : runOps true s₁ junk = some s₂)
    (h₃ : step true s₂ (.build b' n) = some s₃) (h₄ : chainD s₃ s₂.insts.length ip = some (sf, j)) :
    (∃ r, view sf j = some r ∧
      foldD (fun k => sf.heap[k]?) (fun k => sf.comps[k]?) (defaultArgs n) (ip.map (·.2)) = some r) ∧
    originArgs sf j = some (some ((bp.map (·.2)).foldl applyB B)) := by
  obtain ⟨hw, _⟩ := runOps_fixed ops (initial n₀) s (WF_initial n₀) h₀
  have hbl : b < s.builders.length := by
    unfold bview at hb
    cases hq : s.builders[b]? with
    | none => simp [hq] at hb
    | some c => exact (List.getElem?_eq_some_iff.mp hq).1
  obtain ⟨hw₁, _, hb'l, hbv⟩ := chainB_pure bp s s₁ b b' B hw hbl hb h₁
  obtain ⟨hw₂, e₂⟩ := runOps_fixed junk s₁ s₂ hw₁ h₂
  obtain ⟨hw₃, e₃⟩ := step_fixed s₂ s₃ _ hw₂ h₃
  obtain ⟨q1, q2, _⟩ := build_step_pure s₂ s₃ b' n hw₂ h₃
  have hnew : s₂.insts.length < s₃.insts.length := by
    have := h₃
    simp only [step] at this
    cases hq : s₂.builders[b']? with
    | none => simp [hq] at this
    | some c => simp only [hq, Option.some.injEq] at this; subst this; simp
  obtain ⟨_, _, _, hr, ho⟩ := chainD_pure ip s₃ sf s₂.insts.length j (defaultArgs n) hw₃ hnew q1 h₄
  refine ⟨hr, ?_⟩
  rw [ho, q2, bview_stable s₁ s₂ e₂ b' hb'l, hbv]; rfl

/-- **D10**: the original `with_seed` (writes `random_seed` of the shared simulator object)
    violates immutability — `a = base.with_seed(1); b = a.with_seed(2)` changes what `a` runs with. -/
theorem d10_original_code_violates :
    ∃ (ops₁ ops₂ : List Op) (s₁ s₂ : State) (j : Nat),
      runOps false (initial 1) ops₁ = some s₁ ∧ runOps false s₁ ops₂ = some s₂ ∧
      j < s₁.insts.length ∧ view s₂ j ≠ view s₁ j :=
  ⟨[.derive 0 (.seed (some 1))], [.derive 1 (.seed (some 2))], _, _, 1, rfl, rfl, by decide, by decide⟩

/-! Non-vacuity: a history with sibling derivations, a user simulator shared by two instances,
    reseeding, and repeated runs of an early instance. -/
def exOps : List Op :=
  [.bderive 0 (.buildArg 3 4), .derive 0 (.seed (some 1)), .run 1, .derive 1 (.seed (some 2)), .newSim (.custom 7) (some 5),
   .derive 1 (.simulator 3), .derive 3 (.seed none), .derive 1 .stabilizer, .run 1, .derive 2 (.shots 10),
   .run 1, .run 3, .run 4]

example : ((runOps true (initial 2) exOps).map fun s => s.log.map fun e => (e.1, e.2.simKind, e.2.simSeed, e.2.seed)) =
    some [(1, .quest, some 1, some 1), (1, .quest, some 1, some 1), (1, .quest, some 1, some 1),
          (3, .custom 7, some 5, some 1), (4, .custom 7, none, none)] := by decide

/-- a builder path, a build, an instance path, with unrelated operations in between -/
def exChain : Option (Option (Option BuildArgs) × Option (Nat × Option Nat × Option Nat × Nat)) :=
  (chainB (initial 1) 0 [([], .buildArg 1 2), ([.derive 0 (.seed (some 9))], .buildArg 1 3),
      ([.build 1 4], .name (some 5))]).bind fun p =>
    (step true p.1 (.build p.2 2)).bind fun s₃ =>
      (chainD s₃ p.1.insts.length [([.run 0], .shots 7), ([.bderive p.2 (.verbose true)], .seed (some 3))]).map
        fun q => (originArgs q.1 q.2, (view q.1 q.2).map fun a => (a.shots, a.seed, a.simSeed, a.nQubits))

example : exChain =
    some (some (some ⟨some 5, none, false, [(1, 3)]⟩), some (7, some 3, some 3, 2)) := by rfl

/-- a user error model (component 1, own seed 7) and runtime (component 2) shared by differently
    seeded configurations: every run reports the components' own seeds unchanged -/
example :
    ((runOps true (initial 1) [.newComp (some 7), .newComp none, .derive 0 (.errorModel 1), .derive 1 (.runtime 2),
        .derive 2 (.seed (some 1)), .run 3, .derive 2 (.seed (some 2)), .run 3, .run 4]).map fun s =>
      s.log.map fun e => (e.1, e.2.seed, e.2.errorModel, e.2.errorModelSeed, e.2.runtime, e.2.runtimeSeed)) =
    some [(3, some 1, 1, some 7, 2, none), (3, some 1, 1, some 7, 2, none), (4, some 2, 1, some 7, 2, none)] := by
  rfl

end GuppyVerif.EmuConfig
