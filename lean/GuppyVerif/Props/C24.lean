import GuppyVerif.Lemmas.C24
/-! # C24 — Unitary contexts reject non-unitary quantum operations

Property theorems only.  Model: `Model/Unitary.lean` (the repaired `BBUnitaryChecker`,
`check_invalid_under_dagger`, the dagger pre-check of `check_modified_block`, flag parsing and
metadata).  Specification vocabulary: `Spec/C24.lean` (occurrence relations over the syntax
tree; flag inclusion by quantifying over the three flag kinds). -/
namespace GuppyVerif.Unitary

/-- **C24 (main)**: for every way of obtaining the context flags (annotation or `with`
    block), every flag set and every block — any nesting of calls inside arguments, any
    nesting of `if` / `while` / `with` — the block is rejected **iff** some expression position
    *anywhere* in it (statement, assigned value, assignment target, `if` / `while` condition,
    control argument, at any depth) contains a call (itself at any argument depth, or inside an
    index expression of a subscripted place at any depth) that passes a
    qubit-containing argument to a callee whose flags do not include every flag required at
    that position — the context's flags plus those of every enclosing `with` block —
    (barrier / state_result nodes are opaque) or, where dagger is required, a subscripted
    place; or a loop or an assignment stands where dagger is required. -/
theorem rejected_iff (k : Kind) (F : Flags) (b : Block) :
    check k F b ≠ .ok ↔ Violates F b := by
  rw [check_ne_ok_iff, ← mainB F b, prepass_ne_none]
  constructor
  · rintro (⟨hd, (h | h)⟩ | h)
    · exact .inl ⟨hd, h⟩
    · refine .inr (assign_errsB F hd b ?_)
      cases k
      · exact h
      · exact shallow_deepB b h
    · exact .inr h
  · rintro (⟨hd, h⟩ | h)
    · exact .inl ⟨hd, .inl h⟩
    · exact .inr h

/-- **C24 (otherwise accepted)**: acceptance does not depend on whether the flags came from
    a decorator or from a `with` block. -/
theorem accept_kind_irrelevant (F : Flags) (b : Block) :
    check .fn F b = .ok ↔ check .withBlock F b = .ok := by
  have h1 := not_congr (rejected_iff .fn F b)
  have h2 := not_congr (rejected_iff .withBlock F b)
  simp only [ne_eq, Decidable.not_not] at h1 h2
  rw [h1, h2]

/-- **C24 (nested blocks add requirements)**: a nested `with` block is acceptable in a
    context requiring `F` iff its control arguments are fine for `F` and its body is
    acceptable for `F` together with the block's own flags. -/
theorem nested_with_iff (k : Kind) (F G : Flags) (cargs : Args) (b : Block) :
    check k F (.cons (.withBlock cargs G b) .nil) = .ok ↔
      (¬ ∃ a, Args.Mem a cargs ∧ BadE F a) ∧ check .withBlock (F.or G) b = .ok := by
  have h1 := not_congr (rejected_iff k F (.cons (.withBlock cargs G b) .nil))
  have h2 := not_congr (rejected_iff .withBlock (F.or G) b)
  simp only [ne_eq, Decidable.not_not] at h1 h2
  rw [h1, h2, violates_cons_iff, vs_with_iff]
  have := violates_nil F
  constructor
  · intro h; exact ⟨fun x => h (.inl (.inl x)), fun x => h (.inl (.inr x))⟩
  · rintro ⟨h1, h2⟩ ((x | x) | x)
    · exact h1 x
    · exact h2 x
    · exact this x

/-- **C24 (early rejection is justified)**: a rejection before CFG checking happens only
    in a daggered context and names the kind of construct that does occur. -/
theorem pre_sound (k : Kind) (F : Flags) (b : Block) (e : Err) (h : check k F b = .pre e) :
    F.dagger = true ∧ ((e = .loop ∧ ∃ F', LoopAtB F b F') ∨ (e = .assign ∧ ∃ F', AssignAtB F b F')) := by
  have hne : prepass k F b = some e := by
    unfold check at h
    cases hp : prepass k F b with
    | none => rw [hp] at h; cases hes : errsBlock F b <;> rw [hes] at h <;> simp at h
    | some e' => rw [hp] at h; simp only [Verdict.pre.injEq] at h; rw [h]
  have hd : F.dagger = true := ((prepass_ne_none k F b).mp (by rw [hne]; simp)).1
  refine ⟨hd, ?_⟩
  -- the pre-checks only ever answer `loop` when a loop occurs and `assign` when an assignment occurs
  have hloop : b.hasLoop = true → ∃ F', LoopAtB F b F' := by
    intro hl
    exact loopAt_of_hasLoopB F b hl
  have hassign : b.hasAssign = true → ∃ F', AssignAtB F b F' := assignAt_of_hasAssignB F b
  cases k
  · simp only [prepass, prepassFn, hd, Bool.not_true, Bool.false_eq_true, ↓reduceIte] at hne
    have key : ∀ b : Block, prepassFn.go b = some e →
        (e = .loop ∧ b.hasLoop = true) ∨ (e = .assign ∧ b.hasAssign = true) := by
      intro b
      induction b using Block.rec (motive_1 := fun _ => True) with
      | expr | assign | ite | «while» | withBlock => trivial
      | nil => intro h; simp [prepassFn.go] at h
      | cons s r _ ih =>
        intro h
        unfold prepassFn.go at h
        simp only [Block.hasLoop, Block.hasAssign, Bool.or_eq_true]
        by_cases hl : s.hasLoop = true
        · simp only [hl, ↓reduceIte, Option.some.injEq] at h
          exact .inl ⟨h.symm, .inl hl⟩
        · by_cases ha : s.hasAssign = true
          · simp only [hl, Bool.false_eq_true, ↓reduceIte, ha, Option.some.injEq] at h
            exact .inr ⟨h.symm, .inl ha⟩
          · simp only [hl, Bool.false_eq_true, ↓reduceIte, ha] at h
            rcases ih h with ⟨h1, h2⟩ | ⟨h1, h2⟩
            · exact .inl ⟨h1, .inr h2⟩
            · exact .inr ⟨h1, .inr h2⟩
    rcases key b hne with ⟨h1, h2⟩ | ⟨h1, h2⟩
    · exact .inl ⟨h1, hloop h2⟩
    · exact .inr ⟨h1, hassign h2⟩
  · simp only [prepass, prepassWith, hd, Bool.not_true, Bool.false_eq_true, ↓reduceIte] at hne
    by_cases hl : b.hasLoop = true
    · simp only [hl, ↓reduceIte, Option.some.injEq] at hne
      exact .inl ⟨hne.symm, hloop hl⟩
    · by_cases ha : b.hasAssignShallow = true
      · simp only [hl, Bool.false_eq_true, ↓reduceIte, ha, Option.some.injEq] at hne
        exact .inr ⟨hne.symm, hassign (shallow_deepB b ha)⟩
      · simp [hl, ha] at hne

/-- **C24 (flags of a decorated function)**: `@guppy(unitary=u, control=c, dagger=d, power=p)`
    requires a flag iff `unitary` or that flag's keyword was given. -/
theorem parseKwargs_has (u c d p : Bool) (k : FlagKind) :
    (parseKwargs u c d p).has k =
      (u || match k with | .control => c | .dagger => d | .power => p) := by
  cases u <;> cases c <;> cases d <;> cases p <;> cases k <;> rfl

/-- **C24 (metadata)**: the value recorded under `"unitary"` on the compiled function
    determines the flags: reading it back gives the same flag set, and it is below 8. -/
theorem metadata_roundtrip (F : Flags) : Flags.ofNat F.toNat = F ∧ F.toNat < 8 := by
  rcases F with ⟨a, b, c⟩
  cases a <;> cases b <;> cases c <;> decide

/-! ### Non-vacuity: concrete instances, including the two D7 witnesses -/

/-- D7a: a call in an `if` condition, dagger context, callee without flags: rejected. -/
example : check .fn ⟨false, true, false⟩
    (.cons (.ite (.call Flags.noFlags (.cons (.place true .nil) .nil) false) .nil .nil) .nil)
    = .bb [.call ⟨false, true, false⟩] := by decide

/-- D7b: `g(q, f(r))` with `g` unitary and `f` without flags, control context: rejected
    because of the nested call in the *second* argument. -/
example : check .fn ⟨true, false, false⟩
    (.cons (.expr (.call Flags.unitary
      (.cons (.place true .nil)
        (.cons (.call Flags.noFlags (.cons (.place true .nil) .nil) false) .nil)) false)) .nil)
    = .bb [.call ⟨true, false, false⟩] := by decide

/-- an accepted block: callee has all required flags, classical call to a flagless callee,
    barrier on a subscripted qubit (opaque) -/
example : check .withBlock ⟨true, true, false⟩
    (.cons (.expr (.call ⟨true, true, false⟩ (.cons (.place true .nil) .nil) false))
      (.cons (.expr (.call Flags.noFlags (.cons .leaf .nil) false))
        (.cons (.expr (.exempt (.cons (.place true (.cons .leaf .nil)) .nil))) .nil))) = .ok := by decide

/-- nested: `@guppy(dagger=True)` function, `with control(c): if f(q): pass` with `f` control-only:
    rejected, the call in the nested condition lacks the dagger flag of the outer context -/
example : check .fn ⟨false, true, false⟩
    (.cons (.withBlock (.cons (.place true .nil) .nil) ⟨true, false, false⟩
      (.cons (.ite (.call ⟨true, false, false⟩ (.cons (.place true .nil) .nil) false) .nil .nil) .nil)) .nil)
    = .bb [.call ⟨false, true, false⟩] := by decide

/-- audit finding F2: `unit(qs[nonunit(q)])` under `@guppy(control=True)` — the non-unitary call
    sits in the index expression of a subscripted place passed as argument: rejected -/
example : check .fn ⟨true, false, false⟩
    (.cons (.expr (.call Flags.unitary
      (.cons (.place true (.cons (.call Flags.noFlags (.cons (.place true .nil) .nil) false) .nil)) .nil) false)) .nil)
    = .bb [.call ⟨true, false, false⟩] := by decide

/-- … and in the index of an assignment target: `xs[nonunit(q)] = 1` -/
example : check .fn ⟨true, false, false⟩
    (.cons (.assign (.place false (.cons (.call Flags.noFlags (.cons (.place true .nil) .nil) false) .nil)) (some .leaf)) .nil)
    = .bb [.call ⟨true, false, false⟩] := by decide

/-- loop under dagger -/
example : check .fn ⟨false, true, false⟩ (.cons (.while .leaf .nil) .nil) = .pre .loop := by decide

/-- the specification side is inhabited independently of the checker -/
example : Violates ⟨false, true, false⟩ (.cons (.while .leaf .nil) .nil) :=
  .inr ⟨_, rfl, .inl (.head .here)⟩

end GuppyVerif.Unitary
