import GuppyVerif.Lemmas.C24
/-! # C24 — Unitary contexts reject non-unitary quantum operations

Property theorems only.  Model: `Model/Unitary.lean` (the repaired `BBUnitaryChecker`,
`check_invalid_under_dagger`, the dagger pre-check of `check_modified_block`, flag parsing and
metadata).  Specification vocabulary: `Spec/C24.lean` (occurrence relations over the syntax
tree; flag inclusion by quantifying over the three flag kinds). -/
namespace GuppyVerif.Unitary

/-- **C24 (main)**: for every way of obtaining the context flags (annotation or `with`
    block), every flag set and every block — any nesting of calls inside arguments, any
    nesting of `if` / `while` — the block is rejected **iff** some call *anywhere* in it
    (statement, nested argument at any depth, `if` / `while` condition) passes a
    qubit-containing argument to a callee whose flags do not include every flag the context
    requires (barrier / state_result nodes are opaque), or the context is daggered and a loop,
    an assignment or a subscripted place occurs. -/
theorem rejected_iff (k : Kind) (F : Flags) (b : Block) :
    check k F b ≠ .ok ↔ Violates F b := by
  unfold check Violates
  have hp := prepass_none k F b
  have he := errsBlock_ne_nil F b
  rw [badB_iff] at he
  cases hpre : prepass k F b with
  | some e =>
    have : F.dagger = true ∧ (LoopInB b ∨ AssignInB b) := by
      have h := (not_congr hp).mp (by rw [hpre]; simp)
      exact Classical.not_not.mp h
    simp only [ne_eq, reduceCtorEq, not_false_eq_true, true_iff]
    exact .inr ⟨this.1, this.2.elim .inl (fun h => .inr (.inl h))⟩
  | none =>
    have hn := hp.mp hpre
    cases hes : errsBlock F b with
    | nil =>
      simp only [ne_eq, not_true_eq_false, false_iff]
      have := (not_congr he).mp (by rw [hes]; simp)
      rintro (h | ⟨hd, (h | h | h)⟩)
      · exact this (.inl (.inl h))
      · exact hn ⟨hd, .inl h⟩
      · exact hn ⟨hd, .inr h⟩
      · exact this (.inl (.inr ⟨hd, h⟩))
    | cons x xs =>
      simp only [ne_eq, reduceCtorEq, not_false_eq_true, true_iff]
      have := he.mp (by rw [hes]; simp)
      rcases this with (h | ⟨hd, h⟩) | ⟨hd, h⟩
      · exact .inl h
      · exact .inr ⟨hd, .inr (.inr h)⟩
      · exact .inr ⟨hd, .inr (.inl h)⟩

/-- **C24 (otherwise accepted)**: acceptance does not depend on whether the flags came from
    a decorator or from a `with` block. -/
theorem accept_kind_irrelevant (F : Flags) (b : Block) :
    check .fn F b = .ok ↔ check .withBlock F b = .ok := by
  have h1 := not_congr (rejected_iff .fn F b)
  have h2 := not_congr (rejected_iff .withBlock F b)
  simp only [ne_eq, Decidable.not_not] at h1 h2
  rw [h1, h2]

/-- **C24 (early rejection is justified)**: a rejection before CFG checking happens only
    in a daggered context and names a construct that does occur. -/
theorem pre_sound (k : Kind) (F : Flags) (b : Block) (e : Err) (h : check k F b = .pre e) :
    F.dagger = true ∧ ((e = .loop ∧ LoopInB b) ∨ (e = .assign ∧ AssignInB b)) := by
  unfold check at h
  cases hpre : prepass k F b with
  | none =>
    rw [hpre] at h
    cases hes : errsBlock F b <;> rw [hes] at h <;> simp at h
  | some e' =>
    rw [hpre] at h
    simp only [Verdict.pre.injEq] at h
    subst h
    have hd : F.dagger = true := by
      cases hd : F.dagger
      · cases k <;> simp [prepass, prepassFn, prepassWith, hd] at hpre
      · rfl
    refine ⟨hd, ?_⟩
    cases k
    · simp only [prepass, prepassFn, hd, Bool.not_true, Bool.false_eq_true, ↓reduceIte] at hpre
      -- walk to the statement at which `go` stopped
      have key : ∀ b : Block, prepassFn.go b = some e' →
          (e' = .loop ∧ LoopInB b) ∨ (e' = .assign ∧ AssignInB b) := by
        intro b
        induction b using Block.rec (motive_1 := fun _ => True) with
        | expr | assign | ite | «while» => trivial
        | nil => intro h; simp [prepassFn.go] at h
        | cons s r _ ih =>
          intro h
          unfold prepassFn.go at h
          by_cases hl : s.hasLoop = true
          · simp only [hl, ↓reduceIte, Option.some.injEq] at h
            exact .inl ⟨h.symm, .head ((hasLoopS_iff s).mp hl)⟩
          · by_cases ha : s.hasAssign = true
            · simp only [hl, Bool.false_eq_true, ↓reduceIte, ha, Option.some.injEq] at h
              exact .inr ⟨h.symm, .head ((hasAssignS_iff s).mp ha)⟩
            · simp only [hl, Bool.false_eq_true, ↓reduceIte, ha] at h
              rcases ih h with ⟨h1, h2⟩ | ⟨h1, h2⟩
              · exact .inl ⟨h1, .tail h2⟩
              · exact .inr ⟨h1, .tail h2⟩
      exact key b hpre
    · simp only [prepass, prepassWith, hd, Bool.not_true, Bool.false_eq_true, ↓reduceIte] at hpre
      by_cases hl : b.hasLoop = true
      · simp only [hl, ↓reduceIte, Option.some.injEq] at hpre
        exact .inl ⟨hpre.symm, (hasLoopB_iff b).mp hl⟩
      · by_cases ha : b.hasAssign = true
        · simp only [hl, Bool.false_eq_true, ↓reduceIte, ha, Option.some.injEq] at hpre
          exact .inr ⟨hpre.symm, (hasAssignB_iff b).mp ha⟩
        · simp [hl, ha] at hpre

/-- **C24 (flags of a decorated function)**: `@guppy(unitary=u, control=c, dagger=d, power=p)`
    requires a flag iff `unitary` or that flag's keyword was given. -/
theorem parseKwargs_has (u c d p : Bool) (k : FlagKind) :
    (parseKwargs u c d p).has k =
      (u || match k with | .control => c | .dagger => d | .power => p) := by
  cases u <;> cases c <;> cases d <;> cases p <;> cases k <;> rfl

/-- **C24 (metadata)**: the value recorded under `"unitary"` on the compiled function
    determines the flags: reading it back gives the same flag set, and it is below 8. -/
theorem metadata_roundtrip (F : Flags) : Flags.ofNat F.toNat = F ∧ F.toNat < 8 := by
  rcases F with ⟨a, b, c⟩
  cases a <;> cases b <;> cases c <;> decide

/-- **C24 (reported flags)**: the flags named in a `UnitaryCallError` are exactly the
    required flags the callee lacks. -/
theorem missing_has (F g : Flags) (k : FlagKind) :
    (F.and g.compl).has k = (F.has k && !g.has k) := by
  cases k <;> rfl

/-! ### Non-vacuity: concrete instances, including the two D7 witnesses -/

/-- D7a: a call in an `if` condition, dagger context, callee without flags: rejected. -/
example : check .fn ⟨false, true, false⟩
    (.cons (.ite (.call Flags.noFlags (.cons (.place true false) .nil) false) .nil .nil) .nil)
    = .bb [.call ⟨false, true, false⟩] := by decide

/-- D7b: `g(q, f(r))` with `g` unitary and `f` without flags, control context: rejected
    because of the nested call in the *second* argument. -/
example : check .fn ⟨true, false, false⟩
    (.cons (.expr (.call Flags.unitary
      (.cons (.place true false)
        (.cons (.call Flags.noFlags (.cons (.place true false) .nil) false) .nil)) false)) .nil)
    = .bb [.call ⟨true, false, false⟩] := by decide

/-- an accepted block: callee has all required flags, classical call to a flagless callee,
    barrier on a subscripted qubit (opaque) -/
example : check .withBlock ⟨true, true, false⟩
    (.cons (.expr (.call ⟨true, true, false⟩ (.cons (.place true false) .nil) false))
      (.cons (.expr (.call Flags.noFlags (.cons .leaf .nil) false))
        (.cons (.expr (.exempt (.cons (.place true true) .nil))) .nil))) = .ok := by decide

/-- loop under dagger -/
example : check .fn ⟨false, true, false⟩ (.cons (.while .leaf .nil) .nil) = .pre .loop := by decide

/-- the specification side is inhabited independently of the checker -/
example : Violates ⟨false, true, false⟩ (.cons (.while .leaf .nil) .nil) :=
  .inr ⟨rfl, .inl (.head .here)⟩

end GuppyVerif.Unitary
