import GuppyVerif.Lemmas.C03Shape
import GuppyVerif.Lemmas.C03Preds
import GuppyVerif.Lemmas.C03Fuel
import GuppyVerif.Lemmas.C03Wiring
import GuppyVerif.Model.Scope
/-! # C03 — Classical control and data flow behave as in Python

Property theorems only.  Models: `Model/Surface.lean` (surface language + Python's semantics; unbounded
ints and bools, external calls recorded in a trace), `Model/Builder.lean` (`cfg/builder.py` after the
repairs f9e33c1 / 7c8aeda: CFGBuilder / ExprBuilder incl. `build_operands` / BranchBuilder, reachability,
implicit return, pruning; CFG execution).
Vocabulary: `Spec/C03.lean` (`userS`), `Lemmas/C03Sem.lean` (`loopScoped`).

**Statement (`builder_correct`)**: for every surface program `p`, every input store and every environment of
external functions, if Python's big-step semantics runs `p` to a `return v` (or off the end), then
executing the CFG that `CFGBuilder.build` produces halts in the exit block with the same return value, the
same trace of external calls and the same values of the user variables.  The two hypotheses say that `p` is
a Python program: it does not mention the builder's `%tmp` variables (`userS`; not an identifier) and uses
`break`/`continue` only inside loops (`loopScoped`; a SyntaxError otherwise).  `for x in range(e)` loops are
included: their template (`make_iter` / `iter_next` / `is_some` / `unwrap`) is executed with the iterator
semantics of `range` (`applyPrim`).  No bound on program size, loop iterations or inputs;
termination-insensitive (the hypothesis is a terminating Python run).

Until f9e33c1 / 7c8aeda the statement was false of the code (defect D9: the middle operand of a chained
comparison built twice; lifted sub-expressions hoisted before side-effecting left siblings) and was proved
under a *hoist-safety* hypothesis; the model now follows the repaired builder and the hypothesis is gone.
The former counterexamples are theorems of the repaired model in `Props/C05.lean` (`d9_*_fixed`).
Unmodelled: expression lowering to HUGR and HUGR execution. -/
namespace GuppyVerif.Builder
open GuppyVerif.Surface

/-- **C03 `builder_correct`**: the CFG built for a program computes what Python computes: same return value,
    same trace of external calls (names, arguments, results, order), same final values of all user variables.
    `rn` is `returns_none`; falling off the end is only accepted by the builder when `rn` holds. -/
theorem builder_correct (env : Env) (p : Stmt) (rn : Bool) (g : Cfg) (st0 : Store) (o : Outcome) (st' : S)
    (hu : userS p = true) (hsc : loopScoped p false = true)
    (hb : buildCfg rn p = .ok g) (hex : Exec env p (st0, []) o st') :
    ∃ (n : Nat) (c : Config), run env g.blocks n ⟨0, 0, (st0, []), none⟩ = some c ∧ c.b = 1 ∧
      c.s.2 = st'.2 ∧ agreeU c.s.1 st'.1 ∧
      ((∃ v, o = .ret v ∧ c.ret = some v) ∨ (o = .normal ∧ c.ret = none ∧ rn = true)) :=
  buildCfg_correct hu hsc hb hex

/-- the fragment token the driver reports to the harness is `safe` for every program: a real-code discrepancy
    on any program of the fragment is a VIOLATION -/
theorem hsClass_safe (p : Stmt) : hsClass p = "safe" := rfl

/-- the executable Python interpreter that the driver runs (and the harness compares with CPython on every
    generated program) is sound for the big-step relation used above -/
theorem execFuel_sound' (env : Env) (n : Nat) (s : Stmt) (st : S) (o : Outcome) (st' : S)
    (h : execFuel env n s st = some (o, st')) : Exec env s st o st' := execFuel_sound env n s st o st' h

/-- **statement level, any position in a CFG under construction**: building a statement from an
    open block `b` of any builder state yields code that, in every later extension `bl` of the CFG, takes a
    state agreeing with Python's on user variables to one agreeing with Python's final state — ending in the
    builder's continuation block (normal completion), in the innermost loop's tail / head (`break` /
    `continue`: `J.brk` / `J.cont` are the targets `visit_While` installed), or in the return block with
    the return value set. -/
theorem stmt_builder_correct (env : Env) (s : Stmt) (st st' : S) (o : Outcome) (h : Exec env s st o st')
    (prev b : Nat) (J : Jumps) (σ : BState) (bl : List Block) (il : Bool) (stI : S) (rv : Option Val)
    (hu : userS s = true) (hsc : loopScoped s il = true)
    (hJ : JOk J il) (hb : b < σ.len) (ho : (σ.blk b).succs = []) (hx : Ext (build s prev (some b) J σ).1 bl)
    (hag : agreeU stI.1 st.1) (htr : stI.2 = st.2) :
    PostS env bl J (build s prev (some b) J σ) o ⟨b, (σ.blk b).stmts.length, stI, rv⟩ σ.nextTmp st' :=
  ((sem_stmt h).1 prev b J σ bl il stI rv hu hsc hJ hb ho hx hag htr).1

/-- **after pruning no real edge leads from unreachable into reachable code, and dummy edges point to
    unreachable blocks only** (for every block list, hence for every CFG `buildCfg` returns) -/
theorem prune_no_edge_into_reachable (bl : List Block) (i : Nat) (hi : i < bl.length) :
    ((blkL (prune bl) i).reach = false → ∀ s ∈ (blkL (prune bl) i).succs, (blkL bl s).reach = false) ∧
    (∀ s ∈ (blkL (prune bl) i).dsuccs, (blkL bl s).reach = false) := prune_edges bl i hi

/-- the set of blocks the builder marks reachable contains the entry and is closed under real edges -/
theorem reachable_closed (blocks : List Block) (rs : List Nat) (h : reachable blocks = some rs) :
    0 ∈ rs ∧ ∀ b ∈ rs, ∀ s ∈ (blkL blocks b).succs, s ∈ rs := reachable_spec h

/-- **the blocks `update_reachable` marks are exactly the blocks reachable from the entry over real edges** -/
theorem reachable_flags_exact (blocks : List Block) (rs : List Nat) (h : reachable blocks = some rs) (b : Nat) :
    b ∈ rs ↔ Path blocks 0 b := reachable_iff_path h b

/-- **every block with two successors has a branch predicate, and no block has more than two successors**
    (for every CFG `buildCfg` returns, including its unreachable blocks and after pruning) -/
theorem two_successors_have_pred (p : Stmt) (rn : Bool) (g : Cfg) (hb : buildCfg rn p = .ok g)
    (i : Nat) : (blkL g.blocks i).succs.length ≤ 2 ∧ ((blkL g.blocks i).succs.length = 2 → (blkL g.blocks i).pred ≠ none) :=
  buildCfg_shape hb i

/-- **every non-entry block has a predecessor over a real or a dummy edge** (for every CFG `buildCfg` returns,
    after pruning: no block is left dangling — unreachable code hangs on dummy edges or on other unreachable code, which
    is what lets the type checker propagate types into it) -/
theorem nonentry_block_has_pred (p : Stmt) (rn : Bool) (g : Cfg) (hb : buildCfg rn p = .ok g)
    (i : Nat) (h0 : 0 < i) (hi : i < g.blocks.length) :
    ∃ j, j < g.blocks.length ∧ (i ∈ (blkL g.blocks j).succs ∨ i ∈ (blkL g.blocks j).dsuccs) :=
  buildCfg_has_pred hb i h0 hi

/-- **`break` / `continue` target the innermost loop**: the body of a `while` is built with the loop's own head
    as `continue` target and its own tail as `break` target, whatever the enclosing targets `J` are (only the
    return target is inherited), and `break` / `continue` link the current block to exactly these targets. -/
theorem break_continue_target_innermost_loop (c : Expr) (body : Stmt) (prev b : Nat) (J : Jumps) (σ : BState) :
    build (.while c body) prev (some b) J σ =
      loopFin σ.len (build body (σ.len + 1) (some (σ.len + 1)) ⟨J.ret, some σ.len, some (σ.len + 2)⟩ (whS1 c b σ)) ∧
    (∀ t, J.brk = some t → build .brk prev (some b) J σ = (link b t σ, none)) ∧
    (∀ t, J.cont = some t → build .cont prev (some b) J σ = (link b t σ, none)) := by
  refine ⟨build_while_eq c body prev b J σ, ?_, ?_⟩
  · intro t h; simp only [build, ensure_some, h]
  · intro t h; simp only [build, ensure_some, h]

/-- building never disturbs other blocks: from an open block `b`, a statement only appends to `b`, creates
    fresh blocks, and adds dummy edges; it continues in `b` or in a fresh block, which is open -/
theorem build_frame (s : Stmt) (prev b : Nat) (J : Jumps) (σ : BState) (hb : b < σ.len)
    (ho : (σ.blk b).succs = []) : GoodS σ b (build s prev (some b) J σ) := build_good s prev b J σ hb ho

/-! ## Block wiring (`compiler/cfg_compiler.py`: `compile_bb`, `sort_vars`, `choose_vars_for_tuple_sum`,
    `insert_return_vars`; model `Model/Wiring.lean`)

The statement's own example of a silent miscompilation is "two same-typed variables swapped across a
block boundary".  The theorems say this cannot happen: along every edge the ordered list of places a block
delivers **is** the ordered list of places the successor block binds to its inputs. -/

/-- `sort_vars` only depends on the *set* of places of a row (names distinct) -/
theorem sort_vars_canonical (l1 l2 : List Wiring.Place) (h : l1.Perm l2) (hn : Wiring.NamesNodup l1) :
    Wiring.sortVars l1 = Wiring.sortVars l2 := Wiring.sortVars_canonical h hn

/-- **C03 `row_agreement`, block with one successor** -/
theorem row_agreement_jump (inRow row succIn : List Wiring.Place) (ex : Bool) (hp : row.Perm succIn)
    (hn : Wiring.NamesNodup row) :
    Wiring.deliver ⟨inRow, [row]⟩ [ex] = some [if ex then row else Wiring.blockInputs false ⟨succIn, []⟩] :=
  Wiring.deliver_single inRow row succIn ex hp hn

/-- **C03 `row_agreement`, branching block** (both the plain-output case and the `TupleSum` case), under the
    linearity post-condition that non-droppable places are live on every branch -/
theorem row_agreement_branch (inRow first : List Wiring.Place) (rest : List (List Wiring.Place)) (exits : List Bool)
    (hr : rest ≠ []) (ds : List (List Wiring.Place)) (hd : Wiring.deliver ⟨inRow, first :: rest⟩ exits = some ds)
    (hnf : Wiring.NamesNodup first) (i : Nat) (row succIn d : List Wiring.Place)
    (hrow : (first :: rest)[i]? = some row) (hdi : ds[i]? = some d) (hp : row.Perm succIn)
    (hn : Wiring.NamesNodup row) (hc : ∀ p ∈ first, ∀ q ∈ row, p.name = q.name → p = q)
    (hlin : (row.filter fun p => !p.droppable).Perm (first.filter fun p => !p.droppable)) :
    d = Wiring.blockInputs false ⟨succIn, []⟩ :=
  Wiring.deliver_branch inRow first rest exits hr ds hd hnf i row succIn d hrow hdi hp hn hc hlin

/-- **C03 `return_vars_order`** -/
theorem return_vars_order (tys : List Bool) (exitIn predOut inRow : List Wiring.Place) (h : predOut = exitIn) :
    Wiring.deliver ⟨inRow, [(Wiring.insertReturnVars tys exitIn predOut).2]⟩ [true] =
      some [(Wiring.insertReturnVars tys exitIn predOut).1] ∧
    (Wiring.insertReturnVars tys exitIn predOut).1.take tys.length =
      tys.zipIdx.map (fun (d, i) => Wiring.retVar i d) ∧
    (Wiring.insertReturnVars tys exitIn predOut).1.drop tys.length = exitIn :=
  Wiring.return_vars_order tys exitIn predOut inRow h

/-- non-vacuity: a branching block whose successors need different droppable places and share the linear `q`
    (the `TupleSum` path); the successor of branch 1 expects `B, a1, q` -/
example : Wiring.deliver ⟨[], [[⟨"zz", true⟩, ⟨"q", false⟩, ⟨"a1", true⟩], [⟨"q", false⟩, ⟨"a1", true⟩, ⟨"B", true⟩]]⟩
      [false, false] =
    some [[⟨"a1", true⟩, ⟨"zz", true⟩, ⟨"q", false⟩], [⟨"B", true⟩, ⟨"a1", true⟩, ⟨"q", false⟩]] := by decide
example : Wiring.blockInputs false ⟨[⟨"a1", true⟩, ⟨"q", false⟩, ⟨"B", true⟩], []⟩ =
    [⟨"B", true⟩, ⟨"a1", true⟩, ⟨"q", false⟩] := by decide

/-! ## Non-capturing nested functions: the recursive call of a nested function is the nested function
    (`checker/func_checker.py: check_nested_func_def`, `checker/core.py: Globals.__getitem__`; model `Model/Scope.lean`) -/

/-- **C03 `nested_recursion_resolves_to_itself`**: in the scope in which the body of a self-recursive, non-capturing
    nested function `f` is checked, the name `f` resolves to the nested function — for all contents of the enclosing
    frame's locals (the module namespace for module-level functions), globals and builtins, in particular when a
    module-level function of the same name exists — and all other names resolve as in the enclosing function -/
theorem nested_recursion_resolves_to_itself (g : Scope.Globals) (f : String) (id : Nat) :
    Scope.lookup (Scope.bindNested g f id) f = .defn id ∧
    ∀ x, x ≠ f → Scope.lookup (Scope.bindNested g f id) x = Scope.lookup g x :=
  ⟨Scope.lookup_bindNested_self g f id, fun x h => Scope.lookup_bindNested_other g f x id h⟩

/-- why the binding has to go into `f_locals`: bound in `f_globals`, a same-named definition `j` of the frame's locals
    (module namespace) captures the recursive call (seeded change C03-m6; `shadowing_recursion(3)` = 105 instead of 6) -/
theorem nested_binding_in_globals_is_shadowed (g : Scope.Globals) (f : String) (id j : Nat)
    (h : Scope.get g.locals f = some (.defn j)) (hne : j ≠ id) :
    Scope.lookup (Scope.bindNestedInGlobals g f id) f ≠ .defn id := by
  rw [Scope.lookup_bindNestedInGlobals_shadowed g f id j h]
  intro e; injection e with e; exact hne e

/-! ## Non-vacuity: a program with a loop, `break`, `continue`, early return, unreachable tail, lifted
    expressions and calls satisfies all hypotheses, is accepted, and has a terminating Python run -/

/-- `while x < 5: (if c(): break) ; x += f(x) ; (if x == 3: continue) ; y = (g() if x > 2 else 7)`
    `return y + (k() if p() else 1) + (u() < v() < (x := w()))`; `z = 1` (unreachable).  The return expression
    has the two shapes that were miscompiled before f9e33c1 / 7c8aeda. -/
def exProg : Stmt :=
  .cons (.while (.bi (.cmp .lt) (.var (.user "x")) (.num 5))
    (.cons (.ite (.call0 "c") (.cons .brk .nil) .nil)
    (.cons (.aug (.user "x") .add (.un (.call1 "f") (.var (.user "x"))))
    (.cons (.ite (.bi (.cmp .eq) (.var (.user "x")) (.num 3)) (.cons .cont .nil) .nil)
    (.cons (.assign (.user "y") (.ite (.bi (.cmp .gt) (.var (.user "x")) (.num 2)) (.call0 "g") (.num 7))) .nil)))))
  (.cons (.ret (.bi (.arith .add) (.bi (.arith .add) (.var (.user "y")) (.ite (.call0 "p") (.call0 "k") (.num 1)))
      (.cmp2 .lt .lt (.call0 "u") (.call0 "v") (.walrus (.user "x") (.call0 "w")))))
  (.cons (.assign (.user "z") (.num 1)) .nil))

def exEnv : Env := fun tr f _ => if f == "c" then .bool (decide (tr.length > 4)) else .int (tr.length % 2 + 1)

example : userS exProg = true ∧ loopScoped exProg false = true := by decide
example : (match buildCfg false exProg with | .ok g => g.blocks.length | .error _ => 0) = 20 := by decide
example : ∃ o st', Exec exEnv exProg (fun _ => .int 0, []) o st' ∧ o = .ret (.int 3) ∧ st'.2.length = 11 := by
  refine ⟨_, _, execFuel_sound exEnv 100 exProg (fun _ => .int 0, []) _ _ rfl, ?_, ?_⟩ <;> decide

/-- `for i in range(x if c() else 3): (if i == 1: continue); y += f(i)` then `return y` -/
def exFor : Stmt :=
  .cons (.for (.user "i") (.un (.prim .range) (.ite (.call0 "c") (.var (.user "x")) (.num 3)))
    (.cons (.ite (.bi (.cmp .eq) (.var (.user "i")) (.num 1)) (.cons .cont .nil) .nil)
    (.cons (.aug (.user "y") .add (.un (.call1 "f") (.var (.user "i")))) .nil)))
  (.cons (.ret (.var (.user "y"))) .nil)
example : userS exFor = true ∧ loopScoped exFor false = true := by decide
example : ∃ o st', Exec exEnv exFor (fun _ => .int 0, []) o st' ∧ o = .ret (.int 3) ∧ st'.2.length = 3 := by
  refine ⟨_, _, execFuel_sound exEnv 100 exFor (fun _ => .int 0, []) _ _ rfl, ?_, ?_⟩ <;> decide

end GuppyVerif.Builder
