/-! Import-free S-expression reader/printer used by the line-protocol drivers.
    Atoms are maximal runs of non-space, non-paren characters. -/
namespace GuppyVerif

inductive Sexp where
  | atom : String → Sexp
  | list : List Sexp → Sexp
  deriving Repr, Inhabited, BEq

namespace Sexp

partial def toStr : Sexp → String
  | atom s => s
  | list xs => "(" ++ " ".intercalate (xs.map toStr) ++ ")"

instance : ToString Sexp := ⟨toStr⟩

/-- tokenise into "(" , ")" and atoms -/
def tokens (s : String) : List String :=
  let rec go (cs : List Char) (cur : List Char) (acc : List String) : List String :=
    let flush (cur : List Char) (acc : List String) : List String :=
      if cur.isEmpty then acc else String.ofList cur.reverse :: acc
    match cs with
    | [] => (flush cur acc).reverse
    | c :: rest =>
      if c == '(' || c == ')' then go rest [] (String.singleton c :: flush cur acc)
      else if c == ' ' || c == '\t' || c == '\n' || c == '\r' then go rest [] (flush cur acc)
      else go rest (c :: cur) acc
  go s.toList [] []

/-- parse one expression from a token list (fuel = token count) -/
def parseAux : Nat → List String → Option (Sexp × List String)
  | 0, _ => none
  | _, [] => none
  | fuel + 1, t :: ts =>
    if t == "(" then
      let rec items (f : Nat) (ts : List String) (acc : List Sexp) : Option (List Sexp × List String) :=
        match f, ts with
        | 0, _ => none
        | _, [] => none
        | f + 1, t :: rest =>
          if t == ")" then some (acc.reverse, rest)
          else match parseAux fuel (t :: rest) with
            | some (e, rest') => items f rest' (e :: acc)
            | none => none
      match items (ts.length + 1) ts [] with
      | some (xs, rest) => some (list xs, rest)
      | none => none
    else if t == ")" then none
    else some (atom t, ts)

def parse (s : String) : Option Sexp :=
  let ts := tokens s
  match parseAux (ts.length + 1) ts with
  | some (e, []) => some e
  | _ => none

def asNat? : Sexp → Option Nat
  | atom s => s.toNat?
  | _ => none

def asInt? : Sexp → Option Int
  | atom s => s.toInt?
  | _ => none

def asList? : Sexp → Option (List Sexp)
  | list xs => some xs
  | _ => none

def asAtom? : Sexp → Option String
  | atom s => some s
  | _ => none

def natList? (e : Sexp) : Option (List Nat) :=
  match e with
  | list xs => xs.mapM asNat?
  | _ => none

def ofNatList (xs : List Nat) : Sexp := list (xs.map fun n => atom (toString n))

end Sexp

/-- generic stdin loop: one request per line, one reply per line -/
partial def lineLoop (h : IO.FS.Stream) (f : String → String) : IO Unit := do
  let line ← h.getLine
  if line.isEmpty then return ()
  IO.println (f line)
  lineLoop h f

end GuppyVerif
