/-! # Model of overload resolution (C15)

Mirrors `definition/overloaded.py` (`OverloadedFunctionDef.check_call` /
`synthesize_call`: try the variants in order, the first one that does not raise wins,
`_call_error` when none does), on top of a small model of how one variant accepts a
call (`checker/expr_checker.py`: `check_num_args`, `type_check_args`,
`ExprChecker.check`, `visit_Constant`, `visit_Tuple`, `check_type_against`,
`try_coerce_to`, and the return-type unification of `check_call`).

Checking an argument *mutates* the argument tree (tuple-literal elements are replaced by
their checked form, literals get a type annotation).  The repaired `overloaded.py` hands
every variant a fresh copy (`resolve`); the code before the fix threaded the mutated
arguments through the attempts (`resolveShared`, kept to state the defect D8).

Import-free, total. -/
namespace GuppyVerif.Overload

/-- Guppy types of the fragment. `var i` is a quantified parameter of a variant. -/
inductive Ty where
  | nat | int | float | bool
  /-- `qubit` (no coercions, not copyable; ownership flags of parameters are not part of resolution) -/
  | qubit
  | tup (ts : List Ty)
  | var (i : Nat)
  deriving Repr, Inhabited

mutual
def Ty.beq : Ty → Ty → Bool
  | .nat, .nat | .int, .int | .float, .float | .bool, .bool | .qubit, .qubit => true
  | .tup a, .tup b => Ty.beqList a b
  | .var i, .var j => i == j
  | _, _ => false
def Ty.beqList : List Ty → List Ty → Bool
  | [], [] => true
  | a :: as, b :: bs => Ty.beq a b && Ty.beqList as bs
  | _, _ => false
end

instance : BEq Ty := ⟨Ty.beq⟩

/-- `NumericType.Kind` ordering: Nat < Int < Float. -/
def Ty.numKind : Ty → Option Nat
  | .nat => some 0
  | .int => some 1
  | .float => some 2
  | _ => none

/-- Argument expressions as they reach a call. -/
inductive Arg where
  /-- an expression whose type is synthesized independently of the expected type
      (variable, operator application, …), or a node that already carries a type -/
  | typed (t : Ty)
  /-- integer literal (`neg` = negative) -/
  | intLit (neg : Bool)
  | floatLit
  | boolLit
  /-- tuple literal `(e₁, …, eₙ)` -/
  | tup (es : List Arg)
  deriving Repr, Inhabited

mutual
/-- does the type contain `qubit` (such types are not copyable) -/
def Ty.hasQubit : Ty → Bool
  | .qubit => true
  | .tup ts => Ty.hasQubitList ts
  | _ => false
def Ty.hasQubitList : List Ty → Bool
  | [] => false
  | t :: r => Ty.hasQubit t || Ty.hasQubitList r
end

abbrev Subst := List (Nat × Ty)

def Subst.get (σ : Subst) (i : Nat) : Option Ty := (σ.find? (·.1 == i)).map (·.2)

mutual
/-- `ty.substitute(subst)` -/
def Ty.subst (σ : Subst) : Ty → Ty
  | .tup ts => .tup (Ty.substList σ ts)
  | .var i => match σ.get i with
    | some t => t
    | none => .var i
  | t => t
def Ty.substList (σ : Subst) : List Ty → List Ty
  | [] => []
  | t :: r => Ty.subst σ t :: Ty.substList σ r
end

mutual
/-- `unify(exp, act, σ)` where `act` is closed: first-order matching of the pattern `exp`
    (its variables not bound in `σ` are unification variables). -/
def matchTy (σ : Subst) : Ty → Ty → Option Subst
  | .var i, act => match σ.get i with
    | some t => if t == act then some σ else none
    | none =>
      -- quantified parameters of the generated variants are copyable and droppable
      -- (`guppy.type_var` defaults): a qubit-containing type is no instance (`check_inst`)
      if act.hasQubit then none else some ((i, act) :: σ)
  | .tup ps, .tup as => matchList σ ps as
  | .nat, .nat | .int, .int | .float, .float | .bool, .bool | .qubit, .qubit => some σ
  | _, _ => none
def matchList (σ : Subst) : List Ty → List Ty → Option Subst
  | [], [] => some σ
  | p :: ps, a :: as => match matchTy σ p a with
    | some σ' => matchList σ' ps as
    | none => none
  | _, _ => none
end

/-- `check_type_against(act, exp)` for a closed `act`: unify, else numeric widening
    (`try_coerce_to`: `act.kind < exp.kind`).  `exp` is already substituted. -/
def checkTypeAgainst (σ : Subst) (act exp : Ty) : Option Subst :=
  match matchTy σ exp act with
  | some σ' => some σ'
  | none =>
    match act.numKind, exp.numKind with
    | some a, some e => if a < e then some σ else none
    | _, _ => none

mutual
/-- `ExprSynthesizer.synthesize` on an argument: its type and its (mutated) checked form. -/
def synthArg : Arg → Ty × Arg
  | .typed t => (t, .typed t)
  | .intLit _ => (.int, .typed .int)
  | .floatLit => (.float, .typed .float)
  | .boolLit => (.bool, .typed .bool)
  | .tup es =>
    let (ts, es') := synthArgs es
    (.tup ts, .tup es')
def synthArgs : List Arg → List Ty × List Arg
  | [] => ([], [])
  | e :: r =>
    let (t, e') := synthArg e
    let (ts, r') := synthArgs r
    (t :: ts, e' :: r')
end

mutual
/-- `ExprChecker.check(arg, exp.substitute(σ))`.  Returns the extended substitution (or
    `none` when a `GuppyError` is raised) **and the argument object as it is left behind** —
    in-place effects happen whether or not the check succeeds.  On success the *returned*
    node (which the caller stores) is always a node of type `exp.subst σ'`, i.e.
    `typed (exp.subst σ')`; the original object keeps the type annotation it received
    (`with_type`), which for a literal that had to be widened is the literal's own type. -/
def checkArg (σ : Subst) (exp : Ty) : Arg → Option Subst × Arg
  | .typed t => (checkTypeAgainst σ t (exp.subst σ), .typed t)
  | .tup es =>
    match exp.subst σ with
    | .var i =>
      -- checking against an unsolved variable synthesizes (`node.elts = …`, then `with_type`)
      let (ts, _) := synthArgs es
      (some ((i, .tup ts) :: σ), .typed (.tup ts))
    | .tup ps =>
      -- `visit_Tuple`: length test, then element-wise with `node.elts[i] = <returned node>`
      if ps.length != es.length then (none, .tup es)
      else
        match checkElems σ ps es with
        | (some σ', _) => (some σ', .typed ((Ty.tup ps).subst σ'))
        | (none, es') => (none, .tup es')
    | _ => (none, .tup es)
  | .intLit neg =>
    match exp.subst σ with
    | .var i => (some ((i, .int) :: σ), .typed .int)
    | e =>
      -- `python_value_to_guppy_type` with the hint, then `check_type_against`
      let act := if e == .nat && !neg then Ty.nat else Ty.int
      match checkTypeAgainst σ act e with
      | some σ' => (some σ', .typed act)   -- the Constant node is annotated in place
      | none => (none, .intLit neg)
  | .floatLit =>
    match exp.subst σ with
    | .var i => (some ((i, .float) :: σ), .typed .float)
    | e => match checkTypeAgainst σ .float e with
      | some σ' => (some σ', .typed .float)
      | none => (none, .floatLit)
  | .boolLit =>
    match exp.subst σ with
    | .var i => (some ((i, .bool) :: σ), .typed .bool)
    | e => match checkTypeAgainst σ .bool e with
      | some σ' => (some σ', .typed .bool)
      | none => (none, .boolLit)
/-- element-wise check of a tuple literal: the slot of an element that checked is overwritten
    with the returned node (of the expected element type); the element that failed stays in
    its slot as it was left behind; later elements are untouched -/
def checkElems (σ : Subst) : List Ty → List Arg → Option Subst × List Arg
  | p :: ps, e :: es =>
    match checkArg σ p e with
    | (some σ', _) =>
      let (r, es') := checkElems σ' ps es
      (r, .typed (p.subst σ') :: es')
    | (none, e') => (none, e' :: es)
  | _, es => (some σ, es)
end

/-- a plain variant: parameter types, per-position `@comptime` flags (missing = not comptime)
    and result type (`FunctionType`) -/
structure Sig where
  params : List Ty
  comptime : List Bool := []
  ret : Ty
  deriving Repr, Inhabited

/-- What can be listed in `@guppy.overload(...)`. -/
inductive Variant where
  /-- a declared / defined function -/
  | plain (s : Sig)
  /-- another overloaded function (its own `ty` is a placeholder; its `check_call` /
      `synthesize_call` run the same loop over its variants) -/
  | nested (ss : List Sig)
  /-- a custom function with its own call checker and no declared signature; the one used in
      the tie accepts any number of arguments that synthesize to exactly `int` and returns
      `int` (in checking position the expected type must be `int`: the widening that
      `check_type_against` attempts on the checker's untyped result node raises) -/
  | allInts
  /-- a variant whose own signature is ill-formed (`int @owned`, a non-type annotation, a type
      constructor with the wrong number of arguments, an undefined name): looking it up
      (`ctx.globals[def_id]`) parses the signature and raises *outside* the `suppress` -/
  | invalid
  deriving Repr, Inhabited

def Variant.isInvalid : Variant → Bool
  | .invalid => true
  | _ => false

/-- the type a literal argument gets under the hint `e` (`python_value_to_guppy_type`);
    `none` for non-literals -/
def Arg.constTy? (e : Ty) : Arg → Option Ty
  | .intLit neg => some (if e == .nat && !neg then .nat else .int)
  | .floatLit => some .float
  | .boolLit => some .bool
  | _ => none

/-- `type_check_args`: arguments left to right under one growing substitution; a
    `@comptime` parameter additionally needs the *checked* argument to be a constant
    (`check_comptime_arg`: a literal that was not wrapped in a coercion), else
    `ComptimeUnknownError` — a plain `GuppyError`, not a type error.  The top-level list
    is not mutated (a new list is built) but the argument objects are. -/
def checkArgs (σ : Subst) : List Ty → List Bool → List Arg → Option Subst × List Arg
  | p :: ps, cs, a :: as =>
    match checkArg σ p a with
    | (some σ', a') =>
      if cs.headD false && !(a.constTy? (p.subst σ) == some (p.subst σ')) then (none, a' :: as)
      else
        let (r, as') := checkArgs σ' ps cs.tail as
        (r, a' :: as')
    | (none, a') => (none, a' :: as)
  | _, _, as => (some σ, as)

mutual
def Ty.closed : Ty → Bool
  | .var _ => false
  | .tup ts => Ty.closedList ts
  | _ => true
def Ty.closedList : List Ty → Bool
  | [] => true
  | t :: r => Ty.closed t && Ty.closedList r
end

/-- What a successful attempt hands back: for a nested overloaded variant which of its own
    variants was taken; the result type; the types of the checked arguments it returns
    (`new_args`, each annotated with the instantiated parameter type). -/
structure Outcome where
  inner : Option Nat := none
  ret : Ty
  argTys : List Ty
  deriving Repr, Inhabited

/-- One attempt on a plain variant: `defn.synthesize_call(args, …)` (`exp = none`) or
    `defn.check_call(args, ty, …)` (`exp = some ty`).  Outcome on success, and the argument
    objects as left behind. -/
def attemptSig (v : Sig) (args : List Arg) (exp : Option Ty) : Option Outcome × List Arg :=
  -- `check_num_args`
  if v.params.length != args.length then (none, args)
  else
    match checkArgs [] v.params v.comptime args with
    | (none, args') => (none, args')
    | (some σ, args') =>
      let out := v.ret.subst σ
      let res : Outcome := { ret := out, argTys := Ty.substList σ v.params }
      -- all variables of the result must have been inferred
      if !out.closed then (none, args')
      else match exp with
        | none => (some res, args')
        | some e => if e == out then (some res, args') else (none, args')

/-- the resolution loop of a nested overloaded function over its (plain) variants -/
def resolveSigs (ss : List Sig) (args : List Arg) (exp : Option Ty) : Option (Nat × Outcome) :=
  go ss 0
where
  go : List Sig → Nat → Option (Nat × Outcome)
    | [], _ => none
    | s :: rest, i =>
      match attemptSig s args exp with
      | (some o, _) => some (i, o)
      | (none, _) => go rest (i + 1)

def allIntsOk : List Arg → Bool
  | [] => true
  | a :: as => (synthArg a).1 == Ty.int && allIntsOk as

/-- One attempt on any variant.  Whatever diagnostic the variant's checker raises
    (`GuppyTypeError`, `ComptimeUnknownError`, the inner `OverloadNoMatchError`, …) is a
    `GuppyError` and just means "this variant does not accept". -/
def attempt (v : Variant) (args : List Arg) (exp : Option Ty) : Option Outcome × List Arg :=
  match v with
  | .plain s => attemptSig s args exp
  | .nested ss =>
    match resolveSigs ss args exp with
    | some (j, o) => (some { o with inner := some j }, args)
    | none => (none, args)
  | .invalid => (none, args)   -- not reached by `resolveR`, which stops at the lookup
  | .allInts =>
    if allIntsOk args then
      match exp with
      | none => (some { ret := .int, argTys := [] }, (synthArgs args).2)
      | some e =>
        if e == Ty.int then (some { ret := e, argTys := [] }, (synthArgs args).2)
        else (none, (synthArgs args).2)
    else (none, (synthArgs args).2)

/-- Does the variant accept the call (a direct call in a fresh program)? -/
def accepts (v : Variant) (args : List Arg) (exp : Option Ty) : Bool :=
  (attempt v args exp).1.isSome

/-- **The repaired loop** of `OverloadedFunctionDef.check_call` / `synthesize_call`: every
    variant is tried on a copy of the *original* arguments; index and result type of the
    first attempt that does not raise, and that attempt's outcome; `none` = `_call_error`. -/
def resolve (vs : List Variant) (args : List Arg) (exp : Option Ty) :
    Option (Nat × Outcome) :=
  go vs 0
where
  go : List Variant → Nat → Option (Nat × Outcome)
    | [], _ => none
    | v :: rest, i =>
      match attempt v args exp with
      | (some o, _) => some (i, o)
      | (none, _) => go rest (i + 1)

/-- What a call of an overloaded function comes to. -/
inductive Resolution where
  | chosen (i : Nat) (o : Outcome)
  /-- `_call_error`: `OverloadNoMatchError` -/
  | noMatch
  /-- the lookup of variant `i` raised its signature diagnostic; it propagates to the caller
      exactly as for a direct call of that variant -/
  | invalid (i : Nat)
  deriving Repr, Inhabited

/-- The loop including the lookup of each variant: an ill-formed variant that is *reached*
    (no earlier variant accepted) aborts the resolution with its own diagnostic; variants
    after the accepting one are never looked up. -/
def resolveR (vs : List Variant) (args : List Arg) (exp : Option Ty) : Resolution :=
  go vs 0
where
  go : List Variant → Nat → Resolution
    | [], _ => .noMatch
    | v :: rest, i =>
      if v.isInvalid then .invalid i
      else match attempt v args exp with
        | (some o, _) => .chosen i o
        | (none, _) => go rest (i + 1)

/-- **The loop before the fix (D8)**: the same argument objects are reused, so what a
    failed attempt left behind is what the next variant sees. -/
def resolveShared (vs : List Variant) (args : List Arg) (exp : Option Ty) :
    Option (Nat × Outcome) :=
  go vs args 0
where
  go : List Variant → List Arg → Nat → Option (Nat × Outcome)
    | [], _, _ => none
    | v :: rest, args, i =>
      match attempt v args exp with
      | (some o, _) => some (i, o)
      | (none, args') => go rest args' (i + 1)

end GuppyVerif.Overload
