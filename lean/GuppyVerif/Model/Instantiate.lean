import GuppyVerif.Model.Ty
/-! # C13 — generic instantiation and partial monomorphization (model)

Mirrors, including quirks and error branches (`none` = Python `AssertionError` /
`InternalGuppyError` / `IndexError` / `ValueError(zip strict)`):

  * `tys/subst.py`  `Instantiator(inst, allow_partial)`                → `instTy σ ap` (+ `Arg/Const/FuncIn`)
  * `tys/param.py`  `with_idx`, `to_bound`, `instantiate_bounds`        → `paramWithIdx/paramToBound/paramInstBounds`
  * `tys/ty.py`     `FunctionType.instantiate_partial / instantiate`    → `instantiatePartial / instantiate`
  * `compiler/core.py` `compile_variable_idx`, `partially_monomorphize_args`,
    `require_monomorphization`, `type_var_to_hugr` / `const_var_to_hugr` (index handling only)

The model is of the code *after* fix commit a3b7e76 in /repo (`FunctionType.transform` keeps and
transforms `comptime_args`; `instantiate_partial` takes `to_bound()` of the bound-instantiated kept
parameter).  It differs from `Ty.inst` of `Model/Ty.lean` in: `allow_partial`, comptime args of a
rebuilt function type, the "higher-rank" check of `ParametrizedTypeBase.__post_init__` (run when an
`OpaqueType`/`StructType` is rebuilt, *not* for tuples/functions whose `__init__` is custom), and
the "unsolved type" check of `ConstBase.__post_init__` when a const variable is rebuilt with a new type.

Quirks kept: `ConstParam.with_idx` drops `from_comptime_arg`; a lowered `BoundConstVar` keeps its own
type untouched; `ExistentialConstVar` / a kept `BoundConstVar` get a *root-only* rewrite of their type;
`unitary_flags` are not modelled (dropped by the real code, too). -/
namespace GuppyVerif.Instantiate
open GuppyVerif

/-- `PartialInst = Sequence[Argument | None]` -/
abbrev PInst := List (Option Arg)

def natTy : Ty := .num .nat

/-! ## `unsolved_vars` non-empty? (only emptiness is ever tested) -/
def constUnsolved : Const → Bool
  | .evar _ _ _ => true
  | _ => false

mutual
def tyUnsolved : Ty → Bool
  | .evar _ _ _ _ => true
  | .tuple ts _ => tyUnsolvedL ts
  | .func ins o _ cs => inUnsolvedL ins || tyUnsolved o || cs.any constUnsolved
  | .opaque _ as => argUnsolvedL as
  | .struct _ as _ => argUnsolvedL as
  | _ => false
def tyUnsolvedL : List Ty → Bool
  | [] => false
  | t :: ts => tyUnsolved t || tyUnsolvedL ts
def inUnsolved : FuncIn → Bool
  | .mk t _ => tyUnsolved t
def inUnsolvedL : List FuncIn → Bool
  | [] => false
  | t :: ts => inUnsolved t || inUnsolvedL ts
def argUnsolved : Arg → Bool
  | .ty t => tyUnsolved t
  | .const c => constUnsolved c
def argUnsolvedL : List Arg → Bool
  | [] => false
  | t :: ts => argUnsolved t || argUnsolvedL ts
end

/-! ## `bound_vars` (indices only).  A parametrized function type hides its bound variables. -/
mutual
def tyBV : Ty → List Nat
  | .bvar _ i _ _ => [i]
  | .tuple ts _ => tyBVL ts
  | .func ins o ps cs => if ps.isEmpty then inBVL ins ++ tyBV o ++ constBVL cs else []
  | .opaque _ as => argBVL as
  | .struct _ as _ => argBVL as
  | _ => []
def tyBVL : List Ty → List Nat
  | [] => []
  | t :: ts => tyBV t ++ tyBVL ts
def inBV : FuncIn → List Nat
  | .mk t _ => tyBV t
def inBVL : List FuncIn → List Nat
  | [] => []
  | t :: ts => inBV t ++ inBVL ts
def argBV : Arg → List Nat
  | .ty t => tyBV t
  | .const c => constBV c
def argBVL : List Arg → List Nat
  | [] => []
  | t :: ts => argBV t ++ argBVL ts
def constBV : Const → List Nat
  | .val t _ => tyBV t
  | .bvar t _ i => i :: tyBV t
  | .evar t _ _ => tyBV t
def constBVL : List Const → List Nat
  | [] => []
  | t :: ts => constBV t ++ constBVL ts
end

/-! ## `Instantiator` -/

/-- `Instantiator._transform_BoundTypeVar`: `none` = assertion failure, `some none` = the transformer
    returned `None` (uninstantiated slot under `allow_partial`), `some (some t)` = replacement. -/
def lookTy (σ : PInst) (ap : Bool) (name : String) (idx : Nat) (cp dr : Bool) : Option (Option Ty) :=
  if idx < σ.length then
    match σ[idx]? with
    | some none => if ap then some none else none
    | some (some (.ty t)) => some (some t)
    | _ => none
  else some (some (.bvar name (idx - σ.length) cp dr))

/-- is this type argument a parametrized function type? -/
def isPolyArg : Arg → Bool
  | .ty (.func _ _ (_ :: _) _) => true
  | _ => false

/-- `ParametrizedTypeBase.__post_init__`: "Tried to construct a higher-rank polymorphic type!" -/
def higherRank (as : List Arg) : Bool := as.any isPolyArg

/-- the type of a *rebuilt* const variable: `transformer.transform(c.ty) or c.ty` (root only), followed
    by `ConstBase.__post_init__` on the new object (only a replaced root can introduce unsolved
    variables: the old type belonged to an existing constant). -/
def rootC (σ : PInst) (ap : Bool) : Ty → Option Ty
  | .bvar n i c d =>
      match lookTy σ ap n i c d with
      | none => none
      | some none => some (.bvar n i c d)
      | some (some s) => if tyUnsolved s then none else some s
  | .func ins o ps cs => if ps.isEmpty then some (.func ins o ps cs) else none
  | t => some t

mutual
def instTy (σ : PInst) (ap : Bool) : Ty → Option Ty
  | .num k => some (.num k)
  | .none p => some (.none p)
  | .bvar n i c d =>
      match lookTy σ ap n i c d with
      | none => none
      | some none => some (.bvar n i c d)
      | some (some t) => some t
  | .evar n i c d => some (.evar n i c d)
  | .tuple ts p => do some (.tuple (← instTyL σ ap ts) p)
  | .func ins o ps cs =>
      if ps.isEmpty then do
        some (.func (← instInL σ ap ins) (← instTy σ ap o) [] (← instConstL σ ap cs))
      else none                                       -- "Tried to instantiate under binder"
  | .opaque n as => do
      let as' ← instArgL σ ap as
      if higherRank as' then none else some (.opaque n as')
  | .struct n as fs => do
      let as' ← instArgL σ ap as
      if higherRank as' then none else some (.struct n as' fs)
def instTyL (σ : PInst) (ap : Bool) : List Ty → Option (List Ty)
  | [] => some []
  | t :: ts => do some ((← instTy σ ap t) :: (← instTyL σ ap ts))
def instIn (σ : PInst) (ap : Bool) : FuncIn → Option FuncIn
  | .mk t f => do some (.mk (← instTy σ ap t) f)
def instInL (σ : PInst) (ap : Bool) : List FuncIn → Option (List FuncIn)
  | [] => some []
  | t :: ts => do some ((← instIn σ ap t) :: (← instInL σ ap ts))
def instArg (σ : PInst) (ap : Bool) : Arg → Option Arg
  | .ty t => do some (.ty (← instTy σ ap t))
  | .const c => do some (.const (← instConst σ ap c))
def instArgL (σ : PInst) (ap : Bool) : List Arg → Option (List Arg)
  | [] => some []
  | t :: ts => do some ((← instArg σ ap t) :: (← instArgL σ ap ts))
def instConst (σ : PInst) (ap : Bool) : Const → Option Const
  | .val t v => some (.val t v)
  | .bvar t n i =>
      if i < σ.length then
        match σ[i]? with
        | some none => if ap then do some (.bvar (← rootC σ ap t) n i) else none
        | some (some (.const c)) => some c
        | _ => none
      else some (.bvar t n (i - σ.length))
  | .evar t n i => do some (.evar (← rootC σ ap t) n i)
def instConstL (σ : PInst) (ap : Bool) : List Const → Option (List Const)
  | [] => some []
  | t :: ts => do some ((← instConst σ ap t) :: (← instConstL σ ap ts))
end

/-- `Instantiator(inst)` for a complete instantiation -/
abbrev full (σ : List Arg) : PInst := σ.map some

/-! ## Parameters -/

/-- `with_idx` (quirk: `ConstParam.with_idx` forgets `from_comptime_arg`) -/
def paramWithIdx (k : Nat) : Param → Param
  | .ty _ n c d => .ty k n c d
  | .const _ n t _ => .const k n t false

/-- `to_bound()`; creating the `BoundConstVar` runs `ConstBase.__post_init__` -/
def paramToBound : Param → Option Arg
  | .ty i n c d => some (.ty (.bvar n i c d))
  | .const i n t _ => if tyUnsolved t then none else some (.const (.bvar t n i))

/-- `instantiate_bounds(inst)` -/
def paramInstBounds (σ : List Arg) : Param → Option Param
  | .ty i n c d => some (.ty i n c d)
  | .const i n t f => do some (.const i n (← instTy (full σ) false t) f)

/-- the `preserve=True` marking of instantiated tuple / `None` type arguments -/
def setPreserve : Arg → Arg
  | .ty (.tuple ts _) => .ty (.tuple ts true)
  | .ty (.none _) => .ty (.none true)
  | a => a

/-! ## `FunctionType.instantiate_partial` -/

/-- the `for param, arg in zip(self.params, args, strict=True)` loop; state = (`full_inst`,
    `remaining_params`) -/
def instLoop : List Param → PInst → List Arg → List Param → Option (List Arg × List Param)
  | [], [], fi, rem => some (fi, rem)
  | p :: ps, a :: as, fi, rem =>
      match a with
      | none => do
          let p' ← paramInstBounds fi (paramWithIdx rem.length p)
          let b ← paramToBound p'
          instLoop ps as (fi ++ [setPreserve b]) (rem ++ [p'])
      | some v => instLoop ps as (fi ++ [setPreserve v]) rem
  | _, _, _, _ => none

def instantiatePartial : Ty → PInst → Option Ty
  | .func ins o ps cs, args =>
      if args.length ≠ ps.length then none else do
        let (fi, rem) ← instLoop ps args [] []
        let ins' ← instInL (full fi) false ins
        let o' ← instTy (full fi) false o
        let cs' ← instConstL (full fi) false cs
        some (.func ins' o' rem cs')
  | _, _ => none

def instantiate (f : Ty) (args : List Arg) : Option Ty := instantiatePartial f (full args)

/-! ## `compiler/core.py` -/

/-- `compile_variable_idx(idx, mono_args)` -/
def compileVariableIdx (idx : Nat) (mono : PInst) : Option Nat :=
  match mono[idx]? with
  | some none => some ((mono.take idx).countP Option.isNone)
  | _ => none

/-- Python `xs[i] = v` -/
def setAt? {α : Type} : List α → Nat → α → Option (List α)
  | [], _, _ => none
  | _ :: xs, 0, v => some (v :: xs)
  | x :: xs, i + 1, v => do some (x :: (← setAt? xs i v))

/-- `for var in ty.bound_vars: mono_args[var.idx] = args[var.idx]` -/
def markVars (args : List Arg) : List Nat → PInst → Option PInst
  | [], m => some m
  | j :: js, m => do
      let a ← args[j]?
      let m ← setAt? m j (some a)
      markVars args js m

/-- `ty == nat_type()` (dataclass equality with `NumericType(Kind.Nat)`) -/
def isNat : Ty → Bool
  | .num .nat => true
  | _ => false

/-- one iteration of the loop of `partially_monomorphize_args` -/
def monoStep (args : List Arg) (m : PInst) (p : Param) (a : Arg) : Option PInst :=
  match p with
  | .ty _ _ _ _ => some m
  | .const idx _ ty _ => do
      let instTy ← instTy (full args) false ty
      let m ← if !isNat ty then markVars args (tyBV ty) m else some m
      if !isNat instTy then setAt? m idx (some a) else some m

def monoLoop (args : List Arg) : List Param → List Arg → PInst → Option PInst
  | [], [], m => some m
  | p :: ps, a :: as, m => do monoLoop args ps as (← monoStep args m p a)
  | _, _, _ => none

/-- `[arg for i, arg in enumerate(args) if mono_args[i] is None]` -/
def remArgs : List Arg → PInst → List Arg
  | a :: as, m :: ms => if m.isNone then a :: remArgs as ms else remArgs as ms
  | _, _ => []

def optArgBV : Option Arg → List Nat
  | none => []
  | some a => argBV a

/-- "Normalise args w.r.t. the current outer monomorphisation" -/
def normaliseArgs (args : List Arg) (cur : Option PInst) : Option (List Arg) :=
  match cur with
  | none => some args
  | some m => instArgL m true args

/-- `partially_monomorphize_args(params, args, ctx)` with `ctx.current_mono_args = cur` -/
def partiallyMonomorphizeArgs (params : List Param) (args : List Arg) (cur : Option PInst) :
    Option (PInst × List Arg) := do
  let args' ← normaliseArgs args cur
  let mono ← monoLoop args' params args' (args'.map fun _ => none)
  if mono.all (fun m => (optArgBV m).isEmpty) then some (mono, remArgs args' mono) else none

/-- `params[var.idx]` for every bound variable of a const parameter's type (`IndexError` = `none`) -/
def lookupAll (params : List Param) : List Nat → Option (List Param)
  | [] => some []
  | j :: js => do
      let p ← params[j]?
      let r ← lookupAll params js
      some (p :: r)

/-- `require_monomorphization(params)`: the selected parameters in insertion order (a Python set:
    compared as a set by the harness) -/
def requireStep (params : List Param) : Param → Option (List Param)
  | .ty _ _ _ _ => some []
  | .const i n ty f =>
      if isNat ty then some []
      else do
        let deps ← lookupAll params (tyBV ty)
        some (.const i n ty f :: deps)

def requireLoop (params : List Param) : List Param → Option (List Param)
  | [] => some []
  | p :: ps => do
      let a ← requireStep params p
      let r ← requireLoop params ps
      some (a ++ r)

def requireMonomorphization (params : List Param) : Option (List Param) := requireLoop params params

/-- result of `type_var_to_hugr` / `const_var_to_hugr` as far as indices are concerned -/
inductive HugrVar where
  | var (k : Nat)          -- `ht.Variable(k, _)` / `ht.VariableArg(k, _)`
  | monoTy (t : Ty)        -- monomorphized: the argument's own translation
  | monoNat (v : Int)      -- `ht.BoundedNatArg(n=v)`

def typeVarToHugr (cur : Option PInst) (idx : Nat) : Option HugrVar :=
  match cur with
  | none => some (.var idx)
  | some m =>
    match m[idx]? with
    | some (some (.ty t)) => some (.monoTy t)
    | some none => (compileVariableIdx idx m).map .var
    | _ => none

def constVarToHugr (cur : Option PInst) (ty : Ty) (idx : Nat) : Option HugrVar :=
  if !isNat ty then none
  else match cur with
  | none => some (.var idx)
  | some m =>
    match m[idx]? with
    | some (some (.const (.val _ (.int v)))) => some (.monoNat v)
    -- `case ConstArg(const=ConstValue(value=int(v)))` also matches a Python bool
    | some (some (.const (.val _ (.bool b)))) => some (.monoNat (if b then 1 else 0))
    | some none => (compileVariableIdx idx m).map .var
    | _ => none

end GuppyVerif.Instantiate
