/-! # Model of the compilation session (C11)

Mirrors, at the level of *which state survives which call*, the Python in
`guppylang_internals/engine.py` (`CompilationEngine.reset/check/get_checked`, `DEF_STORE`),
`compiler/core.py` (`CompilerContext.compile` work list), `compiler/cfg_compiler.py`
(`compile_cfg`'s guard around `insert_return_vars`, `sort_vars`), `compiler/func_compiler.py`
(`func.cfg.input_tys.append` for recursive capturing closures), `checker/func_checker.py`
(`check_nested_func_def`: `DefId.fresh()`, `DEF_STORE.register_def`, binding of the recursive name),
`cfg/builder.py` (`tmp_vars`, a module-level counter that `reset()` does not touch; since
`fix: restart the numbering of temporary variables…` `CompilationEngine.check` restarts it),
`engine.py` `_parse` (the `parsing` set that detects cyclic signatures) and
`tracing/state.py` (`set_tracing_state`).

The in-place mutations are modelled on purpose: the checked CFG object kept in `ENGINE.checked` is
mutated by lowering (`retInserted`, `inputTysExtra`), counters only ever grow, a failing operation
returns the state *as mutated so far* (Python raises; nothing is rolled back).

`Config` holds the facts about the source that the theorems depend on; the real values are
regenerated from `/repo` on every run into `Gen/C11Config.lean`.

Import-free, total. -/
namespace GuppyVerif.Session

/-- Facts read off the source (T-src, `Gen/C11Config.lean`). -/
structure Config where
  /-- `CompilationEngine.check` calls `self.reset()` before doing anything else, and `reset`
      reassigns `parsed`, `checked`, `compiled` and both work lists -/
  checkResets : Bool
  /-- `compile_cfg` calls `insert_return_vars` only when the exit row has no return variable yet -/
  returnVarsGuard : Bool
  /-- some code under `compiler/` reads `.input_tys` of a checked CFG -/
  compilerReadsInputTys : Bool
  /-- `set_tracing_state` resets the context variable in a `finally` block -/
  tracingRestored : Bool
  /-- `check_nested_func_def` writes the recursive nested function into `ctx.globals.f_locals`
      itself (the defining frame's namespace) rather than into a copy -/
  nestedRecBindsInFrame : Bool
  /-- `reset()` reassigns `parsing` (the set of definitions whose signature is being parsed) to an
      empty set (vacuously true of a tree that has no such attribute) -/
  resetClearsParsing : Bool
  /-- `_parse` removes the id it added to `parsing` in a `finally` block that encloses the parse, so
      also when the parse fails (vacuously true when nothing is ever added) -/
  parseRestores : Bool
  /-- `check` restarts the `%tmp` numbering (`tmp_vars.reset()`) right after `self.reset()` -/
  checkRestartsTmp : Bool
  deriving DecidableEq, Repr, Inhabited

/-- a nested function definition inside a pool definition -/
structure Nested where
  /-- the (module-level) name it would shadow if it leaked into the frame -/
  name : Nat
  recursive : Bool
  /-- number of captured variables -/
  captures : Nat
  deriving DecidableEq, Repr

/-- A raw definition of the pool (immutable; what `DEF_STORE.raw_defs` holds).  The module-level
    name of pool entry `i` is `i`. -/
structure RawDef where
  /-- module-level names the body refers to (resolved through the defining frame) -/
  deps : List Nat
  illTyped : Bool
  /-- the body contains `comptime(<call of a Guppy function>)`: always an error, but *which* error
      depends on whether tracing mode is (still) active -/
  ctExprCall : Bool
  /-- number of return values (`%ret` variables prepended to the exit row when lowering) -/
  nRet : Nat
  /-- `%tmp` names drawn from the session counter while building/checking the CFG -/
  tmps : Nat
  /-- `%tmp` names drawn while lowering / tracing -/
  ctmps : Nat
  /-- the `%tmp` names (relative to the first one of this CFG) occurring together in each
      block-input row that `sort_vars` orders -/
  rows : List (List Nat)
  /-- nested definitions in the order `check_nested_func_def` meets them; for a definition whose check
      fails: only those reached before the failure -/
  nested : List Nested
  comptime : Bool
  /-- comptime body raises in the middle of tracing -/
  raises : Bool
  /-- parsing the definition (its signature) fails -/
  badSig : Bool
  deriving DecidableEq, Repr

abbrev Pool := List RawDef

inductive Err where
  | typeError | ctEval | illegalCt | undefinedName | crash | userRaise | fuel
  /-- `CyclicDefinitionError`: the definition is (still recorded as) being parsed -/
  | cyclic
  /-- the signature does not parse -/
  | sigError
  deriving DecidableEq, Repr

/-- (core has no `DecidableEq (Except ε α)`; scoped so that it cannot clash elsewhere) -/
scoped instance instDecEqExcept {ε α : Type} [DecidableEq ε] [DecidableEq α] : DecidableEq (Except ε α)
  | .ok a, .ok b => if h : a = b then isTrue (by rw [h]) else isFalse (fun h' => h (Except.ok.inj h'))
  | .error a, .error b =>
    if h : a = b then isTrue (by rw [h]) else isFalse (fun h' => h (Except.error.inj h'))
  | .ok _, .error _ => isFalse (fun h => by cases h)
  | .error _, .ok _ => isFalse (fun h => by cases h)

/-- the part of a checked CFG that does not mention counters -/
structure CfgCore where
  id : Nat
  /-- how many times `insert_return_vars` has patched the exit signature of this object -/
  retInserted : Nat
  /-- how many closure types `compile_local_func_def` has appended to `cfg.input_tys` -/
  inputTysExtra : Nat
  deriving DecidableEq, Repr

/-- an entry of `ENGINE.checked` -/
structure Checked where
  core : CfgCore
  /-- value of the `%tmp` counter when this CFG was built -/
  base : Nat
  deriving DecidableEq, Repr

structure State where
  /-- `ENGINE.checked` (insertion order) -/
  checked : List Checked
  /-- keys of `ENGINE.parsed` -/
  parsed : List Nat
  /-- `cfg.builder.tmp_vars` -/
  tmpCtr : Nat
  /-- `DefId._ids` -/
  defCtr : Nat
  /-- `len(DEF_STORE.raw_defs)` beyond the pool -/
  store : Nat
  /-- names rebound in the defining frame by `check_nested_func_def` (name, leaked DefId) -/
  leaks : List (Nat × Nat)
  /-- `tracing.state._STATE` is set -/
  tracing : Bool
  /-- `ENGINE.parsing` -/
  parsing : List Nat
  deriving DecidableEq, Repr

def State.init : State := ⟨[], [], 0, 0, 0, [], false, []⟩

/-- one entry of the abstract lowering result -/
structure OutEntry where
  id : Nat
  /-- number of `%ret` variables at the front of the exit row -/
  rets : Nat
  /-- every sorted block-input row, `%tmp` names relative to the CFG's first one -/
  rows : List (List Nat)
  /-- length of `input_tys` beyond the checked inputs, if the compiler looks at it -/
  inputTys : Option Nat
  deriving DecidableEq, Repr

/-! ## sort_vars -/

def insertSorted (lt : Nat → Nat → Bool) (x : Nat) : List Nat → List Nat
  | [] => [x]
  | y :: ys => if lt x y then x :: y :: ys else y :: insertSorted lt x ys

def isort (lt : Nat → Nat → Bool) : List Nat → List Nat
  | [] => []
  | x :: xs => insertSorted lt x (isort lt xs)

/-- `sort_vars` on the `%tmp` names of one row: absolute counters `base + i`, ordered by `lt` on the
    counters (the real order is the string order of the names), reported relative to `base` -/
def sortRel (lt : Nat → Nat → Bool) (base : Nat) (row : List Nat) : List Nat :=
  (isort lt (row.map (base + ·))).map (· - base)

/-! ## name resolution through the defining frame -/

inductive Binding where
  | pool (i : Nat) | leaked | unbound
  deriving DecidableEq, Repr

def resolve (P : Pool) (s : State) (n : Nat) : Binding :=
  if s.leaks.any (·.1 == n) then .leaked else if n < P.length then .pool n else .unbound

def State.hasChecked (s : State) (n : Nat) : Bool := s.checked.any (·.core.id == n)

/-- `CompilationEngine.reset` (the work lists are local to `checkLoop` in this model) -/
def State.reset (cfg : Config) (s : State) : State :=
  { s with checked := [], parsed := [], parsing := if cfg.resetClearsParsing then [] else s.parsing }

/-! ## parsing -/

/-- `CompilationEngine._parse(n)`: refuses a definition that is recorded as being parsed, records it
    while its signature is parsed, and (`finally`) removes it again whether or not the parse failed.
    (Signatures of pool definitions do not mention other definitions, so parses do not nest.) -/
def parseDef (cfg : Config) (P : Pool) (n : Nat) (s : State) : State × Except Err Unit :=
  if s.parsing.contains n then (s, .error .cyclic)
  else
    let s1 := if cfg.parseRestores then s else { s with parsing := n :: s.parsing }
    match P[n]? with
    | some r => if r.badSig then (s1, .error .sigError) else (s1, .ok ())
    | none => (s1, .ok ())

/-- `ENGINE.get_parsed(n)` as far as parsing goes: nothing to do for a definition already in `parsed` -/
def getParsed (cfg : Config) (P : Pool) (n : Nat) (s : State) : State × Except Err Unit :=
  if s.parsed.contains n then (s, .ok ()) else parseDef cfg P n s

/-! ## checking -/

/-- `check_nested_func_def` for each nested definition: a fresh `DefId`; a recursive one that
    captures nothing is registered in `DEF_STORE` and bound by name -/
def bumpNested (cfg : Config) (s : State) : List Nested → State
  | [] => s
  | nd :: rest =>
    let id := s.defCtr
    let s1 := { s with defCtr := s.defCtr + 1 }
    let s2 :=
      if nd.recursive && nd.captures == 0 then
        { s1 with store := s1.store + 1,
                  leaks := if cfg.nestedRecBindsInFrame then (nd.name, id) :: s1.leaks else s1.leaks }
      else s1
    bumpNested cfg s2 rest

/-- `get_parsed(n)` records `n`; building the CFG draws `k` names from the `%tmp` counter -/
def State.beginCheck (s : State) (n k : Nat) : State :=
  { s with tmpCtr := s.tmpCtr + k, parsed := if s.parsed.contains n then s.parsed else n :: s.parsed }

/-- checking the body of definition `n` (= `r`) once it is parsed: record it in `parsed`, build the CFG
    (draws `%tmp` names), check the nested definitions and the body.  Returns the names the body resolved. -/
def checkBody (cfg : Config) (P : Pool) (n : Nat) (r : RawDef) (s : State) : State × Except Err (List Nat) :=
  let base := s.tmpCtr
  let bad := r.deps.any (fun d => resolve P s d == .unbound)
  let leaked := r.deps.any (fun d => resolve P s d == .leaked)
  let s1 := bumpNested cfg (s.beginCheck n r.tmps) r.nested
  if r.comptime then
    -- the body of a comptime function is not analysed; it runs (and resolves names) when traced
    ({ s1 with checked := s1.checked ++ [⟨⟨n, 0, 0⟩, base⟩] }, .ok [])
  else if bad then (s1, .error .undefinedName)
  else if leaked then (s1, .error .crash)
  else if r.ctExprCall then (s1, .error (if s1.tracing then .illegalCt else .ctEval))
  else if r.illTyped then (s1, .error .typeError)
  else ({ s1 with checked := s1.checked ++ [⟨⟨n, 0, 0⟩, base⟩] }, .ok r.deps)

/-- `ENGINE.get_checked(n)` for a definition not yet in the cache: parse (`get_parsed`; may fail),
    then check the body. -/
def checkOne (cfg : Config) (P : Pool) (n : Nat) (s : State) : State × Except Err (List Nat) :=
  match P[n]? with
  | none => (s, .error .undefinedName)
  | some r =>
    match getParsed cfg P n s with
    | (sp, .error e) => (sp, .error e)
    | (sp, .ok ()) => checkBody cfg P n r sp

/-- `ENGINE.get_parsed(d)` for every name the body resolved: a definition not yet in `parsed` is
    recorded there and put on the LIFO work list (`dict.popitem`), last one on top; one that is already
    in `parsed` is *not* queued again -/
def pushNew : List Nat → List Nat → List Nat → List Nat × List Nat
  | [], parsed, work => (parsed, work)
  | d :: ds, parsed, work =>
    if parsed.contains d then pushNew ds parsed work
    else pushNew ds (d :: parsed) (d :: work)

/-- the loop of `CompilationEngine.check` -/
def checkLoop (cfg : Config) (P : Pool) : Nat → List Nat → State → State × Except Err Unit
  | 0, [], s => (s, .ok ())
  | 0, _ :: _, s => (s, .error .fuel)
  | _ + 1, [], s => (s, .ok ())
  | f + 1, n :: rest, s =>
    if s.hasChecked n then checkLoop cfg P f rest s
    else
      match checkOne cfg P n s with
      | (s', .error e) => (s', .error e)
      | (s', .ok deps) =>
        let pw := pushNew deps s'.parsed rest
        checkLoop cfg P f pw.2 { s' with parsed := pw.1 }

def fuelFor (P : Pool) : Nat := 2 * P.length + 2

/-- `CompilationEngine.check(d)`: `reset()`, restart the `%tmp` numbering, parse `d` (the result goes
    into the work list only, not into `parsed`: `get_checked` parses `d` a second time), then the work
    list is *assigned* `{d}` -/
def check (cfg : Config) (P : Pool) (d : Nat) (s : State) : State × Except Err Unit :=
  let s0 := if cfg.checkResets then s.reset cfg else s
  let s1 := if cfg.checkRestartsTmp then { s0 with tmpCtr := 0 } else s0
  match parseDef cfg P d s1 with
  | (s2, .error e) => (s2, .error e)
  | (s2, .ok ()) => checkLoop cfg P (fuelFor P) [d] s2

/-! ## lowering -/

def updChecked (n : Nat) (f : CfgCore → CfgCore) : List Checked → List Checked
  | [] => []
  | c :: cs => (if c.core.id == n then { c with core := f c.core } else c) :: updChecked n f cs

def findChecked (n : Nat) : List Checked → Option Checked
  | [] => none
  | c :: cs => if c.core.id == n then some c else findChecked n cs

def closures (r : RawDef) : Nat := (r.nested.filter (fun nd => nd.recursive && nd.captures != 0)).length

/-- `ENGINE.get_checked` as called from the compiler: uses the cache, checks on demand otherwise
    (without `reset`) -/
def ensureChecked (cfg : Config) (P : Pool) (n : Nat) (s : State) : State × Except Err Unit :=
  if s.hasChecked n then (s, .ok ())
  else
    match checkOne cfg P n s with
    | (s', .error e) => (s', .error e)
    | (s', .ok deps) => ({ s' with parsed := (pushNew deps s'.parsed []).1 }, .ok ())

/-- the globals a body uses are looked up at their use sites, in program order, while the body is compiled
    (`build_compiled_def` → `ENGINE.get_checked`): one that is not in the cache is checked on demand, and the
    first failure aborts the compilation.  (After a successful `check` they all are in the cache; this matters
    for comptime bodies, which `check` does not analyse, and when lowering from a cache a failed check left behind.) -/
def ensureAll (cfg : Config) (P : Pool) : List Nat → State → State × Except Err Unit
  | [], s => (s, .ok ())
  | d :: ds, s =>
    match ensureChecked cfg P d s with
    | (s1, .error e) => (s1, .error e)
    | (s1, .ok ()) => ensureAll cfg P ds s1

/-- `retInserted` after `compile_cfg` looked at the exit row: `insert_return_vars` runs unless the guard sees
    that the row already starts with return variables -/
def retAfter (cfg : Config) (c : CfgCore) : Nat :=
  if cfg.returnVarsGuard && c.retInserted != 0 then c.retInserted else c.retInserted + 1

def setRet (ins : Nat) (k : CfgCore) : CfgCore := { k with retInserted := ins }

def setExt (ext : Nat) (k : CfgCore) : CfgCore := { k with inputTysExtra := ext }

/-- `compile_inner` of one definition whose checked version is in the cache -/
def compileOne (cfg : Config) (lt : Nat → Nat → Bool) (P : Pool) (n : Nat) (s : State) :
    State × Except Err OutEntry :=
  match P[n]?, findChecked n s.checked with
  | some r, some c =>
    if r.comptime then
      -- `trace_function`: tracing state set for the duration of the Python call; the arguments get `%tmp` names
      let prev := s.tracing
      let restore := fun (t : State) => { t with tracing := if cfg.tracingRestored then prev else true }
      let s1 := { s with tracing := true, tmpCtr := s.tmpCtr + r.ctmps }
      if r.raises then (restore s1, .error .userRaise)
      else if r.deps.any (fun d => resolve P s d == .leaked) then
        -- Python finds the leaked definition in the module namespace; `get_checked` has no frame for it
        (restore s1, .error .crash)
      else
        -- the Guppy functions the body calls are checked on demand while tracing mode is on
        match ensureAll cfg P r.deps s1 with
        | (s2, .error e) => (restore s2, .error e)
        | (s2, .ok ()) => ({ s2 with tracing := prev }, .ok ⟨n, 0, [], none⟩)
    else
      -- `compile_cfg` patches the exit row first, then compiles the blocks
      let ins := retAfter cfg c.core
      let s0 := { s with checked := updChecked n (setRet ins) s.checked }
      match ensureAll cfg P r.deps s0 with
      | (s1, .error e) => (s1, .error e)
      | (s1, .ok ()) =>
        let ext := c.core.inputTysExtra + closures r
        let s2 := { s1 with checked := updChecked n (setExt ext) s1.checked, tmpCtr := s1.tmpCtr + r.ctmps }
        (s2, .ok ⟨n, ins * r.nRet, r.rows.map (sortRel lt c.base),
                  if cfg.compilerReadsInputTys then some ext else none⟩)
  | _, _ => (s, .error .crash)

/-- the loop of `CompilerContext.compile` (LIFO work list of definitions used but not yet lowered) -/
def compileLoop (cfg : Config) (lt : Nat → Nat → Bool) (P : Pool) :
    Nat → List Nat → List Nat → State → List OutEntry → State × Except Err (List OutEntry)
  | 0, [], _, s, acc => (s, .ok acc)
  | 0, _ :: _, _, s, _ => (s, .error .fuel)
  | _ + 1, [], _, s, acc => (s, .ok acc)
  | f + 1, n :: rest, done, s, acc =>
    match ensureChecked cfg P n s with
    | (s1, .error e) => (s1, .error e)
    | (s1, .ok ()) =>
      match compileOne cfg lt P n s1 with
      | (s2, .error e) => (s2, .error e)
      | (s2, .ok e) =>
        let deps := match P[n]? with | some r => r.deps | none => []
        compileLoop cfg lt P f (pushNew deps (n :: done ++ rest) rest).2 (n :: done) s2 (acc ++ [e])

/-- lowering from the engine's *current* cache (what `CompilerContext(Module()).compile(ENGINE.checked[d])`
    does); `none` when `d` is not in the cache -/
def relower (cfg : Config) (lt : Nat → Nat → Bool) (P : Pool) (d : Nat) (s : State) :
    State × Option (Except Err (List OutEntry)) :=
  if s.hasChecked d then
    let (s', r) := compileLoop cfg lt P (fuelFor P) [d] [] s []
    (s', some r)
  else (s, none)

/-- `compile d` as the harness (and `ENGINE.compile`) does it: `check`, then lower -/
def lower (cfg : Config) (lt : Nat → Nat → Bool) (P : Pool) (d : Nat) (s : State) :
    State × Except Err (List OutEntry) :=
  match check cfg P d s with
  | (s1, .error e) => (s1, .error e)
  | (s1, .ok ()) => compileLoop cfg lt P (fuelFor P) [d] [] s1 []

/-! ## histories -/

inductive Op where
  | check (d : Nat) | lower (d : Nat) | relower (d : Nat)
  deriving DecidableEq, Repr

def step (cfg : Config) (lt : Nat → Nat → Bool) (P : Pool) (o : Op) (s : State) : State :=
  match o with
  | .check d => (check cfg P d s).1
  | .lower d => (lower cfg lt P d s).1
  | .relower d => (relower cfg lt P d s).1

/-- did the operation fail? (`relower` of an uncached definition is a no-op, not a failure) -/
def fails (cfg : Config) (lt : Nat → Nat → Bool) (P : Pool) (o : Op) (s : State) : Bool :=
  match o with
  | .check d => match (check cfg P d s).2 with | .error _ => true | .ok _ => false
  | .lower d => match (lower cfg lt P d s).2 with | .error _ => true | .ok _ => false
  | .relower d => match (relower cfg lt P d s).2 with | some (.error _) => true | _ => false

def run (cfg : Config) (lt : Nat → Nat → Bool) (P : Pool) : List Op → State → State
  | [], s => s
  | o :: os, s => run cfg lt P os (step cfg lt P o s)

/-- what a user sees of `d.check()` and of `compile d` in state `s` -/
def observe (cfg : Config) (lt : Nat → Nat → Bool) (P : Pool) (s : State) (d : Nat) :
    Except Err Unit × Except Err (List OutEntry) :=
  ((check cfg P d s).2, (lower cfg lt P d s).2)

/-! ## orders on `%tmp` counters -/

def natLt (a b : Nat) : Bool := a < b

def digitsAux : Nat → Nat → List Nat → List Nat
  | 0, _, acc => acc
  | f + 1, n, acc => if n < 10 then n :: acc else digitsAux f (n / 10) (n % 10 :: acc)

/-- decimal digits, most significant first -/
def digits (n : Nat) : List Nat := digitsAux (n + 1) n []

def lexLt : List Nat → List Nat → Bool
  | [], [] => false
  | [], _ :: _ => true
  | _ :: _, [] => false
  | a :: as, b :: bs => if a < b then true else if b < a then false else lexLt as bs

/-- Python's `str.__lt__` on `"%tmp<a>"`, `"%tmp<b>"` (what `compare_var` uses) -/
def nameLt (a b : Nat) : Bool := lexLt (digits a) (digits b)

end GuppyVerif.Session
