import GuppyVerif.Model.Dataflow
/-! Model of `guppylang_internals/checker/linearity_checker.py` on a core fragment.

    Input: the `CheckedCFG[Variable]` that `check_cfg_linearity` receives.  Places are given by
    their `leaf_places`: ids of the leaf projections (numbers) **together with the kind of the
    binding the occurrence refers to** (`true` = linear: not copyable, not droppable — qubit;
    `false` = copyable and droppable — int, bool).  The kind belongs to the binding, not to the
    name: a variable may be re-bound at a type of the other kind (`q = 3.25` after `measure(q)`),
    exactly as the real `Scope` stores `Place` objects with their types (fix 0c7baf7 is about
    keeping the two bindings of one name apart in pass 2).

    A statement is the sequence of place-level actions the visitor performs on it, in the
    visitor's order (so nested calls are covered, with their order of consumption):
    `use p borrow` = `visit_PlaceNode(p, use_kind)` (`borrow` ⇔ `BORROW`), `give p` =
    `_reassign_single_inout_arg(p)` (also the unconditional `scope.assign` of the fresh temporaries of
    a subscript place: `item`, `value_var`), `dropAfter` = a borrowed argument that is not a place
    and not droppable (`DropAfterCallError`), `moveOut` = a non-borrowing use of a subscript place
    with a non-copyable element type (`MoveOutOfSubscriptError`); then the assignment targets; `dropsLin` = an expression
    statement whose value is not droppable.

    The checker is modelled in its two passes:

    * pass 1, `BBLinearityChecker.check` per block: `Scope` (`vars` with the kind of each stored
      place, `used_local`, `used_parent`, parent = the `input_scope` built from
      `bb.sig.input_row`; the entry block uses the input scope itself), `visit_PlaceNode`,
      `visit_Assign` / `_check_assign_targets`, `_visit_call_args` / `_reassign_inout_args`,
      `visit_Return`, `visit_Expr`;
    * pass 2, `check_cfg_linearity`: implicit use of the borrowed leaves in the exit block,
      `live_default`, `LivenessAnalysis(scope.stats(), initial=live_default,
      include_unreachable=False)` (the worklist of `Model/Dataflow.lean`), then per block the
      "used but live in a successor" check (kind = that of the place flowing into the block) and
      the "unused, not droppable, not live in all successors" check (over the local places and
      the parent places the block does not reassign) with the
      `x ∉ live_before_bb ∧ x ∉ scope.vars` skip.

    Python exceptions that are not user errors (assertion / KeyError on a place that is in no
    scope) are the result `crash`.  Import-free apart from the C09 dataflow model. -/
namespace GuppyVerif.Linearity

abbrev Leaf := Nat
abbrev Var := Nat
abbrev Blk := Nat

/-- A place as the linearity checker sees it: `leaf_places(place)` (id and kind of each leaf),
    whether it is a whole `Variable` (and which), and whether the place is itself a leaf. -/
structure Place where
  leaves : List (Leaf × Bool)
  var : Option Var
  isLeaf : Bool
  deriving Repr, Inhabited

/-- what the visitor does with the places of a statement, in its order -/
inductive Act where
  | use (p : Place) (borrow : Bool)
  | give (p : Place)
  | dropAfter
  | moveOut
  deriving Repr, Inhabited

/-- a statement: `ast.Assign` (value, then targets), `ast.Expr` (`tgts = []`; `dropsLin` = the
    discarded value is not droppable), `ast.Return` / a branch predicate (`tgts = []`) -/
structure Stmt where
  acts : List Act
  tgts : List Place
  dropsLin : Bool
  deriving Repr, Inhabited

/-- the `CheckedCFG[Variable]` handed to `check_cfg_linearity` -/
structure Prog where
  /-- names of the parameters with `InputFlags.Inout` -/
  borrowedVars : List Var
  /-- `leaf_places` of those parameters -/
  borrowedLeaves : List Leaf
  /-- `cfg.bbs`, in order -/
  blocks : List Blk
  entry : Blk
  exit : Blk
  /-- `cfg.exit_bb.reachable` -/
  exitReachable : Bool
  /-- leaves of `bb.sig.input_row` (for the entry block: of the function inputs) -/
  row : Blk → List Leaf
  /-- those of them whose type is linear -/
  rowLin : Blk → List Leaf
  stmts : Blk → List Stmt
  succ : Blk → List Blk

inductive Err where
  | notOwned              -- NotOwnedError
  | alreadyUsed           -- AlreadyUsedError (pass 1)
  | placeNotUsed          -- PlaceNotUsedError (pass 1: overwrite; pass 2: leak)
  | borrowShadowed        -- BorrowShadowedError
  | unnamedExprNotUsed    -- UnnamedExprNotUsedError
  | dropAfterCall         -- DropAfterCallError
  | moveOutOfSubscript    -- MoveOutOfSubscriptError
  | usedThenLive (borrowedLeaf : Bool)  -- pass 2: AlreadyUsedError, or BorrowSubPlaceUsedError when
                                        -- the recorded later use is the implicit return of a borrowed leaf
  | crash                 -- AssertionError / KeyError: a place that is in no scope
  | fuel                  -- the liveness worklist did not finish within the model's fuel (impossible: C06Term)
  deriving Repr, DecidableEq, Inhabited

abbrev R := Except Err

/-! ## `Scope` -/

structure Scope where
  vars : List Leaf          -- keys of `vars`, insertion order
  linVars : List Leaf       -- those whose stored place has a linear type
  usedLocal : List Leaf     -- keys of `used_local`
  usedParent : List Leaf    -- keys of `used_parent`
  parent : List Leaf        -- keys of `parent_scope.vars`; `[]` when there is no parent
  linParent : List Leaf     -- those whose stored place has a linear type
  deriving Repr, Inhabited

def ins (x : Leaf) (l : List Leaf) : List Leaf := if l.contains x then l else l ++ [x]

/-- `Scope.used(x) is not None`; `none` = assertion failure (x in no scope) -/
def Scope.used (s : Scope) (x : Leaf) : Option Bool :=
  if s.vars.contains x then some (s.usedLocal.contains x)
  else if s.parent.contains x then some (s.usedParent.contains x)
  else none

/-- `Scope.use(x, …)` -/
def Scope.use (s : Scope) (x : Leaf) : R Scope :=
  if s.vars.contains x then .ok { s with usedLocal := ins x s.usedLocal }
  else if s.parent.contains x then .ok { s with usedParent := ins x s.usedParent }
  else .error .crash

/-- `Scope.assign(place)`; `k` = the new place has a linear type -/
def Scope.assign (s : Scope) (xk : Leaf × Bool) : Scope :=
  { s with vars := ins xk.1 s.vars,
           linVars := if xk.2 then ins xk.1 s.linVars else s.linVars.filter (· != xk.1),
           usedLocal := s.usedLocal.filter (· != xk.1) }

/-! ## pass 1: `BBLinearityChecker` -/

/-- `is_inout_var(place)`: a whole variable that is a borrowed parameter -/
def isInoutVar (P : Prog) (p : Place) : Bool :=
  match p.var with
  | some v => P.borrowedVars.contains v
  | none => false

/-- the loop body of `visit_PlaceNode` for one leaf (kind of the occurrence: `place.ty.copyable`) -/
def useLeaf (s : Scope) (xk : Leaf × Bool) : R Scope :=
  match s.used xk.1 with
  | none => .error .crash
  | some u => if u && xk.2 then .error .alreadyUsed else s.use xk.1

/-- `visit_PlaceNode(node, use_kind)`; `borrow` = (`use_kind == BORROW`) -/
def visitPlace (P : Prog) (borrow : Bool) (s : Scope) (p : Place) : R Scope :=
  if isInoutVar P p && !borrow then .error .notOwned
  else p.leaves.foldlM useLeaf s

/-- `_reassign_single_inout_arg` -/
def givePlace (s : Scope) (p : Place) : Scope := p.leaves.foldl Scope.assign s

def doAct (P : Prog) (s : Scope) : Act → R Scope
  | .use p borrow => visitPlace P borrow s p
  | .give p => .ok (givePlace s p)
  | .dropAfter => .error .dropAfterCall
  | .moveOut => .error .moveOutOfSubscript

/-- the inner loop of `_check_assign_targets` for one leaf of a target: the place stored under
    the id so far must not be an unused linear one -/
def assignLeaf (s : Scope) (xk : Leaf × Bool) : R Scope :=
  if s.vars.contains xk.1 && !s.usedLocal.contains xk.1 && s.linVars.contains xk.1 then .error .placeNotUsed
  else .ok (s.assign xk)

/-- `_check_assign_targets` for one target place -/
def assignTarget (P : Prog) (s : Scope) (t : Place) : R Scope :=
  if t.isLeaf && isInoutVar P t && t.leaves.all (fun xk => s.vars.contains xk.1) then .error .borrowShadowed
  else t.leaves.foldlM assignLeaf s

/-- `_check_assign_targets`, then the shadowing loop at the end of `visit_Assign` -/
def assignTargets (P : Prog) (s : Scope) (tgts : List Place) : R Scope := do
  let s ← tgts.foldlM (assignTarget P) s
  if tgts.any (isInoutVar P) then .error .borrowShadowed else .ok s

def checkStmt (P : Prog) (s : Scope) (st : Stmt) : R Scope := do
  let s ← st.acts.foldlM (doAct P) s
  if st.dropsLin then .error .unnamedExprNotUsed else assignTargets P s st.tgts

/-- the scope `BBLinearityChecker.check` starts from: the entry block works directly in the
    input scope, every other block in a fresh child of it -/
def initScope (P : Prog) (b : Blk) : Scope :=
  if b = P.entry then ⟨P.row b, P.rowLin b, [], [], [], []⟩ else ⟨[], [], [], [], P.row b, P.rowLin b⟩

def checkBlock (P : Prog) (b : Blk) : R Scope :=
  (P.stmts b).foldlM (checkStmt P) (initScope P b)

/-! ## pass 2: `check_cfg_linearity` -/
/-- "Mark the borrowed variables as implicitly used in the exit BB" -/
def exitUse (P : Prog) (s : Scope) : R Scope := P.borrowedLeaves.foldlM Scope.use s

def lookup (tbl : List (Blk × Scope)) (b : Blk) : Scope :=
  match tbl.find? (·.1 == b) with
  | some p => p.2
  | none => default

/-- `scopes = {bb: bb_checker.check(bb, …) for bb in cfg.bbs}`: in `cfg.bbs` order, the first error wins -/
def pass1 (P : Prog) : R (List (Blk × Scope)) :=
  P.blocks.mapM fun b => (checkBlock P b).map fun s => (b, s)

/-- `exit_scope.use(leaf.id, InoutReturnSentinel(var), RETURN)` on the exit block's scope -/
def amendExit (P : Prog) (q : Blk × Scope) : R (Blk × Scope) :=
  if q.1 = P.exit then (exitUse P q.2).map fun s => (q.1, s) else .ok q

/-- scopes of all blocks, exit scope amended -/
def scopes (P : Prog) : R (List (Blk × Scope)) :=
  pass1 P >>= fun tbl => tbl.mapM (amendExit P)

/-- the CFG with `scope.stats()` the place-level liveness analysis runs on; predecessors are
    the converse of `succ` (the order of `bb.predecessors` only influences the visiting order) -/
def flowCfg (P : Prog) (sc : Blk → Scope) : Dataflow.Cfg where
  blocks := P.blocks
  succ := fun b => if P.blocks.contains b then P.succ b else []
  dsucc := fun _ => []
  pred := fun b => P.blocks.filter fun p => (P.succ p).contains b
  dpred := fun _ => []
  used := fun b => (sc b).usedParent
  assigned := fun b => (sc b).vars

/-- "used but live in a successor", for one live place of successor `c`; its kind is that of the
    place flowing into the block that uses it (`use_scope.parent_scope[x]`), which by the type
    checker's `check_rows_match` is its kind in the row of `c` -/
def checkLiveUsed (P : Prog) (c : Blk) (s : Scope) (x : Leaf) : R Unit :=
  if (P.rowLin c).contains x then
    match s.used x with
    | none => .error .crash
    | some true => .error (.usedThenLive (P.borrowedLeaves.contains x))
    | some false => .ok ()
  else .ok ()

/-- "unused, not droppable, not live in all successors", for one place of the scope -/
def checkLeak (P : Prog) (live : Blk → List Leaf) (b : Blk) (s : Scope) (lin : Bool) (x : Leaf) : R Unit :=
  if !(live b).contains x && !s.vars.contains x then .ok ()
  else
    let usedLater := (P.succ b).all fun c => (live c).contains x
    match s.used x with
    | none => .error .crash
    | some u => if lin && !u && !usedLater then .error .placeNotUsed else .ok ()

/-- `live_places_row(bb, bb.sig.input_row, scope.parent_scope)`: `pred_scope[x]` raises `KeyError`
    for a live place that is not in the parent scope (entry and exit keep their original rows) -/
def checkInRow (P : Prog) (live : Blk → List Leaf) (b : Blk) (s : Scope) : R Unit :=
  if b = P.entry ∨ b = P.exit then .ok ()
  else (live b).forM fun x => if s.parent.contains x then .ok () else .error .crash

/-- `live_places_row(succ, output_row, scope)` for every successor -/
def checkOutRows (P : Prog) (live : Blk → List Leaf) (b : Blk) (s : Scope) : R Unit :=
  (P.succ b).forM fun c =>
    if c = P.entry ∨ c = P.exit then .ok ()
    else (live c).forM fun x => if s.vars.contains x || s.parent.contains x then .ok () else .error .crash

/-- the body of `for bb, scope in scopes.items()`: the two checks, then the construction of the
    refined signature (which can only fail internally) -/
def checkEdges (P : Prog) (live : Blk → List Leaf) (b : Blk) (s : Scope) : R Unit := do
  (P.succ b).forM fun c => (live c).forM (checkLiveUsed P c s)
  -- the local places (kind of the stored place) …
  s.vars.forM (fun x => checkLeak P live b s (s.linVars.contains x) x)
  -- … then the places of the parent scope that this block does not reassign
  (s.parent.filter fun x => !s.vars.contains x).forM (fun x => checkLeak P live b s (s.linParent.contains x) x)
  checkInRow P live b s
  checkOutRows P live b s

/-- `live_default`: the borrowed leaves when the exit block is unreachable, else nothing -/
def liveDefault (P : Prog) : List Leaf := if P.exitReachable then [] else P.borrowedLeaves

/-- fuel for the worklist: `(|blocks|+1)² · (|init| + Σ|used b| + 1) + |blocks| + 1` pops always
    suffice (`Lemmas/C06Term.lean`: every (block, variable) bit changes at most once, every change
    re-queues at most `|blocks|` predecessors) -/
def liveFuel (g : Dataflow.Cfg) (init : List Leaf) : Nat :=
  let nb := g.blocks.length + 1
  let nl := (g.blocks.map fun b => (g.used b).length).sum + init.length + 1
  nb * nb * nl + nb

/-- the scheduler used by the executable model: pop the head of the list-queue (any choice
    gives the same result: `Dataflow.live_schedule_independent`) -/
def headSched : List Blk → Blk := fun q => q.headD 0

/-- `check_cfg_linearity`: `.ok ()` = accepted -/
def checkCfg (P : Prog) : R Unit := do
  let tbl ← scopes P
  let sc := lookup tbl
  let g := flowCfg P sc
  match Dataflow.liveRun g headSched (liveFuel g (liveDefault P)) (Dataflow.liveInit g (liveDefault P)) with
  | none => .error .fuel
  | some t => tbl.forM fun (b, s) => checkEdges P t.vals b s

/-- the place-level `live_before` that `checkCfg` computes on the way (for the correspondence:
    the real checker exposes it as the refined input rows of the result CFG) -/
def liveOf (P : Prog) : Option (List (Blk × List Leaf)) :=
  match scopes P with
  | .error _ => none
  | .ok tbl =>
    let g := flowCfg P (lookup tbl)
    match Dataflow.liveRun g headSched (liveFuel g (liveDefault P)) (Dataflow.liveInit g (liveDefault P)) with
    | none => none
    | some t => some (P.blocks.map fun b => (b, t.vals b))

/-- within a statement a leaf that occurs in some row (`rowIds`) is handed back only after it was
    lent; the fresh temporaries of subscript places occur in no row and are simply bound -/
def actsWf (rowIds : List Leaf) : List Leaf → List Act → Bool
  | _, [] => true
  | seen, .use p _ :: r => actsWf rowIds (seen ++ p.leaves.map (·.1)) r
  | seen, .give p :: r => p.leaves.all (fun xk => seen.contains xk.1 || !rowIds.contains xk.1) && actsWf rowIds seen r
  | seen, .dropAfter :: r => actsWf rowIds seen r
  | seen, .moveOut :: r => actsWf rowIds seen r

/-- the leaves that occur in a block signature or belong to a borrowed parameter -/
def Prog.rowIds (P : Prog) : List Leaf := P.borrowedLeaves ++ P.blocks.flatMap P.row

/-- executable form of `Prog.WF` (Spec/C06.lean): the shape of the CFGs the checker receives;
    the driver checks it on every extracted CFG -/
def Prog.wfb (P : Prog) : Bool :=
  -- a borrowed argument is handed back only after it was lent, within the same statement
  P.blocks.all (fun b => (P.stmts b).all fun st => actsWf P.rowIds [] st.acts) &&
  P.blocks.contains P.entry &&
  P.blocks.all (fun b => (P.succ b).all fun c => P.blocks.contains c) &&
  P.blocks.all (fun b => !(P.succ b).contains P.entry) &&
  (P.entry != P.exit) && (P.stmts P.exit).isEmpty && (P.succ P.exit).isEmpty &&
  P.blocks.all (fun b => b == P.exit || !(P.succ b).isEmpty)

/-- all leaf ids that occur in the program -/
def Prog.leafIds (P : Prog) : List Leaf :=
  let ofPlaces (ps : List Place) := ps.flatMap fun p => p.leaves.map (·.1)
  let ofAct : Act → List Leaf
    | .use p _ => p.leaves.map (·.1)
    | .give p => p.leaves.map (·.1)
    | .dropAfter => []
    | .moveOut => []
  P.borrowedLeaves ++ P.blocks.flatMap fun b =>
    P.row b ++ (P.stmts b).flatMap fun st => st.acts.flatMap ofAct ++ ofPlaces st.tgts

def accepts (P : Prog) : Bool :=
  match checkCfg P with
  | .ok _ => true
  | .error _ => false

end GuppyVerif.Linearity
