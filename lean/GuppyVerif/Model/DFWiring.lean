/-! # Model of `DFContainer.__getitem__` / `__setitem__` (compiler/core.py)

(File `Model/DFWiring.lean`, namespace `GuppyVerif.DFWiring`: the name `Model/Wiring.lean` is used by
C03's block-wiring model.)

Executable, import-free, total.  Mirrors the Python (after fix commit 32e45a7 which makes
`__setitem__` forget wires cached for enclosing structs/tuples):

```python
def __getitem__(self, place):
    if place.id in self.locals: return self.locals[place.id]
    elif struct: children = [FieldAccess(place, f) for f in fields]
    elif tuple:  children = [TupleAccess(place, elem, idx) for idx, elem in enumerate(elems)]
    else: raise InternalGuppyError("Couldn't obtain a port")
    child_wires = [self[child] for child in children]
    wire = self.builder.add_op(ops.MakeTuple(child_types), *child_wires)[0]
    for child in children:
        if child.ty.linear: self.locals.pop(child.id)        # KeyError if absent
    self.locals[place.id] = wire
    return wire

def __setitem__(self, place, port):
    enclosing = place
    while isinstance(enclosing, FieldAccess | TupleAccess):
        enclosing = enclosing.parent; self.locals.pop(enclosing.id, None)
    is_return = isinstance(place, Variable) and is_return_var(place.name)
    if struct-or-tuple and not is_return:
        unpack = self.builder.add_op(ops.UnpackTuple(tys), port)
        for child, child_port in zip(children, unpack): self[child] = child_port
        self.locals.pop(place.id, None)
    else: self.locals[place.id] = port
```

Abstractions: a place id is the list of selectors, innermost first, ending in the root variable
(`x.f.g ↦ [g, f, x]`, exactly the nesting of `FieldAccess.Id(parent_id, field)`); a type is a
tree whose leaves carry Guppy's `copyable` / `droppable` bits (`linear = ¬copyable ∧ ¬droppable`,
as in tys/ty.py) and whose nodes are structs or tuples; a wire is (node index, out-port); the
builder is a counter of the next node index plus the list of emitted ops. -/
namespace GuppyVerif.DFWiring

structure Wire where
  node : Nat
  port : Nat
  deriving DecidableEq, Repr, Inhabited

inductive Kind where
  | struct | tuple
  deriving DecidableEq, Repr, Inhabited

inductive Ty where
  | leaf (copyable droppable : Bool)
  | node (kind : Kind) (cs : List Ty)
  deriving Repr, Inhabited

mutual
/-- `Type.copyable` (struct/tuple: all components copyable) -/
def Ty.copyable : Ty → Bool
  | .leaf c _ => c
  | .node _ cs => allCopyable cs
def allCopyable : List Ty → Bool
  | [] => true
  | t :: ts => t.copyable && allCopyable ts
end

mutual
/-- `Type.droppable` (struct/tuple: all components droppable) -/
def Ty.droppable : Ty → Bool
  | .leaf _ d => d
  | .node _ cs => allDroppable cs
def allDroppable : List Ty → Bool
  | [] => true
  | t :: ts => t.droppable && allDroppable ts
end

/-- `Type.linear` in tys/ty.py: `not self.copyable and not self.droppable` -/
def Ty.linear (t : Ty) : Bool := !t.copyable && !t.droppable

abbrev PlaceId := List Nat

abbrev Locals := PlaceId → Option Wire

def Locals.empty : Locals := fun _ => none
def Locals.set (L : Locals) (p : PlaceId) (w : Wire) : Locals := fun q => if q = p then some w else L q
def Locals.pop (L : Locals) (p : PlaceId) : Locals := fun q => if q = p then none else L q

/-- emitted builder ops; output wires are `⟨node, 0⟩` for `make`, `⟨node, i⟩ (i < arity)` for `unpack` -/
inductive Op where
  | make (node : Nat) (ins : List Wire)
  | unpack (node : Nat) (inp : Wire) (arity : Nat)
  deriving DecidableEq, Repr, Inhabited

inductive Err where
  | noPort (p : PlaceId)      -- InternalGuppyError("Couldn't obtain a port for ...")
  | keyError (p : PlaceId)    -- `self.locals.pop(child.id)` on an absent key
  deriving DecidableEq, Repr, Inhabited

/-- `for child in children: if child.ty.linear: self.locals.pop(child.id)` (children `i, i+1, …`) -/
def popLinear (L : Locals) (p : PlaceId) : Nat → List Ty → Except Err Locals
  | _, [] => .ok L
  | i, t :: ts =>
    if t.linear then
      match L (i :: p) with
      | none => .error (.keyError (i :: p))
      | some _ => popLinear (L.pop (i :: p)) p (i + 1) ts
    else popLinear L p (i + 1) ts

mutual
/-- `DFContainer.__getitem__`; returns (wire, locals, next node index, emitted ops) -/
def getitem (L : Locals) (n : Nat) (p : PlaceId) : Ty → Except Err (Wire × Locals × Nat × List Op)
  | .leaf _ _ =>
    match L p with
    | some w => .ok (w, L, n, [])
    | none => .error (.noPort p)
  | .node _ cs =>
    match L p with
    | some w => .ok (w, L, n, [])
    | none =>
      match getitemList L n p 0 cs with
      | .error e => .error e
      | .ok (ws, L1, n1, ops1) =>
        match popLinear L1 p 0 cs with
        | .error e => .error e
        | .ok L2 => .ok (⟨n1, 0⟩, L2.set p ⟨n1, 0⟩, n1 + 1, ops1 ++ [.make n1 ws])
/-- `[self[child] for child in children]`, children numbered from `i` -/
def getitemList (L : Locals) (n : Nat) (p : PlaceId) (i : Nat) :
    List Ty → Except Err (List Wire × Locals × Nat × List Op)
  | [] => .ok ([], L, n, [])
  | t :: ts =>
    match getitem L n (i :: p) t with
    | .error e => .error e
    | .ok (w, L1, n1, o1) =>
      match getitemList L1 n1 p (i + 1) ts with
      | .error e => .error e
      | .ok (ws, L2, n2, o2) => .ok (w :: ws, L2, n2, o1 ++ o2)
end

/-- the places enclosing `p` (its proper ancestors), nearest first: `[g,f,x] ↦ [[f,x],[x]]` -/
def enclosing : PlaceId → List PlaceId
  | [] => []
  | [_] => []
  | _ :: r :: rest => (r :: rest) :: enclosing (r :: rest)

/-- the `while isinstance(enclosing, FieldAccess | TupleAccess)` loop of `__setitem__` -/
def popEnclosing (L : Locals) (p : PlaceId) : Locals := (enclosing p).foldl Locals.pop L

mutual
/-- `DFContainer.__setitem__`; `isRet` = the place is a `%ret…` variable; returns
    (locals, next node index, emitted ops) -/
def setitem (L : Locals) (n : Nat) (p : PlaceId) (isRet : Bool) (w : Wire) :
    Ty → Locals × Nat × List Op
  | .leaf _ _ => ((popEnclosing L p).set p w, n, [])
  | .node _ cs =>
    if isRet then ((popEnclosing L p).set p w, n, [])
    else
      let (L1, n1, o1) := setitemList (popEnclosing L p) (n + 1) p 0 n cs
      (L1.pop p, n1, .unpack n w cs.length :: o1)
/-- `for child, child_port in zip(children, unpack): self[child] = child_port`; `u` is the
    UnpackTuple node, children numbered from `i` -/
def setitemList (L : Locals) (n : Nat) (p : PlaceId) (i : Nat) (u : Nat) :
    List Ty → Locals × Nat × List Op
  | [] => (L, n, [])
  | t :: ts =>
    let (L1, n1, o1) := setitem L n (i :: p) false ⟨u, i⟩ t
    let (L2, n2, o2) := setitemList L1 n1 p (i + 1) u ts
    (L2, n2, o1 ++ o2)
end

mutual
/-- all place ids of the tree rooted at `p` (root first, then children left to right) -/
def places (p : PlaceId) : Ty → List PlaceId
  | .leaf _ _ => [p]
  | .node _ cs => p :: placesList p 0 cs
def placesList (p : PlaceId) (i : Nat) : List Ty → List PlaceId
  | [] => []
  | t :: ts => places (i :: p) t ++ placesList p (i + 1) ts
end

/-- the type at a selector path (outermost selector first) below a type -/
def Ty.at : Ty → List Nat → Option Ty
  | t, [] => some t
  | .leaf _ _, _ :: _ => none
  | .node _ cs, i :: s => match cs[i]? with
    | some t => t.at s
    | none => none

/-- place id of the sub-place of `p` addressed by the selector path `s` (outermost first) -/
def sub (p : PlaceId) (s : List Nat) : PlaceId := s.reverse ++ p

/-- one step of a compilation script on the sub-places of a variable -/
inductive SOp where
  | set (s : List Nat) (w : Wire)      -- `dfg[sub-place] = w`
  | get (s : List Nat)                 -- `dfg[sub-place]`
  deriving Repr, Inhabited

/-- run a script on the (non-return) variable `r : T`; returns the wires of the reads -/
def runScript (T : Ty) (r : PlaceId) :
    List SOp → Locals → Nat → Except Err (List Wire × Locals × Nat × List Op)
  | [], L, n => .ok ([], L, n, [])
  | .set s w :: rest, L, n =>
    match T.at s with
    | none => .error (.noPort (sub r s))
    | some t' =>
      match runScript T r rest (setitem L n (sub r s) false w t').1 (setitem L n (sub r s) false w t').2.1 with
      | .error e => .error e
      | .ok (ws, L2, n2, o2) => .ok (ws, L2, n2, (setitem L n (sub r s) false w t').2.2 ++ o2)
  | .get s :: rest, L, n =>
    match T.at s with
    | none => .error (.noPort (sub r s))
    | some t' =>
      match getitem L n (sub r s) t' with
      | .error e => .error e
      | .ok (w, L1, n1, o1) =>
        match runScript T r rest L1 n1 with
        | .error e => .error e
        | .ok (ws, L2, n2, o2) => .ok (w :: ws, L2, n2, o1 ++ o2)

end GuppyVerif.DFWiring
