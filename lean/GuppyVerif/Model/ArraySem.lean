/-! # Model for C19 — `collections.borrow_arr` semantics, SSA op lists, and the array lowerings

Three layers.

1. **Assumed runtime semantics** of the HUGR `collections.borrow_arr` operations (the runtime is
   outside the repository; these definitions are the explicit assumption, transcribed from the
   extension's op descriptions and signatures): a borrow array is a list of cells, a cell is
   `some v` (present) or `none` (borrowed out).  `itousize` reinterprets the 64 bits of a signed
   `int` as unsigned (value mod 2^64).
2. A tiny **SSA op-list language** (`Prog`) with an interpreter `run`.  The harness extracts terms
   of this language from the Hugr produced by /repo's real compiler for probe programs.
3. The **emission functions** (`emitGetitem`, `emitSetitem`, `emitInout`, `emitUnpack`, …), which
   mirror `ArrayGetitemCompiler`, `ArraySetitemCompiler`, `StmtCompiler._assign_array`, and are
   compared with the extracted terms on every run; and the hand model of `ArrayIter.__next__` and of
   the array-comprehension loop body.

Nothing is totalised away: every failure is a `Panic`; `Panic.illTyped` is the model artefact for a
wiring / arity error in an op list (shown unreachable for the emitted programs by the theorems). -/
namespace GuppyVerif.ArraySem

/-- run-time failures -/
inductive Panic where
  | indexOob        -- `borrow` / `return` with index ≥ length (runtime panic inside the op)
  | alreadyBorrowed -- touching a cell that is borrowed out (`borrow`, `get`, `set`, `pop_*`, `clone`)
  | notBorrowed     -- `return` into a cell that is present
  | notAllBorrowed  -- `discard_all_borrowed` of an array with a present cell
  | unwrapFail (msg : String)  -- a `build_unwrap*` conditional took its panic case
  | illTyped        -- model artefact: wiring / arity / static-length mismatch in an op list
  deriving DecidableEq, Repr, Inhabited

abbrev M := Except Panic

/-- cells of a borrow array: `none` = borrowed out -/
abbrev Cells (α : Type) := List (Option α)

/-- the array all of whose elements are present -/
def ofList {α} (xs : List α) : Cells α := xs.map some

/-- `arithmetic.conversions.itousize` on a (signed, 64-bit) `int`: the same bits read as unsigned -/
def itousize (i : Int) : Nat := (i % (2 ^ 64 : Int)).toNat

/-- two's-complement wrap of a 64-bit signed result (`iadd`) -/
def wrap64 (x : Int) : Int := (x + 2 ^ 63) % (2 ^ 64 : Int) - 2 ^ 63

section ops
variable {α : Type}

/-- `borrow`: take element `i` out (panics if out of range or already taken) -/
def borrow (a : Cells α) (i : Nat) : M (Cells α × α) :=
  match a[i]? with
  | none => throw .indexOob
  | some none => throw .alreadyBorrowed
  | some (some v) => pure (a.set i none, v)

/-- `return`: put an element into the empty cell `i` (panics if out of range or occupied) -/
def ret (a : Cells α) (i : Nat) (v : α) : M (Cells α) :=
  match a[i]? with
  | none => throw .indexOob
  | some (some _) => throw .notBorrowed
  | some none => pure (a.set i (some v))

/-- `get` (copyable elements): `Option elem` (none when out of range) and the array back -/
def get (a : Cells α) (i : Nat) : M (Option α × Cells α) :=
  match a[i]? with
  | none => pure (none, a)
  | some none => throw .alreadyBorrowed
  | some (some v) => pure (some v, a)

/-- `set`: `Either (elem, arr) (elem, arr)` — left = failure (index out of range, inputs handed
    back), right = (old element, updated array) -/
def set (a : Cells α) (i : Nat) (v : α) : M (Sum (α × Cells α) (α × Cells α)) :=
  match a[i]? with
  | none => pure (.inl (v, a))
  | some none => throw .alreadyBorrowed
  | some (some old) => pure (.inr (old, a.set i (some v)))

def popLeft (a : Cells α) : M (Option (α × Cells α)) :=
  match a with
  | [] => pure none
  | none :: _ => throw .alreadyBorrowed
  | some v :: r => pure (some (v, r))

def popRight (a : Cells α) : M (Option (α × Cells α)) :=
  match a.getLast? with
  | none => pure none
  | some none => throw .alreadyBorrowed
  | some (some v) => pure (some (v, a.dropLast))

def discardAllBorrowed (a : Cells α) : M Unit :=
  if a.all Option.isNone then pure () else throw .notAllBorrowed

def clone (a : Cells α) : M (Cells α × Cells α) :=
  if a.all Option.isSome then pure (a, a) else throw .alreadyBorrowed

def newAllBorrowed (n : Nat) : Cells α := List.replicate n none

end ops

/-! ## SSA op lists -/

inductive Op where
  | itousize | get | set | borrow | ret
  | popLeft (len : Nat) | popRight (len : Nat)
  | discardEmpty | discardAllBorrowed | newAllBorrowed (len : Nat) | clone
  | unwrap (tag : Nat) (msg : String)
  | call (name : String)        -- a call of a function `elem -> elem` (borrowed qubit etc.)
  | const (v : Int) | iadd
  | other (name : String)       -- anything else: never part of an emission, interpretation fails
  deriving DecidableEq, Repr, Inhabited

structure Instr where
  op : Op
  args : List Nat
  nout : Nat
  deriving DecidableEq, Repr, Inhabited

/-- wires: inputs are `0 … nin-1`, then the outputs of every instruction in order -/
structure Prog where
  nin : Nat
  instrs : List Instr
  outs : List Nat
  deriving DecidableEq, Repr, Inhabited

inductive Atom (α : Type) where
  | int (i : Int) | usize (n : Nat) | elem (v : α) | arr (c : Cells α)
  deriving Repr

inductive Val (α : Type) where
  | atom (a : Atom α)
  | sum (tag : Nat) (vs : List (Atom α))
  deriving Repr

section interp
variable {α : Type}

abbrev vInt (i : Int) : Val α := .atom (.int i)
abbrev vUsize (n : Nat) : Val α := .atom (.usize n)
abbrev vElem (v : α) : Val α := .atom (.elem v)
abbrev vArr (c : Cells α) : Val α := .atom (.arr c)

/-- one operation on argument values; `f` interprets `call` -/
def step (f : α → α) : Op → List (Val α) → M (List (Val α))
  | .itousize, [.atom (.int i)] => pure [vUsize (itousize i)]
  | .get, [.atom (.arr a), .atom (.usize i)] => do
      let (o, a') ← get a i
      match o with
      | none => pure [.sum 0 [], vArr a']
      | some v => pure [.sum 1 [.elem v], vArr a']
  | .set, [.atom (.arr a), .atom (.usize i), .atom (.elem v)] => do
      match ← set a i v with
      | .inl (e, a') => pure [.sum 0 [.elem e, .arr a']]
      | .inr (e, a') => pure [.sum 1 [.elem e, .arr a']]
  | .borrow, [.atom (.arr a), .atom (.usize i)] => do
      let (a', v) ← borrow a i
      pure [vArr a', vElem v]
  | .ret, [.atom (.arr a), .atom (.usize i), .atom (.elem v)] => do
      let a' ← ret a i v
      pure [vArr a']
  | .popLeft len, [.atom (.arr a)] =>
      if a.length ≠ len then throw .illTyped else do
      match ← popLeft a with
      | none => pure [.sum 0 []]
      | some (v, r) => pure [.sum 1 [.elem v, .arr r]]
  | .popRight len, [.atom (.arr a)] =>
      if a.length ≠ len then throw .illTyped else do
      match ← popRight a with
      | none => pure [.sum 0 []]
      | some (v, r) => pure [.sum 1 [.elem v, .arr r]]
  | .discardEmpty, [.atom (.arr a)] => if a.isEmpty then pure [] else throw .illTyped
  | .discardAllBorrowed, [.atom (.arr a)] => do discardAllBorrowed a; pure []
  | .newAllBorrowed len, [] => pure [vArr (newAllBorrowed len)]
  | .clone, [.atom (.arr a)] => do
      let (x, y) ← clone a
      pure [vArr x, vArr y]
  | .unwrap tag msg, [.sum t vs] =>
      if t = tag then pure (vs.map .atom) else throw (.unwrapFail msg)
  | .call _, [.atom (.elem v)] => pure [vElem (f v)]
  | .const v, [] => pure [vInt v]
  | .iadd, [.atom (.int a), .atom (.int b)] => pure [vInt (wrap64 (a + b))]
  | _, _ => throw .illTyped

def lookup (env : List (Val α)) : List Nat → M (List (Val α))
  | [] => pure []
  | w :: ws =>
    match env[w]? with
    | none => throw .illTyped
    | some v => do
      let vs ← lookup env ws
      pure (v :: vs)

def runInstr (f : α → α) (env : List (Val α)) (i : Instr) : M (List (Val α)) := do
  let args ← lookup env i.args
  let outs ← step f i.op args
  if outs.length = i.nout then pure (env ++ outs) else throw .illTyped

def runInstrs (f : α → α) : List Instr → List (Val α) → M (List (Val α))
  | [], env => pure env
  | i :: is, env => do
      let env' ← runInstr f env i
      runInstrs f is env'

/-- run a program on its inputs, return its outputs -/
def run (f : α → α) (p : Prog) (inputs : List (Val α)) : M (List (Val α)) :=
  if inputs.length ≠ p.nin then throw .illTyped else do
  let env ← runInstrs f p.instrs inputs
  lookup env p.outs

end interp

/-! ## Emission: what the compiler emits (compared with the extracted op lists every run) -/

def oobMsg : String := "Array index out of bounds"
def unpackMsg : String := "Internal error: unpacking of iterable failed"

/-- `ArrayGetitemCompiler.compile_with_inouts`, inputs `[array, idx]`, outputs `[elem, array]`
    (regular return, then the inout return). -/
def emitGetitem (linear : Bool) : Prog :=
  if linear then
    ⟨2, [⟨.itousize, [1], 1⟩, ⟨.borrow, [0, 2], 2⟩], [4, 3]⟩
  else
    ⟨2, [⟨.itousize, [1], 1⟩, ⟨.get, [0, 2], 2⟩, ⟨.unwrap 1 oobMsg, [3], 1⟩], [5, 4]⟩

/-- `ArraySetitemCompiler.compile_with_inouts`, inputs `[array, idx, elem]`, output `[array]`. -/
def emitSetitem (linear : Bool) : Prog :=
  if linear then
    ⟨3, [⟨.itousize, [1], 1⟩, ⟨.ret, [0, 3, 2], 1⟩], [4]⟩
  else
    ⟨3, [⟨.itousize, [1], 1⟩, ⟨.set, [0, 3, 2], 1⟩, ⟨.unwrap 1 oobMsg, [4], 2⟩], [6]⟩

/-- lowering of `callee(xs[i])` for a borrowing callee on a linear element: getitem (borrow), call,
    write-back through `__setitem__` (return).  inputs `[array, idx]`, output `[array]`. -/
def emitInout (callee : String) : Prog :=
  ⟨2, [⟨.itousize, [1], 1⟩, ⟨.borrow, [0, 2], 2⟩, ⟨.call callee, [4], 1⟩,
       ⟨.itousize, [1], 1⟩, ⟨.ret, [3, 6, 5], 1⟩], [7]⟩

/-- the `pop` helper of `_assign_array`: pops `k` elements, static length `len` counting down;
    returns (instructions, element wires in pop order, final array wire, next free wire) -/
def emitPops (fromLeft : Bool) : (k len arrW next : Nat) → List Instr × List Nat × Nat × Nat
  | 0, _, arrW, next => ([], [], arrW, next)
  | k + 1, len, arrW, next =>
    let (is, es, a, nx) := emitPops fromLeft k (len - 1) (next + 2) (next + 3)
    (⟨if fromLeft then .popLeft len else .popRight len, [arrW], 1⟩
      :: ⟨.unwrap 1 unpackMsg, [next], 2⟩ :: is, (next + 1) :: es, a, nx)

/-- `StmtCompiler._assign_array` for a pattern with `l` left targets, `r` right targets and an
    optional starred middle, on an array of static length `n`.  Input `[array]`; outputs = the
    wire assigned to every target in pattern order (left targets, starred, right targets). -/
def emitUnpack (l r : Nat) (starred : Bool) (n : Nat) : Prog :=
  let (i1, e1, a1, n1) := emitPops true l n 0 1
  let (i2, e2, a2, _) := emitPops false r (n - l) a1 n1
  ⟨1, i1 ++ i2 ++ (if starred then [] else [⟨.discardEmpty, [a2], 0⟩]),
    e1 ++ (if starred then [a2] else []) ++ e2.reverse⟩

/-- order in which `_assign_array` (and `_assign_tuple`, and the checker) bind the targets, as
    positions in the pattern (left targets `0 … l-1`, the starred target `l` if any, then the right
    targets): strictly pattern order, the starred target in its place (/repo 535d821: `pop` returns
    the popped elements, binding happens afterwards: left, starred, right). -/
def assignOrder (l r : Nat) (starred : Bool) : List Nat :=
  List.range (l + (if starred then 1 else 0) + r)

/-- the order used before 535d821: left targets, right targets, the starred target LAST -/
def assignOrderOld (l r : Nat) (starred : Bool) : List Nat :=
  List.range l ++ (List.range r).map (· + l + (if starred then 1 else 0)) ++ (if starred then [l] else [])

/-- binding the targets one after the other: a later binding of the same name replaces the earlier -/
def bindTargets (names wires : List Nat) (order : List Nat) : List (Nat × Nat) :=
  order.foldl (fun env t =>
    match names[t]?, wires[t]? with
    | some x, some w => (x, w) :: env.filter (·.1 ≠ x)
    | _, _ => env) []

def lookupName (env : List (Nat × Nat)) (x : Nat) : Option Nat := (env.find? (·.1 = x)).map (·.2)

/-- the unpacking with NAMED targets (`names` in pattern order; a name may occur several times):
    same instructions, outputs = the wire every distinct name is finally bound to, in order of first
    occurrence -/
def emitUnpackNamed (l r : Nat) (starred : Bool) (n : Nat) (names : List Nat) : Prog :=
  let p := emitUnpack l r starred n
  let env := bindTargets names p.outs (assignOrder l r starred)
  { p with outs := names.eraseDups.map fun x => (lookupName env x).getD 4294967295 }

def emitUnpackShape (s : Nat × Nat × Bool × Nat) : Prog := emitUnpack s.1 s.2.1 s.2.2.1 s.2.2.2

/-- `ArrayDiscardAllUsedCompiler` -/
def emitDiscardAllUsed (linear : Bool) : Prog :=
  if linear then ⟨1, [⟨.discardAllBorrowed, [0], 0⟩], []⟩ else ⟨1, [], []⟩

/-- `array.copy()` (CopyInoutCompiler → `clone`): input `[array]`, outputs `[copy, array]` -/
def emitCopy : Prog := ⟨1, [⟨.clone, [0], 2⟩], [1, 2]⟩

/-- loop body of `visit_DesugaredArrayComp`: inputs `[count, array, elt]`,
    outputs `[array', count']` -/
def emitCompBody : Prog :=
  ⟨3, [⟨.itousize, [0], 1⟩, ⟨.ret, [1, 3, 2], 1⟩, ⟨.const 1, [], 1⟩, ⟨.iadd, [0, 5], 1⟩], [4, 6]⟩

/-- loop plumbing of an array comprehension `array(e(x) for x in it)` as lowered by
    `visit_DesugaredArrayComp` + `_build_generators`: a `TailLoop` over the iterator (its only
    `just_input`) that carries `rest` values (the array under construction and the counter), calls
    `__next__`, and branches on the `Option`: `nothing` → `Tag breakTag`, carried values passed
    through (`nonePass`); `some (x, it')` → `Tag contTag it'`, carried values recomputed by `body`
    from `[carried…, elt]`.  The comprehension's value is loop output `resultPort`. -/
structure CompLoop where
  initLen : Nat         -- `new_all_borrowed n`
  initCount : Int       -- start value of the counter
  arrPort : Nat         -- position of the array among the carried values
  countPort : Nat       -- position of the counter among the carried values
  nonePass : List Nat   -- `nothing` case: carried output k = carried input `nonePass[k]`
  body : Prog           -- `some` case: inputs `[carried…, elt]`, outputs = the new carried values
  breakTag : Nat
  contTag : Nat
  resultPort : Nat
  deriving DecidableEq, Repr, Inhabited

/-- the loop body with inputs `[array, count, elt]` (port order of the carried values) -/
def emitCompBodyC : Prog :=
  ⟨3, [⟨.itousize, [1], 1⟩, ⟨.ret, [0, 3, 2], 1⟩, ⟨.const 1, [], 1⟩, ⟨.iadd, [1, 5], 1⟩], [4, 6]⟩

/-- what the compiler emits for a comprehension of static length `n` -/
def emitCompLoop (n : Nat) : CompLoop :=
  ⟨n, 0, 0, 1, [0, 1], emitCompBodyC, 1, 0, 0⟩

/-! ## Semantic wrappers (what the Guppy-level functions do, through the emitted code) -/

section sem
variable {α : Type}

/-- `xs[i]` (or `_array_unsafe_getitem(xs, i)`): run the emitted code -/
def getitem (linear : Bool) (a : Cells α) (i : Int) : M (α × Cells α) := do
  match ← run id (emitGetitem linear) [vArr a, vInt i] with
  | [.atom (.elem v), .atom (.arr a')] => pure (v, a')
  | _ => throw .illTyped

def setitem (linear : Bool) (a : Cells α) (i : Int) (v : α) : M (Cells α) := do
  match ← run id (emitSetitem linear) [vArr a, vInt i, vElem v] with
  | [.atom (.arr a')] => pure a'
  | _ => throw .illTyped

def discardAllUsed (linear : Bool) (a : Cells α) : M Unit := do
  match ← run (α := α) id (emitDiscardAllUsed linear) [vArr a] with
  | [] => pure ()
  | _ => throw .illTyped

/-- state of `ArrayIter` -/
structure IterSt (α : Type) where
  xs : Cells α
  i : Int

/-- `ArrayIter.__next__` (std/array.py), statement by statement; `n` is the array length -/
def next (linear : Bool) (st : IterSt α) : M (Option (α × IterSt α)) :=
  if st.i < (st.xs.length : Int) then do
    let (elem, xs) ← getitem linear st.xs st.i
    pure (some (elem, ⟨xs, wrap64 (st.i + 1)⟩))
  else do
    discardAllUsed linear st.xs
    pure none

/-- a `for` loop over the iterator: collect what it yields; `none` = fuel exhausted -/
def drain (linear : Bool) : Nat → IterSt α → M (Option (List α))
  | 0, _ => pure none
  | fuel + 1, st => do
    match ← next linear st with
    | none => pure (some [])
    | some (e, st') => do
      match ← drain linear fuel st' with
      | none => pure none
      | some es => pure (some (e :: es))

/-- `frozenarray.__getitem__` (static-array `get` + unwrap; frozenarrays are immutable and copyable) -/
def frozenGet (xs : List α) (i : Int) : M α :=
  match xs[itousize i]? with
  | some v => pure v
  | none => throw (.unwrapFail "Frozenarray index out of bounds")

/-- state of `FrozenarrayIter` -/
structure FIterSt (α : Type) where
  xs : List α
  i : Int

/-- `FrozenarrayIter.__next__` (std/array.py), statement by statement -/
def fnext (st : FIterSt α) : M (Option (α × FIterSt α)) :=
  if st.i < (st.xs.length : Int) then do
    let v ← frozenGet st.xs st.i
    pure (some (v, ⟨st.xs, wrap64 (st.i + 1)⟩))
  else pure none

def fdrain : Nat → FIterSt α → M (Option (List α))
  | 0, _ => pure none
  | fuel + 1, st => do
    match ← fnext st with
    | none => pure (some [])
    | some (e, st') => do
      match ← fdrain fuel st' with
      | none => pure none
      | some es => pure (some (e :: es))

/-- one iteration of the array comprehension loop body, through the emitted code:
    state = (array under construction, counter) -/
def compStep (st : Cells α × Int) (e : α) : M (Cells α × Int) := do
  match ← run id emitCompBody [vInt st.2, vArr st.1, vElem e] with
  | [.atom (.arr a), .atom (.int c)] => pure (a, c)
  | _ => throw .illTyped

def compInit (n : Nat) : Cells α × Int := (newAllBorrowed n, 0)

/-- initial carried values of a comprehension loop -/
def CompLoop.init (L : CompLoop) : M (List (Val α)) :=
  if L.arrPort = 0 ∧ L.countPort = 1 then pure [vArr (newAllBorrowed L.initLen), vInt L.initCount]
  else if L.arrPort = 1 ∧ L.countPort = 0 then pure [vInt L.initCount, vArr (newAllBorrowed L.initLen)]
  else throw .illTyped

/-- the `TailLoop`: iterate `ArrayIter.__next__` (always the linear lowering, see `next`), `g` is the
    element expression; `none` = fuel exhausted -/
def runLoop (L : CompLoop) (g : α → α) : Nat → IterSt α → List (Val α) → M (Option (List (Val α)))
  | 0, _, _ => pure none
  | fuel + 1, st, carried => do
    match ← next true st with
    | none =>
      if L.breakTag ≠ 1 then throw .illTyped else
      let outs ← lookup carried L.nonePass
      pure (some outs)
    | some (x, st') =>
      if L.contTag ≠ 0 then throw .illTyped else do
      let carried' ← run id L.body (carried ++ [vElem (g x)])
      runLoop L g fuel st' carried'

/-- the whole comprehension over an array `xs` (owned, iterated from index 0) -/
def runComp (L : CompLoop) (g : α → α) (fuel : Nat) (xs : Cells α) : M (Option (Val α)) := do
  let init ← L.init (α := α)
  match ← runLoop L g fuel ⟨xs, 0⟩ init with
  | none => pure none
  | some outs =>
    match outs[L.resultPort]? with
    | some v => pure (some v)
    | none => throw .illTyped

end sem

end GuppyVerif.ArraySem
