/-! # Surface language for C03 / C05: AST of the modelled Python fragment and Python's semantics

Import-free.  The fragment: int/bool values; variables; constants; unary minus / `not`; binary
arithmetic; single and 3-operand chained comparisons; `and` / `or` (a flat Python `BoolOp` with more
than two values is represented right-nested, which is also what `BranchBuilder.visit_BoolOp` turns it
into); conditional expressions; walrus; calls of *external* functions with 0, 1 or 2 positional
arguments (uninterpreted: the result is supplied by an environment that sees the whole call history,
every call is recorded in the trace); statements: assignment, augmented assignment, expression
statement, `pass`, `if/else`, `while`, `for x in range(e)`, `break`, `continue`, `return`.

Values are **unbounded** integers and booleans with Python's coercions (`True == 1`, `True + 1 == 2`).
`and` / `or` return `bool(truthiness)`; Python returns one of the operands, which is the same thing on
the bool-typed operands Guppy's type checker admits.  Reading a variable that was never assigned gives
the store's default (Python would raise; Guppy rejects such programs statically, property C08).

Statement lists are encoded inside `Stmt` by `nil` / `cons` so that `Stmt` is a plain (non-nested)
inductive type and `induction` works. -/
namespace GuppyVerif.Surface

inductive Var where
  | user (s : String)
  | tmp (n : Nat)
  deriving DecidableEq, Repr, Inhabited

inductive Val where
  | int (n : Int)
  | bool (b : Bool)
  | none                          -- Python `None` (bare `return` / falling off the end); `Option.nothing`
  | iter (next stop : Int)        -- a `range` object / its iterator
  | some (elem next stop : Int)   -- `Option.some((elem, iterator))` produced by `__next__`
  deriving DecidableEq, Repr, Inhabited

namespace Val
def toInt : Val → Int
  | int n => n
  | bool b => if b then 1 else 0
  | _ => 0
def truthy : Val → Bool
  | int n => n != 0
  | bool b => b
  | none => false
  | iter n s => n < s
  | some .. => true
end Val

inductive BinOp where
  | add | sub | mul
  deriving DecidableEq, Repr, Inhabited

inductive CmpOp where
  | lt | le | gt | ge | eq | ne
  deriving DecidableEq, Repr, Inhabited

/-- primitives of the `for`-loop template (only `range` occurs in surface programs) -/
inductive Prim where
  | range | makeiter | iternext | issome | unwrapnothing | unwrap
  deriving DecidableEq, Repr, Inhabited

/-- one-operand node kinds that `ExprBuilder` treats generically (visit the operand, keep the node) -/
inductive UnOp where
  | neg | not | prim (p : Prim) | call1 (f : String)
  deriving DecidableEq, Repr, Inhabited

/-- two-operand node kinds that `ExprBuilder` treats generically (visit left, then right) -/
inductive BiOp where
  | arith (op : BinOp) | cmp (op : CmpOp) | call2 (f : String)
  deriving DecidableEq, Repr, Inhabited

inductive Expr where
  | var (x : Var)
  | num (n : Int)
  | bool (b : Bool)
  | call0 (f : String)
  | un (o : UnOp) (e : Expr)
  | bi (o : BiOp) (l r : Expr)
  | cmp2 (o1 o2 : CmpOp) (l m r : Expr)     -- `l o1 m o2 r`
  | and (l r : Expr)
  | or (l r : Expr)
  | ite (t b o : Expr)                      -- `b if t else o`
  | walrus (x : Var) (e : Expr)
  deriving DecidableEq, Repr, Inhabited

inductive Stmt where
  | nil
  | cons (s rest : Stmt)
  | assign (x : Var) (e : Expr)
  | aug (x : Var) (op : BinOp) (e : Expr)
  | expr (e : Expr)
  | pass
  | brk
  | cont
  | ret (e : Expr)
  | ret0
  | ite (c : Expr) (t e : Stmt)
  | while (c : Expr) (b : Stmt)
  | for (x : Var) (e : Expr) (b : Stmt)     -- `for x in e: b`
  /-- internal: the remaining iterations `next, next+1, … < stop` of a `for` loop (never in source) -/
  | forFrom (x : Var) (next stop : Int) (b : Stmt)
  deriving Repr, Inhabited

/-! ## Semantics of expressions (total: expressions always terminate) -/

structure Event where
  f : String
  args : List Val
  res : Val
  deriving DecidableEq, Repr, Inhabited

abbrev Trace := List Event
abbrev Store := Var → Val

def Store.set (st : Store) (x : Var) (v : Val) : Store := fun y => if y = x then v else st y

/-- machine state of both semantics: store and the trace of external calls so far -/
abbrev S := Store × Trace

/-- the environment: result of an external call given the history, the name and the arguments -/
abbrev Env := Trace → String → List Val → Val

def callExt (env : Env) (f : String) (args : List Val) (s : S) : Val × S :=
  let r := env s.2 f args
  (r, (s.1, s.2 ++ [⟨f, args, r⟩]))

def arith : BinOp → Val → Val → Val
  | .add, a, b => .int (a.toInt + b.toInt)
  | .sub, a, b => .int (a.toInt - b.toInt)
  | .mul, a, b => .int (a.toInt * b.toInt)

def compare : CmpOp → Val → Val → Bool
  | .lt, a, b => a.toInt < b.toInt
  | .le, a, b => a.toInt ≤ b.toInt
  | .gt, a, b => a.toInt > b.toInt
  | .ge, a, b => a.toInt ≥ b.toInt
  | .eq, a, b => a.toInt = b.toInt
  | .ne, a, b => a.toInt ≠ b.toInt

def applyPrim : Prim → Val → Val
  | .range, v => .iter 0 v.toInt
  | .makeiter, v => v
  | .iternext, .iter n s => if n < s then .some n (n + 1) s else .none
  | .iternext, _ => .none
  | .issome, .some .. => .bool true
  | .issome, _ => .bool false
  | .unwrapnothing, _ => .none
  | .unwrap, v => v

def applyUn (env : Env) : UnOp → Val → S → Val × S
  | .neg, v, s => (.int (- v.toInt), s)
  | .not, v, s => (.bool (!v.truthy), s)
  | .prim p, v, s => (applyPrim p v, s)
  | .call1 f, v, s => callExt env f [v] s

def applyBi (env : Env) : BiOp → Val → Val → S → Val × S
  | .arith op, a, b, s => (arith op a b, s)
  | .cmp op, a, b, s => (.bool (compare op a b), s)
  | .call2 f, a, b, s => callExt env f [a, b] s

/-- Python's evaluation of an expression: left to right, arguments before the call, short circuit. -/
def eval (env : Env) : Expr → S → Val × S
  | .var x, s => (s.1 x, s)
  | .num n, s => (.int n, s)
  | .bool b, s => (.bool b, s)
  | .call0 f, s => callExt env f [] s
  | .un o e, s =>
    let r := eval env e s
    applyUn env o r.1 r.2
  | .bi o l r, s =>
    let a := eval env l s
    let b := eval env r a.2
    applyBi env o a.1 b.1 b.2
  | .cmp2 o1 o2 l m r, s =>
    let a := eval env l s
    let b := eval env m a.2
    if compare o1 a.1 b.1 then
      let c := eval env r b.2
      (.bool (compare o2 b.1 c.1), c.2)
    else (.bool false, b.2)
  | .and l r, s =>
    let a := eval env l s
    if a.1.truthy then
      let b := eval env r a.2
      (.bool b.1.truthy, b.2)
    else (.bool false, a.2)
  | .or l r, s =>
    let a := eval env l s
    if a.1.truthy then (.bool true, a.2)
    else
      let b := eval env r a.2
      (.bool b.1.truthy, b.2)
  | .ite t b o, s =>
    let c := eval env t s
    if c.1.truthy then eval env b c.2 else eval env o c.2
  | .walrus x e, s =>
    let r := eval env e s
    (r.1, (r.2.1.set x r.1, r.2.2))

/-! ## Big-step semantics of statements -/

inductive Outcome where
  | normal
  | brk
  | cont
  | ret (v : Val)
  deriving DecidableEq, Repr, Inhabited

/-- `Exec env s st o st'`: running `s` from `st` terminates in `st'` with outcome `o`. -/
inductive Exec (env : Env) : Stmt → S → Outcome → S → Prop where
  | nil : Exec env .nil s .normal s
  | consN : Exec env a s .normal s1 → Exec env rest s1 o s2 → Exec env (.cons a rest) s o s2
  | consJ : Exec env a s o s1 → o ≠ .normal → Exec env (.cons a rest) s o s1
  | assign : eval env e s = (v, s1) → Exec env (.assign x e) s .normal (s1.1.set x v, s1.2)
  /-- `x op= e` reads `x` first, then evaluates `e` -/
  | aug : eval env e s = (v, s1) → Exec env (.aug x op e) s .normal (s1.1.set x (arith op (s.1 x) v), s1.2)
  | expr : eval env e s = (v, s1) → Exec env (.expr e) s .normal s1
  | pass : Exec env .pass s .normal s
  | brk : Exec env .brk s .brk s
  | cont : Exec env .cont s .cont s
  | ret : eval env e s = (v, s1) → Exec env (.ret e) s (.ret v) s1
  | ret0 : Exec env .ret0 s (.ret .none) s
  | iteT : eval env c s = (v, s1) → v.truthy = true → Exec env t s1 o s2 → Exec env (.ite c t e) s o s2
  | iteF : eval env c s = (v, s1) → v.truthy = false → Exec env e s1 o s2 → Exec env (.ite c t e) s o s2
  | whileF : eval env c s = (v, s1) → v.truthy = false → Exec env (.while c b) s .normal s1
  | whileT : eval env c s = (v, s1) → v.truthy = true → Exec env b s1 o s2 →
      (o = .normal ∨ o = .cont) → Exec env (.while c b) s2 o' s3 → Exec env (.while c b) s o' s3
  | whileB : eval env c s = (v, s1) → v.truthy = true → Exec env b s1 .brk s2 →
      Exec env (.while c b) s .normal s2
  | whileR : eval env c s = (v, s1) → v.truthy = true → Exec env b s1 (.ret r) s2 →
      Exec env (.while c b) s (.ret r) s2
  /-- `for x in e`: evaluate the iterable once (a `range`), then iterate -/
  | for : eval env e s = (.iter n m, s1) → Exec env (.forFrom x n m b) s1 o s2 →
      Exec env (.for x e b) s o s2
  | forDone : ¬ n < m → Exec env (.forFrom x n m b) s .normal s
  | forStep : n < m → Exec env b (s.1.set x (.int n), s.2) o s1 → (o = .normal ∨ o = .cont) →
      Exec env (.forFrom x (n + 1) m b) s1 o' s2 → Exec env (.forFrom x n m b) s o' s2
  | forB : n < m → Exec env b (s.1.set x (.int n), s.2) .brk s1 → Exec env (.forFrom x n m b) s .normal s1
  | forR : n < m → Exec env b (s.1.set x (.int n), s.2) (.ret r) s1 →
      Exec env (.forFrom x n m b) s (.ret r) s1

/-- executable version with a step budget (used by the driver; sound w.r.t. `Exec`) -/
def execFuel (env : Env) : Nat → Stmt → S → Option (Outcome × S)
  | 0, _, _ => none
  | fuel + 1, stmt, s =>
    match stmt with
    | .nil => some (.normal, s)
    | .cons a rest =>
      match execFuel env fuel a s with
      | some (.normal, s1) => execFuel env fuel rest s1
      | r => r
    | .assign x e => let r := eval env e s; some (.normal, (r.2.1.set x r.1, r.2.2))
    | .aug x op e => let r := eval env e s; some (.normal, (r.2.1.set x (arith op (s.1 x) r.1), r.2.2))
    | .expr e => some (.normal, (eval env e s).2)
    | .pass => some (.normal, s)
    | .brk => some (.brk, s)
    | .cont => some (.cont, s)
    | .ret e => let r := eval env e s; some (.ret r.1, r.2)
    | .ret0 => some (.ret .none, s)
    | .ite c t e =>
      let r := eval env c s
      if r.1.truthy then execFuel env fuel t r.2 else execFuel env fuel e r.2
    | .while c b =>
      let r := eval env c s
      if r.1.truthy then
        match execFuel env fuel b r.2 with
        | some (.normal, s2) => execFuel env fuel (.while c b) s2
        | some (.cont, s2) => execFuel env fuel (.while c b) s2
        | some (.brk, s2) => some (.normal, s2)
        | some (.ret v, s2) => some (.ret v, s2)
        | none => none
      else some (.normal, r.2)
    | .for x e b =>
      let r := eval env e s
      match r.1 with
      | .iter n m => execFuel env fuel (.forFrom x n m b) r.2
      | _ => none
    | .forFrom x n m b =>
      if n < m then
        match execFuel env fuel b (s.1.set x (.int n), s.2) with
        | some (.normal, s2) => execFuel env fuel (.forFrom x (n + 1) m b) s2
        | some (.cont, s2) => execFuel env fuel (.forFrom x (n + 1) m b) s2
        | some (.brk, s2) => some (.normal, s2)
        | some (.ret v, s2) => some (.ret v, s2)
        | none => none
      else some (.normal, s)

end GuppyVerif.Surface
