import GuppyVerif.Model.Dataflow
/-! Models of the places where guppylang's compiler iterates over an unordered `set`
    (C10).  The iteration order of a Python set is modelled as an arbitrary choice:
    * `update_reachable` (`cfg/cfg.py`): a set worklist popped in any order (`RReach`);
    * `check_rows_match` (`checker/cfg_checker.py`): iterates `sorted(set of names)`;
      the set's own order is an arbitrary permutation `ord` applied before sorting;
    * `sort_vars` (`compiler/cfg_compiler.py`): sorts a row by `(not droppable, name)`.
    Import-free, executable. -/
namespace GuppyVerif.Determ
open GuppyVerif.Dataflow

/-! ## update_reachable -/

structure RSt where
  reach : Blk → Bool       -- `bb.reachable`
  queue : List Blk         -- the set `queue`

/-- one iteration of `while queue:` with `bb = b` popped -/
def reachStep (succ : Blk → List Blk) (s : RSt) (b : Blk) : RSt :=
  let q := s.queue.filter (· != b)
  if s.reach b then ⟨s.reach, q⟩ else ⟨upd s.reach b true, q ++ succ b⟩

def reachInit (entry : Blk) : RSt := ⟨fun _ => false, [entry]⟩

inductive RReach (succ : Blk → List Blk) : RSt → RSt → Prop
  | refl (s : RSt) : RReach succ s s
  | step {s t : RSt} (b : Blk) (hb : b ∈ s.queue) (h : RReach succ (reachStep succ s b) t) : RReach succ s t

/-- run with a scheduler; `none` = out of fuel -/
def reachRun (succ : Blk → List Blk) (sched : List Blk → Blk) : Nat → RSt → Option RSt
  | 0, s => if s.queue.isEmpty then some s else none
  | fuel + 1, s =>
    match s.queue with
    | [] => some s
    | h :: _ =>
      let b := if s.queue.contains (sched s.queue) then sched s.queue else h
      reachRun succ sched fuel (reachStep succ s b)

/-! ## iteration over `sorted(a set)` -/

/-- Python `sorted` on names (total order on `Nat` ids) -/
def pySorted (l : List Nat) : List Nat := l.mergeSort (fun a b => decide (a ≤ b))

/-- `check_rows_match` after sorting: the first name (in sorted order) whose types differ.
    `keys` is the set of names in whatever order the set yields them. -/
def firstMismatch (ty1 ty2 : Nat → Nat) (keys : List Nat) : Option Nat :=
  (pySorted keys).find? fun x => ty1 x != ty2 x

/-- `sort_vars`: order by `(not droppable, name)`; names are unique within a row -/
def varLe (droppable : Nat → Bool) (a b : Nat) : Bool :=
  if droppable a == droppable b then decide (a ≤ b) else droppable a
def sortVars (droppable : Nat → Bool) (row : List Nat) : List Nat := row.mergeSort (varLe droppable)

/-! ## folds over a set whose steps commute -/

/-- `partially_monomorphize_args`: `for var in ty.bound_vars: mono_args[var.idx] = args[var.idx]`
    (`vars` = the set's elements in whatever order it yields them) -/
def assignAll (args : List Nat) (vars : List Nat) (acc : List (Option Nat)) : List (Option Nat) :=
  vars.foldl (fun acc i => acc.set i (args[i]?)) acc

/-- `min(a_set, key=...)` over the keys, as CPython folds it -/
def minOf (l : List Nat) : Option Nat :=
  l.foldl (fun acc x => match acc with | none => some x | some m => some (if x < m then x else m)) none

end GuppyVerif.Determ
