/-! Model of `guppylang_internals/experimental.py`.

Python (both classes are identical up to the constant written in `__init__`):

    class enable_experimental_features:
        def __init__(self):  self.original = FLAG; FLAG = True
        def __enter__(self): pass
        def __exit__(self, *exc): FLAG = self.original        # returns None: never swallows
    class disable_experimental_features: ... FLAG = False ...
    def check_<feature>_enabled(loc): if not FLAG: raise GuppyError(<ErrorClass>(loc, <things>))

The flag is written by `__init__` (object construction), not by `__enter__`; the object only
remembers the value it saw at construction.  Objects are immutable after `__init__`, so the
model keeps them as values (`Obj`).  A *program* is a tree of the client-side statements the
property quantifies over.  Import-free, executable. -/
namespace GuppyVerif.FeatureGate

inductive Feature where
  | lists | tensors | closures | modifiers
  deriving DecidableEq, Repr

/-- which of the two classes -/
inductive Kind where
  | enable | disable
  deriving DecidableEq, Repr

/-- the constant `__init__` stores into the global -/
def Kind.target : Kind → Bool
  | .enable => true
  | .disable => false

/-- diagnostic class carried by the `GuppyError` raised by a closed gate -/
inductive ErrClass where
  | experimental   -- ExperimentalFeatureError
  | unsupported    -- UnsupportedError ("Capturing closures are not supported")
  deriving DecidableEq, Repr

/-- which diagnostic each `check_*_enabled` raises (capturing closures use `UnsupportedError`) -/
def errClass : Feature → ErrClass
  | .lists => .experimental
  | .tensors => .experimental
  | .closures => .unsupported
  | .modifiers => .experimental

/-- client programs -/
inductive Prog where
  | skip
  | seq (p q : Prog)
  /-- `enable_experimental_features()` / `disable_…()` as a bare call (object dropped) -/
  | call (k : Kind)
  /-- `with enable_experimental_features(): body` -/
  | withNew (k : Kind) (body : Prog)
  /-- `x = enable_experimental_features()` (object kept) -/
  | bind (x : Nat) (k : Kind)
  /-- `with x: body` for a previously bound object; unbound `x` is a `NameError` -/
  | withVar (x : Nat) (body : Prog)
  /-- `.check()` of a fixed program using the gated feature; the resulting `GuppyError`
      is caught by the observer and recorded -/
  | check (f : Feature)
  /-- `raise Boom()` -/
  | raise
  /-- `try: body` / `except Exception: pass` -/
  | tryCatch (body : Prog)
  deriving Repr

/-- what the observer records -/
inductive Obs where
  | flag (b : Bool)                       -- value of the global after a statement
  | accept (f : Feature)
  | reject (f : Feature) (e : ErrClass)
  deriving DecidableEq, Repr

/-- a constructed context-manager object -/
structure Obj where
  kind : Kind
  original : Bool
  deriving DecidableEq, Repr

structure State where
  flag : Bool
  env : List (Nat × Obj)
  deriving Repr

def lookup (x : Nat) : List (Nat × Obj) → Option Obj
  | [] => none
  | (y, o) :: r => if x = y then some o else lookup x r

/-- `__init__` -/
def construct (k : Kind) (s : State) : Obj × State :=
  (⟨k, s.flag⟩, { s with flag := k.target })

/-- `__enter__` -/
def enter (_o : Obj) (s : State) : State := s

/-- `__exit__` (dispatch on the class; both restore `self.original`) -/
def exit (o : Obj) (s : State) : State :=
  match o.kind with
  | .enable => { s with flag := o.original }
  | .disable => { s with flag := o.original }

/-- `__exit__` returns `None`, i.e. never swallows the exception -/
def exitSwallows (_o : Obj) : Bool := false

/-- `check_<f>_enabled` -/
def gate (f : Feature) (s : State) : Obs :=
  if s.flag then .accept f else .reject f (errClass f)

structure Result where
  state : State
  trace : List Obs
  raised : Bool
  deriving Repr

/-- the `with o: body` statement given an already evaluated manager object -/
def withObj (o : Obj) (runBody : State → Result) (s : State) : Result :=
  let r := runBody (enter o s)
  let s' := exit o r.state
  ⟨s', r.trace ++ [.flag s'.flag], r.raised && !exitSwallows o⟩

def exec : Prog → State → Result
  | .skip, s => ⟨s, [], false⟩
  | .seq p q, s =>
    let r₁ := exec p s
    if r₁.raised then r₁
    else
      let r₂ := exec q r₁.state
      ⟨r₂.state, r₁.trace ++ r₂.trace, r₂.raised⟩
  | .call k, s =>
    let s' := (construct k s).2
    ⟨s', [.flag s'.flag], false⟩
  | .withNew k body, s =>
    let (o, s₁) := construct k s
    withObj o (exec body) s₁
  | .bind x k, s =>
    let (o, s₁) := construct k s
    let s' := { s₁ with env := (x, o) :: s₁.env }
    ⟨s', [.flag s'.flag], false⟩
  | .withVar x body, s =>
    match lookup x s.env with
    | none => ⟨s, [.flag s.flag], true⟩          -- NameError
    | some o => withObj o (exec body) s
  | .check f, s => ⟨s, [gate f s, .flag s.flag], false⟩
  | .raise, s => ⟨s, [.flag s.flag], true⟩
  | .tryCatch body, s =>
    let r := exec body s
    ⟨r.state, r.trace ++ [.flag r.state.flag], false⟩

end GuppyVerif.FeatureGate
