/-! # C22 — ownership bookkeeping of the comptime tracer (tracing/object.py, function.py, unpacking.py)

`GuppyObject` carries `_ty` (here only `copyable` / `droppable`), `_used` and an id;
`TracingState.unused_undroppable_objs` is a dict keyed by id.

* `GuppyObject.__init__`: a non-droppable object that is not yet used is entered into the dict.
* `_use_wire`: if `_used` and the type is not copyable → `GuppyComptimeError("… was already used")`;
  otherwise `_used := …` and, for a non-droppable type, `unused_undroppable_objs.pop(id, None)`
  (before fix 76eef44 this was `pop(id)`: a `KeyError` for a copyable, non-droppable value used twice).
* a call that borrows an argument (`trace_call`): the argument is used (`obj._use_wire(func)`), a fresh
  object is made for the returned wire, and `update_packed_value` uses that fresh object, re-enters the
  argument into the dict when it is non-droppable and used, and resets its `_used`.
* mutation of a frozen struct / `frozenlist` (values derived from owned arguments) raises.
* `trace_function` end: a non-empty dict → "… is leaked by this function".

`uses` is a ghost counter (uses since creation / last reset); the step function never reads it. -/
namespace GuppyVerif.TraceOwn

structure Obj where
  copyable : Bool
  droppable : Bool
  used : Bool
  uses : Nat
  deriving DecidableEq, Repr

inductive Err where
  | alreadyUsed | leaked | frozen | badId
  deriving DecidableEq, Repr

structure State where
  objs : Nat → Option Obj
  next : Nat
  unused : Nat → Bool

def State.empty : State := ⟨fun _ => none, 0, fun _ => false⟩

inductive Op where
  | create (copyable droppable : Bool)
  | use (id : Nat)
  | borrow (id : Nat)
  | reset (id : Nat)          -- `update_packed_value` on an object inside a borrowed container
  | mutate (frozen : Bool)
  deriving DecidableEq, Repr

def upd {α} (f : Nat → α) (i : Nat) (v : α) : Nat → α := fun j => if j = i then v else f j

/-- `GuppyObject.__init__` (fresh, unused) -/
def create (s : State) (c d : Bool) : State :=
  { objs := upd s.objs s.next (some ⟨c, d, false, 0⟩), next := s.next + 1,
    unused := upd s.unused s.next (!d) }

/-- `GuppyObject._use_wire` -/
def useObj (s : State) (id : Nat) : Except Err State :=
  match s.objs id with
  | none => .error .badId
  | some o =>
    if o.used ∧ !o.copyable then .error .alreadyUsed
    else
      let objs := upd s.objs id (some { o with used := true, uses := o.uses + 1 })
      if o.droppable then .ok { s with objs := objs }
      else .ok { s with objs := objs, unused := upd s.unused id false }

/-- the reset half of `update_packed_value` for the borrowed argument `id` -/
def reset (s : State) (id : Nat) : Except Err State :=
  match s.objs id with
  | none => .error .badId
  | some o =>
    .ok { s with objs := upd s.objs id (some { o with used := false, uses := 0 }),
                 unused := if !o.droppable ∧ o.used then upd s.unused id true else s.unused }

/-- a call borrowing `id`: use it, make the object of the returned wire, use that one, reset `id` -/
def borrow (s : State) (id : Nat) : Except Err State :=
  match s.objs id with
  | none => .error .badId
  | some o => do
    let s1 ← useObj s id
    let tmp := s1.next
    let s2 := create s1 o.copyable o.droppable
    let s3 ← useObj s2 tmp
    reset s3 id

def step (s : State) : Op → Except Err State
  | .create c d => .ok (create s c d)
  | .use id => useObj s id
  | .borrow id => borrow s id
  | .reset id => reset s id
  | .mutate frozen => if frozen then .error .frozen else .ok s

def run : State → List Op → Except Err State
  | s, [] => .ok s
  | s, op :: ops => match step s op with
    | .ok s' => run s' ops
    | .error e => .error e

/-- end of `trace_function` -/
def finish (s : State) : Except Err Unit :=
  if (List.range s.next).any s.unused then .error .leaked else .ok ()

/-- a whole comptime body: the ops, then the leak check -/
def trace (ops : List Op) : Except Err Unit :=
  match run State.empty ops with
  | .ok s => finish s
  | .error e => .error e

/-! ## Unpacking of arguments (`unpack_guppy_object`) and where in-place mutation is possible

A comptime argument is turned into Python values: a Guppy tuple into a Python `tuple` (immutable), a struct
into a `GuppyStructObject(…, frozen)`, an array of static non-zero length into a `list` / `frozenlist`;
`frozen` (= the argument is not borrowed) is passed down to **every** recursive call.  An array of length 0 (or of
generic size) is handed out as the `GuppyObject` itself: a `leaf` here, and an ordinary tracked object in the trace
model above (its `__init__` enters it into the dict like any other non-droppable object).  Arrays have one
element type, so one representative element is kept. -/

inductive Shape where
  | leaf
  | arr (elem : Shape)
  | struct (a b : Shape)
  | tuple (a b : Shape)
  deriving DecidableEq, Repr

/-- the Python value: mutable containers carry their `frozen` flag -/
inductive Val where
  | leaf
  | list (frozen : Bool) (elem : Val)
  | struct (frozen : Bool) (a b : Val)
  | tuple (a b : Val)
  deriving DecidableEq, Repr

/-- `unpack_guppy_object(obj, builder, frozen)` -/
def unpack (frozen : Bool) : Shape → Val
  | .leaf => .leaf
  | .arr e => .list frozen (unpack frozen e)
  | .struct a b => .struct frozen (unpack frozen a) (unpack frozen b)
  | .tuple a b => .tuple (unpack frozen a) (unpack frozen b)

inductive Step where
  | elem | fst | snd
  deriving DecidableEq, Repr

/-- follow `v[i]`, `v.a` / `v[0]`, `v.b` / `v[1]` -/
def Val.get : Val → Step → Option Val
  | .list _ e, .elem => some e
  | .struct _ a _, .fst => some a
  | .struct _ _ b, .snd => some b
  | .tuple a _, .fst => some a
  | .tuple _ b, .snd => some b
  | _, _ => none

def Val.at : Val → List Step → Option Val
  | v, [] => some v
  | v, st :: p => match v.get st with
    | some w => w.at p
    | none => none

/-- the `frozen` flag of the mutable container (list / struct object) a path leads to -/
def Val.containerFlag : Val → Option Bool
  | .list f _ => some f
  | .struct f _ _ => some f
  | _ => none

/-- an in-place mutation (`x[i] = …`, `x.append(…)`, `x.f = …`, …) of the container at `path` -/
def mutateAt (v : Val) (path : List Step) : Except Err Unit :=
  match (v.at path).bind Val.containerFlag with
  | some true => .error .frozen
  | some false => .ok ()
  | none => .error .badId      -- no mutable container there

end GuppyVerif.TraceOwn
