/-! # Model of `guppylang.std.collections` — `Stack` and `PriorityQueue` (C27)

Mirrors `/repo/guppylang/src/guppylang/std/collections/{stack,priority_queue}.py` statement by
statement.  Both structs are a buffer `buf : array[Option[..], MAX_SIZE]` plus an `int`
(`end` / `size`).  The buffer is a `List (Option β)`; every cell access of the Guppy source

* `buf[i].take()`            ↦ `take buf i`       (returns the old cell, leaves `nothing`)
* `buf[i].swap(some(x))`     ↦ `swap buf i (some x)`
* `.unwrap()` / `.unwrap_nothing()` ↦ `unwrap` / `unwrapNothing` (panic on the wrong variant)
* `panic("…")`               ↦ `throw`

is kept, with its error branch, in the `Except Err` monad (nothing is totalised away: an
out-of-range index, an `unwrap` of `nothing`, an `unwrap_nothing` of `some` are distinct errors; the
theorems show they cannot happen in reachable states).  The `while` loops are fuel-bounded
structural recursions; running out of fuel is the distinct error `Err.fuel`, and
`Lemmas/C27` proves it never occurs for the fuel the operations pass.

`MAX_SIZE` (a type-level nat in Guppy, equal to the array length by typing) is the explicit
parameter `cap`.  Sizes and indices are `Nat` (the Guppy `int`s involved are array indices
`< MAX_SIZE` and never negative in states reachable from `empty_*`; 64-bit overflow of
`2 * i + 1` would need `MAX_SIZE > 2^62`).  Priorities are unbounded `Int` (the code only
compares them). -/
namespace GuppyVerif.Coll

inductive Err where
  | capacity      -- panic "…: max size reached"
  | empty         -- panic "…: … is empty"
  | notEmpty      -- panic "….discard_empty: … is not empty"
  | unwrapNone    -- Option.unwrap on `nothing`
  | unwrapSome    -- Option.unwrap_nothing on `some`
  | index         -- array index out of bounds
  | fuel          -- model artefact: loop fuel exhausted (proved unreachable)
  deriving Repr, DecidableEq, Inhabited

def Err.toString : Err → String
  | .capacity => "capacity" | .empty => "empty" | .notEmpty => "notempty"
  | .unwrapNone => "unwrapnone" | .unwrapSome => "unwrapsome" | .index => "index" | .fuel => "fuel"

abbrev M := Except Err

/-- `buf[i].swap(new)`: returns the previous cell content, cell now holds `new`. -/
def swap {β} (buf : List (Option β)) (i : Nat) (new : Option β) : M (Option β × List (Option β)) :=
  if h : i < buf.length then pure (buf[i], buf.set i new) else throw .index

/-- `buf[i].take()` = swap with `nothing`. -/
def take {β} (buf : List (Option β)) (i : Nat) : M (Option β × List (Option β)) :=
  swap buf i none

/-- `buf[i]` read without consuming (only used for copyable elements: `peek`). -/
def read {β} (buf : List (Option β)) (i : Nat) : M (Option β) :=
  if h : i < buf.length then pure buf[i] else throw .index

def unwrap {β} : Option β → M β
  | some x => pure x
  | none => throw .unwrapNone

def unwrapNothing {β} : Option β → M Unit
  | none => pure ()
  | some _ => throw .unwrapSome

/-- `buf[i].take().unwrap()` -/
def takeUnwrap {β} (buf : List (Option β)) (i : Nat) : M (β × List (Option β)) := do
  let (o, buf) ← take buf i
  let x ← unwrap o
  pure (x, buf)

/-- `buf[i].swap(some(x)).unwrap_nothing()` -/
def put {β} (buf : List (Option β)) (i : Nat) (x : β) : M (List (Option β)) := do
  let (o, buf) ← swap buf i (some x)
  unwrapNothing o
  pure buf

/-- `for elem in buf: elem.unwrap_nothing()` -/
def allNothing {β} : List (Option β) → M Unit
  | [] => pure ()
  | o :: rest => do unwrapNothing o; allNothing rest

/-! ## Stack -/

structure Stack (α : Type) where
  buf : List (Option α)
  end_ : Nat
  deriving Repr

namespace Stack
variable {α : Type}

/-- `empty_stack()` -/
def empty (cap : Nat) : Stack α := ⟨List.replicate cap none, 0⟩

/-- `__len__` -/
def len (s : Stack α) : Nat := s.end_

/-- `push` -/
def push (cap : Nat) (s : Stack α) (x : α) : M (Stack α) := do
  if s.end_ ≥ cap then throw .capacity
  let buf ← put s.buf s.end_ x
  pure ⟨buf, s.end_ + 1⟩

/-- `pop` -/
def pop (s : Stack α) : M (α × Stack α) := do
  if s.end_ ≤ 0 then throw .empty
  let (x, buf) ← takeUnwrap s.buf (s.end_ - 1)
  pure (x, ⟨buf, s.end_ - 1⟩)

/-- `peek` -/
def peek (s : Stack α) : M (α × Stack α) := do
  if s.end_ ≤ 0 then throw .empty
  let o ← read s.buf (s.end_ - 1)
  let x ← unwrap o
  pure (x, ⟨s.buf, s.end_⟩)

/-- `discard_empty` -/
def discardEmpty (s : Stack α) : M Unit := do
  if s.end_ > 0 then throw .notEmpty
  allNothing s.buf

/-- `__next__`: `none` = iteration finished (stack consumed). -/
def next (s : Stack α) : M (Option (α × Stack α)) := do
  if s.len == 0 then
    discardEmpty s
    pure none
  else
    let r ← pop s
    pure (some r)

end Stack

/-! ## PriorityQueue -/

structure PQ (α : Type) where
  buf : List (Option (Int × α))
  size : Nat
  deriving Repr

namespace PQ
variable {α : Type}

/-- `empty_priority_queue()` -/
def empty (cap : Nat) : PQ α := ⟨List.replicate cap none, 0⟩

def len (q : PQ α) : Nat := q.size

/-- the `while i > 0:` loop of `push` (sift-up).  One unit of fuel per iteration. -/
def siftUp : Nat → List (Option (Int × α)) → Nat → M (List (Option (Int × α)))
  | 0, _, _ => throw .fuel
  | fuel + 1, buf, i =>
    if i > 0 then do
      let parent := (i - 1) / 2
      let ((prio, val), buf) ← takeUnwrap buf i
      let ((pprio, pval), buf) ← takeUnwrap buf parent
      if prio ≥ pprio then
        let buf ← put buf i (prio, val)
        let buf ← put buf parent (pprio, pval)
        pure buf                                   -- break
      else
        let buf ← put buf i (pprio, pval)
        let buf ← put buf parent (prio, val)
        siftUp fuel buf parent
    else pure buf

/-- `push(value, priority)` -/
def push (cap : Nat) (q : PQ α) (v : α) (p : Int) : M (PQ α) := do
  if q.size ≥ cap then throw .capacity
  let buf ← put q.buf q.size (p, v)
  let buf ← siftUp (q.size + 1) buf q.size
  pure ⟨buf, q.size + 1⟩

/-- the child-selection block inside the loop of `pop` (`if right_i < new_size: … else: …`):
    takes the child(ren), puts the non-selected one back; returns `(child_i, child, buf)` with the
    selected child's cell left empty. -/
def pickChild (buf : List (Option (Int × α))) (newSize left : Nat) :
    M (Nat × (Int × α) × List (Option (Int × α))) :=
  let right := left + 1
  if right < newSize then do
    let ((lprio, lval), buf) ← takeUnwrap buf left
    let ((rprio, rval), buf) ← takeUnwrap buf right
    if rprio < lprio then
      let buf ← put buf left (lprio, lval)
      pure (right, (rprio, rval), buf)
    else
      let buf ← put buf right (rprio, rval)
      pure (left, (lprio, lval), buf)
  else do
    let (c, buf) ← takeUnwrap buf left
    pure (left, c, buf)

/-- the `while True:` loop of `pop` (sift-down of the displaced last element; slot `i` is the
    hole).  Returns the buffer and the final hole index `i`. -/
def siftDown : Nat → List (Option (Int × α)) → Nat → Int → Nat → M (List (Option (Int × α)) × Nat)
  | 0, _, _, _, _ => throw .fuel
  | fuel + 1, buf, newSize, dprio, i => do
    let left := 2 * i + 1
    if left ≥ newSize then pure (buf, i)           -- break
    else
      let (childI, (cprio, cval), buf) ← pickChild buf newSize left
      if dprio ≤ cprio then
        let buf ← put buf childI (cprio, cval)
        pure (buf, i)                               -- break
      else
        let buf ← put buf i (cprio, cval)
        siftDown fuel buf newSize dprio childI

/-- `pop` -/
def pop (q : PQ α) : M (Int × α × PQ α) := do
  if q.size ≤ 0 then throw .empty
  let ((rprio, rval), buf) ← takeUnwrap q.buf 0
  let newSize := q.size - 1
  if newSize == 0 then pure (rprio, rval, ⟨buf, newSize⟩)
  else
    let ((dprio, dval), buf) ← takeUnwrap buf newSize
    let (buf, i) ← siftDown (newSize + 1) buf newSize dprio 0
    let buf ← put buf i (dprio, dval)
    pure (rprio, rval, ⟨buf, newSize⟩)

/-- `peek` -/
def peek (q : PQ α) : M (Int × α × PQ α) := do
  if q.size ≤ 0 then throw .empty
  let o ← read q.buf 0
  let (prio, val) ← unwrap o
  pure (prio, val, ⟨q.buf, q.size⟩)

/-- `discard_empty` -/
def discardEmpty (q : PQ α) : M Unit := do
  if q.size > 0 then throw .notEmpty
  allNothing q.buf

/-- `__next__` -/
def next (q : PQ α) : M (Option ((Int × α) × PQ α)) := do
  if q.len == 0 then
    discardEmpty q
    pure none
  else
    let (p, v, q') ← pop q
    pure (some ((p, v), q'))

end PQ

/-! ## Operation scripts (what the correspondence and the lifted theorems run) -/

inductive Op (α : Type) where
  | push (v : α) (p : Int)   -- Stack ignores `p`
  | pop
  | peek
  | len
  | next
  deriving Repr

/-- observable result of one operation -/
inductive Res (α : Type) where
  | unit                       -- push succeeded
  | val (p : Int) (v : α)      -- pop / peek (Stack: p = 0)
  | num (n : Nat)              -- len
  | done                       -- `__next__` returned `nothing`
  | panic (e : Err)            -- the program aborts here
  deriving Repr, DecidableEq

/-- run a script on a stack; a panic aborts the program (no further results). -/
def runStack {α} (cap : Nat) : Stack α → List (Op α) → List (Res α)
  | _, [] => []
  | s, .push v _ :: ops => match s.push cap v with
    | .ok s' => .unit :: runStack cap s' ops
    | .error e => [.panic e]
  | s, .pop :: ops => match s.pop with
    | .ok (x, s') => .val 0 x :: runStack cap s' ops
    | .error e => [.panic e]
  | s, .peek :: ops => match s.peek with
    | .ok (x, s') => .val 0 x :: runStack cap s' ops
    | .error e => [.panic e]
  | s, .len :: ops => .num s.len :: runStack cap s ops
  | s, .next :: ops => match s.next with
    | .ok (some (x, s')) => .val 0 x :: runStack cap s' ops
    | .ok none => [.done]      -- the stack has been consumed
    | .error e => [.panic e]

def runPQ {α} (cap : Nat) : PQ α → List (Op α) → List (Res α)
  | _, [] => []
  | q, .push v p :: ops => match q.push cap v p with
    | .ok q' => .unit :: runPQ cap q' ops
    | .error e => [.panic e]
  | q, .pop :: ops => match q.pop with
    | .ok (p, x, q') => .val p x :: runPQ cap q' ops
    | .error e => [.panic e]
  | q, .peek :: ops => match q.peek with
    | .ok (p, x, q') => .val p x :: runPQ cap q' ops
    | .error e => [.panic e]
  | q, .len :: ops => .num q.len :: runPQ cap q ops
  | q, .next :: ops => match q.next with
    | .ok (some ((p, x), q')) => .val p x :: runPQ cap q' ops
    | .ok none => [.done]
    | .error e => [.panic e]

end GuppyVerif.Coll
