import GuppyVerif.Gen.C21DunderMixin
/-! # C21 — how a comptime function's returned value becomes the function's outputs (tracing/function.py)

The signature of a function (comptime or regular) returns the *row* of its result type (`type_to_row`): nothing for
`None`, the elements for a tuple (also a tuple with one element), the type itself otherwise.  `trace_function` wires the
Python value the traced body returned to the Output node: `UnpackTuple` when the value is a tuple whose row is longer
than `unpackIfLenGt`, the value as it is when the row is longer than `singleIfLenGt`, nothing otherwise.  (The
`preserve` flag of comptime-argument types is not modelled.) -/
namespace GuppyVerif.C21

inductive RTy where
  | atom (n : Nat)          -- int, float, a struct, an array, …: one value
  | none
  | tuple (es : List RTy)

/-- `type_to_row` -/
def sigRow : RTy → List RTy
  | .none => []
  | .tuple es => es
  | t => [t]

def RTy.isTuple : RTy → Bool
  | .tuple _ => true
  | _ => false

/-- the types of the wires `trace_function` hands to `set_outputs` for a returned value of type `t` -/
def traceWires (needsTuple : Bool) (unpackGt singleGt : Nat) (t : RTy) : List RTy :=
  if (t.isTuple || !needsTuple) ∧ (sigRow t).length > unpackGt then sigRow t     -- outputs of UnpackTuple
  else if (sigRow t).length > singleGt then [t]
  else []

end GuppyVerif.C21
