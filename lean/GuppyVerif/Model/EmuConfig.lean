/-! Model of `guppylang/emulator/instance.py` (`_Options`, `EmulatorInstance`).

Both are frozen dataclasses; every `with_*` goes through `dataclasses.replace`, which builds a
new record sharing the *references* held by the old one.  The only references with mutable
state that the code touches are simulator objects (`random_seed` attribute; selene's
`_get_component_config` prefers `component.random_seed` over the `random_seed` argument).
State = a heap of simulator objects + the list of instances created so far + the log of
`run_shots` calls.  `step fixed` is the code after the repair of D10 (`with_seed` seeds a *copy*
of the simulator) when `fixed = true` and the original code (`with_seed` writes
`random_seed` of the shared object) when `fixed = false`.  Import-free, executable. -/
namespace GuppyVerif.EmuConfig

inductive SimKind where
  | quest | coinflip | stim
  | custom (c : Nat)
  deriving DecidableEq, Repr

/-- a simulator object on the heap: its class and its `random_seed` attribute -/
structure Sim where
  kind : SimKind
  seed : Option Nat
  deriving DecidableEq, Repr

/-- `_Options` (+ `_n_qubits` of the instance); `sim` is a heap reference, `runtime`,
    `errorModel`, `eventHook` are identities of objects the code never writes to -/
structure Inst where
  nQubits : Nat
  sim : Nat
  runtime : Nat
  errorModel : Nat
  eventHook : Nat
  shots : Nat
  shotIncrement : Nat
  shotOffset : Nat
  seed : Option Nat
  verbose : Bool
  timeout : Option Nat
  nProcesses : Nat
  deriving DecidableEq, Repr

/-- the derivation methods -/
inductive Deriv where
  | seed (v : Option Nat)
  | shots (n : Nat)
  | shotOffset (n : Nat)
  | shotIncrement (n : Nat)
  | nQubits (n : Nat)
  | nProcesses (n : Nat)
  | verbose (b : Bool)
  | timeout (t : Option Nat)
  | runtime (r : Nat)
  | errorModel (e : Nat)
  | eventHook (h : Nat)
  | simulator (sid : Nat)          -- `with_simulator(obj)`, obj = heap object `sid`
  | statevector | coinflip | stabilizer
  deriving DecidableEq, Repr

inductive Op where
  | newSim (k : SimKind) (seed : Option Nat)   -- the user constructs a simulator object
  | derive (i : Nat) (d : Deriv)               -- `insts[i].with_…(…)`, result appended
  | run (i : Nat)                              -- `insts[i].run()`
  deriving DecidableEq, Repr

/-- what `run()` hands to `SeleneInstance.run_shots` (object arguments by observable content) -/
structure RunArgs where
  simKind : SimKind
  simSeed : Option Nat          -- `simulator.random_seed` at the time of the call
  runtime : Nat
  errorModel : Nat
  eventHook : Nat
  nQubits : Nat
  shots : Nat
  verbose : Bool
  timeout : Option Nat
  seed : Option Nat             -- `random_seed=`
  shotOffset : Nat
  shotIncrement : Nat
  nProcesses : Nat
  deriving DecidableEq, Repr

/-- the seed selene gives the simulator: `component.random_seed` if set, else `random_seed` -/
def RunArgs.effSimSeed (a : RunArgs) : Option Nat :=
  match a.simSeed with
  | some s => some s
  | none => a.seed

structure State where
  heap : List Sim
  insts : List Inst
  log : List (Nat × RunArgs)
  deriving Repr

def argsOf (heap : List Sim) (c : Inst) : Option RunArgs :=
  match heap[c.sim]? with
  | none => none
  | some s => some
    { simKind := s.kind, simSeed := s.seed, runtime := c.runtime, errorModel := c.errorModel,
      eventHook := c.eventHook, nQubits := c.nQubits, shots := c.shots, verbose := c.verbose,
      timeout := c.timeout, seed := c.seed, shotOffset := c.shotOffset,
      shotIncrement := c.shotIncrement, nProcesses := c.nProcesses }

/-- the arguments a `run()` of instance `i` would pass right now -/
def view (s : State) (i : Nat) : Option RunArgs :=
  match s.insts[i]? with
  | none => none
  | some c => argsOf s.heap c

/-- one derivation; returns the new heap and the new instance. `none`: dangling reference. -/
def derive (fixed : Bool) (heap : List Sim) (c : Inst) : Deriv → Option (List Sim × Inst)
  | .seed v =>
    match heap[c.sim]? with
    | none => none
    | some s =>
      if fixed then some (heap ++ [{ s with seed := v }], { c with seed := v, sim := heap.length })
      else some (heap.set c.sim { s with seed := v }, { c with seed := v })
  | .shots n => some (heap, { c with shots := n })
  | .shotOffset n => some (heap, { c with shotOffset := n })
  | .shotIncrement n => some (heap, { c with shotIncrement := n })
  | .nQubits n => some (heap, { c with nQubits := n })
  | .nProcesses n => some (heap, { c with nProcesses := n })
  | .verbose b => some (heap, { c with verbose := b })
  | .timeout t => some (heap, { c with timeout := t })
  | .runtime r => some (heap, { c with runtime := r })
  | .errorModel e => some (heap, { c with errorModel := e })
  | .eventHook h => some (heap, { c with eventHook := h })
  | .simulator sid => if sid < heap.length then some (heap, { c with sim := sid }) else none
  | .statevector => some (heap ++ [⟨.quest, none⟩], { c with sim := heap.length })
  | .coinflip => some (heap ++ [⟨.coinflip, none⟩], { c with sim := heap.length })
  | .stabilizer => some (heap ++ [⟨.stim, none⟩], { c with sim := heap.length })

def step (fixed : Bool) (s : State) : Op → Option State
  | .newSim k sd => some { s with heap := s.heap ++ [⟨k, sd⟩] }
  | .derive i d =>
    match s.insts[i]? with
    | none => none
    | some c =>
      match derive fixed s.heap c d with
      | none => none
      | some (h, c') => some { s with heap := h, insts := s.insts ++ [c'] }
  | .run i =>
    match view s i with
    | none => none
    | some a => some { s with log := s.log ++ [(i, a)] }

def runOps (fixed : Bool) : State → List Op → Option State
  | s, [] => some s
  | s, op :: ops =>
    match step fixed s op with
    | none => none
    | some s' => runOps fixed s' ops

/-- `EmulatorInstance(_instance, _n_qubits=n)` with default `_Options()`: fresh Quest object,
    default runtime/error model/event hook are objects `0` -/
def initial (n : Nat) : State :=
  { heap := [⟨.quest, none⟩]
    insts := [{ nQubits := n, sim := 0, runtime := 0, errorModel := 0, eventHook := 0, shots := 1,
                shotIncrement := 1, shotOffset := 0, seed := none, verbose := false,
                timeout := none, nProcesses := 1 }]
    log := [] }

end GuppyVerif.EmuConfig
