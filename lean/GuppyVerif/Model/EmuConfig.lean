/-! Model of `guppylang/emulator/instance.py` (`_Options`, `EmulatorInstance`).

Both are frozen dataclasses; every `with_*` goes through `dataclasses.replace`, which builds a
new record sharing the *references* held by the old one.  The only references with mutable
state that the code touches are simulator objects (`random_seed` attribute; selene's
`_get_component_config` prefers `component.random_seed` over the `random_seed` argument).
The other components an instance references (runtime, error model, event hook) are objects of
the same kind — selene reads their `random_seed` too — so they live on a second heap (`comps`:
the `random_seed` attribute of each component object; the repaired code never writes it).
State = a heap of simulator objects + a heap of component objects + the list of instances
created so far + the log of `run_shots` calls.  `step fixed` is the code after the repair of D10 (`with_seed` seeds a *copy*
of the simulator) when `fixed = true` and the original code (`with_seed` writes
`random_seed` of the shared object) when `fixed = false`.

`guppylang/emulator/builder.py` (`EmulatorBuilder`, also a frozen dataclass) is modelled in the same
state: builders are records by value — the only container they hold, `_custom_args`, is never
written by the code (`with_build_arg` builds `self._custom_args | {key: value}`, the `custom_args`
property returns a copy) and is modelled as an insertion-ordered association list.  `build(pkg, n)`
calls `selene_sim.build(**kwargs)` (logged) and returns `EmulatorInstance(_instance=<that>, _n_qubits=n)`
with default `_Options()` (fresh simulator object).  Import-free, executable. -/
namespace GuppyVerif.EmuConfig

inductive SimKind where
  | quest | coinflip | stim
  | custom (c : Nat)
  deriving DecidableEq, Repr

/-- a simulator object on the heap: its class and its `random_seed` attribute -/
structure Sim where
  kind : SimKind
  seed : Option Nat
  deriving DecidableEq, Repr

/-- `_Options` (+ `_n_qubits` of the instance); `sim` is a heap reference, `runtime`,
    `errorModel`, `eventHook` are identities of objects the code never writes to -/
structure Inst where
  nQubits : Nat
  sim : Nat
  runtime : Nat
  errorModel : Nat
  eventHook : Nat
  shots : Nat
  shotIncrement : Nat
  shotOffset : Nat
  seed : Option Nat
  verbose : Bool
  timeout : Option Nat
  nProcesses : Nat
  progressBar : Bool
  /-- which `selene_sim.build` call produced `_instance` (index into the build log); `none`: given -/
  origin : Option Nat
  deriving DecidableEq, Repr

/-- the derivation methods -/
inductive Deriv where
  | seed (v : Option Nat)
  | shots (n : Nat)
  | shotOffset (n : Nat)
  | shotIncrement (n : Nat)
  | nQubits (n : Nat)
  | nProcesses (n : Nat)
  | verbose (b : Bool)
  | timeout (t : Option Nat)
  | progressBar (b : Bool)
  | runtime (r : Nat)
  | errorModel (e : Nat)
  | eventHook (h : Nat)
  | simulator (sid : Nat)          -- `with_simulator(obj)`, obj = heap object `sid`
  | statevector | coinflip | stabilizer
  deriving DecidableEq, Repr

/-- `EmulatorBuilder` (fields without a `with_*` method are constants and omitted) -/
structure Builder where
  name : Option Nat
  buildDir : Option Nat
  verbose : Bool
  /-- `_custom_args`: `none` = `None`, else the dict in insertion order -/
  args : Option (List (Nat × Nat))
  deriving DecidableEq, Repr

inductive BDeriv where
  | name (v : Option Nat)
  | buildDir (v : Option Nat)
  | verbose (b : Bool)
  | buildArg (k v : Nat)
  deriving DecidableEq, Repr

/-- `d | {k: v}` on an insertion-ordered dict -/
def dictSet (k v : Nat) : List (Nat × Nat) → List (Nat × Nat)
  | [] => [(k, v)]
  | (k', v') :: r => if k' = k then (k', v) :: r else (k', v') :: dictSet k v r

def bderive (b : Builder) : BDeriv → Builder
  | .name v => { b with name := v }
  | .buildDir v => { b with buildDir := v }
  | .verbose x => { b with verbose := x }
  | .buildArg k v =>
    match b.args with
    | none => { b with args := some [(k, v)] }
    | some d => { b with args := some (dictSet k v d) }

/-- keyword arguments of the `selene_sim.build` call (`**self._custom_args or {}`) -/
structure BuildArgs where
  name : Option Nat
  buildDir : Option Nat
  verbose : Bool
  custom : List (Nat × Nat)
  deriving DecidableEq, Repr

def buildArgs (b : Builder) : BuildArgs :=
  ⟨b.name, b.buildDir, b.verbose, b.args.getD []⟩

inductive Op where
  | newSim (k : SimKind) (seed : Option Nat)   -- the user constructs a simulator object
  | newComp (seed : Option Nat)                -- the user constructs a runtime / error model / event hook
  | derive (i : Nat) (d : Deriv)               -- `insts[i].with_…(…)`, result appended
  | run (i : Nat)                              -- `insts[i].run()`
  | bderive (i : Nat) (d : BDeriv)             -- `builders[i].with_…(…)`, result appended
  | build (i n : Nat)                          -- `builders[i].build(pkg, n)`, instance appended
  deriving DecidableEq, Repr

/-- what `run()` hands to `SeleneInstance.run_shots` (object arguments by observable content) -/
structure RunArgs where
  simKind : SimKind
  simSeed : Option Nat          -- `simulator.random_seed` at the time of the call
  runtime : Nat
  runtimeSeed : Option Nat      -- `runtime.random_seed` at the time of the call
  errorModel : Nat
  errorModelSeed : Option Nat   -- `error_model.random_seed` at the time of the call
  eventHook : Nat
  eventHookSeed : Option Nat
  nQubits : Nat
  shots : Nat
  verbose : Bool
  timeout : Option Nat
  seed : Option Nat             -- `random_seed=`
  shotOffset : Nat
  shotIncrement : Nat
  nProcesses : Nat
  progressBar : Bool            -- whether the shot stream is wrapped in tqdm
  deriving DecidableEq, Repr

/-- the seed selene gives the simulator: `component.random_seed` if set, else `random_seed` -/
def RunArgs.effSimSeed (a : RunArgs) : Option Nat :=
  match a.simSeed with
  | some s => some s
  | none => a.seed

structure State where
  heap : List Sim
  /-- component objects (runtimes, error models, event hooks): their `random_seed` attribute;
      index 0 stands for a default-constructed object -/
  comps : List (Option Nat)
  insts : List Inst
  log : List (Nat × RunArgs)
  builders : List Builder
  blog : List (Nat × BuildArgs)
  deriving Repr

def argsOf (heap : List Sim) (comps : List (Option Nat)) (c : Inst) : Option RunArgs :=
  match heap[c.sim]?, comps[c.runtime]?, comps[c.errorModel]?, comps[c.eventHook]? with
  | some s, some rs, some es, some hs => some
    { simKind := s.kind, simSeed := s.seed, runtime := c.runtime, runtimeSeed := rs,
      errorModel := c.errorModel, errorModelSeed := es, eventHook := c.eventHook, eventHookSeed := hs,
      nQubits := c.nQubits, shots := c.shots, verbose := c.verbose,
      timeout := c.timeout, seed := c.seed, shotOffset := c.shotOffset,
      shotIncrement := c.shotIncrement, nProcesses := c.nProcesses, progressBar := c.progressBar }
  | _, _, _, _ => none

/-- `_Options()` defaults; the simulator is the fresh object at heap index `sim` -/
def defaultInst (n sim : Nat) (origin : Option Nat) : Inst :=
  { nQubits := n, sim := sim, runtime := 0, errorModel := 0, eventHook := 0, shots := 1,
    shotIncrement := 1, shotOffset := 0, seed := none, verbose := false, timeout := none,
    nProcesses := 1, progressBar := false, origin := origin }

/-- the arguments a `run()` of instance `i` would pass right now -/
def view (s : State) (i : Nat) : Option RunArgs :=
  match s.insts[i]? with
  | none => none
  | some c => argsOf s.heap s.comps c

/-- one derivation; returns the new heap and the new instance. `none`: dangling reference. -/
def derive (fixed : Bool) (heap : List Sim) (comps : List (Option Nat)) (c : Inst) :
    Deriv → Option (List Sim × Inst)
  | .seed v =>
    match heap[c.sim]? with
    | none => none
    | some s =>
      if fixed then some (heap ++ [{ s with seed := v }], { c with seed := v, sim := heap.length })
      else some (heap.set c.sim { s with seed := v }, { c with seed := v })
  | .shots n => some (heap, { c with shots := n })
  | .shotOffset n => some (heap, { c with shotOffset := n })
  | .shotIncrement n => some (heap, { c with shotIncrement := n })
  | .nQubits n => some (heap, { c with nQubits := n })
  | .nProcesses n => some (heap, { c with nProcesses := n })
  | .verbose b => some (heap, { c with verbose := b })
  | .timeout t => some (heap, { c with timeout := t })
  | .progressBar b => some (heap, { c with progressBar := b })
  | .runtime r => if r < comps.length then some (heap, { c with runtime := r }) else none
  | .errorModel e => if e < comps.length then some (heap, { c with errorModel := e }) else none
  | .eventHook h => if h < comps.length then some (heap, { c with eventHook := h }) else none
  | .simulator sid => if sid < heap.length then some (heap, { c with sim := sid }) else none
  | .statevector => some (heap ++ [⟨.quest, none⟩], { c with sim := heap.length })
  | .coinflip => some (heap ++ [⟨.coinflip, none⟩], { c with sim := heap.length })
  | .stabilizer => some (heap ++ [⟨.stim, none⟩], { c with sim := heap.length })

def step (fixed : Bool) (s : State) : Op → Option State
  | .newSim k sd => some { s with heap := s.heap ++ [⟨k, sd⟩] }
  | .newComp sd => some { s with comps := s.comps ++ [sd] }
  | .derive i d =>
    match s.insts[i]? with
    | none => none
    | some c =>
      match derive fixed s.heap s.comps c d with
      | none => none
      | some (h, c') => some { s with heap := h, insts := s.insts ++ [c'] }
  | .run i =>
    match view s i with
    | none => none
    | some a => some { s with log := s.log ++ [(i, a)] }
  | .bderive i d =>
    match s.builders[i]? with
    | none => none
    | some b => some { s with builders := s.builders ++ [bderive b d] }
  | .build i n =>
    match s.builders[i]? with
    | none => none
    | some b => some
      { s with blog := s.blog ++ [(i, buildArgs b)], heap := s.heap ++ [⟨.quest, none⟩],
               insts := s.insts ++ [defaultInst n s.heap.length (some s.blog.length)] }

/-- what `builders[i].build(..)` would pass to `selene_sim.build` right now -/
def bview (s : State) (i : Nat) : Option BuildArgs := (s.builders[i]?).map buildArgs

/-- the `selene_sim.build` arguments that produced the `_instance` of instance `i`
    (`some none`: the instance was handed an existing `SeleneInstance`) -/
def originArgs (s : State) (i : Nat) : Option (Option BuildArgs) :=
  match s.insts[i]? with
  | none => none
  | some c =>
    match c.origin with
    | none => some none
    | some o => (s.blog[o]?).map fun e => some e.2

def runOps (fixed : Bool) : State → List Op → Option State
  | s, [] => some s
  | s, op :: ops =>
    match step fixed s op with
    | none => none
    | some s' => runOps fixed s' ops

/-- a given `EmulatorInstance(_instance, _n_qubits=n)` with default `_Options()` (fresh Quest
    object; default runtime/error model/event hook are written `0`) and a fresh `EmulatorBuilder()` -/
def initial (n : Nat) : State :=
  { heap := [⟨.quest, none⟩]
    comps := [none]
    insts := [defaultInst n 0 none]
    log := []
    builders := [⟨none, none, false, none⟩]
    blog := [] }

end GuppyVerif.EmuConfig
