/-! Model of `guppylang/std/iter.py`: struct `Range(next, stop, step)`, `Range.__next__`,
    `_range1`, `_range2`, `_range3`, `_range_comptime` (+ `SizedIter` annotation).
    Import-free, executable.

    Guppy's `int` is a 64-bit two's complement integer; `int.__add__` lowers to HUGR `iadd`
    (wrap-around).  Values are modelled as `Int` kept in `[-2^63, 2^63)`; `wrap` is the
    reduction that `iadd` performs.  Comparisons are the signed ones (`ige_s`, `ile_s`). -/
namespace GuppyVerif.Range

/-- two's complement reduction of an integer into `[-2^63, 2^63)` -/
def wrap (x : Int) : Int := (x + 9223372036854775808) % 18446744073709551616 - 9223372036854775808

/-- `@guppy.struct class Range: next: int; stop: int; step: int` -/
structure Range where
  next : Int
  stop : Int
  step : Int
  deriving DecidableEq, Repr

/-- `Range.__next__`:
    ```
    end = (self.next >= self.stop) if self.step >= 0 else (self.next <= self.stop)
    if end: return nothing()
    return some((self.next, Range(self.next + self.step, self.stop, self.step)))
    ```
    `none` = `nothing()`.  Note `step = 0` takes the `>=` branch (no error is raised). -/
def Range.next? (r : Range) : Option (Int × Range) :=
  let stopNow : Bool := if r.step ≥ 0 then decide (r.next ≥ r.stop) else decide (r.next ≤ r.stop)
  if stopNow then none
  else some (r.next, ⟨wrap (r.next + r.step), r.stop, r.step⟩)

/-- `_range1(stop) = Range(0, stop, 1)` -/
def range1 (stop : Int) : Range := ⟨0, stop, 1⟩
/-- `_range2(start, stop) = Range(start, stop, 1)` -/
def range2 (start stop : Int) : Range := ⟨start, stop, 1⟩
/-- `_range3(start, stop, step) = Range(start, stop, step)` -/
def range3 (start stop step : Int) : Range := ⟨start, stop, step⟩

/-- `SizedIter[Range, n]`: an iterator together with its static size annotation. -/
structure SizedRange where
  iter : Range
  size : Nat
  deriving DecidableEq, Repr

/-- `_range_comptime(stop: nat @ comptime) -> "SizedIter[Range, stop]"`:
    `SizedIter(Range(0, stop, 1))`.  `stop` is a 64-bit *unsigned* `nat`; the type checker
    inserts the implicit coercion `nat.__int__` (a `NoopCompiler`: the 64 bits are
    reinterpreted as signed), modelled by `wrap`.  The size annotation is `stop` itself. -/
def rangeComptime (n : Nat) : SizedRange := ⟨⟨0, wrap (n : Int), 1⟩, n⟩

/-- Drive the iterator as a `for` loop does: call `__next__` until `nothing()`, at most
    `fuel` times.  Returns the yielded values and the state the loop stopped in (the
    iteration has terminated iff `next?` of that state is `none`). -/
def run : Nat → Range → List Int × Range
  | 0, r => ([], r)
  | fuel + 1, r =>
    match r.next? with
    | none => ([], r)
    | some (v, r') =>
      let res := run fuel r'
      (v :: res.1, res.2)

/-- has the iteration terminated in state `r`? -/
def Range.done (r : Range) : Bool := r.next?.isNone

end GuppyVerif.Range
