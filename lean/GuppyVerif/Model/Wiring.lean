/-! # Model of the block wiring of `compiler/cfg_compiler.py` (C03: `row_agreement`, `return_vars_order`)

Import-free.  `compile_bb` decides in which order a basic block receives its live places (`inputs`) and
in which order it hands places to each successor (`outputs`, plus the variant row of the branch
`TupleSum` when the successors need different places); `sort_vars` / `compare_var` fix the order
(key `(not droppable, str(place))`: droppable places first, then by name); `insert_return_vars`
prepends the dummy return variables on edges into the exit block. -/
namespace GuppyVerif.Wiring

/-- a place as far as wiring is concerned: its printed form (`str(p)`, unique per place in a row) and
    whether its type is droppable (non-droppable = linear: goes to the end) -/
structure Place where
  name : String
  droppable : Bool
  deriving DecidableEq, Repr, Inhabited

/-- `compare_var p q == -1`: `(not p.ty.droppable, str(p)) < (not q.ty.droppable, str(q))` -/
def keyLt (p q : Place) : Bool :=
  (p.droppable && !q.droppable) || (p.droppable == q.droppable && decide (p.name < q.name))

def insertVar (p : Place) : List Place → List Place
  | [] => [p]
  | q :: qs => if keyLt p q then p :: q :: qs else q :: insertVar p qs

/-- `sort_vars(row)` = `sorted(row, key=cmp_to_key(compare_var))` (rows have pairwise distinct keys, for
    which every correct sorting algorithm returns the same list) -/
def sortVars (row : List Place) : List Place := row.foldr insertVar []

/-- `{p.id for p in a} == {p.id for p in b}` -/
def sameIds (a b : List Place) : Bool :=
  a.all (fun p => b.any fun q => q.name == p.name) && b.all (fun p => a.any fun q => q.name == p.name)

structure Sig where
  inRow : List Place
  outRows : List (List Place)
  deriving Repr, Inhabited

/-- the order in which the block's input node provides the places (`inputs` in `compile_bb`) -/
def blockInputs (isEntry : Bool) (s : Sig) : List Place :=
  if isEntry then s.inRow else sortVars s.inRow

/-- for every successor, the places it receives in order: the branch's `TupleSum` variant row (if that
    path is taken) followed by the block's ordinary outputs.  `exits[i]`: successor `i` is the exit
    block.  `none`: an assertion of `compile_bb` fails (a branching block with an edge to the exit). -/
def deliver (s : Sig) (exits : List Bool) : Option (List (List Place)) :=
  match s.outRows with
  | [] => some []
  | [row] => some [if exits.headD false then row else sortVars row]
  | first :: rest =>
    if exits.any id then none
    else if rest.all (sameIds first) then some ((first :: rest).map fun _ => sortVars first)
    else
      let common := sortVars (first.filter fun p => !p.droppable)
      some ((first :: rest).map fun row => (sortVars row).filter (·.droppable) ++ common)

/-- `return_var(i)` -/
def retVar (i : Nat) (droppable : Bool) : Place := ⟨"%ret" ++ toString i, droppable⟩

/-- `insert_return_vars`: the new exit input row and the new output row of a predecessor of the exit;
    `tys[i]` = droppability of the i-th return type -/
def insertReturnVars (tys : List Bool) (exitIn predOut : List Place) : List Place × List Place :=
  let rv := tys.zipIdx.map fun (d, i) => retVar i d
  (rv ++ exitIn, rv ++ predOut)

end GuppyVerif.Wiring
