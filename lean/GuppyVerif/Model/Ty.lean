import GuppyVerif.Util.Sexp
/-! Guppy types as in `guppylang_internals/tys/{ty,arg,const,param,var}.py`.

  * `Ty`     — `NumericType | NoneType | BoundTypeVar | ExistentialTypeVar | TupleType |
               FunctionType | OpaqueType | StructType`
  * `Arg`    — `TypeArg | ConstArg`
  * `Const`  — `ConstValue | BoundConstVar | ExistentialConstVar`
  * `Param`  — `TypeParam | ConstParam`

  Definitions are referred to by name (`defn`); a struct type additionally carries the field types
  of its *definition* (`CheckedStructDef.fields`, expressed over the struct's own parameters as
  bound variables) so that `StructType.fields` (= definition fields instantiated with `args`) can be
  computed without a global environment.  `preserve` is the `compare=False` flag of
  `TupleType`/`NoneType`.

  Import-free apart from the S-expression helper; executable.  Also contains the `Instantiator`
  transformer of `tys/subst.py` (`Ty.inst`) because `StructType.fields` needs it, and the
  S-expression reader/printer used by the line-protocol drivers of C13/C14/C31. -/
namespace GuppyVerif

inductive NumKind where
  | nat | int | float
  deriving DecidableEq, Repr, Inhabited

/-- the Python object stored in `ConstValue.value` (floats and anything else by `repr`) -/
inductive PyVal where
  | int (v : Int)
  | bool (b : Bool)
  | float (repr : String)
  | other (repr : String)
  deriving DecidableEq, Repr, Inhabited

/-- `InputFlags` (a `Flag` enum: any subset of Inout/Owned/Comptime) -/
structure Flags where
  inout : Bool
  owned : Bool
  comptime : Bool
  deriving DecidableEq, Repr, Inhabited

mutual
inductive Ty where
  | num (k : NumKind)
  | none (preserve : Bool)
  | bvar (name : String) (idx : Nat) (cp dr : Bool)
  | evar (name : String) (id : Nat) (cp dr : Bool)
  | tuple (ts : List Ty) (preserve : Bool)
  /-- `FunctionType(inputs, output, params, comptime_args)` -/
  | func (ins : List FuncIn) (out : Ty) (params : List Param) (cargs : List Const)
  | opaque (defn : String) (args : List Arg)
  /-- `StructType(args, defn)`; `fields` = `defn.fields` types (over the struct's parameters) -/
  | struct (defn : String) (args : List Arg) (fields : List Ty)
inductive FuncIn where
  | mk (ty : Ty) (flags : Flags)
inductive Arg where
  | ty (t : Ty)
  | const (c : Const)
inductive Const where
  | val (ty : Ty) (v : PyVal)
  | bvar (ty : Ty) (name : String) (idx : Nat)
  | evar (ty : Ty) (name : String) (id : Nat)
inductive Param where
  | ty (idx : Nat) (name : String) (cp dr : Bool)
  | const (idx : Nat) (name : String) (ty : Ty) (fromComptime : Bool)
end

instance : Inhabited Ty := ⟨.none false⟩
instance : Inhabited Arg := ⟨.ty default⟩
instance : Inhabited Const := ⟨.val default default⟩
instance : Inhabited Param := ⟨.ty 0 "" false false⟩
instance : Inhabited FuncIn := ⟨.mk default default⟩

def FuncIn.ty' : FuncIn → Ty | .mk t _ => t
def FuncIn.flags : FuncIn → Flags | .mk _ f => f

/-! ## Structural equality (Python `==` on the frozen dataclasses: `preserve` and input names are
    `compare=False`) -/
mutual
def Ty.beq : Ty → Ty → Bool
  | .num k, .num k' => k == k'
  | .none _, .none _ => true
  | .bvar n i c d, .bvar n' i' c' d' => n == n' && i == i' && c == c' && d == d'
  | .evar n i c d, .evar n' i' c' d' => n == n' && i == i' && c == c' && d == d'
  | .tuple ts _, .tuple ts' _ => Ty.beqList ts ts'
  | .func ins o ps cs, .func ins' o' ps' cs' =>
      FuncIn.beqList ins ins' && Ty.beq o o' && Param.beqList ps ps' && Const.beqList cs cs'
  | .opaque n as, .opaque n' as' => n == n' && Arg.beqList as as'
  | .struct n as _, .struct n' as' _ => n == n' && Arg.beqList as as'
  | _, _ => false
def Ty.beqList : List Ty → List Ty → Bool
  | [], [] => true
  | a :: as, b :: bs => Ty.beq a b && Ty.beqList as bs
  | _, _ => false
def FuncIn.beq : FuncIn → FuncIn → Bool
  | .mk t f, .mk t' f' => Ty.beq t t' && f == f'
def FuncIn.beqList : List FuncIn → List FuncIn → Bool
  | [], [] => true
  | a :: as, b :: bs => FuncIn.beq a b && FuncIn.beqList as bs
  | _, _ => false
def Arg.beq : Arg → Arg → Bool
  | .ty t, .ty t' => Ty.beq t t'
  | .const c, .const c' => Const.beq c c'
  | _, _ => false
def Arg.beqList : List Arg → List Arg → Bool
  | [], [] => true
  | a :: as, b :: bs => Arg.beq a b && Arg.beqList as bs
  | _, _ => false
def Const.beq : Const → Const → Bool
  | .val t v, .val t' v' => Ty.beq t t' && v == v'
  | .bvar t n i, .bvar t' n' i' => Ty.beq t t' && n == n' && i == i'
  | .evar t n i, .evar t' n' i' => Ty.beq t t' && n == n' && i == i'
  | _, _ => false
def Const.beqList : List Const → List Const → Bool
  | [], [] => true
  | a :: as, b :: bs => Const.beq a b && Const.beqList as bs
  | _, _ => false
def Param.beq : Param → Param → Bool
  | .ty i n c d, .ty i' n' c' d' => i == i' && n == n' && c == c' && d == d'
  | .const i n t f, .const i' n' t' f' => i == i' && n == n' && Ty.beq t t' && f == f'
  | _, _ => false
def Param.beqList : List Param → List Param → Bool
  | [], [] => true
  | a :: as, b :: bs => Param.beq a b && Param.beqList as bs
  | _, _ => false
end

/-! ## `Instantiator` (tys/subst.py), without `allow_partial`

  `inst σ t` replaces `BoundTypeVar(idx)` with `σ[idx].ty` when `idx < len σ` and lowers the index by
  `len σ` otherwise; likewise for `BoundConstVar`.  A kind mismatch (`assert isinstance(arg, TypeArg)`)
  and a parametrized function type ("Tried to instantiate under binder") are errors (`none`).
  `_transform_BoundConstVar` always answers for a bound const variable (instantiate or lower) and keeps
  the variable's own type `c.ty` untouched.  `ExistentialConstVar.transform` calls
  `transformer.transform(self.ty) or self.ty`: its type is rewritten only when it is itself a bound
  type variable (the transformer is applied to the root only); `ConstValue` is returned unchanged.
  Not modelled here (see Model/Instantiate.lean for C13's own complete copy): the `higher-rank`
  InternalGuppyError of `ParametrizedTypeBase.__post_init__` when an opaque/struct type is rebuilt
  with a parametrized function type argument, and `ConstBase.__post_init__` on a rebuilt
  `ExistentialConstVar`. -/
def Arg.asTy? : Arg → Option Ty | .ty t => some t | .const _ => none
def Arg.asConst? : Arg → Option Const | .const c => some c | .ty _ => none

/-- `Instantiator._transform_BoundTypeVar` -/
def instVar (σ : List Arg) (name : String) (idx : Nat) (cp dr : Bool) : Option Ty :=
  if idx < σ.length then
    match σ[idx]? with
    | some (.ty t) => some t
    | _ => none
  else some (.bvar name (idx - σ.length) cp dr)

/-- `transformer.transform(c.ty) or c.ty` for an `Instantiator`: root-only rewrite -/
def instRoot (σ : List Arg) : Ty → Option Ty
  | .bvar n i c d => instVar σ n i c d
  | .func ins o ps cs => if ps.isEmpty then some (.func ins o ps cs) else none
  | t => some t

mutual
def Ty.inst (σ : List Arg) : Ty → Option Ty
  | .num k => some (.num k)
  | .none p => some (.none p)
  | .bvar n i c d => instVar σ n i c d
  | .evar n i c d => some (.evar n i c d)
  | .tuple ts p => do some (.tuple (← Ty.instList σ ts) p)
  | .func ins o ps cs =>
      -- `FunctionType.transform` rebuilds `FunctionType(inputs', output', self.params,
      -- comptime_args=[arg.transform(..)])` (comptime args kept since /repo commit a3b7e76)
      if ps.isEmpty then do
        some (.func (← FuncIn.instList σ ins) (← Ty.inst σ o) [] (← Const.instList σ cs))
      else Option.none
  | .opaque n as => do some (.opaque n (← Arg.instList σ as))
  | .struct n as fs => do some (.struct n (← Arg.instList σ as) fs)
def Ty.instList (σ : List Arg) : List Ty → Option (List Ty)
  | [] => some []
  | t :: ts => do some ((← Ty.inst σ t) :: (← Ty.instList σ ts))
def FuncIn.inst (σ : List Arg) : FuncIn → Option FuncIn
  | .mk t f => do some (.mk (← Ty.inst σ t) f)
def FuncIn.instList (σ : List Arg) : List FuncIn → Option (List FuncIn)
  | [] => some []
  | t :: ts => do some ((← FuncIn.inst σ t) :: (← FuncIn.instList σ ts))
def Arg.inst (σ : List Arg) : Arg → Option Arg
  | .ty t => do some (.ty (← Ty.inst σ t))
  | .const c => do some (.const (← Const.inst σ c))
def Arg.instList (σ : List Arg) : List Arg → Option (List Arg)
  | [] => some []
  | t :: ts => do some ((← Arg.inst σ t) :: (← Arg.instList σ ts))
def Const.inst (σ : List Arg) : Const → Option Const
  | .val t v => some (.val t v)
  | .bvar t n i =>
      if i < σ.length then
        match σ[i]? with
        | some (.const c) => some c
        | _ => Option.none
      else some (.bvar t n (i - σ.length))  -- quirk: the variable's own type is NOT rewritten
  | .evar t n i => do some (.evar (← instRoot σ t) n i)
def Const.instList (σ : List Arg) : List Const → Option (List Const)
  | [] => some []
  | t :: ts => do some ((← Const.inst σ t) :: (← Const.instList σ ts))
end

/-- `StructType.fields` (types only): the definition's fields instantiated with the arguments -/
def Ty.structFields (args : List Arg) (defFields : List Ty) : Option (List Ty) :=
  Ty.instList args defFields

/-! ## S-expression reader / printer (drivers only) -/
namespace TySexp
open Sexp

def bool? : Sexp → Option Bool
  | .atom "1" => some true
  | .atom "0" => some false
  | _ => Option.none

def showBool (b : Bool) : Sexp := .atom (if b then "1" else "0")

def numKind? : Sexp → Option NumKind
  | .atom "nat" => some .nat | .atom "int" => some .int | .atom "float" => some .float | _ => Option.none

def showKind : NumKind → String | .nat => "nat" | .int => "int" | .float => "float"

def pyVal? : Sexp → Option PyVal
  | .list [.atom "int", v] => do some (.int (← v.asInt?))
  | .list [.atom "bool", v] => do some (.bool (← bool? v))
  | .list [.atom "float", .atom r] => some (.float r)
  | .list [.atom "other", .atom r] => some (.other r)
  | _ => Option.none

def showPyVal : PyVal → Sexp
  | .int v => .list [.atom "int", .atom (toString v)]
  | .bool b => .list [.atom "bool", showBool b]
  | .float r => .list [.atom "float", .atom r]
  | .other r => .list [.atom "other", .atom r]

mutual
partial def ty? : Sexp → Option Ty
  | .list [.atom "num", k] => do some (.num (← numKind? k))
  | .list [.atom "none", p] => do some (.none (← bool? p))
  | .list [.atom "bvar", .atom n, i, c, d] => do some (.bvar n (← i.asNat?) (← bool? c) (← bool? d))
  | .list [.atom "evar", .atom n, i, c, d] => do some (.evar n (← i.asNat?) (← bool? c) (← bool? d))
  | .list (.atom "tuple" :: p :: ts) => do some (.tuple (← ts.mapM ty?) (← bool? p))
  | .list [.atom "func", .list ins, o, .list ps, .list cs] => do
      some (.func (← ins.mapM funcIn?) (← ty? o) (← ps.mapM param?) (← cs.mapM const?))
  | .list (.atom "opaque" :: .atom n :: as) => do some (.opaque n (← as.mapM arg?))
  | .list [.atom "struct", .atom n, .list as, .list fs] => do
      some (.struct n (← as.mapM arg?) (← fs.mapM ty?))
  | _ => Option.none
partial def funcIn? : Sexp → Option FuncIn
  | .list [.atom "in", t, a, b, c] => do
      some (.mk (← ty? t) ⟨← bool? a, ← bool? b, ← bool? c⟩)
  | _ => Option.none
partial def arg? : Sexp → Option Arg
  | .list [.atom "ty", t] => do some (.ty (← ty? t))
  | .list [.atom "const", c] => do some (.const (← const? c))
  | _ => Option.none
partial def const? : Sexp → Option Const
  | .list [.atom "val", t, v] => do some (.val (← ty? t) (← pyVal? v))
  | .list [.atom "cbvar", t, .atom n, i] => do some (.bvar (← ty? t) n (← i.asNat?))
  | .list [.atom "cevar", t, .atom n, i] => do some (.evar (← ty? t) n (← i.asNat?))
  | _ => Option.none
partial def param? : Sexp → Option Param
  | .list [.atom "tparam", i, .atom n, c, d] => do some (.ty (← i.asNat?) n (← bool? c) (← bool? d))
  | .list [.atom "cparam", i, .atom n, t, f] => do some (.const (← i.asNat?) n (← ty? t) (← bool? f))
  | _ => Option.none
end

/-- `None` in a partial instantiation is the atom `-` -/
def optArg? : Sexp → Option (Option Arg)
  | .atom "-" => some Option.none
  | e => do some (some (← arg? e))

mutual
partial def showTy : Ty → Sexp
  | .num k => .list [.atom "num", .atom (showKind k)]
  | .none p => .list [.atom "none", showBool p]
  | .bvar n i c d => .list [.atom "bvar", .atom n, .atom (toString i), showBool c, showBool d]
  | .evar n i c d => .list [.atom "evar", .atom n, .atom (toString i), showBool c, showBool d]
  | .tuple ts p => .list (.atom "tuple" :: showBool p :: ts.map showTy)
  | .func ins o ps cs =>
      .list [.atom "func", .list (ins.map showFuncIn), showTy o, .list (ps.map showParam),
        .list (cs.map showConst)]
  | .opaque n as => .list (.atom "opaque" :: .atom n :: as.map showArg)
  | .struct n as fs => .list [.atom "struct", .atom n, .list (as.map showArg), .list (fs.map showTy)]
partial def showFuncIn : FuncIn → Sexp
  | .mk t f => .list [.atom "in", showTy t, showBool f.inout, showBool f.owned, showBool f.comptime]
partial def showArg : Arg → Sexp
  | .ty t => .list [.atom "ty", showTy t]
  | .const c => .list [.atom "const", showConst c]
partial def showConst : Const → Sexp
  | .val t v => .list [.atom "val", showTy t, showPyVal v]
  | .bvar t n i => .list [.atom "cbvar", showTy t, .atom n, .atom (toString i)]
  | .evar t n i => .list [.atom "cevar", showTy t, .atom n, .atom (toString i)]
partial def showParam : Param → Sexp
  | .ty i n c d => .list [.atom "tparam", .atom (toString i), .atom n, showBool c, showBool d]
  | .const i n t f => .list [.atom "cparam", .atom (toString i), .atom n, showTy t, showBool f]
end

end TySexp
end GuppyVerif
