import GuppyVerif.Model.IntSem
/-! # IntLit — integer literals / comptime integers: range check, typing, folding, encoding (C17)

Mirrors, in case order,
* `checker/expr_checker.py`: `_int_bounds_check`, `python_value_to_guppy_type` (int / tuple / list cases),
  `ExprChecker.visit_Constant` (+ `check_type_against`/`try_coerce_to` restricted to numeric kinds),
  `ExprChecker.visit_ComptimeExpr` (unify only, no coercion), `ExprSynthesizer.visit_Constant`;
* `cfg/builder.py`: `ExprBuilder.visit_UnaryOp` (negated numeric constant folded *before* children are visited);
* `compiler/expr_compiler.py`: `python_value_to_hugr` (int case) with `hugr.std.int.IntVal.to_value`
  (`_to_unsigned`) and `UnsignedIntVal.to_value` (arithmetic.py).
Import-free. -/
namespace GuppyVerif.IntLit
open GuppyVerif.IntSem

/-- `NumericType.Kind` (declaration order = coercion order) -/
inductive Kind | nat | int | float
  deriving DecidableEq, Repr, Inhabited

def Kind.rank : Kind → Nat
  | .nat => 0 | .int => 1 | .float => 2

/-- `NumericType.INT_WIDTH` -/
def INT_WIDTH : Nat := 6

/-- `_int_bounds_check(value, node, signed)`: `true` = no `IntOverflowError` -/
def boundsOk (value : Int) (signed : Bool) : Bool :=
  let bitWidth : Nat := 1 <<< INT_WIDTH
  let maxV : Int := if signed then ((1 <<< (bitWidth - 1) : Nat) : Int) - 1 else ((1 <<< bitWidth : Nat) : Int) - 1
  let minV : Int := if signed then -((1 <<< (bitWidth - 1) : Nat) : Int) else 0
  !(decide (value < minV) || decide (value > maxV))

inductive Res
  | ok (k : Kind)      -- accepted, expression has numeric kind k (after any coercion)
  | overflow           -- IntOverflowError
  | mismatch           -- TypeMismatchError
  | incoherent         -- ComptimeExprIncoherentListError
  deriving DecidableEq, Repr, Inhabited

/-- `python_value_to_guppy_type(v:int, …, type_hint)`; `none` = IntOverflowError raised.
    `case int(n) if type_hint == nat_type() and n >= 0` comes first. -/
def valueType (v : Int) (hintIsNat : Bool) : Option Kind :=
  if hintIsNat && decide (v ≥ 0) then
    if boundsOk v false then some .nat else none
  else
    if boundsOk v true then some .int else none

/-- `check_type_against(act, exp)` on numeric kinds: unify, else `try_coerce_to` (`act.kind < exp.kind`) -/
def against (act exp : Kind) : Res :=
  if act = exp then .ok exp
  else if act.rank < exp.rank then .ok exp
  else .mismatch

/-- `ExprChecker.visit_Constant(node, ty)` for an int value at expected numeric kind -/
def checkConst (v : Int) (exp : Kind) : Res :=
  match valueType v (exp == .nat) with
  | none => .overflow
  | some act => against act exp

/-- `ExprSynthesizer.visit_Constant` (no hint) -/
def synthConst (v : Int) : Res :=
  match valueType v false with
  | none => .overflow
  | some k => .ok k

/-- `ExprChecker.visit_ComptimeExpr(node, ty)`: `unify(ty, act)` only — no implicit coercion -/
def checkComptime (v : Int) (exp : Kind) : Res :=
  match valueType v (exp == .nat) with
  | none => .overflow
  | some act => if act = exp then .ok exp else .mismatch

/-! ## literal syntax and the builder's folding -/

/-- source forms: a (non-negative) integer literal, or unary minus applied to a form -/
inductive Lit
  | pos (n : Nat)
  | neg (e : Lit)
  deriving Repr, Inhabited

/-- what the CFG builder leaves for the checker -/
inductive Folded
  | const (v : Int)
  | negOp (e : Folded)     -- a remaining `ast.UnaryOp(USub, e)`  →  `int.__neg__`
  deriving Repr, Inhabited

/-- `ExprBuilder.visit_UnaryOp`: `-Constant(v)` becomes `Constant(-v)`; the match is on the *unvisited*
    operand, so in `-(-5)` only the inner minus folds. -/
def fold : Lit → Folded
  | .pos n => .const (n : Int)
  | .neg (.pos n) => .const (-(n : Int))
  | .neg e => .negOp (fold e)

/-- synthesize a folded form (operand of a remaining unary minus): constants default to `int`;
    `int.__neg__ : int -> int` -/
def synthFolded : Folded → Res
  | .const v => synthConst v
  | .negOp e => match synthFolded e with
    | .ok .int => .ok .int
    | .ok .float => .ok .float
    | .ok .nat => .mismatch       -- nat has no __neg__ (unreachable: constants synthesize to int)
    | r => r

/-- check a folded form against an expected numeric kind -/
def checkFolded (f : Folded) (exp : Kind) : Res :=
  match f with
  | .const v => checkConst v exp
  | .negOp _ => match synthFolded f with
    | .ok act => against act exp
    | r => r

def checkLit (l : Lit) (exp : Kind) : Res := checkFolded (fold l) exp

/-- Python's value of the source form -/
def Lit.pyVal : Lit → Int
  | .pos n => n
  | .neg e => - e.pyVal

/-! ## tuples and lists of comptime integers -/

/-- `python_value_to_guppy_type(tuple)` + `unify` for `comptime((v₁,…,vₙ))` at `tuple[k₁,…,kₙ]`
    (equal lengths; elementwise, first failure wins) -/
def checkComptimeTuple : List Int → List Kind → Res
  | [], [] => .ok .int   -- kind irrelevant: "accepted"
  | v :: vs, k :: ks =>
    match valueType v (k == .nat) with
    | none => .overflow
    | some act =>
      -- remaining elements are typed (and may overflow) before unification happens
      match checkComptimeTuple vs ks with
      | .ok _ => if act = k then .ok .int else .mismatch
      | r => r
  | _, _ => .mismatch

/-- `_python_list_to_guppy_type` for a non-empty list at `frozenarray[k, n]`, then `unify` -/
def listType (hintIsNat : Bool) : List Int → Option Kind → Res
  | [], none => .ok .int
  | [], some k => .ok k
  | v :: vs, cur =>
    match valueType v hintIsNat with
    | none => .overflow
    | some t =>
      match cur with
      | none => listType hintIsNat vs (some t)
      | some k => if t = k then listType hintIsNat vs (some k) else .incoherent

def checkComptimeList (vs : List Int) (k : Kind) : Res :=
  match listType (k == .nat) vs none with
  | .ok act => if vs.isEmpty then .ok k else if act = k then .ok k else .mismatch
  | r => r

/-! ## encoding of the constant in the Hugr and how the runtime reads it back -/

/-- `hugr.std.int._to_unsigned(val, bits)`; `none` = ValueError -/
def toUnsigned (val : Int) (bits : Nat) : Option Nat :=
  let halfMax : Int := ((1 <<< (bits - 1) : Nat) : Int)
  if val < -halfMax || val > halfMax - 1 then none
  else if val < 0 then some (((1 <<< bits : Nat) : Int) + val).toNat
  else some val.toNat

/-- `python_value_to_hugr(v:int, exp_ty)` → the `value` field of the `ConstInt` payload
    (`log_width` is `INT_WIDTH`); `none` = exception (`assert self.v >= 0` / ValueError / InternalGuppyError) -/
def payload (v : Int) : Kind → Option Nat
  | .nat => if v ≥ 0 then some v.toNat else none        -- UnsignedIntVal: only `assert v >= 0`
  | .int => toUnsigned v (1 <<< INT_WIDTH)              -- IntVal.to_value
  | .float => none                                      -- "Unexpected numeric type"

/-- the runtime value of `ConstInt{log_width=6, value=u}` read at Guppy `int` (two's complement) -/
def decodeS (u : Nat) : Int := (BitVec.ofNat 64 u).toInt
/-- … read at Guppy `nat` -/
def decodeU (u : Nat) : Int := ((BitVec.ofNat 64 u).toNat : Int)

/-- runtime value (as 64 bits) of an accepted folded form of kind `int` -/
def evalFolded : Folded → Option W
  | .const v => (payload v .int).map (BitVec.ofNat 64)
  | .negOp e => (evalFolded e).map ineg

end GuppyVerif.IntLit
