/-! Model of `guppylang_internals/diagnostic.py`: `wrap` (with the part of CPython's
    `textwrap.TextWrapper` that is reachable for the options the code passes:
    `break_long_words=False, break_on_hyphens=False`, everything else default),
    `DiagnosticsRenderer.render_snippet` / `render_diagnostic`, and the pieces of `span.py`
    they use (`Loc.shift_left`, `Span.__len__`, `SourceMap.span_lines`).

    Strings are `List Char`.  Character classes: the model distinguishes ASCII whitespace
    (`isWs`, the class of textwrap's regex and of `str.strip` on the generated alphabet) and the
    line boundaries of `str.splitlines` (`isBreak`).  Other Unicode whitespace (NBSP, U+2000…,
    `\x1f`) is outside the modelled alphabet (the tie never generates it).
    Import-free, executable, total. -/
namespace GuppyVerif.Render

abbrev Str := List Char

/-- textwrap's `_whitespace = '\t\n\x0b\x0c\r '` -/
def isWs (c : Char) : Bool :=
  c == ' ' || c == '\t' || c == '\n' || c == '\r' || c == '\x0b' || c == '\x0c'

/-- line boundaries of `str.splitlines()` -/
def isBreak (c : Char) : Bool :=
  c == '\n' || c == '\r' || c == '\x0b' || c == '\x0c' || c == '\x1c' || c == '\x1d' ||
  c == '\x1e' || c == '\u0085' || c == '\u2028' || c == '\u2029'

/-! ## `str.splitlines()` -/

/-- `cur` is the current line, reversed.  `\r\n` is one boundary; a trailing boundary does not
    open a new empty line. -/
def splitlinesAux : Str → Str → List Str
  | [], cur => if cur.isEmpty then [] else [cur.reverse]
  | [c], cur => if isBreak c then [cur.reverse] else [(c :: cur).reverse]
  | c :: d :: rest, cur =>
    if c == '\r' && d == '\n' then cur.reverse :: splitlinesAux rest []
    else if isBreak c then cur.reverse :: splitlinesAux (d :: rest) []
    else splitlinesAux (d :: rest) (c :: cur)

def splitlines (s : Str) : List Str := splitlinesAux s []

/-! ## `textwrap.wrap(paragraph, width, break_long_words=False, break_on_hyphens=False)` -/

/-- `str.expandtabs(8)`; `col` is the running column -/
def expandtabs : Str → Nat → Str
  | [], _ => []
  | c :: cs, col =>
    if c == '\t' then
      List.replicate (8 - col % 8) ' ' ++ expandtabs cs (col + (8 - col % 8))
    else if c == '\n' || c == '\r' then c :: expandtabs cs 0
    else c :: expandtabs cs (col + 1)

/-- `text.translate(unicode_whitespace_trans)` -/
def munge (s : Str) : Str := s.map fun c => if isWs c then ' ' else c

/-- `wordsep_simple_re.split(text)` without the empty strings: maximal runs of whitespace /
    non-whitespace characters, in order -/
def splitChunks : Str → List Str
  | [] => []
  | c :: cs =>
    match splitChunks cs with
    | (d :: ds) :: rest => if isWs c == isWs d then (c :: d :: ds) :: rest else [c] :: (d :: ds) :: rest
    | _ => [[c]]

/-- `chunk.strip() == ''` -/
def isBlank (c : Str) : Bool := c.all isWs

/-- inner `while chunks:` loop of `_wrap_chunks`: take chunks while they fit.
    Returns (chunks put on the line, remaining chunks). -/
def fill (width : Nat) : List Str → Nat → List Str × List Str
  | [], _ => ([], [])
  | c :: cs, curLen =>
    if curLen + c.length ≤ width then
      let r := fill width cs (curLen + c.length)
      (c :: r.1, r.2)
    else ([], c :: cs)

theorem fill_length (width : Nat) (cs : List Str) (n : Nat) :
    (fill width cs n).1.length + (fill width cs n).2.length = cs.length := by
  induction cs generalizing n with
  | nil => simp [fill]
  | cons c cs ih =>
    unfold fill
    split
    · simp only [List.length_cons]; have := ih (n + c.length); omega
    · simp

/-- `if cur_line and cur_line[-1].strip() == '': del cur_line[-1]` -/
def dropLastBlank (cur : List Str) : List Str :=
  match cur.getLast? with
  | some l => if isBlank l then cur.dropLast else cur
  | none => cur

/-- inner loop plus `_handle_long_word` with break_long_words=False (a too-long chunk is
    put on the line only if nothing is on the line yet) -/
def stepCore (width : Nat) (chunks : List Str) : List Str × List Str :=
  let r := fill width chunks 0
  match r.2 with
  | x :: xs => if width < x.length ∧ r.1.isEmpty then ([x], xs) else r
  | [] => r

/-- one iteration of the outer `while chunks:` loop on a non-empty chunk list: returns the
    chunks of the finished line (possibly empty) and the remaining chunks.
    `haveLines` = `bool(lines)`. -/
def stepLine (width : Nat) (c : Str) (cs : List Str) (haveLines : Bool) : List Str × List Str :=
  -- drop_whitespace: first chunk on a line (not the first line) is whitespace
  let chunks := if isBlank c && haveLines then cs else c :: cs
  let r := stepCore width chunks
  (dropLastBlank r.1, r.2)

theorem stepCore_le (width : Nat) (ch : List Str) : (stepCore width ch).2.length ≤ ch.length := by
  unfold stepCore
  have h := fill_length width ch 0
  simp only
  split
  · rename_i x xs hx
    rw [hx] at h
    simp only [List.length_cons] at h
    split
    · simp only; omega
    · rw [hx]; simp only [List.length_cons]; omega
  · omega

theorem stepCore_lt (width : Nat) (y : Str) (ys : List Str) :
    (stepCore width (y :: ys)).2.length < (y :: ys).length := by
  unfold stepCore
  simp only
  by_cases hfit : y.length ≤ width
  · have h := fill_length width ys y.length
    have e : fill width (y :: ys) 0 = (y :: (fill width ys y.length).1, (fill width ys y.length).2) := by
      simp [fill, hfit]
    rw [e]; simp only
    split
    · rename_i x xs hx
      rw [hx] at h
      simp only [List.length_cons] at h ⊢
      split
      · simp only [List.length_cons]; omega
      · rw [hx]; simp only [List.length_cons]; omega
    · simp only [List.length_cons]; omega
  · have e : fill width (y :: ys) 0 = ([], y :: ys) := by
      simp [fill, hfit]
    rw [e]; simp only
    have : width < y.length := by omega
    simp [this]

theorem stepLine_decreases (width : Nat) (c : Str) (cs : List Str) (b : Bool) :
    (stepLine width c cs b).2.length < (c :: cs).length := by
  unfold stepLine
  simp only
  split
  · have := stepCore_le width cs; simp only [List.length_cons]; omega
  · exact stepCore_lt width c cs

/-- `_wrap_chunks` (drop_whitespace=True, max_lines=None, empty indents, width > 0) -/
def wrapChunks (width : Nat) (chunks : List Str) (haveLines : Bool) : List Str :=
  match chunks with
  | [] => []
  | c :: cs =>
    let r := stepLine width c cs haveLines
    if r.1.isEmpty then wrapChunks width r.2 haveLines
    else r.1.flatten :: wrapChunks width r.2 true
termination_by chunks.length
decreasing_by
  all_goals exact stepLine_decreases width c cs haveLines

/-- `textwrap.wrap(paragraph, width, break_long_words=False, break_on_hyphens=False)` -/
def textwrap (width : Nat) (para : Str) : List Str :=
  wrapChunks width (splitChunks (munge (expandtabs para 0))) false

/-- `xs or [""]` -/
def orEmptyLine : List Str → List Str
  | [] => [[]]
  | ls => ls

/-- the list comprehension of `diagnostic.wrap` (after the fixes: empty text and blank
    paragraphs yield one empty line) -/
def wrapLines (text : Str) (width : Nat) : List Str :=
  (orEmptyLine (splitlines text)).flatMap fun p => orEmptyLine (textwrap width p)

inductive Err where
  | assertion   -- AssertionError (Loc.shift_left)
  | internal    -- InternalGuppyError (Span.__post_init__)
  | value       -- ValueError (sequence unpacking, min() of an empty sequence)
  | key         -- KeyError (`SourceMap.sources[span.file]` for an unregistered file)
  deriving DecidableEq, Repr

/-- `diagnostic.wrap(text, width, initial_indent, subsequent_indent)` -/
def wrap (text : Str) (width : Nat) (initialIndent subsequentIndent : Str) : Except Err (List Str) :=
  match wrapLines text width with
  | [] => .error .value
  | first :: rest => .ok ((initialIndent ++ first) :: rest.map (subsequentIndent ++ ·))

/-! ## `render_snippet` -/

structure Loc where
  line : Nat
  col : Nat
  deriving DecidableEq, Repr

/-- a `Span` of one file; `Span.__post_init__` guarantees `start ≤ stop` (inputs are
    constructed spans, so this is an input invariant, see `Span.Valid` in the spec) -/
structure Span where
  start : Loc
  stop : Loc
  deriving DecidableEq, Repr

/-- `str(n)` for a non-negative int -/
def digits (n : Nat) : Str :=
  if h : n < 10 then [Char.ofNat (48 + n)]
  else digits (n / 10) ++ [Char.ofNat (48 + n % 10)]
termination_by n
decreasing_by omega

/-- `render_line`: `" " * (ll_length - len(ll)) + ll + " | " + line` -/
def renderLine (ll : Nat) (line : Str) (num : Option Nat) : Str :=
  let g := match num with
    | none => []
    | some n => digits n
  List.replicate (ll - g.length) ' ' ++ g ++ [' ', '|', ' '] ++ line

/-- `len(line) - len(line.lstrip())` -/
def leadingWs (l : Str) : Nat := (l.takeWhile isWs).length

/-- `xs[a:b]` for `0 ≤ a` -/
def pySlice (xs : List α) (a b : Nat) : List α := (xs.take b).drop a

/-- `min(...)` of a sequence; `none` = ValueError on the empty sequence -/
def minList : List Nat → Option Nat
  | [] => none
  | x :: xs => match minList xs with
    | none => some x
    | some m => some (if m < x then m else x)

def MAX_LEADING_WHITESPACE : Nat := 12
def OPTIMAL_LEADING_WHITESPACE : Nat := 4
def MAX_LABEL_LINE_LEN : Nat := 60
def MAX_MESSAGE_LINE_LEN : Nat := 80
def PREFIX_CONTEXT_LINES : Nat := 2

/-- lines to show and the span after indentation trimming -/
structure Prep where
  pl : Nat            -- number of prefix lines
  remove : Nat        -- columns removed from every line
  all : List Str      -- prefix lines ++ span lines, trimmed
  span : Span         -- shifted span
  deriving Repr

/-- first part of `render_snippet`: grab lines, trim excessive common indentation, shift the span.
    Requires `span.start.line ≥ 1` (Python would compute a negative `prefix_lines` otherwise). -/
def prepare (src : List Str) (span : Span) (prefixLines : Nat) : Except Err Prep := do
  let pl := min prefixLines (span.start.line - 1)
  let all := pySlice src (span.start.line - pl - 1) span.stop.line
  match minList (all.map leadingWs) with
  | none => .error .value
  | some lw =>
    if lw > MAX_LEADING_WHITESPACE then
      let remove := lw - OPTIMAL_LEADING_WHITESPACE
      -- span.shift_left(remove): start first, then end
      if span.start.col < remove then .error .assertion
      else if span.stop.col < remove then .error .assertion
      else .ok ⟨pl, remove, all.map (·.drop remove),
                ⟨⟨span.start.line, span.start.col - remove⟩, ⟨span.stop.line, span.stop.col - remove⟩⟩⟩
    else .ok ⟨pl, 0, all, span⟩

/-- `enumerate(all_lines[:prefix_lines])` rendering -/
def renderPrefix (ll : Nat) (startLine pl : Nat) : List Str → Nat → List Str
  | [], _ => []
  | l :: ls, i => renderLine ll l (some (startLine - pl + i)) :: renderPrefix ll startLine pl ls (i + 1)

/-- highlight banner `" " * a + ch * (b - a)` -/
def highlight (ch : Char) (a b : Nat) : Str := List.replicate a ' ' ++ List.replicate (b - a) ch

/-- last part of `render_snippet`: highlight line of the last span line plus the label -/
def renderLabel (ll : Nat) (lastHighlight : Str) (label : Option Str) : Except Err (List Str) :=
  match label with
  | some (c :: cs) => do
    let ls ← wrap (c :: cs) MAX_LABEL_LINE_LEN [' '] (List.replicate (lastHighlight.length + 1) ' ')
    match ls with
    | [] => .error .value
    | first :: rest => .ok (renderLine ll (lastHighlight ++ first) none :: rest.map (renderLine ll · none))
  | _ => .ok [renderLine ll lastHighlight none]

def renderSnippet (src : List Str) (span0 : Span) (label : Option Str) (maxLineno : Nat)
    (isPrimary : Bool) (prefixLines : Nat) : Except Err (List Str) := do
  let ll := (digits maxLineno).length
  let hl := if isPrimary then '^' else '-'
  let pad := renderLine ll [] none
  let p ← prepare src span0 prefixLines
  let span := p.span
  let pre := renderPrefix ll span.start.line p.pl (p.all.take p.pl) 0
  let spanLines := p.all.drop p.pl
  if span.start.line ≠ span.stop.line then
    -- [first, *middle, last] = span_lines
    match spanLines with
    | first :: m :: rest =>
      let middle := (m :: rest).dropLast
      let last := (m :: rest).getLast (by simp)
      -- first_span = Span(span.start, Loc(file, span.start.line, len(first)))
      if first.length < span.start.col then .error .internal
      else
        let firstHl := highlight hl span.start.col first.length
        let dots := if middle.isEmpty then [] else [renderLine ll ['.', '.', '.'] none]
        let lab ← renderLabel ll (highlight hl 0 span.stop.col) label
        .ok ([pad] ++ pre ++ [renderLine ll first (some span.start.line), renderLine ll firstHl none]
              ++ dots ++ [renderLine ll last (some span.stop.line)] ++ lab)
    | _ => .error .value
  else
    match spanLines with
    | [last] =>
      let lab ← renderLabel ll (highlight hl span.start.col span.stop.col) label
      .ok ([pad] ++ pre ++ [renderLine ll last (some span.stop.line)] ++ lab)
    | _ => .error .value

/-! ## `render_diagnostic` -/

inductive Level where
  | fatal | error | warning | note | help
  deriving DecidableEq, Repr

/-- `level.name.lower().capitalize()` -/
def levelStr : Level → Str
  | .fatal => "Fatal".toList
  | .error => "Error".toList
  | .warning => "Warning".toList
  | .note => "Note".toList
  | .help => "Help".toList

structure SubDiag where
  level : Level
  span : Option Span
  label : Option Str      -- rendered_span_label
  message : Option Str    -- rendered_message
  deriving Repr

structure Diag where
  level : Level
  span : Option Span
  title : Str
  label : Option Str
  message : Option Str
  children : List SubDiag
  deriving Repr

/-- Python truthiness of `str | None` -/
def truthy : Option Str → Option Str
  | some (c :: cs) => some (c :: cs)
  | _ => none

def maxList : List Nat → Nat
  | [] => 0
  | x :: xs => max x (maxList xs)

/-- snippets of the children that have a span -/
def renderChildSnippets (src : List Str) (maxLineno : Nat) : List SubDiag → Except Err (List Str)
  | [] => .ok []
  | c :: cs =>
    match c.span with
    | some s => do
      let a ← renderSnippet src s c.label maxLineno false 0
      let b ← renderChildSnippets src maxLineno cs
      .ok (a ++ b)
    | none => renderChildSnippets src maxLineno cs

/-- messages of the children that have one -/
def renderChildMessages : List SubDiag → Except Err (List Str)
  | [] => .ok []
  | c :: cs =>
    match truthy c.message with
    | some m => do
      let a ← wrap (levelStr c.level ++ [':', ' '] ++ m) MAX_MESSAGE_LINE_LEN [] []
      let b ← renderChildMessages cs
      .ok ([] :: a ++ b)
    | none => renderChildMessages cs

/-- `render_diagnostic`; `file` is `str(span.start.file)` as printed in the title line -/
def renderDiagnostic (file : Str) (src : List Str) (d : Diag) : Except Err (List Str) := do
  let head ← match d.span with
    | none =>
      let msg := (truthy d.message).getD d.title
      wrap (levelStr d.level ++ [':', ' '] ++ msg) MAX_MESSAGE_LINE_LEN [] []
    | some span => do
      let childSpans := d.children.filterMap (·.span)
      let maxLineno := maxList ((span :: childSpans).map (·.stop.line))
      let titleLine := levelStr d.level ++ [':', ' '] ++ d.title ++ " (at ".toList ++ file ++ [':']
        ++ digits span.start.line ++ [':'] ++ digits span.start.col ++ [')']
      let main ← renderSnippet src span d.label maxLineno true PREFIX_CONTEXT_LINES
      let subs ← renderChildSnippets src maxLineno d.children
      let msg ← match truthy d.message with
        | some m => do
          let w ← wrap m MAX_MESSAGE_LINE_LEN [] []
          .ok ([] :: w)
        | none => .ok []
      .ok (titleLine :: main ++ subs ++ msg)
  let tail ← renderChildMessages d.children
  .ok (head ++ tail)

/-! ## `span.to_span`: byte offsets of AST nodes to character columns (`_char_column`) -/

/-- `len(c.encode("utf-8"))` -/
def utf8Len (c : Char) : Nat :=
  if c.val < 0x80 then 1 else if c.val < 0x800 then 2 else if c.val < 0x10000 then 3 else 4

/-- `len(text.encode("utf-8"))` -/
def utf8Bytes : Str → Nat
  | [] => 0
  | c :: cs => utf8Len c + utf8Bytes cs

/-- `len(raw[:b].decode("utf-8", errors="ignore"))`: number of characters that lie completely
    within the first `b` bytes -/
def prefixChars : Str → Nat → Nat
  | [], _ => 0
  | c :: cs, b => if utf8Len c ≤ b then 1 + prefixChars cs (b - utf8Len c) else 0

/-- `str.isascii()` -/
def isAscii (s : Str) : Bool := s.all fun c => c.val < 0x80

/-- `_char_column`, given the text of the source line -/
def charColumn (text : Str) (byteOffset : Nat) : Nat :=
  if isAscii text then byteOffset
  else if byteOffset > utf8Bytes text then byteOffset
  else prefixChars text byteOffset

/-- `to_span` for a node with positions `(lineno, col_offset, end_lineno, end_col_offset)` (already
    absolute lines); `src` = `linecache.getlines(file)` (lines *with* their terminators).
    (The `end_col_offset or col_offset` / `end_lineno or lineno` fallbacks for `None`/0 are applied.) -/
def toSpan (src : List Str) (l1 b1 l2 b2 : Nat) : Span :=
  let l2' := if l2 = 0 then l1 else l2
  let b2' := if b2 = 0 then b1 else b2
  ⟨⟨l1, charColumn (src.getD (l1 - 1) []) b1⟩, ⟨l2', charColumn (src.getD (l2' - 1) []) b2'⟩⟩

/-! ## `SourceMap`: registrations over time -/

/-- `str.isspace` on the modelled alphabet -/
def isSpace (c : Char) : Bool := isWs c || isBreak c

/-- `line.rstrip()` -/
def rstrip (s : Str) : Str := (s.reverse.dropWhile isSpace).reverse

/-- one call of `SourceMap.add_file` -/
inductive SrcOp where
  /-- `add_file(file)`: reads `linecache.getlines(file)` (given: the lines with terminators) -/
  | cache (file : Str) (lines : List Str)
  /-- `add_file(file, content)` -/
  | content (file : Str) (text : Str)
  deriving Repr

def SrcOp.file : SrcOp → Str
  | .cache f _ => f
  | .content f _ => f

/-- the list stored in `sources[file]` by this call -/
def SrcOp.stored : SrcOp → List Str
  | .cache _ ls => ls.map rstrip
  | .content _ t => splitlines t

/-- `SourceMap.sources` as an association list (first match wins) -/
abbrev SourceMap := List (Str × List Str)

def SourceMap.lookup (m : SourceMap) (file : Str) : Option (List Str) :=
  match m with
  | [] => none
  | (f, ls) :: rest => if f = file then some ls else SourceMap.lookup rest file

/-- `self.sources[file] = ...`: always overwrites -/
def SourceMap.addFile (m : SourceMap) (op : SrcOp) : SourceMap := (op.file, op.stored) :: m

def SourceMap.applyOps (m : SourceMap) (ops : List SrcOp) : SourceMap := ops.foldl SourceMap.addFile m

/-- `render_snippet` on a renderer whose source map saw `ops` (in this order) -/
def renderIn (ops : List SrcOp) (file : Str) (span : Span) (label : Option Str) (maxLineno : Nat)
    (isPrimary : Bool) (prefixLines : Nat) : Except Err (List Str) :=
  match (SourceMap.applyOps [] ops).lookup file with
  | none => .error .key
  | some src => renderSnippet src span label maxLineno isPrimary prefixLines

end GuppyVerif.Render
