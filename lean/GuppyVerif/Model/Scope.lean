/-! # Model of name resolution in the checker (`checker/core.py`: `Globals.__getitem__` / `__contains__`) and of the
scope in which `check_nested_func_def` checks the body of a self-recursive, non-capturing nested function

Import-free.  A `Globals` object holds the three namespaces of the frame in which the enclosing function was
defined; for a function defined at module level `f_locals` **is** the module namespace (`f_locals is f_globals`).
A namespace maps a name to a Guppy definition (`GuppyDefinition`, identified by its id) or to some other Python
object.  Lookup order: `f_locals`, then `f_globals`, then the builtins table; a Python object that is found under a
name which Guppy defines as a builtin resolves to the builtin definition. -/
namespace GuppyVerif.Scope

inductive Val where
  | defn (id : Nat)   -- a `GuppyDefinition`
  | py (o : Nat)      -- any other Python object
  deriving DecidableEq, Repr, Inhabited

abbrev NS := List (String × Val)

/-- dict lookup; a later `{**d, k: v}` is modelled by consing `(k, v)` in front -/
def get (ns : NS) (x : String) : Option Val := (ns.find? (·.1 == x)).map (·.2)

structure Globals where
  locals : NS
  globals : NS
  /-- `Globals.builtin_defs()`: name ↦ id of the builtin definition -/
  builtins : List (String × Nat)
  deriving Repr, Inhabited

inductive Res where
  | defn (id : Nat) | py (o : Nat) | missing
  deriving DecidableEq, Repr, Inhabited

def getB (b : List (String × Nat)) (x : String) : Option Nat := (b.find? (·.1 == x)).map (·.2)

/-- a value found in a frame namespace -/
def resolve (g : Globals) (x : String) : Val → Res
  | .defn i => .defn i
  | .py o => match getB g.builtins x with | some i => .defn i | none => .py o

/-- `Globals.__getitem__(name)` (`missing` = KeyError) -/
def lookup (g : Globals) (x : String) : Res :=
  match get g.locals x with
  | some v => resolve g x v
  | none =>
    match get g.globals x with
    | some v => resolve g x v
    | none => match getB g.builtins x with | some i => .defn i | none => .missing

/-- the scope `check_nested_func_def` builds for the body of a self-recursive non-capturing nested function `f`
    with fresh definition id `id`: `copy.copy(globals)` with `f_locals = {**f_locals, f: GuppyDefinition(func)}` -/
def bindNested (g : Globals) (f : String) (id : Nat) : Globals := { g with locals := (f, .defn id) :: g.locals }

/-- the variant that binds the name in `f_globals` instead (seeded change C03-m6) -/
def bindNestedInGlobals (g : Globals) (f : String) (id : Nat) : Globals := { g with globals := (f, .defn id) :: g.globals }

theorem get_cons_same (ns : NS) (f : String) (v : Val) : get ((f, v) :: ns) f = some v := by
  simp [get, List.find?]

theorem get_cons_other (ns : NS) (f x : String) (v : Val) (h : x ≠ f) : get ((f, v) :: ns) x = get ns x := by
  have : (f == x) = false := by simpa using fun e => h e.symm
  simp [get, List.find?, this]

/-- inside its own body the nested function's name resolves to the nested function, whatever the module namespace,
    the frame's globals and the builtins contain under that name -/
theorem lookup_bindNested_self (g : Globals) (f : String) (id : Nat) : lookup (bindNested g f id) f = .defn id := by
  simp [lookup, bindNested, get_cons_same, resolve]

/-- every other name resolves as in the enclosing function -/
theorem lookup_bindNested_other (g : Globals) (f x : String) (id : Nat) (h : x ≠ f) :
    lookup (bindNested g f id) x = lookup g x := by
  simp [lookup, bindNested, get_cons_other _ _ _ _ h, resolve]

/-- binding in `f_globals` is wrong exactly in the shadowing situation: if the frame's locals (for a module-level
    function: the module namespace) define `f`, the recursive call resolves to THAT definition -/
theorem lookup_bindNestedInGlobals_shadowed (g : Globals) (f : String) (id j : Nat) (h : get g.locals f = some (.defn j)) :
    lookup (bindNestedInGlobals g f id) f = .defn j := by
  simp [lookup, bindNestedInGlobals, h, resolve]

end GuppyVerif.Scope
