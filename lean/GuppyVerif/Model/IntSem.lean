/-! # IntSem — HUGR `arithmetic.int` / `arithmetic.conversions` / `logic` op semantics on `BitVec 64`,
    and Python's integer semantics on unbounded `Int`.

Import-free (core Lean only).  Used by C04, C16, C17 (and by the std-library models that need
64-bit wrap-around).

The HUGR side is transcribed from the op *descriptions* shipped with the installed `hugr` package
(`hugr/std/_json_defs/arithmetic/{int,conversions}.json`, `logic.json`); each definition quotes the
description it transcribes.  These semantics live outside /repo and are an explicit assumption of every
property that uses them.  `none` models "will call panic".

The Python side is written against `Int` with its own definitions (floor division by `Int.fdiv`/`Int.fmod`,
shifts as multiplication / floor division by a power of two, bits by floor-shift parity) so that a
theorem `toInt (op a b) = wrapS (py (toInt a) (toInt b))` is never a restatement of the op. -/
namespace GuppyVerif.IntSem

/-- a 64-bit HUGR integer (`int<6>`); Guppy `int` reads it signed, `nat` unsigned -/
abbrev W := BitVec 64

/-! ## Python side -/

/-- reduction "modulo 2^64 into the signed range" of the C04 statement -/
def wrapS (x : Int) : Int := x.bmod (2 ^ 64)
/-- reduction "into [0, 2^64)" of the C04 statement -/
def wrapU (x : Int) : Int := x % (2 ^ 64 : Int)

/-- Python `a // b` (floor of the exact quotient; caller guards `b ≠ 0`) -/
def pyFloorDiv (a b : Int) : Int := Int.fdiv a b
/-- Python `a % b` (result has the sign of `b`) -/
def pyMod (a b : Int) : Int := Int.fmod a b
/-- Python `a << k` for `k ≥ 0` -/
def pyShl (a : Int) (k : Nat) : Int := a * 2 ^ k
/-- Python `a >> k` for `k ≥ 0`: floor (a / 2^k) -/
def pyShr (a : Int) (k : Nat) : Int := Int.fdiv a (2 ^ k)
/-- Python `~a` -/
def pyInvert (a : Int) : Int := -a - 1
/-- Python `abs(a)` -/
def pyAbs (a : Int) : Int := if a < 0 then -a else a
/-- Python `a ** n` for `n ≥ 0` -/
def pyPow (a : Int) (n : Nat) : Int := a ^ n

/-- bit `i` of a Python integer (infinite two's complement): parity of `floor (x / 2^i)` -/
def pyBit (x : Int) (i : Nat) : Bool := decide (Int.fdiv x (2 ^ i) % 2 = 1)
/-- `z` is Python's `x & y`: every bit of `z` is the conjunction of the operands' bits.
    (An integer is determined by its bits: `Lemmas/IntSem.pyBit_ext`.) -/
def IsPyAnd (z x y : Int) : Prop := ∀ i, pyBit z i = (pyBit x i && pyBit y i)
def IsPyOr (z x y : Int) : Prop := ∀ i, pyBit z i = (pyBit x i || pyBit y i)
def IsPyXor (z x y : Int) : Prop := ∀ i, pyBit z i = (pyBit x i != pyBit y i)

/-! ## HUGR side: `arithmetic.int` at width 2^6 -/

/-- `iadd`: "addition modulo 2^N (signed and unsigned versions are the same op)" -/
def iadd (a b : W) : W := a + b
/-- `isub`: "subtraction modulo 2^N (signed and unsigned versions are the same op)" -/
def isub (a b : W) : W := a - b
/-- `imul`: "multiplication modulo 2^N (signed and unsigned versions are the same op)" -/
def imul (a b : W) : W := a * b
/-- `ineg`: "negation modulo 2^N (signed and unsigned versions are the same op)" -/
def ineg (a : W) : W := -a
/-- `iand`: "bitwise AND" -/
def iand (a b : W) : W := a &&& b
/-- `ior`: "bitwise OR" -/
def ior (a b : W) : W := a ||| b
/-- `ixor`: "bitwise XOR" -/
def ixor (a b : W) : W := a ^^^ b
/-- `inot`: "bitwise NOT" -/
def inot (a : W) : W := ~~~a
/-- `ishl`: "shift first input left by k bits where k is unsigned interpretation of second input
    (leftmost bits dropped, rightmost bits set to zero" -/
def ishl (a b : W) : W := if 64 ≤ b.toNat then 0 else a <<< b.toNat   -- (all bits dropped for counts ≥ 64; `ishl_eq`)
/-- `ishr`: "shift first input right by k bits where k is unsigned interpretation of second input
    (rightmost bits dropped, leftmost bits set to zero)" — a *logical* shift -/
def ishr (a b : W) : W := a >>> b.toNat
/-- `iabs`: "convert signed to unsigned by taking absolute value" -/
def iabs (a : W) : W := BitVec.ofNat 64 a.toInt.natAbs
/-- square-and-multiply with fuel (`fuel` > log₂ of the exponent) -/
def powFast (a : W) : Nat → Nat → W
  | 0, _ => 1
  | fuel + 1, n =>
    if n = 0 then 1
    else
      let h := powFast (a * a) fuel (n / 2)
      if n % 2 = 1 then h * a else h

/-- `ipow`: "raise first input to the power of second input, the exponent is treated as an unsigned
    integer" (modulo 2^N like `imul`) -/
def ipow (a b : W) : W := powFast a 65 b.toNat   -- `= a ^ b.toNat` (`Lemmas/IntSem.ipow_eq`), by squaring so that the
                                                 -- executable model terminates quickly for exponents near 2^64

/-- `idivmod_u`: "given unsigned integers 0 <= n < 2^N, 0 <= m < 2^N, generates unsigned q, r where
    q*m+r=n, 0<=r<m (m=0 will call panic)" -/
def idivmod_u (n m : W) : Option (W × W) :=
  if m.toNat = 0 then none
  else some (BitVec.ofNat 64 (n.toNat / m.toNat), BitVec.ofNat 64 (n.toNat % m.toNat))
/-- `idiv_u`: "as idivmod_u but discarding the second output" -/
def idiv_u (n m : W) : Option W := (idivmod_u n m).map (·.1)
/-- `imod_u`: "as idivmod_u but discarding the first output" -/
def imod_u (n m : W) : Option W := (idivmod_u n m).map (·.2)

/-- `idivmod_s`: "given signed integer -2^{N-1} <= n < 2^{N-1} and unsigned 0 <= m < 2^N, generates signed q
    and unsigned r where q*m+r=n, 0<=r<m (m=0 will call panic)".  The divisor is read **unsigned**.
    (`Int./` and `%` are Euclidean; for the positive divisor `m.toNat` they are the unique `q`, `r` of the
    description: `Lemmas/IntSem.idivmod_s_meets_description`.) -/
def idivmod_s (n m : W) : Option (W × W) :=
  if m.toNat = 0 then none
  else some (BitVec.ofInt 64 (n.toInt / (m.toNat : Int)), BitVec.ofInt 64 (n.toInt % (m.toNat : Int)))
/-- `idiv_s`: "as idivmod_s but discarding the second output" -/
def idiv_s (n m : W) : Option W := (idivmod_s n m).map (·.1)
/-- `imod_s`: "as idivmod_s but discarding the first output" -/
def imod_s (n m : W) : Option W := (idivmod_s n m).map (·.2)

/-- `ieq`: "equality test" -/
def ieq (a b : W) : Bool := a == b
/-- `ine`: "inequality test" -/
def ine (a b : W) : Bool := a != b
/-- `ilt_s`: "\"less than\" as signed integers" -/
def ilt_s (a b : W) : Bool := a.slt b
def ile_s (a b : W) : Bool := a.sle b
def igt_s (a b : W) : Bool := b.slt a
def ige_s (a b : W) : Bool := b.sle a
/-- `ilt_u`: "\"less than\" as unsigned integers" -/
def ilt_u (a b : W) : Bool := a.ult b
def ile_u (a b : W) : Bool := a.ule b
def igt_u (a b : W) : Bool := b.ult a
def ige_u (a b : W) : Bool := b.ule a

/-- `is_to_u`.  The shipped description ("convert signed to unsigned by taking absolute value") is a
    copy of `iabs`'s; upstream constant folding and the LLVM lowering keep the bits of a non-negative input
    and panic on a negative one.  Modelled as: negative ⇒ panic, else identity.  (assumption) -/
def is_to_u (a : W) : Option W := if a.msb then none else some a
/-- `iu_to_s`: same remark; panics when the unsigned value does not fit the signed range -/
def iu_to_s (a : W) : Option W := if a.msb then none else some a

/-! ## name → semantics (names as they appear in the extension JSON and in the lowered Hugr) -/

/-- total binary ops `W → W → W` -/
def binTotal : String → Option (W → W → W)
  | "iadd" => some iadd | "isub" => some isub | "imul" => some imul
  | "iand" => some iand | "ior" => some ior | "ixor" => some ixor
  | "ishl" => some ishl | "ishr" => some ishr | "ipow" => some ipow
  | _ => none

/-- possibly panicking binary ops -/
def binPartial : String → Option (W → W → Option W)
  | "idiv_u" => some idiv_u | "imod_u" => some imod_u
  | "idiv_s" => some idiv_s | "imod_s" => some imod_s
  | _ => none

def binOp (name : String) : Option (W → W → Option W) :=
  match binTotal name with
  | some f => some (fun a b => some (f a b))
  | none => binPartial name

def divmodOp : String → Option (W → W → Option (W × W))
  | "idivmod_u" => some idivmod_u | "idivmod_s" => some idivmod_s
  | _ => none

def cmpOp : String → Option (W → W → Bool)
  | "ieq" => some ieq | "ine" => some ine
  | "ilt_s" => some ilt_s | "ile_s" => some ile_s | "igt_s" => some igt_s | "ige_s" => some ige_s
  | "ilt_u" => some ilt_u | "ile_u" => some ile_u | "igt_u" => some igt_u | "ige_u" => some ige_u
  | _ => none

def unOp : String → Option (W → Option W)
  | "ineg" => some (fun a => some (ineg a)) | "inot" => some (fun a => some (inot a))
  | "iabs" => some (fun a => some (iabs a))
  | "is_to_u" => some is_to_u | "iu_to_s" => some iu_to_s
  | _ => none

/-! ## `logic` (on `Bool`) -/
def boolOp : String → Option (Bool → Bool → Bool)
  | "and" | "And" => some (· && ·) | "or" | "Or" => some (· || ·)
  | "xor" | "Xor" => some (· != ·) | "eq" | "Eq" => some (· == ·)
  | _ => none

end GuppyVerif.IntSem
