/-! # Model of the unitary checker (C24)

Mirrors `checker/unitary_checker.py` (`BBUnitaryChecker`, `check_invalid_under_dagger`,
`check_cfg_unitary`), the dagger pre-check of `checker/modifier_checker.py`
(`check_modified_block`), `ModifiedBlock.flags` (`nodes.py`), `_parse_kwargs`
(`guppylang/decorator.py`) and `add_unitarity_metadata` (`definition/function.py`),
as of the repaired code (fix for D7: branch predicates are visited and every argument of a
call is visited; fix for nested blocks: a `with` body inherits the flags of its context;
fix for F2: index expressions of subscripted places and assignment targets are visited).

Import-free; all functions total and structurally recursive. -/
namespace GuppyVerif.Unitary

/-- `UnitaryFlags` (an `enum.Flag`): Control = 1, Dagger = 2, Power = 4. -/
structure Flags where
  control : Bool
  dagger : Bool
  power : Bool
  deriving DecidableEq, Repr, Inhabited

namespace Flags

def noFlags : Flags := ⟨false, false, false⟩
def unitary : Flags := ⟨true, true, true⟩

/-- `a & b` -/
def and (a b : Flags) : Flags := ⟨a.control && b.control, a.dagger && b.dagger, a.power && b.power⟩
/-- `a | b` -/
def or (a b : Flags) : Flags := ⟨a.control || b.control, a.dagger || b.dagger, a.power || b.power⟩
/-- `~a` -/
def compl (a : Flags) : Flags := ⟨!a.control, !a.dagger, !a.power⟩

/-- Python's `a in b` for `enum.Flag` members: `a & b == a`. -/
def inn (a b : Flags) : Bool := decide (a.and b = a)

/-- `flags.value` as stored in the `"unitary"` metadata entry. -/
def toNat (a : Flags) : Nat :=
  (if a.control then 1 else 0) + (if a.dagger then 2 else 0) + (if a.power then 4 else 0)

/-- reading the metadata value back (`UnitaryFlags(n)`) -/
def ofNat (n : Nat) : Flags := ⟨n % 2 == 1, (n / 2) % 2 == 1, (n / 4) % 2 == 1⟩

end Flags

/-- `_parse_kwargs`: `unitary=True` adds all three flags, the others one each. -/
def parseKwargs (unitary control dagger power : Bool) : Flags :=
  let f := Flags.noFlags
  let f := if unitary then f.or Flags.unitary else f
  let f := if control then f.or ⟨true, false, false⟩ else f
  let f := if dagger then f.or ⟨false, true, false⟩ else f
  if power then f.or ⟨false, false, true⟩ else f

/-- The modifiers of a `with` statement, in source order. -/
inductive Mod where
  | dagger
  | control
  | power
  deriving DecidableEq, Repr

/-- `ModifiedBlock.flags()` after `push_modifier` of every item: dagger iff an odd number
    of daggers, control / power iff at least one. -/
def withFlags (ms : List Mod) : Flags :=
  ⟨decide (0 < ms.count .control), decide (ms.count .dagger % 2 = 1), decide (0 < ms.count .power)⟩

/-- Diagnostics the unitary machinery can raise. -/
inductive Err where
  /-- `UnitaryCallError(node, self.flags & ~ty.unitary_flags)` -/
  | call (missing : Flags)
  /-- `InvalidUnderDagger(_, "Loop")` -/
  | loop
  /-- `InvalidUnderDagger(_, "Assignment")` -/
  | assign
  /-- `UnsupportedError(node, "index access", True, "dagger context")` -/
  | subscript
  deriving DecidableEq, Repr

mutual
/-- Checked expressions as the visitor sees them. -/
inductive Expr where
  /-- constants and other childless nodes -/
  | leaf
  /-- `PlaceNode`: does its type contain a qubit; the index expressions of the subscripts on
      the way from the root variable to the place (`SubscriptAccess.item_expr`; empty = the place
      contains no subscript).  They are not AST children of the node; `visit_PlaceNode` walks
      the place to reach them. -/
  | place (qubit : Bool) (idx : Args)
  /-- `GlobalCall` / `LocalCall` / `TensorCall`: the callee type's `unitary_flags`, the
      arguments, and whether the result type contains a qubit -/
  | call (callee : Flags) (args : Args) (retq : Bool)
  /-- `BarrierExpr` / `StateResultExpr`: always allowed, children not visited -/
  | exempt (args : Args)
  /-- any other expression node: visited generically (children in order) -/
  | node (children : Args) (qubit : Bool)
inductive Args where
  | nil
  | cons (e : Expr) (rest : Args)
end

mutual
/-- Source statements of a function body / `with` body. -/
inductive Stmt where
  /-- expression statement or `return e` -/
  | expr (e : Expr)
  /-- `t = e`, `t: T = e`, `t += e`, or `t: T` (no value); `t` is the target as the visitor
      sees it (a place, possibly subscripted) -/
  | assign (t : Expr) (v : Option Expr)
  | ite (c : Expr) (t f : Block)
  | while (c : Expr) (b : Block)
  /-- nested `with <modifiers>: body`; `cargs` = the arguments of its `control(…)` items as the
      enclosing block's visitor reaches them (checked places), `G` = `ModifiedBlock.flags()` -/
  | withBlock (cargs : Args) (G : Flags) (b : Block)
inductive Block where
  | nil
  | cons (s : Stmt) (rest : Block)
end

def Args.isNil : Args → Bool
  | .nil => true
  | .cons _ _ => false

/-- `contain_qubit_ty(get_type(e))` -/
def Expr.hasQubit : Expr → Bool
  | .leaf => false
  | .place q _ => q
  | .call _ _ r => r
  | .exempt _ => false
  | .node _ q => q

/-- does some argument's type contain a qubit (the negation of `_check_classical_args`) -/
def Args.anyQubit : Args → Bool
  | .nil => false
  | .cons e r => e.hasQubit || r.anyQubit

mutual
/-- `BBUnitaryChecker.visit` on an expression under context flags `F`; all diagnostics
    that would be raised, in visiting order (the real visitor stops at the first). -/
def errsExpr (F : Flags) : Expr → List Err
  | .leaf => []
  | .place _ idx =>
      (if F.dagger && !idx.isNil then [.subscript] else []) ++ errsArgs F idx
  | .call g args _ =>
      -- `_check_call`: arguments first (all of them), then the flag test
      errsArgs F args ++
        (if args.anyQubit && !(F.inn g) then [.call (F.and g.compl)] else [])
  | .exempt _ => []
  | .node cs _ => errsArgs F cs
def errsArgs (F : Flags) : Args → List Err
  | .nil => []
  | .cons e r => errsExpr F e ++ errsArgs F r
end

mutual
/-- `len(loop_in_ast(stmt)) != 0` -/
def Stmt.hasLoop : Stmt → Bool
  | .expr _ => false
  | .assign _ _ => false
  | .ite _ t f => t.hasLoop || f.hasLoop
  | .while _ _ => true
  | .withBlock _ _ b => b.hasLoop
def Block.hasLoop : Block → Bool
  | .nil => false
  | .cons s r => s.hasLoop || r.hasLoop
end

mutual
/-- `find_nodes(Assign | AnnAssign | AugAssign, stmt)` non-empty (searches nested `with`
    bodies too) -/
def Stmt.hasAssign : Stmt → Bool
  | .expr _ => false
  | .assign _ _ => true
  | .ite _ t f => t.hasAssign || f.hasAssign
  | .while _ b => b.hasAssign
  | .withBlock _ _ b => b.hasAssign
def Block.hasAssign : Block → Bool
  | .nil => false
  | .cons s r => s.hasAssign || r.hasAssign
end

mutual
/-- some basic block of the body's CFG has a non-empty `vars.assigned`: assignments of this
    body, not those of `with` blocks nested in it (`visit_ModifiedBlock` records none) -/
def Stmt.hasAssignShallow : Stmt → Bool
  | .expr _ => false
  | .assign t _ =>
      -- `xs[i] = v` assigns no variable (`xs` is only used), so `vars.assigned` stays empty
      match t with
      | .place _ idx => idx.isNil
      | _ => true
  | .ite _ t f => t.hasAssignShallow || f.hasAssignShallow
  | .while _ b => b.hasAssignShallow
  | .withBlock _ _ _ => false
def Block.hasAssignShallow : Block → Bool
  | .nil => false
  | .cons s r => s.hasAssignShallow || r.hasAssignShallow
end

/-- `check_invalid_under_dagger(fn_def, flags)`: per top-level statement, loops first,
    then assignments. -/
def prepassFn (F : Flags) (b : Block) : Option Err :=
  if !F.dagger then none else go b
where
  go : Block → Option Err
    | .nil => none
    | .cons s r =>
      if s.hasLoop then some .loop
      else if s.hasAssign then some .assign
      else go r

/-- the dagger part of `check_modified_block`: any loop in any statement first, then any
    assigned variable in any basic block. -/
def prepassWith (F : Flags) (b : Block) : Option Err :=
  if !F.dagger then none
  else if b.hasLoop then some .loop
  else if b.hasAssignShallow then some .assign
  else none

mutual
/-- The per-block visit over every basic block the statement gives rise to: statements
    (`visit_Expr`, `_check_assign`) and branch predicates. -/
def errsStmt (F : Flags) : Stmt → List Err
  | .expr e => errsExpr F e
  | .assign t v =>
      if F.dagger then [.assign]
      else (match v with
        | some e => errsExpr F e
        | none => []) ++ errsExpr F t
  | .ite c t f => errsExpr F c ++ errsBlock F t ++ errsBlock F f
  | .while c b => errsExpr F c ++ errsBlock F b
  | .withBlock cargs G b =>
      -- the enclosing block's visitor reaches the control arguments; `check_modified_block`
      -- runs the dagger pre-check for the block's own modifiers; the body CFG is checked with
      -- the flags of the enclosing context added (`_add_unitary_flags`)
      errsArgs F cargs ++ (prepassWith G b).toList ++ errsBlock (F.or G) b
def errsBlock (F : Flags) : Block → List Err
  | .nil => []
  | .cons s r => errsStmt F s ++ errsBlock F r
end


/-- Where do the context's flags come from. -/
inductive Kind where
  /-- `@guppy(control=…, dagger=…, power=…, unitary=…) def f(...)` -/
  | fn
  /-- body of a `with …:` block -/
  | withBlock
  deriving DecidableEq, Repr

inductive Verdict where
  | ok
  /-- rejected before CFG checking -/
  | pre (e : Err)
  /-- rejected by `check_cfg_unitary`; the list is non-empty, the real checker reports one
      of its members (which one depends on basic-block numbering, not modelled) -/
  | bb (es : List Err)
  deriving DecidableEq, Repr

def prepass (k : Kind) (F : Flags) (b : Block) : Option Err :=
  match k with
  | .fn => prepassFn F b
  | .withBlock => prepassWith F b

def check (k : Kind) (F : Flags) (b : Block) : Verdict :=
  match prepass k F b with
  | some e => .pre e
  | none =>
    match errsBlock F b with
    | [] => .ok
    | es => .bb es

end GuppyVerif.Unitary
