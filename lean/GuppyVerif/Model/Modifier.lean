/-! # Model of modifier-block lowering (C25)

Mirrors `compiler/modifier_compiler.py` (`compile_modified_block`), `ModifiedBlock.push_modifier`
/ `CheckedModifiedBlock.has_dagger` (`nodes.py`), the item loop of `CFGBuilder.visit_With`
(`cfg/builder.py`) and `non_copyable_front_others_back` (`checker/modifier_checker.py`), as of
the repaired code (fix for D17: control arrays are passed to, and taken back from, the
indirect call in the order the wrapped function type expects).

Import-free, total. -/
namespace GuppyVerif.Modifier

/-- A modifier of a `with` statement as written.  `power e`: `e` identifies the exponent
    expression; `control id n`: `id` identifies the control expression list, `n` is the number
    of control qubits. -/
inductive Mod where
  | dagger
  | power (e : Nat)
  | control (id n : Nat)
  deriving DecidableEq, Repr, Inhabited

inductive Kind where
  | dagger | power | control
  deriving DecidableEq, Repr

def Mod.kind : Mod → Kind
  | .dagger => .dagger
  | .power _ => .power
  | .control _ _ => .control

/-- `ModifiedBlock` after `push_modifier` of every `with` item in source order: three lists. -/
structure Pushed where
  dagger : Nat            -- `len(self.dagger)`
  power : List Nat        -- exponent expressions, in source order
  control : List (Nat × Nat)  -- (id, qubit_num), in source order
  deriving DecidableEq, Repr

def push (p : Pushed) : Mod → Pushed
  | .dagger => { p with dagger := p.dagger + 1 }
  | .power e => { p with power := p.power ++ [e] }
  | .control id n => { p with control := p.control ++ [(id, n)] }

/-- the loop `for item in node.items: new_node.push_modifier(...)` -/
def pushAll (ms : List Mod) : Pushed := ms.foldl push ⟨0, [], []⟩

/-- The modifier operations `compile_modified_block` applies to the loaded function value, in
    application order (innermost first): one `DaggerModifier` iff `has_dagger()` (odd count),
    then one `PowerModifier` per power in order, then one `ControlModifier` per control in
    order (type argument = arity). -/
def emitPushed (p : Pushed) : List Mod :=
  (if p.dagger % 2 = 1 then [Mod.dagger] else []) ++
    p.power.map Mod.power ++ p.control.map (fun c => Mod.control c.1 c.2)

def emit (ms : List Mod) : List Mod := emitPushed (pushAll ms)

/-! ### Captured variables and the indirect call -/

/-- a variable captured by the block body -/
structure Var where
  name : Nat
  copyable : Bool
  /-- the `InputFlags.Inout` flag as stored on the captured variable by the checker -/
  inout : Bool := false
  deriving DecidableEq, Repr

/-- `_set_inout_if_non_copyable` (checker/modifier_checker.py), applied to every captured
    variable by `check_modified_block` -/
def setInout (v : Var) : Var := { v with inout := !v.copyable }

/-- the `captured` mapping of the `CheckedModifiedBlock`, in the checker's order -/
def capture (vs : List Var) : List Var := vs.map setInout

/-- `non_copyable_front_others_back` -/
def order (vs : List Var) : List Var := vs.filter (fun v => !v.copyable) ++ vs.filter (·.copyable)

/-- A value slot of the indirect call: the array of control `id` with `n` qubits, or a
    captured variable. -/
inductive Slot where
  | ctrl (id n : Nat)
  | cap (v : Var)
  deriving DecidableEq, Repr

/-- Input types of the function value after all modifiers: the body takes the captured
    variables (`order`), and every `ControlModifier`, applied in order, *prepends* its array. -/
def fnInputs (controls : List (Nat × Nat)) (captured : List Var) : List Slot :=
  controls.foldl (fun acc c => Slot.ctrl c.1 c.2 :: acc) ((order captured).map Slot.cap)

/-- Arguments wired into `CallIndirect` (after the function value): the control arrays —
    repaired code: last control first — then the captured variables. -/
def callArgs (controls : List (Nat × Nat)) (captured : List Var) : List Slot :=
  controls.reverse.map (fun c => Slot.ctrl c.1 c.2) ++ (order captured).map Slot.cap

/-- the same before the fix (D17): control arrays in source order -/
def callArgsOld (controls : List (Nat × Nat)) (captured : List Var) : List Slot :=
  controls.map (fun c => Slot.ctrl c.1 c.2) ++ (order captured).map Slot.cap

/-- Outputs of the function value: the control arrays (same positions as in the inputs), then
    the inputs that `check_modified_block_signature` declares in-out — it decides by the *type*:
    `InputFlags.Inout if not t.copyable`. -/
def fnOutputs (controls : List (Nat × Nat)) (captured : List Var) : List Slot :=
  controls.foldl (fun acc c => Slot.ctrl c.1 c.2 :: acc)
    (((order captured).filter (fun v => !v.copyable)).map Slot.cap)

/-- Where `compile_modified_block` stores the outputs of the call, in output order: the
    places of the controls (repaired code: last control first), then every captured variable
    whose stored *flag* says in-out (`if InputFlags.Inout in arg.flags`) — a different site from
    the signature's type test; they agree only because `setInout` sets the flag from copyability. -/
def handBack (controls : List (Nat × Nat)) (captured : List Var) : List Slot :=
  controls.reverse.map (fun c => Slot.ctrl c.1 c.2) ++
    ((order captured).filter (·.inout)).map Slot.cap

/-! ### Individual control qubits (element level)

A `control(c₁, …, cₙ)` item over individual qubits packs them into one array before the call and
unpacks the returned array after it.  Wires are identified by the variable they were taken from. -/

/-- `array_new(Qubit, n)(*cs)`: element `i` of the packed array is the wire of the `i`-th listed
    control variable -/
def packCtrl (vars : List Nat) : List Nat := vars

/-- `unpacked = unpack_array(…)`, then `for c, new_c in zip(control.ctrl, unpacked): dfg[c.place] = new_c`:
    (variable, wire it names after the block) -/
def unpackAssign (vars unpacked : List Nat) : List (Nat × Nat) := vars.zip unpacked

/-- the variant `for c in control.ctrl: dfg[c.place] = unpacked.pop()` (takes from the end) — not the
    code, kept to state what goes wrong (seeded change C25/m6) -/
def unpackAssignPop (vars unpacked : List Nat) : List (Nat × Nat) := vars.zip unpacked.reverse

/-- what every control of a block hands back, in the order of the call outputs (last control
    first): for each control the list of (variable, wire it names afterwards).  The modified function
    returns every control array element-wise in place (assumed semantics of `ControlModifier`). -/
def handBackElems (controls : List (List Nat)) : List (List (Nat × Nat)) :=
  controls.reverse.map (fun vars => unpackAssign vars (packCtrl vars))

/-- The same with the call made explicit: `ret ws` is the control array the modified function
    gives back when handed the array `ws` (an arbitrary function: what the `ControlModifier`ed body
    does with its control array is outside the repository).  Pack (`array_new`), call, unpack
    (`unpack_array` + `zip`), per control, in call-output order. -/
def blockHandBack (ret : List Nat → List Nat) (controls : List (List Nat)) : List (List (Nat × Nat)) :=
  controls.reverse.map (fun vars => unpackAssign vars (ret (packCtrl vars)))

end GuppyVerif.Modifier
