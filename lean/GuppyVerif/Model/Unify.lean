/-! Model of `guppylang_internals/tys/ty.py`: `unify`, `_unify_var`, `_occurs`, `_unify_args`,
    of `Substituter` (`tys/subst.py`, single-pass application) and of `TypeBase.linear`.
    Import-free, executable, total (recursion through the substitution is fuel-bounded; running out of
    fuel is a separate outcome `Res.oof`, never confused with failure).

    Encoding of the Python classes
      ExistentialTypeVar / ExistentialConstVar  ↦ `Tm.var code`     (code = 2*id + [is const var]; dict key)
      BoundTypeVar idx / BoundConstVar idx       ↦ `atom (bvar idx)` / `atom (cbvar idx)`
      NumericType kind / NoneType                ↦ `atom (num k)` / `atom none`
      ConstValue(ty, value)                      ↦ `atom (cval tyCode valueCode)`
      FunctionType                               ↦ `node (func flags params) args`
                                                   args = TypeArg inputs ++ [TypeArg output] ++ comptime_args,
                                                   flags = the InputFlags of the inputs (so #inputs = flags.length),
                                                   params = code of the `params` list (codes equal iff lists `==`)
      TupleType / OpaqueType defn / StructType defn ↦ `node tuple args` / `node (opaque d) args` / `node (struct d) args`
      TypeArg ty / ConstArg const                ↦ `targ t` / `carg c`
    Substitutions (`dict`, insertion order = list order, new bindings in front as `{var: t, **subst}`) are
    association lists with first-match lookup. -/
namespace GuppyVerif.Unify

abbrev V := Nat

inductive Atom where
  | bvar (idx : Nat)
  | cbvar (idx : Nat)
  | num (kind : Nat)
  | none
  | cval (ty : Nat) (value : Nat)
  deriving DecidableEq, Repr, Inhabited

inductive Head where
  | func (flags : List Nat) (params : Nat)
  | tuple
  | opaque (defn : Nat)
  | struct (defn : Nat)
  deriving DecidableEq, Repr, Inhabited

inductive Tm where
  | var (v : V)
  | atom (a : Atom)
  | node (h : Head) (args : List Tm)
  | targ (t : Tm)
  | carg (c : Tm)
  deriving Repr, Inhabited

abbrev Subst := List (V × Tm)

/-- `subst.get(v)` / `v in subst` / `subst[v]` -/
def lookup : Subst → V → Option Tm
  | [], _ => none
  | (w, u) :: r, v => if w = v then some u else lookup r v

mutual
/-- `unsolved_vars` (as a list, duplicates kept) -/
def Tm.vars : Tm → List V
  | .var v => [v]
  | .atom _ => []
  | .node _ as => varsList as
  | .targ t => t.vars
  | .carg c => c.vars
def varsList : List Tm → List V
  | [] => []
  | a :: as => a.vars ++ varsList as
end

mutual
/-- homomorphic extension of a variable assignment (what a `Transformer` does) -/
def inst (θ : V → Tm) : Tm → Tm
  | .var v => θ v
  | .atom a => .atom a
  | .node h as => .node h (instList θ as)
  | .targ t => .targ (inst θ t)
  | .carg c => .carg (inst θ c)
def instList (θ : V → Tm) : List Tm → List Tm
  | [] => []
  | a :: as => inst θ a :: instList θ as
end

/-- the assignment a `Substituter(σ)` performs on variables: `σ.get(v)` or the variable itself -/
def asFun (σ : Subst) (v : V) : Tm := match lookup σ v with | some u => u | none => .var v

/-- `t.substitute(σ)`: ONE simultaneous pass, images are not re-substituted -/
def apply (σ : Subst) (t : Tm) : Tm := inst (asFun σ) t

/-- `n` passes -/
def applyN (σ : Subst) : Nat → Tm → Tm
  | 0, t => t
  | n + 1, t => applyN σ n (apply σ t)

/-- application to fixpoint for a triangular substitution: `|σ|` passes -/
def applyStar (σ : Subst) (t : Tm) : Tm := applyN σ σ.length t

/-! ### `copyable` / `droppable` / `linear` -/

/-- What the type definitions and variables say about copying and dropping (default: yes). -/
structure Env where
  vNoCopy : List V := []      -- existential type vars with `copyable=False`
  vNoDrop : List V := []
  bNoCopy : List Nat := []    -- bound type vars (by index) with `copyable=False`
  bNoDrop : List Nat := []
  dNoCopy : List Nat := []    -- opaque/struct definitions that are not copyable even with copyable arguments
  dNoDrop : List Nat := []
  deriving Repr, Inhabited

mutual
def copyable (E : Env) : Tm → Bool
  | .var v => !E.vNoCopy.contains v
  | .atom (.bvar i) => !E.bNoCopy.contains i
  | .atom _ => true
  | .node (.func _ _) _ => true
  | .node .tuple as => copyableArgs E as
  | .node (.opaque d) as => !E.dNoCopy.contains d && copyableArgs E as
  | .node (.struct d) as => !E.dNoCopy.contains d && copyableArgs E as
  | .targ t => copyable E t
  | .carg _ => true
/-- `all(not isinstance(arg, TypeArg) or arg.ty.copyable for arg in args)` -/
def copyableArgs (E : Env) : List Tm → Bool
  | [] => true
  | a :: as => copyable E a && copyableArgs E as
end

mutual
def droppable (E : Env) : Tm → Bool
  | .var v => !E.vNoDrop.contains v
  | .atom (.bvar i) => !E.bNoDrop.contains i
  | .atom _ => true
  | .node (.func _ _) _ => true
  | .node .tuple as => droppableArgs E as
  | .node (.opaque d) as => !E.dNoDrop.contains d && droppableArgs E as
  | .node (.struct d) as => !E.dNoDrop.contains d && droppableArgs E as
  | .targ t => droppable E t
  | .carg _ => true
def droppableArgs (E : Env) : List Tm → Bool
  | [] => true
  | a :: as => droppable E a && droppableArgs E as
end

/-- `TypeBase.linear` -/
def linear (E : Env) (t : Tm) : Bool := !copyable E t && !droppable E t

/-! ### unification -/

inductive Res where
  | oof                 -- fuel exhausted (does not happen with adequate fuel, see `unify_terminates`)
  | fail                -- Python returns `None`
  | ok (σ : Subst)      -- Python returns the dict
  deriving Repr, Inhabited

/-- `for y in ys: if f(y): return True` … `return False`, with fuel exhaustion propagated -/
def firstM (f : V → Option Bool) : List V → Option Bool
  | [] => some false
  | y :: ys =>
    match f y with
    | none => none
    | some true => some true
    | some false => firstM f ys

/-- `_occurs(var, t, subst)`:
    `for v in t.unsolved_vars: if v == var: return True; if v in subst and _occurs(var, subst[v], subst): return True` -/
def occurs : Nat → Subst → V → Tm → Option Bool
  | 0, _, _, _ => none
  | n + 1, σ, v, t =>
    firstM (fun y =>
      if y = v then some true
      else match lookup σ y with
        | none => some false
        | some u => occurs n σ v u) t.vars

/-- the case analysis on atoms in `unify` (bound vars by index, const values by type and value,
    numeric kinds, None) -/
def atomEq : Atom → Atom → Bool
  | .bvar i, .bvar j => i == j
  | .cbvar i, .cbvar j => i == j
  | .cval ty v, .cval ty' v' => v == v' && ty == ty'
  | .num k, .num k' => k == k'
  | .none, .none => true
  | _, _ => false

/-- `_unify_var(var, t, subst)` with the recursive call `u` and the occurs check `occ` abstracted -/
def unifyVarWith (u : Tm → Tm → Subst → Res) (occ : Subst → V → Tm → Option Bool)
    (v : V) (t : Tm) (σ : Subst) : Res :=
  let bind : Res :=
    match occ σ v t with
    | none => .oof
    | some true => .fail
    | some false => .ok ((v, t) :: σ)
  match lookup σ v with
  | some sv => u sv t σ                       -- `if var in subst: return unify(subst[var], t, subst)`
  | none =>
    match t with
    | .var w =>
      match lookup σ w with
      | some tw => u (.var v) tw σ            -- `if isinstance(t, ExistentialVar) and t in subst`
      | none => bind
    | _ => bind

/-- the loop of `_unify_args` -/
def unifyArgsLoop (u : Tm → Tm → Subst → Res) : List Tm → List Tm → Subst → Res
  | [], [], σ => .ok σ
  | a :: as, b :: bs, σ =>
    match a, b with
    | .targ x, .targ y =>
      match u x y σ with
      | .ok σ' => unifyArgsLoop u as bs σ'
      | r => r
    | .carg x, .carg y =>
      match u x y σ with
      | .ok σ' => unifyArgsLoop u as bs σ'
      | r => r
    | _, _ => .fail
  | _, _, _ => .fail

/-- `_unify_args(s, t, subst)` -/
def unifyArgsWith (u : Tm → Tm → Subst → Res) (as bs : List Tm) (σ : Subst) : Res :=
  if as.length ≠ bs.length then .fail else unifyArgsLoop u as bs σ

/-- `any(a.ty.linear and b.ty.linear and a.flags != b.flags for a, b in zip(s.inputs, t.inputs))` -/
def flagsClash (E : Env) : List Nat → List Nat → List Tm → List Tm → Bool
  | f1 :: fs1, f2 :: fs2, a :: as, b :: bs =>
    (linear E a && linear E b && f1 != f2) || flagsClash E fs1 fs2 as bs
  | _, _, _, _ => false

/-- the body of `unify(s, t, subst)` with the recursive call `u` and the occurs check `occ` abstracted.
    Case order as in the Python `match`: equal variables, variable on the left, variable on the right,
    then the constructor cases. -/
def unifyStep (E : Env) (u : Tm → Tm → Subst → Res) (occ : Subst → V → Tm → Option Bool)
    (s t : Tm) (σ : Subst) : Res :=
  match s, t with
  | .var a, .var b =>
    if a = b then .ok σ else unifyVarWith u occ a (.var b) σ
  | .var a, t => unifyVarWith u occ a t σ
  | s, .var b => unifyVarWith u occ b s σ
  | .atom a, .atom b => if atomEq a b then .ok σ else .fail
  | .node h₁ as, .node h₂ bs =>
    match h₁, h₂ with
    | .func fl₁ p₁, .func fl₂ p₂ =>
      if p₁ = p₂ then
        if fl₁.length ≠ fl₂.length then .fail
        else if flagsClash E fl₁ fl₂ as bs then .fail
        else unifyArgsWith u as bs σ
      else .fail
    | .tuple, .tuple => unifyArgsWith u as bs σ
    | .opaque d₁, .opaque d₂ => if d₁ = d₂ then unifyArgsWith u as bs σ else .fail
    | .struct d₁, .struct d₂ => if d₁ = d₂ then unifyArgsWith u as bs σ else .fail
    | _, _ => .fail
  | _, _ => .fail

/-- `unify(s, t, subst)`: recursion depth bounded by the fuel (first argument) -/
def unify (E : Env) : Nat → Tm → Tm → Subst → Res
  | 0 => fun _ _ _ => .oof
  | f + 1 => unifyStep E (unify E f) (occurs f)

/-! ### generic function values: `FunctionType.unquantified` and `check_type_against` (parametrised case)

    `check_type_against(act, exp)` for `act = forall params. body`: instantiate the params with fresh
    existential variables, `unify(exp, unquantified, {})`, `resolve_subst`, then every fresh variable must be
    solved (`CantInferParam`) by a solution without variables (`CantInstantiateFreeVars`); returns the
    instantiation and the solutions of the variables of `exp`.  `check_inst` (bounds of the params) and nested
    generic function types (`Instantiator` raises "under binder") are not modelled. -/

mutual
/-- `Instantiator(ρ)`: bound variable `i` ↦ `ρ[i]`; indices beyond `ρ` are lowered -/
def instB (ρ : List Tm) : Tm → Tm
  | .var v => .var v
  | .atom (.bvar i) => if h : i < ρ.length then ρ[i] else .atom (.bvar (i - ρ.length))
  | .atom (.cbvar i) => if h : i < ρ.length then ρ[i] else .atom (.cbvar (i - ρ.length))
  | .atom a => .atom a
  | .node h as => .node h (instBList ρ as)
  | .targ t => .targ (instB ρ t)
  | .carg c => .carg (instB ρ c)
def instBList (ρ : List Tm) : List Tm → List Tm
  | [] => []
  | a :: as => instB ρ a :: instBList ρ as
end

/-- `resolve_subst`: every solution with the substitution applied exhaustively -/
def resolve (σ : Subst) : Subst := σ.map fun p => (p.1, applyStar σ p.2)

inductive CallRes where
  | oof
  | mismatch                                  -- TypeMismatchError (unify returned None)
  | cantInfer (i : Nat)                       -- TypeMismatchError + CantInferParam(param i)
  | freeVars (i : Nat)                        -- TypeMismatchError + CantInstantiateFreeVars(param i)
  | ok (inst : List Tm) (σ : Subst)
  deriving Repr, Inhabited

/-- the loop over `free_vars` -/
def firstBad (σ : Subst) : Nat → List V → Option CallRes
  | _, [] => none
  | i, f :: fs =>
    match lookup σ f with
    | none => some (.cantInfer i)
    | some u => if u.vars.isEmpty then firstBad σ (i + 1) fs else some (.freeVars i)

/-- `check_type_against(act, exp)` for a parametrised `act`; `fresh` are the existential variables created by
    `unquantified()` in parameter order, `p0` is the code of the empty parameter list -/
def checkAgainst (E : Env) (fuel : Nat) (p0 : Nat) (exp : Tm) (fresh : List V) (act : Tm) : CallRes :=
  match act with
  | .node (.func fl _) args =>
    match unify E fuel exp (.node (.func fl p0) (instBList (fresh.map .var) args)) [] with
    | .oof => .oof
    | .fail => .mismatch
    | .ok σ =>
      let σ' := resolve σ
      match firstBad σ' 0 fresh with
      | some r => r
      | none =>
        .ok (fresh.map fun f => match lookup σ' f with | some u => u | none => .var f)
            (σ'.filter fun p => exp.vars.contains p.1)
  | _ => .mismatch

/-! ### a fuel that always suffices on acyclic substitutions (`unify_terminates_explicit`) -/

mutual
def Tm.size : Tm → Nat
  | .var _ => 1
  | .atom _ => 1
  | .node _ as => 1 + sizeList as
  | .targ t => 1 + t.size
  | .carg c => 1 + c.size
def sizeList : List Tm → Nat
  | [] => 0
  | a :: as => a.size + sizeList as
end

/-- recursion-depth bound for `unify s t σ`: with `U` the variables in play, `L = |σ| + |U|`, `Z0` the total
    size of `s`, `t` and the images of `σ`, `A = 2·Z0+2`, `K2 = 2·L+2`, `B = K2·A + A`:
    `|U|·(B+1) + (L+2) + K2·A + A` -/
def fuelBound (s t : Tm) (σ : Subst) : Nat :=
  let U := s.vars ++ t.vars ++ σ.flatMap (fun p => p.2.vars)
  let L := σ.length + U.length
  let Z0 := s.size + t.size + (σ.map (fun p => p.2.size)).sum
  let A := 2 * Z0 + 2
  let K2 := 2 * L + 2
  let B := K2 * A + A
  U.length * (B + 1) + (L + 2) + K2 * A + A

end GuppyVerif.Unify
