/-! Model of `guppylang_internals/definition/pytket_circuits.py` (the pure wiring and the
    signature logic of `guppy.load_pytket` / `@guppy.pytket`).  Import-free, executable.

    What is read from the pytket circuit object is collected in `Circ`; what is read from the
    converted circuit HUGR (`Tk2Circuit`, unmodelled) is passed in explicitly: the
    `TKET1.input_parameters` metadata list and the output port types of the inner function.

    The result of `compile_outer` is a `Wiring`: for every input port of the `Call` node to the
    inner circuit function where its wire comes from, and for every output port of the outer
    function what is wired to it. -/
namespace GuppyVerif.Pytket

/-! ## The circuit as the code sees it -/

/-- pytket `UnitID` (`Qubit` / `Bit`): register name and index vector -/
structure UnitId where
  name : String
  index : List Nat
  deriving DecidableEq, Repr

/-- pytket `QubitRegister` / `BitRegister` as returned by `q_registers` / `c_registers` -/
structure Reg where
  name : String
  size : Nat
  deriving DecidableEq, Repr

/-- the attributes of `input_circuit` the code reads -/
structure Circ where
  /-- `input_circuit.qubits` (only its length, `n_qubits`, is read by the code) -/
  qubits : List UnitId
  /-- `input_circuit.bits` (only `n_bits` is read) -/
  bits : List UnitId
  /-- `input_circuit.q_registers`, in pytket's order -/
  qregs : List Reg
  /-- `input_circuit.c_registers` -/
  cregs : List Reg
  /-- `len(input_circuit.free_symbols())` -/
  nSyms : Nat
  deriving Repr

def Circ.nQubits (c : Circ) : Nat := c.qubits.length
def Circ.nBits (c : Circ) : Nat := c.bits.length

def sizes (rs : List Reg) : List Nat := rs.map (·.size)
def total (rs : List Reg) : Nat := (sizes rs).sum

/-! ## Guppy types and signatures (as far as this code can produce or compare them) -/

inductive Scalar where
  | qubit | angle | bool
  | other (tag : String)
  deriving DecidableEq, Repr

inductive Leaf where
  | scalar (s : Scalar)
  | array (s : Scalar) (n : Nat)
  deriving DecidableEq, Repr

/-- function output type: `NoneType`, a single type, or a `TupleType` -/
inductive Ty where
  | none
  | leaf (l : Leaf)
  | tuple (ls : List Leaf)
  deriving DecidableEq, Repr

inductive Flags where
  | noFlags | inout | owned | comptime
  deriving DecidableEq, Repr

structure FuncInput where
  ty : Leaf
  flags : Flags
  deriving DecidableEq, Repr

/-- the two fields of `FunctionType` that `RawPytketDef.parse` compares -/
structure Sig where
  inputs : List FuncInput
  output : Ty
  deriving DecidableEq, Repr

/-- `tys.ty.row_to_type` -/
def rowToType : List Leaf → Ty
  | [] => .none
  | [t] => .leaf t
  | ts => .tuple ts

inductive SigErr where
  /-- `PytketUnitsOutsideRegisters` (GuppyError) -/
  | unitsOutsideRegisters
  deriving DecidableEq, Repr

/-- `_signature_from_circuit(circ, _, use_arrays=False)` -/
def signatureFlat (c : Circ) : Sig :=
  { inputs := List.replicate c.nQubits ⟨.scalar .qubit, .inout⟩ ++
              List.replicate c.nSyms ⟨.scalar .angle, .noFlags⟩
    output := rowToType (List.replicate c.nBits (.scalar .bool)) }

/-- `_signature_from_circuit(circ, _, use_arrays)` -/
def signatureFromCircuit (c : Circ) (useArrays : Bool) : Except SigErr Sig :=
  if useArrays then
    if total c.qregs ≠ c.nQubits || total c.cregs ≠ c.nBits then
      .error .unitsOutsideRegisters
    else
      let inputs : List FuncInput := c.qregs.map fun r => ⟨.array .qubit r.size, .inout⟩
      let inputs := if c.nSyms ≠ 0 then inputs ++ [⟨.array .angle c.nSyms, .noFlags⟩] else inputs
      let outputs := c.cregs.map fun r => Leaf.array .bool r.size
      .ok { inputs := inputs, output := rowToType outputs }
  else
    .ok (signatureFlat c)

/-! ## `@guppy.pytket(circ)` stubs: `RawPytketDef.parse` -/

/-- a statement of the stub body (after `parse_py_func`), as far as `has_empty_body` looks -/
inductive StubStmt where
  | ellipsis
  | other
  deriving DecidableEq, Repr

/-- `ast_util.has_empty_body` -/
def hasEmptyBody : List StubStmt → Bool
  | [] => true
  | [s] => s == .ellipsis
  | _ => false

structure Stub where
  body : List StubStmt
  /-- result of `check_signature`; `none` = it raised a `GuppyError` -/
  sig : Option Sig
  deriving Repr

inductive StubResult where
  | accepted (ty : Sig)
  | bodyNotEmpty
  | signatureError
  | mismatch (circSig : Sig)
  deriving DecidableEq, Repr

/-- `RawPytketDef.parse`, in the order of its checks -/
def parseStub (c : Circ) (s : Stub) : StubResult :=
  if !hasEmptyBody s.body then .bodyNotEmpty
  else match s.sig with
    | none => .signatureError
    | some stub =>
      let circ := signatureFlat c
      if !(circ.inputs == stub.inputs && circ.output == stub.output) then .mismatch circ
      else .accepted stub

/-! ## `ParsedPytketDef.compile_outer` -/

/-- element type argument of `array_unpack` / `array_new` -/
inductive Elem where
  | qubit   -- `ht.Qubit`
  | bool    -- `OpaqueBool`
  | angle   -- `ht.Tuple(float)`, the lowering of `angle`
  deriving DecidableEq, Repr

/-- a wire available inside the outer function before the call -/
inductive Port where
  /-- `outer_func.inputs()[k]` -/
  | input (k : Nat)
  /-- output `e` of `array_unpack(elem, n)` applied to `outer_func.inputs()[k]` -/
  | unpack (elem : Elem) (n k e : Nat)
  deriving DecidableEq, Repr

/-- source of one argument of the call to the inner circuit function -/
inductive Src where
  | port (p : Port)
  /-- `outer_func.load(val.FALSE)` -/
  | falseConst
  /-- the output of `UnpackTuple([FLOAT_T])` applied to `p` -/
  | untuple (p : Port)
  deriving DecidableEq, Repr

inductive OutLeaf where
  /-- output `j` of the call node -/
  | call (j : Nat)
  /-- `make_opaque` applied to output `j` of the call node -/
  | opaque (j : Nat)
  deriving DecidableEq, Repr

inductive Out where
  | wire (l : OutLeaf)
  /-- `array_new(elem, n)` applied to the given wires -/
  | newArray (elem : Elem) (n : Nat) (ls : List OutLeaf)
  deriving DecidableEq, Repr

structure Wiring where
  callArgs : List Src
  outputs : List Out
  deriving DecidableEq, Repr

/-- HUGR type of an output port of the inner function, as far as the code distinguishes -/
inductive PortTy where
  | qubit | bool | other
  deriving DecidableEq, Repr

inductive CompileErr where
  /-- InternalGuppyError("Parameter metadata is missing from pytket circuit HUGR") -/
  | missingMetadata
  /-- ValueError of `zip(..., strict=True)` -/
  | zipLength
  /-- IndexError (`inputs()[i]`, `lex_params[0]`) -/
  | index
  /-- KeyError of `name_to_param[name]` -/
  | key
  deriving DecidableEq, Repr

/-- the `for i, q_reg in enumerate(q_registers)` loop, starting at input `i` -/
def unpackAll : Nat → List Reg → List Src
  | _, [] => []
  | i, r :: rs =>
    (List.range r.size).map (fun e => Src.port (.unpack .qubit r.size i e)) ++ unpackAll (i + 1) rs

/-- insertion of `x` into a sorted list, before the first element that is not smaller -/
def insertSorted {α} (lt : α → α → Bool) (x : α) : List α → List α
  | [] => [x]
  | y :: ys => if lt y x then y :: insertSorted lt x ys else x :: y :: ys

/-- Python `sorted` (stable; modelled by insertion sort) -/
def sorted {α} (lt : α → α → Bool) : List α → List α
  | [] => []
  | x :: xs => insertSorted lt x (sorted lt xs)

def strLt (a b : String) : Bool := decide (a < b)

/-- `dict(pairs)[key]`: the last binding of a key wins -/
def dictGet {β} : List (String × β) → String → Option β
  | [], _ => none
  | (k, v) :: rest, key =>
    match dictGet rest key with
    | some v' => some v'
    | none => if k = key then some v else none

/-- `lex_params`: the outer inputs after the qubits; with arrays, the elements of the one
    angle array -/
def lexParamPorts (c : Circ) (useArrays : Bool) (nOuter : Nat) : Except CompileErr (List Port) :=
  let offset := if useArrays then c.qregs.length else c.nQubits
  let lexParams : List Port := ((List.range nOuter).drop offset).map Port.input
  if useArrays then
    match lexParams with
    | .input k :: _ => .ok ((List.range c.nSyms).map fun e => Port.unpack .angle c.nSyms k e)
    | _ => .error .index
  else .ok lexParams

/-- `name_to_param[name]` followed by `UnpackTuple` -/
def bindParam (nameToParam : List (String × Port)) (name : String) : Except CompileErr Src :=
  match dictGet nameToParam name with
  | some p => .ok (.untuple p)
  | none => .error .key

/-- `name_to_param = dict(zip(sorted(param_order), lex_params, strict=True))`, then one wire per
    name of `param_order`, in that order -/
def wireParams (paramOrder : List String) (lexParams : List Port) : Except CompileErr (List Src) :=
  let lexNames := sorted strLt paramOrder
  if lexNames.length ≠ lexParams.length then .error .zipLength
  else paramOrder.mapM (bindParam (lexNames.zip lexParams))

/-- the symbolic-parameter arguments of the call -/
def paramArgs (c : Circ) (useArrays : Bool) (nOuter : Nat) (metadata : Option (List String)) :
    Except CompileErr (List Src) :=
  if c.nSyms = 0 then .ok []
  else match metadata with
    | none => .error .missingMetadata
    | some paramOrder =>
      match lexParamPorts c useArrays nOuter with
      | .error e => .error e
      | .ok lexParams => wireParams paramOrder lexParams

/-- the wires after the output rotation and the `make_opaque` conversion -/
def outWires (c : Circ) (innerOuts : List PortTy) : List OutLeaf :=
  let outputList := List.range innerOuts.length
  let wires := outputList.drop c.nQubits ++ outputList.take c.nQubits
  wires.map fun j => if innerOuts[j]? = some .bool then OutLeaf.opaque j else OutLeaf.call j

/-- one of the two packing loops, starting at `wire_idx = idx` -/
def packFrom (elem : Elem) (wires : List OutLeaf) : Nat → List Reg → List Out
  | _, [] => []
  | idx, r :: rs =>
    .newArray elem r.size ((wires.drop idx).take r.size) :: packFrom elem wires (idx + r.size) rs

/-- `ParsedPytketDef.compile_outer` for an outer function with `nOuter` inputs -/
def compileOuter (c : Circ) (useArrays : Bool) (nOuter : Nat) (metadata : Option (List String))
    (innerOuts : List PortTy) : Except CompileErr Wiring :=
  let offset := if useArrays then c.qregs.length else c.nQubits
  if useArrays && nOuter < c.qregs.length then .error .index
  else
    let inputList : List Src :=
      if useArrays then unpackAll 0 c.qregs
      else ((List.range nOuter).take offset).map fun k => Src.port (.input k)
    let boolWires := List.replicate c.nBits Src.falseConst
    match paramArgs c useArrays nOuter metadata with
    | .error e => .error e
    | .ok paramWires =>
      let wires := outWires c innerOuts
      let outputs :=
        if useArrays then
          packFrom .bool wires 0 c.cregs ++ packFrom .qubit wires (total c.cregs) c.qregs
        else wires.map Out.wire
      .ok { callArgs := inputList ++ boolWires ++ paramWires, outputs := outputs }

inductive LoadErr where
  | sig (e : SigErr)
  | compile (e : CompileErr)
  deriving DecidableEq, Repr

/-- `guppy.load_pytket(name, circ, use_arrays=…)` checked and lowered:
    `RawLoadPytketDef.parse` then `compile_outer` -/
def loadPytket (c : Circ) (useArrays : Bool) (metadata : Option (List String))
    (innerOuts : List PortTy) : Except LoadErr (Sig × Wiring) :=
  match signatureFromCircuit c useArrays with
  | .error e => .error (.sig e)
  | .ok sig =>
    match compileOuter c useArrays sig.inputs.length metadata innerOuts with
    | .error e => .error (.compile e)
    | .ok w => .ok (sig, w)

/-! ## Sessions: several loads in one process

A pytket `Circuit` is a mutable object: it can be loaded, extended, and loaded again; objects can
be deleted and their identity (`id()`) reused.  What one load sees is a `Snapshot`: the state of
the circuit object at that moment, together with what `Tk2Circuit` produces for that state
(`Converted`, opaque to the model: metadata, output port types and the content of the converted
function).  `runSession useCache` threads an explicit conversion cache keyed by object identity
through the events; the code has no such cache: it is `runSession false`. -/

/-- what `Tk2Circuit(circ)` yields for the circuit in its current state -/
structure Converted where
  metadata : Option (List String)
  innerOuts : List PortTy
  /-- content of the converted circuit function (e.g. its gate multiset); opaque to the model -/
  body : List String
  deriving DecidableEq, Repr

structure Snapshot where
  circ : Circ
  useArrays : Bool
  /-- the conversion of the circuit as it is at this moment -/
  conv : Converted
  deriving Repr

inductive Event where
  /-- `load_pytket` / `@guppy.pytket` of the object with identity `obj`, then lowering -/
  | load (obj : Nat) (s : Snapshot)
  /-- anything the compiler does not see: creating, mutating, deleting circuit objects -/
  | other
  deriving Repr

/-- signature, wiring and the content of the inserted circuit function -/
abbrev Loaded := Except LoadErr (Sig × Wiring × List String)

/-- one load, given the conversion that is inserted -/
def compileWith (s : Snapshot) (cv : Converted) : Loaded :=
  match loadPytket s.circ s.useArrays cv.metadata cv.innerOuts with
  | .error e => .error e
  | .ok (sig, w) => .ok (sig, w, cv.body)

/-- one load of the circuit as it is now -/
def compileSnapshot (s : Snapshot) : Loaded := compileWith s s.conv

abbrev ConvCache := List (Nat × Converted)

/-- the conversion used for a load, and the cache afterwards -/
def convertVia (useCache : Bool) (cache : ConvCache) (obj : Nat) (s : Snapshot) :
    Converted × ConvCache :=
  if useCache then
    match cache.lookup obj with
    | some cv => (cv, cache)
    | none => (s.conv, (obj, s.conv) :: cache)
  else (s.conv, cache)

def runSession (useCache : Bool) : ConvCache → List Event → List Loaded
  | _, [] => []
  | cache, .other :: evs => runSession useCache cache evs
  | cache, .load obj s :: evs =>
    let r := convertVia useCache cache obj s
    compileWith s r.1 :: runSession useCache r.2 evs

/-- the code: every load converts the circuit again -/
def session (evs : List Event) : List Loaded := runSession false [] evs

/-! ## pytket's view of a circuit (assumption about pytket, checked on every run)

`qubits` / `bits` are listed in increasing `UnitID` order (name, then index vector), and
`q_registers` / `c_registers` list, in that same order, registers whose units
`name[0] … name[size-1]` all occur. -/

def natListLt : List Nat → List Nat → Bool
  | [], [] => false
  | [], _ :: _ => true
  | _ :: _, [] => false
  | a :: as, b :: bs => if a < b then true else if b < a then false else natListLt as bs

def UnitId.lt (a b : UnitId) : Bool :=
  if a.name < b.name then true
  else if b.name < a.name then false
  else natListLt a.index b.index

/-- every unit is smaller than every later one -/
def strictlyIncreasing : List UnitId → Bool
  | [] => true
  | a :: rest => rest.all (fun b => a.lt b) && strictlyIncreasing rest

/-- the units of the listed registers, in listing order -/
def regUnits : List Reg → List UnitId
  | [] => []
  | r :: rs => (List.range r.size).map (fun e => ⟨r.name, [e]⟩) ++ regUnits rs

/-- `xs` is a subsequence of `ys` -/
def isSubseq : List UnitId → List UnitId → Bool
  | [], _ => true
  | _ :: _, [] => false
  | x :: xs, y :: ys => if x = y then isSubseq xs ys else isSubseq (x :: xs) ys

def Circ.viewOk (c : Circ) : Bool :=
  strictlyIncreasing c.qubits && strictlyIncreasing c.bits &&
    isSubseq (regUnits c.qregs) c.qubits && isSubseq (regUnits c.cregs) c.bits

end GuppyVerif.Pytket
