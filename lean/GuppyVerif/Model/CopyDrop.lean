import GuppyVerif.Model.Ty
/-! Model for C14: copy/drop classification of Guppy types (`tys/ty.py`), their lowering to HUGR types
  (`to_hugr`, `tys/builtin.py`, `std/_internal/compiler/{either,futures}.py`), the HUGR-side bound
  (`hugr.tys.*.type_bound`, assumed semantics of the hugr package) and `requires_drop`
  (`compiler/core.py`).

  Evaluation strategy.  Python computes `StructType.fields` by instantiating the definition's fields
  with the arguments (`Instantiator(self.args)`) and then recurses into the instantiated types.  The
  model recurses into the *definition's* field types under an environment that holds, per struct
  parameter, what the recursion would have computed for the argument (flags, HUGR type, HUGR row);
  this is structurally recursive.  `Lemmas/C14.lean` proves the substitution lemmas which show that it
  computes exactly Python's recursion equations (`flag_struct_eq`, `toHugr_struct_eq`). -/
namespace GuppyVerif.CopyDrop
open GuppyVerif

/-! ## HUGR types (the fragment `to_hugr` can produce) -/

inductive HBound where
  | copyable | linear
  deriving DecidableEq, Repr, Inhabited

/-- `TypeBound.join` of two bounds (least upper bound, `Copyable < Linear`) -/
def HBound.join : HBound → HBound → HBound
  | .copyable, .copyable => .copyable
  | _, _ => .linear

/-- how `ExtType.type_bound()` is determined: `ExplicitBound(b)`, or the join of the bounds of the
    type arguments (`FromParamsBound` over every type parameter; also the `type_bound` overrides of
    `hugr.std.collections.{list.List, static_array.StaticArray}`) -/
inductive ExtRule where
  | explicit (b : HBound)
  | joinArgs
  deriving DecidableEq, Repr, Inhabited

mutual
inductive HTy where
  /-- `ht.ExtType(type_def, args)`; `name` = qualified name of the type definition -/
  | ext (name : String) (rule : ExtRule) (args : List HArg)
  /-- `ht.Sum(variant_rows)` (also `Tuple`, `Option`, `Either`) -/
  | sum (rows : List HRow)
  | var (idx : Nat) (b : HBound)
  | func (ins outs : List HTy)
  | qubit
inductive HRow where
  | mk (ts : List HTy)
inductive HArg where
  | ty (t : HTy)
  | nat (n : Nat)
  | natVar (idx : Nat)
end

instance : Inhabited HTy := ⟨.qubit⟩

mutual
/-- `Type.type_bound()` of the hugr package -/
def typeBound : HTy → HBound
  | .ext _ (.explicit b) _ => b
  | .ext _ .joinArgs args => typeBoundArgs args
  | .sum rows => typeBoundRows rows
  | .var _ b => b
  | .func _ _ => .copyable
  | .qubit => .linear
def typeBoundArgs : List HArg → HBound
  | [] => .copyable
  | .ty t :: r => (typeBound t).join (typeBoundArgs r)
  | .nat _ :: r => typeBoundArgs r
  | .natVar _ :: r => typeBoundArgs r
def typeBoundRows : List HRow → HBound
  | [] => .copyable
  | .mk ts :: r => (typeBoundList ts).join (typeBoundRows r)
def typeBoundList : List HTy → HBound
  | [] => .copyable
  | t :: r => (typeBound t).join (typeBoundList r)
end

mutual
/-- `compiler/core.py::requires_drop`; `aff` = `AFFINE_EXTENSION_TYS` -/
def requiresDrop (aff : List String) : HTy → Bool
  | .ext name _ args => aff.contains name || requiresDropArgs aff args
  | .sum rows => requiresDropRows aff rows
  | .var _ b => b == .linear
  | .func _ _ => false
  | .qubit => false
def requiresDropArgs (aff : List String) : List HArg → Bool
  | [] => false
  | .ty t :: r => requiresDrop aff t || requiresDropArgs aff r
  | .nat _ :: r => requiresDropArgs aff r
  | .natVar _ :: r => requiresDropArgs aff r
def requiresDropRows (aff : List String) : List HRow → Bool
  | [] => false
  | .mk ts :: r => requiresDropList aff ts || requiresDropRows aff r
def requiresDropList (aff : List String) : List HTy → Bool
  | [] => false
  | t :: r => requiresDrop aff t || requiresDropList aff r
end

/-- `ht.Option(t)` = `Sum([[], [t]])` -/
def optionOf (h : HTy) : HTy := .sum [.mk [], .mk [h]]
/-- `ht.Tuple(*ts)` = `Sum([ts])` -/
def tupleOf (hs : List HTy) : HTy := .sum [.mk hs]

def flagB (c : Bool) : HBound := if c then .copyable else .linear

/-- `NumericType.to_hugr`: `int_t(6)` for nat/int, `FLOAT_T` -/
def numT : NumKind → HTy
  | .float => .ext "arithmetic.float.types.float64" (.explicit .copyable) []
  | _ => .ext "arithmetic.int.types.int" (.explicit .copyable) [.nat 6]

/-! ## Opaque type definitions (`OpaqueTypeDef`), table regenerated into `Gen/C14TypeDefs.lean` -/

inductive PKind where
  | ty (cp dr : Bool)
  | const
  deriving DecidableEq, Repr, Inhabited

/-- which `to_hugr` function the definition uses -/
inductive Shape where
  /-- `lambda args, ctx: hugr_ty` (the definition has no parameters; `check_instantiate` guarantees
      an empty argument list, the model returns an error otherwise) -/
  | static (h : HTy)
  /-- `_list_to_hugr`: `List(Option(elem) if elem.linear else elem)` -/
  | listOpt (ext : String) (rule : ExtRule)
  /-- `_array_to_hugr`: `BorrowArray(elem, len)` (hugr args `[len, elem]`) -/
  | array (ext : String) (rule : ExtRule)
  /-- `_frozenarray_to_hugr`: `StaticArray(elem)`; the constructor raises unless elem is copyable -/
  | staticArray (ext : String) (rule : ExtRule)
  /-- `_sized_iter_to_hugr`: the underlying type -/
  | underlying
  /-- `_option_to_hugr` -/
  | option
  /-- `either_to_hugr`: `Either(type_to_row(L), type_to_row(R))` -/
  | either
  /-- `future_to_hugr`-like: `type_def.instantiate([TypeTypeArg(elem)])` -/
  | ext1 (ext : String) (rule : ExtRule)
  | unknown

structure OpaqueDef where
  name : String
  neverCopyable : Bool
  neverDroppable : Bool
  bound : Option HBound
  params : List PKind
  shape : Shape

def lookup (D : List OpaqueDef) (n : String) : Option OpaqueDef := D.find? (fun d => d.name == n)

inductive Sel where
  | copy | drop
  deriving DecidableEq, Repr

def OpaqueDef.never (d : OpaqueDef) : Sel → Bool
  | .copy => d.neverCopyable
  | .drop => d.neverDroppable

def selFlag : Sel → Bool → Bool → Bool
  | .copy, c, _ => c
  | .drop, _, d => d

/-- `not defn.never_copyable` / `not defn.never_droppable` (an unknown definition cannot occur in
    Python: the type object holds its definition; the driver reports it as an error) -/
def intrinsic (D : List OpaqueDef) (s : Sel) (n : String) : Bool :=
  match lookup D n with
  | some d => !d.never s
  | none => false

/-! ## `Type.copyable` / `Type.droppable`

  `flagG D u s ρ t`: `u = true` is Python's rule (`ParametrizedTypeBase.copyable`: intrinsic flag and all
  type arguments).  `u = false` ignores the *type arguments of struct types* (fields only); it is used
  only to state precisely what the HUGR bound of the lowered type reflects (`coreCopyable`). -/
mutual
/-- `ρ` holds the flag of the argument for each enclosing struct parameter (`true` at const positions) -/
def flagG (D : List OpaqueDef) (u : Bool) (s : Sel) (ρ : List Bool) : Ty → Bool
  | .num _ => true
  | .none _ => true
  | .bvar _ i c d => match ρ[i]? with
    | some b => b
    | none => selFlag s c d
  | .evar _ _ c d => selFlag s c d
  | .tuple ts _ => flagGList D u s ρ ts
  | .func _ _ _ _ => true
  | .opaque n as => intrinsic D s n && flagGArgs D u s ρ as
  | .struct _ as fs => flagGList D u s (flagEnvArgs D u s ρ as) fs && (!u || flagGArgs D u s ρ as)
def flagGList (D : List OpaqueDef) (u : Bool) (s : Sel) (ρ : List Bool) : List Ty → Bool
  | [] => true
  | t :: r => flagG D u s ρ t && flagGList D u s ρ r
def flagGArgs (D : List OpaqueDef) (u : Bool) (s : Sel) (ρ : List Bool) : List Arg → Bool
  | [] => true
  | .ty t :: r => flagG D u s ρ t && flagGArgs D u s ρ r
  | .const _ :: r => flagGArgs D u s ρ r
def flagEnvArgs (D : List OpaqueDef) (u : Bool) (s : Sel) (ρ : List Bool) : List Arg → List Bool
  | [] => []
  | .ty t :: r => flagG D u s ρ t :: flagEnvArgs D u s ρ r
  | .const _ :: r => true :: flagEnvArgs D u s ρ r
end

/-- Python's `Type.copyable` / `Type.droppable` under an environment -/
abbrev flagE (D : List OpaqueDef) (s : Sel) (ρ : List Bool) (t : Ty) : Bool := flagG D true s ρ t

def copyable (D : List OpaqueDef) (t : Ty) : Bool := flagG D true .copy [] t
def droppable (D : List OpaqueDef) (t : Ty) : Bool := flagG D true .drop [] t
/-- copyable / droppable when struct type arguments are not counted (fields only) -/
def coreCopyable (D : List OpaqueDef) (t : Ty) : Bool := flagG D false .copy [] t
def coreDroppable (D : List OpaqueDef) (t : Ty) : Bool := flagG D false .drop [] t

/-! "no phantom parameter": at every struct node (also inside definition fields, evaluated under the
  actual arguments) the type arguments carry the flag whenever all fields do -/
mutual
def npE (D : List OpaqueDef) (s : Sel) (ρ : List Bool) : Ty → Bool
  | .tuple ts _ => npEList D s ρ ts
  | .opaque _ as => npEArgs D s ρ as
  | .struct _ as fs =>
      (!flagGList D true s (flagEnvArgs D true s ρ as) fs || flagGArgs D true s ρ as) &&
      npEList D s (flagEnvArgs D true s ρ as) fs && npEArgs D s ρ as
  | _ => true
def npEList (D : List OpaqueDef) (s : Sel) (ρ : List Bool) : List Ty → Bool
  | [] => true
  | t :: r => npE D s ρ t && npEList D s ρ r
def npEArgs (D : List OpaqueDef) (s : Sel) (ρ : List Bool) : List Arg → Bool
  | [] => true
  | .ty t :: r => npE D s ρ t && npEArgs D s ρ r
  | .const _ :: r => npEArgs D s ρ r
end

def noPhantom (D : List OpaqueDef) (s : Sel) (t : Ty) : Bool := npE D s [] t

/-! ## `Type.hugr_bound` (Guppy's own computation of the bound) -/
def joinAll (b : HBound) (bs : List HBound) : HBound := bs.foldl HBound.join b

mutual
def hugrBound (D : List OpaqueDef) : Ty → Option HBound
  | .num _ => some .copyable
  | .none _ => some .copyable
  | .func _ _ _ _ => some .copyable
  | .bvar _ _ c _ => some (flagB c)
  | .evar _ _ _ _ => none
  | .tuple ts p => do some (joinAll (flagB (copyable D (.tuple ts p))) (← hugrBoundList D ts))
  | .opaque n as =>
      match (lookup D n).bind (·.bound) with
      | some b => some b
      | none => do some (joinAll (flagB (copyable D (.opaque n as))) (← hugrBoundArgs D as))
  | .struct n as fs => do some (joinAll (flagB (copyable D (.struct n as fs))) (← hugrBoundArgs D as))
def hugrBoundList (D : List OpaqueDef) : List Ty → Option (List HBound)
  | [] => some []
  | t :: r => do some ((← hugrBound D t) :: (← hugrBoundList D r))
def hugrBoundArgs (D : List OpaqueDef) : List Arg → Option (List HBound)
  | [] => some []
  | .ty t :: r => do some ((← hugrBound D t) :: (← hugrBoundArgs D r))
  | .const _ :: r => hugrBoundArgs D r
end

/-! ## `Type.to_hugr(ctx)` for a context without monomorphization -/

/-- what the recursion computed for the argument bound to a struct parameter -/
inductive EnvE where
  | ty (cp dr : Bool) (h : Option HTy) (row : Option (List HTy))
  | const (a : Option HArg)

def EnvE.flag (s : Sel) : EnvE → Bool
  | .ty c d _ _ => selFlag s c d
  | .const _ => true

def flagEnv (s : Sel) (ρ : List EnvE) : List Bool := ρ.map (EnvE.flag s)

/-- `ConstArg.to_hugr` / `const_var_to_hugr` (no monomorphization) -/
def constArgE (ρ : List EnvE) : Const → Option HArg
  | .val (.num .nat) (.int v) => if 0 ≤ v then some (.nat v.toNat) else none
  | .val _ _ => none
  | .bvar ty _ i =>
      match ρ[i]? with
      | some (.const a) => a
      | some (.ty _ _ _ _) => none
      | none => match ty with
        | .num .nat => some (.natVar (i - ρ.length))
        | _ => none
  | .evar _ _ _ => none

/-- HUGR type of a bound type variable -/
def varH (ρ : List EnvE) (i : Nat) (c : Bool) : Option HTy :=
  match ρ[i]? with
  | some (.ty _ _ h _) => h
  | some (.const _) => none
  | none => some (.var (i - ρ.length) (flagB c))

/-- `type_to_row` then `to_hugr` of a bound type variable -/
def varRow (ρ : List EnvE) (i : Nat) (c : Bool) : Option (List HTy) :=
  match ρ[i]? with
  | some (.ty _ _ _ r) => r
  | some (.const _) => none
  | none => some [.var (i - ρ.length) (flagB c)]

/-- the single row of a `Tuple` HUGR type -/
def unpackRow : HTy → Option (List HTy)
  | .sum [.mk hs] => some hs
  | _ => none

/-- `[x.to_hugr(ctx) for x in type_to_row(t)]`, given `h = t.to_hugr(ctx)`: a top-level tuple / `None`
    without the `preserve` flag is unpacked into its elements (the model unpacks the HUGR tuple that was
    just built; Python maps `to_hugr` over `element_types` — the same list) -/
def rowOf (ρ : List EnvE) (t : Ty) (h : Option HTy) : Option (List HTy) :=
  match t with
  | .none false => h.bind unpackRow
  | .tuple _ false => h.bind unpackRow
  | .bvar _ i c _ => varRow ρ i c
  | _ => h.map (fun x => [x])

mutual
def toHugrE (D : List OpaqueDef) (ρ : List EnvE) : Ty → Option HTy
  | .num k => some (numT k)
  | .none _ => some (tupleOf [])
  | .bvar _ i c _ => varH ρ i c
  | .evar _ _ _ _ => none
  | .tuple ts _ => do some (tupleOf (← toHugrEList D ρ ts))
  | .func ins o ps _ =>
      if ps.isEmpty then do
        let is ← funcInsE D ρ ins
        -- `type_to_row(self.output)`
        let os ← rowOf ρ o (toHugrE D ρ o)
        let bs ← funcInoutsE D ρ ins
        some (.func is (os ++ bs))
      else none
  | .opaque n as =>
      match lookup D n with
      | none => none
      | some d =>
        match d.shape, as with
        | .static h, [] => some h
        | .listOpt e r, [.ty t] => do
            let h ← toHugrE D ρ t
            let lin := !flagE D .copy (flagEnv .copy ρ) t && !flagE D .drop (flagEnv .drop ρ) t
            some (.ext e r [.ty (if lin then optionOf h else h)])
        | .array e r, [.ty t, .const c] => do
            let h ← toHugrE D ρ t
            let a ← constArgE ρ c
            some (.ext e r [a, .ty h])
        | .staticArray e r, [.ty t, .const _] => do
            let h ← toHugrE D ρ t
            if typeBound h = .copyable then some (.ext e r [.ty h]) else none
        | .underlying, [.ty t, .const _] => toHugrE D ρ t
        | .option, [.ty t] => do some (optionOf (← toHugrE D ρ t))
        | .either, [.ty l, .ty r] => do
            let ls ← rowOf ρ l (toHugrE D ρ l)
            let rs ← rowOf ρ r (toHugrE D ρ r)
            some (.sum [.mk ls, .mk rs])
        | .ext1 e r, [.ty t] => do some (.ext e r [.ty (← toHugrE D ρ t)])
        | _, _ => none
  | .struct _ as fs => do some (tupleOf (← toHugrEList D (envArgs D ρ as) fs))
def toHugrEList (D : List OpaqueDef) (ρ : List EnvE) : List Ty → Option (List HTy)
  | [] => some []
  | t :: r => do some ((← toHugrE D ρ t) :: (← toHugrEList D ρ r))
/-- inputs that are not `@comptime` -/
def funcInsE (D : List OpaqueDef) (ρ : List EnvE) : List FuncIn → Option (List HTy)
  | [] => some []
  | .mk t f :: r =>
      if f.comptime then funcInsE D ρ r
      else do some ((← toHugrE D ρ t) :: (← funcInsE D ρ r))
/-- borrowed inputs are returned as additional outputs -/
def funcInoutsE (D : List OpaqueDef) (ρ : List EnvE) : List FuncIn → Option (List HTy)
  | [] => some []
  | .mk t f :: r =>
      if f.inout then do some ((← toHugrE D ρ t) :: (← funcInoutsE D ρ r))
      else funcInoutsE D ρ r
def envArgs (D : List OpaqueDef) (ρ : List EnvE) : List Arg → List EnvE
  | [] => []
  | .ty t :: r =>
      .ty (flagE D .copy (flagEnv .copy ρ) t) (flagE D .drop (flagEnv .drop ρ) t) (toHugrE D ρ t)
        (rowOf ρ t (toHugrE D ρ t)) :: envArgs D ρ r
  | .const c :: r => .const (constArgE ρ c) :: envArgs D ρ r
end

/-- `[t.to_hugr(ctx) for t in type_to_row(ty)]` -/
def toRowE (D : List OpaqueDef) (ρ : List EnvE) (t : Ty) : Option (List HTy) :=
  rowOf ρ t (toHugrE D ρ t)

def toHugr (D : List OpaqueDef) (t : Ty) : Option HTy := toHugrE D [] t

def PKind.isTy : PKind → Bool
  | .ty _ _ => true
  | .const => false

def Arg.isTy : Arg → Bool
  | .ty _ => true
  | .const _ => false

/-! every opaque definition mentioned by the type (recursively, definition fields included) is in the
    table and is applied to arguments of the kinds of its parameters (what `check_instantiate` ensures) -/
mutual
def known (D : List OpaqueDef) : Ty → Bool
  | .tuple ts _ => knownList D ts
  | .func ins o _ _ => knownIns D ins && known D o
  | .opaque n as =>
      (match lookup D n with
        | some d => as.map Arg.isTy == d.params.map PKind.isTy
        | none => false) && knownArgs D as
  | .struct _ as fs => knownArgs D as && knownList D fs
  | _ => true
def knownList (D : List OpaqueDef) : List Ty → Bool
  | [] => true
  | t :: r => known D t && knownList D r
def knownIns (D : List OpaqueDef) : List FuncIn → Bool
  | [] => true
  | .mk t _ :: r => known D t && knownIns D r
def knownArgs (D : List OpaqueDef) : List Arg → Bool
  | [] => true
  | .ty t :: r => known D t && knownArgs D r
  | .const _ :: r => knownArgs D r
end

/-! ## Consistency of one table row (checked by `decide` on the regenerated table) -/
def HBound.isCopyable : HBound → Bool
  | .copyable => true
  | .linear => false

def ExtRule.isJoin : ExtRule → Bool
  | .joinArgs => true
  | _ => false

def ExtRule.isExplicitLinear : ExtRule → Bool
  | .explicit .linear => true
  | _ => false

def PKind.mustCopy : PKind → Bool
  | .ty c _ => c
  | .const => false

/-- parameter kinds are exactly `[type, …]` resp. `[type, const]` -/
def kindsAre (ps : List PKind) (ks : List Bool) : Bool := ps.map PKind.isTy == ks

def rowOk (aff : List String) (d : OpaqueDef) : Bool :=
  (match d.bound with
    | none => true
    | some b => d.params.isEmpty && (b.isCopyable == !d.neverCopyable)) &&
  (match d.shape with
    | .static h =>
        d.params.isEmpty && ((typeBound h).isCopyable == !d.neverCopyable) &&
        ((typeBound h).isCopyable || d.neverDroppable || requiresDrop aff h) &&
        (!(typeBound h).isCopyable || !requiresDrop aff h)
    | .listOpt e r =>
        r.isJoin && !d.neverCopyable && !d.neverDroppable && !aff.contains e && kindsAre d.params [true]
    | .array e r =>
        r.isExplicitLinear && d.neverCopyable && !d.neverDroppable && aff.contains e &&
        kindsAre d.params [true, false]
    | .staticArray e r =>
        r.isJoin && !d.neverCopyable && !d.neverDroppable && !aff.contains e &&
        kindsAre d.params [true, false] && (d.params.head?.map PKind.mustCopy == some true)
    | .underlying => !d.neverCopyable && !d.neverDroppable && kindsAre d.params [true, false]
    | .option => !d.neverCopyable && !d.neverDroppable && kindsAre d.params [true]
    | .either => !d.neverCopyable && !d.neverDroppable && kindsAre d.params [true, true]
    | .ext1 _ r => r.isExplicitLinear && d.neverCopyable && d.neverDroppable && kindsAre d.params [true]
    | .unknown => false)

/-- the HUGR types of `int`/`nat`/`float` are not in `AFFINE_EXTENSION_TYS` -/
def affOk (aff : List String) : Bool :=
  !aff.contains "arithmetic.int.types.int" && !aff.contains "arithmetic.float.types.float64"

def tableOk (aff : List String) (D : List OpaqueDef) : Bool := D.all (rowOk aff)

/-! ## Printing HUGR types (driver) -/
mutual
partial def showH : HTy → String
  | .ext n _ as => "(ext " ++ n ++ String.join (as.map fun a => " " ++ showHArg a) ++ ")"
  | .sum rows => "(sum" ++ String.join (rows.map fun r => " " ++ showHRow r) ++ ")"
  | .var i b => s!"(var {i} {showB b})"
  | .func is os => "(func (" ++ " ".intercalate (is.map showH) ++ ") (" ++ " ".intercalate (os.map showH) ++ "))"
  | .qubit => "qubit"
partial def showHRow : HRow → String
  | .mk ts => "(" ++ " ".intercalate (ts.map showH) ++ ")"
partial def showHArg : HArg → String
  | .ty t => "(t " ++ showH t ++ ")"
  | .nat n => s!"(n {n})"
  | .natVar i => s!"(nv {i})"
partial def showB : HBound → String
  | .copyable => "C"
  | .linear => "L"
end

end GuppyVerif.CopyDrop
