/-! # Model of `track_hugr_side_effects` (compiler/core.py): state-order edges between side-effecting nodes

Import-free.  While a definition is lowered, every `Hugr.add_node` is intercepted; when the new node's
operation may have a side effect (`may_have_side_effect`: calls, result / panic / exit / qubit
allocation-free ops), `handle_side_effect` links it behind the previous side-effecting node of the same
dataflow parent (or behind the parent's `Input` node when it is the first one, after first marking the
parent itself — recursively, up to but not through a `FuncDefn`; for a `Conditional` / `CFG` parent the
recursion marks the container but adds no edge among its children), and remembers it as the new last
one.  At the end every region's last node is linked to the region's `Output`.

Nodes are numbered in insertion order; `children p` lists the nodes with parent `p` in insertion order,
so `children p [0]` / `[1]` are the region's `Input` / `Output`, as in hugr-py's dataflow builders. -/
namespace GuppyVerif.OrderEdges

inductive Kind where
  | funcDefn | cond | cfg | other
  deriving DecidableEq, Repr, Inhabited

structure Node where
  parent : Option Nat
  kind : Kind
  eff : Bool
  deriving DecidableEq, Repr, Inhabited

structure St where
  nodes : List Node := []
  /-- `prev_node_with_side_effect`, keys in first-insertion order (Python dict order) -/
  prev : List (Nat × Nat) := []
  /-- order edges in the order `add_order_link` was called -/
  edges : List (Nat × Nat) := []
  /-- a node that already has an incoming order edge (or a region's `Input`) was linked again: the builder
      did not populate containers in a nested fashion; never observed -/
  dup : Bool := false
  deriving DecidableEq, Repr, Inhabited

def parentOf (nodes : List Node) (n : Nat) : Option Nat := nodes[n]?.bind (·.parent)
def kindOf (nodes : List Node) (n : Nat) : Kind := (nodes[n]?.map (·.kind)).getD .other

/-- `hugr.children(p)` -/
def children (nodes : List Node) (p : Nat) : List Nat :=
  (List.range nodes.length).filter fun i => parentOf nodes i == some p

def lookup (prev : List (Nat × Nat)) (p : Nat) : Option Nat := (prev.find? (·.1 == p)).map (·.2)

def setPrev (prev : List (Nat × Nat)) (p n : Nat) : List (Nat × Nat) :=
  if prev.any (·.1 == p) then prev.map fun e => if e.1 == p then (p, n) else e else prev ++ [(p, n)]

/-- `if prev_node != node: hugr.add_order_link(prev_node, node); prev[parent] = node` -/
def linkAfter (v x p : Nat) (s : St) : St :=
  if v == x then s
  else
    { s with edges := s.edges ++ [(v, x)], prev := setPrev s.prev p x,
             dup := s.dup || s.edges.any (·.2 == x) || (children s.nodes p).head? == some x }

/-- `handle_side_effect(node, hugr)`; the recursion goes up the hierarchy, `fuel` bounds its depth -/
def handle : Nat → St → Nat → St
  | 0, s, _ => s
  | fuel + 1, s, x =>
    match parentOf s.nodes x with
    | none => s
    | some p =>
      match lookup s.prev p with
      | some v => linkAfter v x p s
      | none =>
        let isFn := kindOf s.nodes p == .funcDefn
        let s1 := if isFn then s else handle fuel s p
        if !isFn && (kindOf s.nodes p == .cond || kindOf s.nodes p == .cfg) then s1
        else
          match (children s1.nodes p).head? with
          | some inp => linkAfter inp x p s1
          | none => s1

/-- the patched `Hugr.add_node` -/
def addNode (nd : Node) (s : St) : St :=
  let s1 := { s with nodes := s.nodes ++ [nd] }
  if nd.eff then handle s1.nodes.length s1 s.nodes.length else s1

/-- leaving the context: `for parent, (last, hugr) in prev.items(): add_order_link(last, children(parent)[1])` -/
def finish (s : St) : St :=
  { s with edges := s.edges ++ s.prev.filterMap fun (p, last) => ((children s.nodes p)[1]?).map fun out => (last, out) }

def runAll (nds : List Node) : St := finish (nds.foldl (fun s nd => addNode nd s) {})

end GuppyVerif.OrderEdges
