import GuppyVerif.Model.Dataflow
/-! Model of the definedness / type-join part of `checker/cfg_checker.py`
    (`check_cfg`, `check_bb`, `check_rows_match`) and of `cfg/bb.py: VariableVisitor`
    on CFGs whose statements are abstracted to ordered *events*: a read of a variable or an
    assignment of a value of a known type.  Types are opaque tags.  Import-free, executable.

    The real checker raises the *first* error it meets; which of several undefined variables
    at one edge is met first depends on the iteration order of the `live_before` dict, so the
    model returns *all* candidate errors of the first failing step. -/
namespace GuppyVerif.UseDef
open GuppyVerif.Dataflow

abbrev Ty := Nat

inductive Ev where
  | use (x : Var)
  | asg (x : Var) (t : Ty)
  deriving Repr, DecidableEq

abbrev Row := List (Var × Ty)

structure UCfg where
  blocks : List Blk
  succ : Blk → List Blk
  dsucc : Blk → List Blk
  pred : Blk → List Blk
  dpred : Blk → List Blk
  entry : Blk
  events : Blk → List Ev
  args : Row                 -- function inputs (name, type), all definitely assigned
  globals : List Var         -- names that resolve as globals / generic parameters

/-- `VariableVisitor`: variables read in the block before being assigned in it (first-use order) -/
def usedOf : List Ev → List Var → List Var → List Var
  | [], _, acc => acc.reverse
  | .use x :: es, asgd, acc =>
    if asgd.contains x || acc.contains x then usedOf es asgd acc else usedOf es asgd (x :: acc)
  | .asg x _ :: es, asgd, acc => usedOf es (x :: asgd) acc

def assignedOf (es : List Ev) : List Var :=
  es.filterMap fun | .asg x _ => some x | .use _ => none

/-- the CFG as the dataflow analyses see it (`CFG.analyze` with no borrowed parameters) -/
def UCfg.cfg (U : UCfg) : Cfg :=
  { blocks := U.blocks, succ := U.succ, dsucc := U.dsucc, pred := U.pred, dpred := U.dpred,
    used := fun b => usedOf (U.events b) [] [], assigned := fun b => assignedOf (U.events b) }

/-- `cfg.assigned_somewhere` -/
def UCfg.assignedSomewhere (U : UCfg) : List Var :=
  U.args.map (·.1) ++ U.blocks.flatMap fun b => assignedOf (U.events b)

/-- results of `CFG.analyze` -/
structure Ana where
  live : Blk → List Var
  defass : Blk → List Var
  maybe : Blk → List Var

inductive Err where
  | notDefined (x : Var)
  | branchType (x : Var)
  | internal (code : Nat)       -- 1 = KeyError in check_rows_match, 2 = bad queue index
  deriving Repr, DecidableEq

def lookup (x : Var) : Row → Option Ty
  | [] => none
  | (y, t) :: r => if x = y then some t else lookup x r

/-- statements of a block update the local typing context -/
def runEvents (env : Row) : List Ev → Row
  | [] => env
  | .use _ :: es => runEvents env es
  | .asg x t :: es => runEvents ((x, t) :: env.filter (·.1 != x)) es

/-- the definedness test `check_bb` performs for variable `x` requested by successor `s` -/
def defCheck (U : UCfg) (env : Row) (x : Var) : Option Err :=
  if U.assignedSomewhere.contains x then
    if (lookup x env).isSome then none else some (.notDefined x)
  else if U.globals.contains x then none else some (.notDefined x)

/- The real code raises `VarMaybeNotDefinedError` instead of `VarNotDefinedError` when
   `x in maybe_ass_before[use_bb]` (wording only; both carry the title "Variable not defined").
   The model has one class `notDefined` for both and the harness compares them as one. -/

def rowFor (A : Ana) (env : Row) (s : Blk) : Row :=
  (A.live s).filterMap fun x => (lookup x env).map fun t => (x, t)

/-- `check_bb`: candidate errors, or the output rows (real successors then dummy successors) -/
def checkBB (U : UCfg) (A : Ana) (b : Blk) (inputs : Row) : Except (List Err) (List Row) :=
  let entryErrs : List Err :=
    if b = U.entry then
      ((U.cfg.used b).filter fun x =>
        !(A.defass b).contains x &&
          (U.assignedSomewhere.contains x || !U.globals.contains x)).map .notDefined
    else []
  if !entryErrs.isEmpty then .error entryErrs
  else
    let env := runEvents inputs (U.events b)
    let succs := U.succ b ++ U.dsucc b
    let errs := succs.flatMap fun s => (A.live s).filterMap (defCheck U env)
    if !errs.isEmpty then .error errs else .ok (succs.map (rowFor A env))

/-- `check_rows_match`: candidate errors -/
def rowsMatch (r1 r2 : Row) : List Err :=
  let keys := r1.map (·.1) ++ (r2.map (·.1)).filter (fun x => !(r1.map (·.1)).contains x)
  keys.filterMap fun x =>
    match lookup x r1, lookup x r2 with
    | some t1, some t2 => if t1 = t2 then none else some (.branchType x)
    | _, _ => some (.internal 1)

def enumFrom (p : Blk) : Nat → List Blk → List (Blk × Nat × Blk)
  | _, [] => []
  | i, s :: ss => (p, i, s) :: enumFrom p (i + 1) ss

/-- `reverse_enumerate(successors)` tagged with the predecessor -/
def revEnum (p : Blk) (ss : List Blk) : List (Blk × Nat × Blk) := (enumFrom p 0 ss).reverse

/-- compiled blocks: block, input row, output rows -/
abbrev Compiled := List (Blk × Row × List Row)

def findC (b : Blk) : Compiled → Option (Row × List Row)
  | [] => none
  | (c, r) :: rest => if b = c then some r else findC b rest

/-- the BFS loop of `check_cfg`; `none` = out of fuel -/
def bfs (U : UCfg) (A : Ana) : Nat → List (Blk × Nat × Blk) → Compiled → Option (Except (List Err) Compiled)
  | 0, [], comp => some (.ok comp)
  | 0, _ :: _, _ => none
  | _ + 1, [], comp => some (.ok comp)
  | fuel + 1, (p, i, b) :: q, comp =>
    match (findC p comp).bind fun r => r.2[i]? with
    | none => some (.error [.internal 2])
    | some inputRow =>
      match findC b comp with
      | some (rowb, _) =>
        match rowsMatch inputRow rowb with
        | [] => bfs U A fuel q comp
        | errs => some (.error errs)
      | none =>
        match checkBB U A b inputRow with
        | .error es => some (.error es)
        | .ok outs => bfs U A fuel (q ++ revEnum b (U.succ b ++ U.dsucc b)) ((b, inputRow, outs) :: comp)

/-- `check_cfg` given the analysis results -/
def checkCfg (U : UCfg) (A : Ana) (fuel : Nat) : Option (Except (List Err) Compiled) :=
  match checkBB U A U.entry U.args with
  | .error es => some (.error es)
  | .ok outs =>
    bfs U A fuel (revEnum U.entry (U.succ U.entry ++ U.dsucc U.entry)) [(U.entry, U.args, outs)]

/-- analyses + check, with a fixed scheduler (the results do not depend on it: C09) -/
def check (U : UCfg) (fuel : Nat) : Option (Except (List Err) Compiled) :=
  let g := U.cfg
  let P : AParams := ⟨U.args.map (·.1), U.args.map (·.1)⟩
  match liveRun g (fun q => q.headD 0) fuel (liveInit g []),
        assRun g P (fun q => q.headD 0) fuel (assInit g P) with
  | some l, some a => checkCfg U ⟨l.vals, a.befD, a.befM⟩ fuel
  | _, _ => none

end GuppyVerif.UseDef
