import GuppyVerif.Model.IntLit
/-! # Coerce — implicit numeric coercion (C16)

Mirrors `check_type_against` (numeric part) and `try_coerce_to` of `checker/expr_checker.py`:

```python
if act.kind < exp.kind:
    f = ctx.globals.get_instance_func(act, f"__{exp.kind.name.lower()}__")
    assert f is not None
    node, subst = f.check_call([node], exp, node, ctx)
```
The model is parametric in a `Cfg` that the translator regenerates from the source on every run
(`Gen/C16Coerce.lean`): the `NumericType.Kind` member values, the comparison used by `Kind.__lt__`, the
comparison written in `try_coerce_to`, the method-name template and the implementation of every
`__nat__/__int__/__float__` method of `num.py`.  Import-free. -/
namespace GuppyVerif.Coerce
open GuppyVerif.IntLit (Kind)
open GuppyVerif.IntSem

structure Cfg where
  kindValues : List (String × Nat)           -- NumericType.Kind members with their `auto()` values
  kindLt : String × String × String          -- `Kind.__lt__`: (cmp op, left, right) over `.value`
  coerceCond : String × String × String      -- `try_coerce_to`: (cmp op, left, right)
  methodTemplate : String
  methods : List (String × String × String)  -- (guppy type, method, implementation)
  setitemIndexSlot : String                  -- index slot of the expected `__setitem__` signature in `check_place_assignable`:
                                             -- "fresh" (a new type variable) | "item.ty" (the index expression's own type)

def enumName : Kind → String
  | .nat => "Nat" | .int => "Int" | .float => "Float"

/-- the Guppy type name = `kind.name.lower()` -/
def tyName : Kind → String
  | .nat => "nat" | .int => "int" | .float => "float"

def cmpNat (op : String) (a b : Nat) : Option Bool :=
  match op with
  | "Lt" => some (decide (a < b)) | "LtE" => some (decide (a ≤ b))
  | "Gt" => some (decide (a > b)) | "GtE" => some (decide (a ≥ b))
  | "Eq" => some (a == b) | "NotEq" => some (a != b)
  | _ => none

def kindValue (cfg : Cfg) (k : Kind) : Option Nat := cfg.kindValues.lookup (enumName k)

/-- `Kind.__lt__(self, other)` -/
def kindLt (cfg : Cfg) (self other : Kind) : Option Bool := do
  let vs ← kindValue cfg self
  let vo ← kindValue cfg other
  match cfg.kindLt with
  | (op, "self.value", "other.value") => cmpNat op vs vo
  | (op, "other.value", "self.value") => cmpNat op vo vs
  | _ => none

/-- a rich comparison between two `Kind`s under `functools.total_ordering` (everything derives from
    `__lt__` and identity) -/
def kindCmp (cfg : Cfg) (op : String) (x y : Kind) : Option Bool := do
  let lt ← kindLt cfg x y
  match op with
  | "Lt" => some lt
  | "LtE" => some (lt || x == y)
  | "Gt" => some (!lt && x != y)
  | "GtE" => some (!lt)
  | "Eq" => some (x == y)
  | "NotEq" => some (x != y)
  | _ => none

inductive Out
  | same                      -- types unify: nothing inserted
  | coerced (impl : String)   -- implicit coercion through a method with this implementation
  | mismatch                  -- TypeMismatchError
  | stuck (why : String)      -- source shape the model does not cover / `assert f is not None` fails
  deriving DecidableEq, Repr, Inhabited

def Out.isCoerced : Out → Bool
  | .coerced _ => true | _ => false

/-- `try_coerce_to(act, exp)`: `some impl` when a coercion is inserted -/
def tryCoerce (cfg : Cfg) (act exp : Kind) : Out :=
  let cond : Option Bool :=
    match cfg.coerceCond with
    | (op, "act.kind", "exp.kind") => kindCmp cfg op act exp
    | (op, "exp.kind", "act.kind") => kindCmp cfg op exp act
    | _ => none
  match cond with
  | none => .stuck "condition"
  | some false => .mismatch
  | some true =>
    if cfg.methodTemplate == "f'__{exp.kind.name.lower()}__'" then
      match cfg.methods.find? (fun r => r.1 == tyName act && r.2.1 == "__" ++ tyName exp ++ "__") with
      | some r => .coerced r.2.2
      | none => .stuck "no coercion method"
    else .stuck "template"

/-- `check_type_against(act, exp)` on numeric kinds -/
def against (cfg : Cfg) (act exp : Kind) : Out :=
  if act = exp then .same else tryCoerce cfg act exp

/-- how an expression reaches the expected type.  Most forms are synthesized and then passed to
    `check_type_against` (`ExprChecker.generic_visit`, `visit_Constant`); a *call* of a user function / method
    (`ExprChecker.visit_Call` → `check_call`) and a `comptime(...)` expression (`visit_ComptimeExpr`) are checked
    with `unify(ty, synth)` only. -/
inductive Form | synth | call | comptime
  deriving DecidableEq, Repr, Inhabited

def checkExpr (cfg : Cfg) (f : Form) (act exp : Kind) : Out :=
  match f with
  | .synth => against cfg act exp
  | .call | .comptime => if act = exp then .same else .mismatch

/-- binary operator `a ∘ b` with `a : E`, `b : A` whose dunders have signature `(T, T) -> T`
    (`_synthesize_binary`: left dunder on `E`; if its call does not check, the reflected dunder on `A`, which
    (`ReversingChecker`) is `A`'s left dunder with swapped arguments).  Result: kind of the value and the
    implementations inserted on the (left, right) operand. -/
def operand (cfg : Cfg) (e a : Kind) : Option (Kind × Out × Out) :=
  match against cfg a e with
  | .same => some (e, .same, .same)
  | .coerced i => some (e, .same, .coerced i)
  | .stuck w => some (e, .same, .stuck w)
  | .mismatch =>
    match against cfg e a with
    | .same => some (a, .same, .same)
    | .coerced i => some (a, .coerced i, .same)
    | .stuck w => some (a, .stuck w, .same)
    | .mismatch => none

/-! ## subscript places `p[i]` (arrays: `__getitem__(self, idx: int)`, `__setitem__(self, idx: int, value)`) -/

/-- reading `p[i]` with an index of kind `idx`: the implicit `__getitem__` call checks the index argument against `int` -/
def indexRead (cfg : Cfg) (idx : Kind) : Out := against cfg idx .int

/-- using `p[i]` as an ASSIGNABLE place (`p[i] = v`, `p[i] += v`, lending `p[i]` to a borrowing function):
    `check_place_assignable` first unifies an expected `__setitem__` signature with the method's — its index slot is a fresh type
    variable (unifies with anything) or, if written that way, the index expression's own type (must then be exactly the parameter
    type `int`, otherwise `BadProtocolError`) — and then type-checks the implicit call, where the index argument is checked
    against `int` like any argument. -/
def indexWrite (cfg : Cfg) (idx : Kind) : Out :=
  if cfg.setitemIndexSlot == "fresh" then against cfg idx .int
  else if cfg.setitemIndexSlot == "item.ty" then (if idx = .int then against cfg idx .int else .mismatch)
  else .stuck "setitem signature"

/-- an assignable subscript place is accepted iff both the read and the write-back type-check -/
def indexPlace (cfg : Cfg) (idx : Kind) : Out :=
  match indexRead cfg idx with
  | .mismatch => .mismatch
  | .stuck w => .stuck w
  | _ => indexWrite cfg idx

/-! ## what an inserted coercion does to the value -/

/-- value of 64 bits read at a Guppy integer kind -/
def valueOf (k : Kind) (w : W) : Int :=
  match k with
  | .nat => (w.toNat : Int)
  | _ => w.toInt

inductive CVal (F : Type)
  | bits (w : W)
  | flt (f : F)

/-- semantics of a coercion implementation.  `ofInt` is the (assumed) rounding of an exact integer to the
    nearest float; `convert_u` / `convert_s` are assumed to be `ofInt` of the unsigned / signed reading
    (their shipped descriptions: "unsigned int to float", "signed int to float"). -/
def applyImpl {F : Type} (ofInt : Int → F) (impl : String) (w : W) : Option (CVal F) :=
  match impl with
  | "noop" => some (.bits w)
  | "hugr:arithmetic.conversions.convert_u" => some (.flt (ofInt (w.toNat : Int)))
  | "hugr:arithmetic.conversions.convert_s" => some (.flt (ofInt w.toInt))
  | _ => none

end GuppyVerif.Coerce
