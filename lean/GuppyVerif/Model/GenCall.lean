import GuppyVerif.Model.Unify
/-! Model of the call path of `checker/expr_checker.py` for first-order arguments:
    `ExprChecker.check` / `visit_Tuple`, `type_check_args`, `synthesize_call` (+ `check_all_solved`,
    `check_inst`) and `check_call`.  Import-free apart from the unification model.

    Argument expressions (`Ex`): `val a` — any expression whose type is synthesised, closed and not generic
    (variables, literals, names of monomorphic functions, nested calls that were checked before) — and tuple
    literals.  Not modelled: numeric coercions (`try_coerce_to`), `@comptime`/`inout` inputs, generic function
    values as arguments (see `checkAgainst`), list literals and comprehensions. -/
namespace GuppyVerif.Unify

inductive Ex where
  | val (ty : Tm)
  | tup (es : List Ex)
  deriving Repr, Inhabited

mutual
/-- the type `ExprSynthesizer` gives to the expression -/
def Ex.synth : Ex → Tm
  | .val a => a
  | .tup es => .node .tuple (synthList es)
def synthList : List Ex → List Tm
  | [] => []
  | e :: es => .targ e.synth :: synthList es
end

/-- `unify` with the fuel that `unify_terminates_explicit` proves sufficient -/
def unifyT (E : Env) (s t : Tm) (σ : Subst) : Res := unify E (fuelBound s t σ) s t σ

/-- `ty.element_types` of a tuple type -/
def payloads : List Tm → Option (List Tm)
  | [] => some []
  | .targ x :: as => (payloads as).map (x :: ·)
  | _ :: _ => none

mutual
/-- `ExprChecker.check(expr, ty)`: a substitution for the variables of `ty` -/
def checkEx (E : Env) : Ex → Tm → Res
  | .val a, ty => unifyT E ty a []            -- synthesise, then `check_type_against(act, ty)` = `unify(ty, act, {})`
  | .tup es, ty =>
    match ty with
    | .var v => .ok [(v, .node .tuple (synthList es))]     -- checking against a variable: synthesise
    | .node .tuple args =>                                  -- `visit_Tuple`
      match payloads args with
      | some tys => if tys.length ≠ es.length then .fail else checkList E es tys []
      | none => .fail
    | _ => .fail
/-- the loop of `visit_Tuple` / `type_check_args`: every expected type gets the solutions found so far applied
    (ONE pass), the new solutions are merged in (`subst |= s`) -/
def checkList (E : Env) : List Ex → List Tm → Subst → Res
  | [], [], σ => .ok σ
  | e :: es, p :: ps, σ =>
    match checkEx E e (apply σ p) with
    | .ok s => checkList E es ps (s ++ σ)
    | r => r
  | _, _, _ => .fail
end

/-- a declared signature `forall params. (inputs) -> out`; bound variable `i` refers to parameter `i`;
    `bounds[i] = (must_be_copyable, must_be_droppable)` (both `false` for const parameters) -/
structure Sig where
  inputs : List Tm
  out : Tm
  bounds : List (Bool × Bool)
  deriving Repr, Inhabited

inductive CallOut where
  | oof
  | arity          -- WrongNumberOfArgsError
  | mismatch       -- TypeMismatchError
  | infer          -- GuppyTypeInferenceError (TypeInferenceError / ParameterInferenceError)
  | bounds         -- NonLinearInstantiateError (`check_inst`)
  | accept (ins : List Tm) (ret : Tm)
  deriving Repr, Inhabited

/-- `check_inst`: copy/drop bounds of the parameters -/
def boundsOk (E : Env) : List (Bool × Bool) → List Tm → Bool
  | (c, d) :: bs, t :: ts => (!c || copyable E t) && (!d || droppable E t) && boundsOk E bs ts
  | _, _ => true

/-- the part shared by `synthesize_call` and the second half of `check_call`: `type_check_args` from a prior
    substitution, the return-type test, `check_all_solved`, `check_inst` -/
def finishCall (E : Env) (sg : Sig) (fresh : List V) (es : List Ex) (σ₀ : Subst) : CallOut :=
  let ρ := fresh.map Tm.var
  match checkList E es (sg.inputs.map (instB ρ)) σ₀ with
  | .oof => .oof
  | .fail => .mismatch
  | .ok σ =>
    if !((instB ρ sg.out).vars.all fun v => (lookup σ v).isSome) then .infer
    else if !(fresh.all fun v => (lookup σ v).isSome) then .infer
    else
      let ins := fresh.map (asFun σ)
      if boundsOk E sg.bounds ins then .accept ins (apply σ (instB ρ sg.out)) else .bounds

/-- `synthesize_call(func_ty, args)` -/
def synthCall (E : Env) (sg : Sig) (fresh : List V) (es : List Ex) : CallOut :=
  if es.length ≠ sg.inputs.length then .arity else finishCall E sg fresh es []

/-- `check_call(func_ty, args, ty)` for a closed expected type `ty`: synthesis first; if that cannot infer all
    parameters, unify the expected type with the return type first (with a second set of fresh variables) -/
def checkCall (E : Env) (sg : Sig) (fresh fresh₂ : List V) (es : List Ex) (ty : Tm) : CallOut :=
  if es.length ≠ sg.inputs.length then .arity else
  match finishCall E sg fresh es [] with
  | .accept ins ret =>
    match unifyT E ty ret [] with
    | .ok _ => .accept ins ret
    | .fail => .mismatch
    | .oof => .oof
  | .infer =>
    match unifyT E ty (instB (fresh₂.map Tm.var) sg.out) [] with
    | .ok σ₀ => finishCall E sg fresh₂ es σ₀
    | .fail => .mismatch
    | .oof => .oof
  | r => r

end GuppyVerif.Unify
