/-! # Model of `guppylang/std/angles.py` (C20)

`angle` is a struct with one field `halfturns : float`.  Floats are modelled as elements of an
arbitrary carrier `α` with the usual operators (exact arithmetic: ℚ in the driver, any field in the
theorems; rounding / NaN / inf are not modelled).  Each definition mirrors one method body.
Division by zero is an error in the exact model (`none`). -/
namespace GuppyVerif.Angle

structure Angle (α : Type) where
  halfturns : α
  deriving DecidableEq, Repr

variable {α : Type}

/-- `__add__`: `angle(self.halfturns + other.halfturns)` -/
def add [Add α] (a b : Angle α) : Angle α := ⟨a.halfturns + b.halfturns⟩
/-- `__sub__`: `angle(self.halfturns - other.halfturns)` -/
def sub [Sub α] (a b : Angle α) : Angle α := ⟨a.halfturns - b.halfturns⟩
/-- `__mul__`: `angle(self.halfturns * other)` -/
def mul [Mul α] (a : Angle α) (x : α) : Angle α := ⟨a.halfturns * x⟩
/-- `__rmul__` (`x * a`): `angle(self.halfturns * other)` -/
def rmul [Mul α] (a : Angle α) (x : α) : Angle α := ⟨a.halfturns * x⟩
/-- `__truediv__`: `angle(self.halfturns / other)` -/
def truediv [Div α] [Zero α] [DecidableEq α] (a : Angle α) (x : α) : Option (Angle α) :=
  if x = 0 then none else some ⟨a.halfturns / x⟩
/-- `__rtruediv__` (`x / a`): `angle(other / self.halfturns)` -/
def rtruediv [Div α] [Zero α] [DecidableEq α] (a : Angle α) (x : α) : Option (Angle α) :=
  if a.halfturns = 0 then none else some ⟨x / a.halfturns⟩
/-- `__neg__`: `angle(-self.halfturns)` -/
def neg [Neg α] (a : Angle α) : Angle α := ⟨-a.halfturns⟩
/-- `__float__`: `self.halfturns * py(math.pi)`; `π` is the carrier's image of `math.pi` -/
def toFloat [Mul α] (π : α) (a : Angle α) : α := a.halfturns * π
/-- `__eq__`: `self.halfturns == other.halfturns` -/
def eq [DecidableEq α] (a b : Angle α) : Bool := decide (a.halfturns = b.halfturns)
/-- the constant `pi = guppy.constant("pi", value=Tuple(FloatVal(1.0)))` -/
def pi [One α] : Angle α := ⟨1⟩

end GuppyVerif.Angle
