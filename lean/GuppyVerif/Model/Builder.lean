import GuppyVerif.Model.Surface
/-! # Model of `cfg/builder.py` (CFGBuilder / ExprBuilder / BranchBuilder) and of CFG execution

Import-free.  Mirrors the Python line by line where it matters for the shape of the result: blocks are
numbered in creation order (entry 0, exit 1), `new_bb(*preds)` appends the new block to the successor
lists of `preds`, `BranchBuilder.generic_visit` links the **false** target first (successor 0 = False,
successor 1 = True), a literal `True`/`False` condition produces one real and one dummy edge,
`visit_stmts` opens a fresh block hanging on a dummy edge after a statement that jumped, temporaries
are drawn from one counter in the order the Python draws them, and `build` ends with
`update_reachable`, the implicit return and the pruning pass.

`ExprBuilder` (value mode) and `BranchBuilder` (branch mode) are one function `bld` with a `Mode`
argument, so that all recursion is structural. Generic nodes are built the same way in both modes and
then `finish`ed: returned (value mode) or used as `branch_pred` (branch mode).

`build_operands` (evaluation order of the operands of a node, /repo commit f9e33c1) and the one-by-one
building of chained comparisons (7c8aeda) are modelled as they are. -/
namespace GuppyVerif.Builder
open GuppyVerif.Surface

/-- statements that can occur in a basic block -/
inductive BStmt where
  | assign (x : Var) (e : Expr)
  | assign2 (x y : Var) (e : Expr)      -- `x, y = e` (for-loop template)
  | aug (x : Var) (op : BinOp) (e : Expr)
  | expr (e : Expr)
  | ret (e : Expr)
  | ret0
  deriving DecidableEq, Repr, Inhabited

structure Block where
  stmts : List BStmt := []
  pred : Option Expr := none
  succs : List Nat := []
  dsuccs : List Nat := []
  reach : Bool := false
  deriving DecidableEq, Repr, Inhabited

structure BState where
  blocks : List Block
  nextTmp : Nat := 0
  /-- program left the modelled fragment -/
  bad : Bool := false
  /-- `InternalGuppyError` (break / continue outside a loop) was raised -/
  internal : Bool := false
  deriving Repr, Inhabited

structure Jumps where
  ret : Nat
  cont : Option Nat
  brk : Option Nat
  deriving Repr, Inhabited

def BState.upd (σ : BState) (i : Nat) (f : Block → Block) : BState :=
  { σ with blocks := σ.blocks.modify i f }

/-- `cfg.new_bb()` -/
def newBB (σ : BState) : Nat × BState := (σ.blocks.length, { σ with blocks := σ.blocks ++ [{}] })
/-- `cfg.link(a, b)` -/
def link (a b : Nat) (σ : BState) : BState := σ.upd a fun B => { B with succs := B.succs ++ [b] }
/-- `cfg.dummy_link(a, b)` -/
def dummyLink (a b : Nat) (σ : BState) : BState := σ.upd a fun B => { B with dsuccs := B.dsuccs ++ [b] }
def addStmt (b : Nat) (s : BStmt) (σ : BState) : BState := σ.upd b fun B => { B with stmts := B.stmts ++ [s] }
/-- `cfg.new_bb(p, q)`: the new block becomes a successor of `p` and of `q` -/
def newBB2 (p q : Nat) (σ : BState) : Nat × BState :=
  let r := newBB σ
  (r.1, link q r.1 (link p r.1 r.2))
def newBB1 (p : Nat) (σ : BState) : Nat × BState :=
  let r := newBB σ
  (r.1, link p r.1 r.2)
/-- `bb.branch_pred = pred; link(bb, false_bb); link(bb, true_bb)` -/
def branchOn (b : Nat) (p : Expr) (t f : Nat) (σ : BState) : BState :=
  link b t (link b f (σ.upd b fun B => { B with pred := some p }))
def freshTmp (σ : BState) : Nat × BState := (σ.nextTmp, { σ with nextTmp := σ.nextTmp + 1 })

inductive Mode where
  | val
  | br (t f : Nat)
  deriving Repr, Inhabited

abbrev R := Expr × Nat × BState

/-- generic node built: return it (ExprBuilder) or branch on it (`BranchBuilder.generic_visit`) -/
def finish : Mode → Expr → Nat → BState → R
  | .val, e, b, σ => (e, b, σ)
  | .br t f, e, b, σ => (.bool false, b, branchOn b e t f σ)

/-- targets of a short-circuit expression: the given ones (branch mode) or two fresh blocks
    (`ExprBuilder.generic_visit` for `is_short_circuit_expr`) -/
def scPre : Mode → BState → Nat × Nat × BState
  | .br t f, σ => (t, f, σ)
  | .val, σ =>
    let a := newBB σ
    let b := newBB a.2
    (a.1, b.1, b.2)

/-- after the branching: nothing (branch mode) or `tmp = True` / `tmp = False` and the merge block -/
def scPost : Mode → Nat → Nat → Nat → BState → R
  | .br _ _, _, _, b, σ => (.bool false, b, σ)
  | .val, t, f, _, σ =>
    let k := freshTmp σ
    let σ1 := addStmt t (.assign (.tmp k.1) (.bool true)) k.2
    let σ2 := addStmt f (.assign (.tmp k.1) (.bool false)) σ1
    let m := newBB2 t f σ2
    (.var (.tmp k.1), m.1, m.2)

/-- `visit_UnaryOp`: a negated numeric literal becomes a (fresh) negative constant -/
def foldNeg : UnOp → Expr → Option Int
  | .neg, .num n => some (-n)
  | _, _ => none

/-- does the expression contain a construct that `ExprBuilder` lifts into statements / blocks? -/
def lifts : Expr → Bool
  | .var _ | .num _ | .bool _ | .call0 _ => false
  | .un _ e => lifts e
  | .bi _ l r => lifts l || lifts r
  | .cmp2 .. | .and .. | .or .. | .ite .. | .walrus .. => true

/-- does the expression contain a call? (`has_call`) -/
def anyCall : Expr → Bool
  | .var _ | .num _ | .bool _ => false
  | .call0 _ => true
  | .un o e => (match o with | .call1 _ => true | _ => false) || anyCall e
  | .bi o l r => (match o with | .call2 _ => true | _ => false) || anyCall l || anyCall r
  | .cmp2 _ _ l m r => anyCall l || anyCall m || anyCall r
  | .and l r | .or l r => anyCall l || anyCall r
  | .ite t b o => anyCall t || anyCall b || anyCall o
  | .walrus _ e => anyCall e

/-- the variables assigned by assignment expressions inside the expression (`assigned_names`) -/
def writes : Expr → List Var
  | .var _ | .num _ | .bool _ | .call0 _ => []
  | .un _ e => writes e
  | .bi _ l r => writes l ++ writes r
  | .cmp2 _ _ l m r => writes l ++ writes m ++ writes r
  | .and l r | .or l r => writes l ++ writes r
  | .ite t b o => writes t ++ writes b ++ writes o
  | .walrus x e => x :: writes e

/-- all variables occurring in an expression (`read_names` of a residual) -/
def vars : Expr → List Var
  | .var x => [x]
  | .num _ | .bool _ | .call0 _ => []
  | .un _ e => vars e
  | .bi _ l r => vars l ++ vars r
  | .cmp2 _ _ l m r => vars l ++ vars m ++ vars r
  | .and l r | .or l r => vars l ++ vars r
  | .ite t b o => vars t ++ vars b ++ vars o
  | .walrus x e => x :: vars e

def disjoint (a b : List Var) : Bool := a.all fun x => !b.contains x

/-- `may_have_effect`: could evaluating the expression be observable other than through its value (or observe
    another expression's effect)?  Everything but names, constants, `not` and the control-flow expressions
    themselves: calls, and also operators and comparisons (they may be overloaded or panic). -/
def mayEff : Expr → Bool
  | .var _ | .num _ | .bool _ => false
  | .call0 _ => true
  | .un o e => (match o with | .not => false | _ => true) || mayEff e
  | .bi _ _ _ => true
  | .cmp2 .. => true
  | .and l r | .or l r => mayEff l || mayEff r
  | .ite t b o => mayEff t || mayEff b || mayEff o
  | .walrus _ e => mayEff e

/-- `build_operands`: must the already built operand with residual `l'` be evaluated (stored in a temporary)
    before the operand `r` is built?  Yes if both may have an effect, or if `l'` reads a variable that `r`
    assigns. -/
def needBind (l' r : Expr) : Bool := (mayEff r && mayEff l') || !disjoint (vars l') (writes r)

/-- `isinstance(e, ast.Constant | ast.Name)` -/
def atomicSyn : Expr → Bool
  | .var _ | .num _ | .bool _ => true
  | _ => false

/-- a built middle operand of a chained comparison that can be used twice as it is: a constant, or a variable
    that the remaining operand does not assign -/
def stable (e r : Expr) : Bool :=
  match e with
  | .num _ | .bool _ => true
  | .var y => !(writes r).contains y
  | _ => false

/-- `ExprBuilder.bind`: `%tmp = e` in block `b` -/
def bindTmp (e : Expr) (b : Nat) (σ : BState) : Expr × BState :=
  let k := freshTmp σ
  (.var (.tmp k.1), addStmt b (.assign (.tmp k.1) e) k.2)

def preBind (c : Bool) (e : Expr) (b : Nat) (σ : BState) : Expr × BState :=
  if c then bindTmp e b σ else (e, σ)

/-- `ExprBuilder.visit` (mode `val`) and `BranchBuilder.visit` (mode `br t f`) on block `b`.
    Returns the residual expression (value mode), the block in which building continues, the state. -/
def bld : Expr → Mode → Nat → BState → R
  | .var x, m, b, σ => finish m (.var x) b σ
  | .num n, m, b, σ => finish m (.num n) b σ
  | .call0 f, m, b, σ => finish m (.call0 f) b σ
  | .bool v, m, b, σ =>
    match m with
    | .val => (.bool v, b, σ)
    | .br t f =>
      -- `BranchBuilder.visit_Constant`: unconditional jump plus a dummy edge to the other side
      (.bool false, b, dummyLink b (if v then f else t) (link b (if v then t else f) σ))
  | .un o e, m, b, σ =>
    match o, m with
    | .not, .br t f => bld e (.br f t) b σ
    | _, _ =>
      match foldNeg o e with
      | some n => finish m (.num n) b σ
      | none =>
        let r := bld e .val b σ
        finish m (.un o r.1) r.2.1 r.2.2
  | .bi o l r, m, b, σ =>
    -- `_visit_children` / `build_operands`: left operand, (store it if the right one lifts something it must
    -- not overtake), right operand
    let a := bld l .val b σ
    let p := preBind (lifts r && needBind a.1 r) a.1 a.2.1 a.2.2
    let c := bld r .val a.2.1 p.2
    finish m (.bi o p.1 c.1) c.2.1 c.2.2
  | .walrus x e, m, b, σ =>
    let r := bld e .val b σ
    finish m (.var x) r.2.1 (addStmt r.2.1 (.assign x r.1) r.2.2)
  | .and l r, m, b, σ =>
    let p := scPre m σ
    let x := newBB p.2.2
    let σ1 := (bld l (.br x.1 p.2.1) b x.2).2.2
    let σ2 := (bld r (.br p.1 p.2.1) x.1 σ1).2.2
    scPost m p.1 p.2.1 b σ2
  | .or l r, m, b, σ =>
    let p := scPre m σ
    let x := newBB p.2.2
    let σ1 := (bld l (.br p.1 x.1) b x.2).2.2
    let σ2 := (bld r (.br p.1 p.2.1) x.1 σ1).2.2
    scPost m p.1 p.2.1 b σ2
  | .cmp2 o1 o2 l mid r, m, b, σ =>
    -- `visit_Compare`: `l o1 mid` first (the middle operand is kept in a temporary unless it is stable),
    -- then, in the next block, `mid o2 r`
    let q := scPre m σ
    let x := newBB q.2.2
    let a := bld l .val b x.2
    let p := preBind ((lifts mid || !atomicSyn mid) && needBind a.1 mid) a.1 a.2.1 a.2.2
    let c := bld mid .val a.2.1 p.2
    let pm := preBind (!stable c.1 r) c.1 c.2.1 c.2.2
    let σ1 := branchOn c.2.1 (.bi (.cmp o1) p.1 pm.1) x.1 q.2.1 pm.2
    let p2 := preBind (lifts r && needBind pm.1 r) pm.1 x.1 σ1
    let d := bld r .val x.1 p2.2
    let σ2 := branchOn d.2.1 (.bi (.cmp o2) p2.1 d.1) q.1 q.2.1 d.2.2
    scPost m q.1 q.2.1 b σ2
  | .ite c x y, m, b, σ =>
    let tb := newBB σ
    let eb := newBB tb.2
    let σ1 := (bld c (.br tb.1 eb.1) b eb.2).2.2
    match m with
    | .br t f =>
      -- `BranchBuilder.visit_IfExp`
      let σ2 := (bld x (.br t f) tb.1 σ1).2.2
      let σ3 := (bld y (.br t f) eb.1 σ2).2.2
      (.bool false, b, σ3)
    | .val =>
      -- `ExprBuilder.visit_IfExp`
      let u := bld x .val tb.1 σ1
      let v := bld y .val eb.1 u.2.2
      let k := freshTmp v.2.2
      let σ2 := addStmt u.2.1 (.assign (.tmp k.1) u.1) k.2
      let σ3 := addStmt v.2.1 (.assign (.tmp k.1) v.1) σ2
      let mb := newBB2 u.2.1 v.2.1 σ3
      (.var (.tmp k.1), mb.1, mb.2)

def buildE (e : Expr) (b : Nat) (σ : BState) : R := bld e .val b σ
def branchE (e : Expr) (b t f : Nat) (σ : BState) : BState := (bld e (.br t f) b σ).2.2

def isTmpVar : Expr → Bool
  | .var (.tmp _) => true
  | _ => false

/-- `visit_stmts`: if the previous statement jumped, continue in a fresh block hanging on a dummy edge -/
def ensure (prev : Nat) (cur : Option Nat) (σ : BState) : Nat × BState :=
  match cur with
  | some b => (b, σ)
  | none =>
    let n := newBB σ
    (n.1, dummyLink prev n.1 n.2)

/-- `CFGBuilder.visit_stmts` (on `nil`/`cons`) and `CFGBuilder.visit` (other statements).
    `prev` is `prev_bb`, `cur` is `bb_opt`; returns the state and the block in which control continues
    (`none`: the statement jumped). -/
def build : Stmt → Nat → Option Nat → Jumps → BState → BState × Option Nat
  | .nil, _, cur, _, σ => (σ, cur)
  | .cons s rest, prev, cur, J, σ =>
    let c := ensure prev cur σ
    let r := build s c.1 (some c.1) J c.2
    build rest c.1 r.2 J r.1
  | .assign x e, prev, cur, _, σ =>
    let c := ensure prev cur σ
    let r := buildE e c.1 c.2
    (addStmt r.2.1 (.assign x r.1) r.2.2, some r.2.1)
  | .aug x op e, prev, cur, _, σ =>
    let c := ensure prev cur σ
    if (writes e).contains x then
      -- `x += (x := …)`: the old `x` is saved first and the statement becomes `x = old op rhs`
      let old := bindTmp (.var x) c.1 c.2
      let r := buildE e c.1 old.2
      (addStmt r.2.1 (.assign x (.bi (.arith op) old.1 r.1)) r.2.2, some r.2.1)
    else
      let r := buildE e c.1 c.2
      (addStmt r.2.1 (.aug x op r.1) r.2.2, some r.2.1)
  | .expr e, prev, cur, _, σ =>
    let c := ensure prev cur σ
    let r := buildE e c.1 c.2
    -- a bare temporary (value of a lifted expression) is not added to the block
    (match isTmpVar r.1 with
      | true => r.2.2
      | false => addStmt r.2.1 (.expr r.1) r.2.2, some r.2.1)
  | .pass, prev, cur, _, σ =>
    let c := ensure prev cur σ
    (c.2, some c.1)
  | .brk, prev, cur, J, σ =>
    let c := ensure prev cur σ
    match J.brk with
    | some t => (link c.1 t c.2, none)
    | none => ({ c.2 with internal := true }, none)
  | .cont, prev, cur, J, σ =>
    let c := ensure prev cur σ
    match J.cont with
    | some t => (link c.1 t c.2, none)
    | none => ({ c.2 with internal := true }, none)
  | .ret e, prev, cur, J, σ =>
    let c := ensure prev cur σ
    let r := buildE e c.1 c.2
    (link r.2.1 J.ret (addStmt r.2.1 (.ret r.1) r.2.2), none)
  | .ret0, prev, cur, J, σ =>
    let c := ensure prev cur σ
    (link c.1 J.ret (addStmt c.1 .ret0 c.2), none)
  | .ite c t e, prev, cur, J, σ =>
    let c0 := ensure prev cur σ
    let tb := newBB c0.2
    let eb := newBB tb.2
    let σ1 := branchE c c0.1 tb.1 eb.1 eb.2
    let rt := build t tb.1 (some tb.1) J σ1
    let re := build e eb.1 (some eb.1) J rt.1
    match rt.2, re.2 with
    | none, r => (re.1, r)
    | some a, none => (re.1, some a)
    | some a, some b =>
      let m := newBB2 a b re.1
      (m.2, some m.1)
  | .while c body, prev, cur, J, σ =>
    let c0 := ensure prev cur σ
    let hd := newBB1 c0.1 c0.2
    let bb := newBB hd.2
    let tl := newBB bb.2
    let σ1 := branchE c hd.1 bb.1 tl.1 tl.2
    let rb := build body bb.1 (some bb.1) ⟨J.ret, some hd.1, some tl.1⟩ σ1
    match rb.2 with
    | some e => (link e hd.1 rb.1, some tl.1)
    | none => (rb.1, some tl.1)
  | .for x e body, prev, cur, J, σ =>
    -- `visit_For`: two temporaries, then the template
    --   it = make_iter; while True: res = iter_next; if not res.is_some(): res.unwrap_nothing(); break
    --   x, it = res.unwrap(); body
    let c0 := ensure prev cur σ
    let it := freshTmp c0.2
    let rs := freshTmp it.2
    let r := buildE e c0.1 rs.2
    let σ1 := addStmt r.2.1 (.assign (.tmp it.1) (.un (.prim .makeiter) r.1)) r.2.2
    let hd := newBB1 r.2.1 σ1
    let bb := newBB hd.2
    let tl := newBB bb.2
    let σ2 := branchE (.bool true) hd.1 bb.1 tl.1 tl.2
    let σ3 := addStmt bb.1 (.assign (.tmp rs.1) (.un (.prim .iternext) (.var (.tmp it.1)))) σ2
    let tb := newBB σ3
    let eb := newBB tb.2
    let σ4 := branchE (.un .not (.un (.prim .issome) (.var (.tmp rs.1)))) bb.1 tb.1 eb.1 eb.2
    let σ5 := addStmt tb.1 (.expr (.un (.prim .unwrapnothing) (.var (.tmp rs.1)))) σ4
    let σ6 := link tb.1 tl.1 σ5
    let σ7 := addStmt eb.1 (.assign2 x (.tmp it.1) (.un (.prim .unwrap) (.var (.tmp rs.1)))) σ6
    let rb := build body eb.1 (some eb.1) ⟨J.ret, some hd.1, some tl.1⟩ σ7
    match rb.2 with
    | some e => (link e hd.1 rb.1, some tl.1)
    | none => (rb.1, some tl.1)
  | .forFrom .., prev, cur, _, σ =>
    let c := ensure prev cur σ
    ({ c.2 with bad := true }, some c.1)

/-! ## `CFGBuilder.build`: reachability, implicit return, pruning -/

structure Cfg where
  blocks : List Block
  deriving DecidableEq, Repr, Inhabited

/-- add the elements of `xs` that are not yet in `acc` -/
def addAll (acc xs : List Nat) : List Nat :=
  xs.foldl (fun acc s => if acc.contains s then acc else acc ++ [s]) acc

/-- one round of `update_reachable`: everything reachable in one more step -/
def reachStep (blocks : List Block) (seen : List Nat) : List Nat :=
  seen.foldl (fun acc b => addAll acc (blocks[b]?.getD {}).succs) seen

def reachIter (blocks : List Block) : Nat → List Nat → List Nat
  | 0, seen => seen
  | n + 1, seen => reachIter blocks n (reachStep blocks seen)

/-- blocks reachable from the entry over real edges (`CFG.update_reachable`).  The search is run for as
    many rounds as there are blocks, which always suffices; that it has converged is *checked* (`none`
    otherwise, never observed) so that the result is closed under successors by construction. -/
def reachable (blocks : List Block) : Option (List Nat) :=
  let r := reachIter blocks blocks.length [0]
  if reachStep blocks r == r then some r else none

inductive BuildErr where
  | unsupported | internal | expectedReturn
  deriving DecidableEq, Repr, Inhabited

def setReach (r : List Nat) (blocks : List Block) : List Block :=
  blocks.zipIdx.map fun (B, i) => { B with reach := r.contains i }

/-- pruning: unreachable blocks keep only successors that are unreachable; dummy edges into reachable
    blocks are dropped -/
def prune (blocks : List Block) : List Block :=
  let isR := fun i => (blocks[i]?.getD {}).reach
  blocks.map fun B =>
    { B with succs := if B.reach then B.succs else B.succs.filter fun s => !isR s
             dsuccs := B.dsuccs.filter fun s => !isR s }

def initState : BState := { blocks := [{}, {}] }

/-- `CFGBuilder().build(body, returns_none, globals)` -/
def buildCfg (returnsNone : Bool) (body : Stmt) : Except BuildErr Cfg :=
  let r := build body 0 (some 0) ⟨1, none, none⟩ initState
  if r.1.bad then .error .unsupported
  else if r.1.internal then .error .internal
  else
    match reachable r.1.blocks with
    | none => .error .unsupported
    | some rs =>
      let bl := setReach rs r.1.blocks
      match r.2 with
      | none => .ok ⟨prune bl⟩
      | some fin =>
        let σ := link fin 1 { r.1 with blocks := bl }
        if rs.contains fin then
          if returnsNone then .ok ⟨prune (σ.blocks.modify 1 fun B => { B with reach := true })⟩
          else .error .expectedReturn
        else .ok ⟨prune σ.blocks⟩

/-! ## Execution of a CFG -/

structure Config where
  b : Nat
  pc : Nat
  s : S
  ret : Option Val := none

def execB (env : Env) (st : BStmt) (c : Config) : Config :=
  match st with
  | .assign x e => let r := eval env e c.s; { c with pc := c.pc + 1, s := (r.2.1.set x r.1, r.2.2) }
  | .assign2 x y e =>
    let r := eval env e c.s
    match r.1 with
    | .some el n m => { c with pc := c.pc + 1, s := ((r.2.1.set x (.int el)).set y (.iter n m), r.2.2) }
    | _ => { c with pc := c.pc + 1, s := r.2 }
  | .aug x op e =>
    let r := eval env e c.s
    { c with pc := c.pc + 1, s := (r.2.1.set x (arith op (c.s.1 x) r.1), r.2.2) }
  | .expr e => { c with pc := c.pc + 1, s := (eval env e c.s).2 }
  | .ret e => let r := eval env e c.s; { c with pc := c.pc + 1, s := r.2, ret := some r.1 }
  | .ret0 => { c with pc := c.pc + 1, ret := some .none }

/-- one step inside / at the end of block `B` -/
def stepB (env : Env) (B : Block) (c : Config) : Option Config :=
  match B.stmts[c.pc]? with
  | some st => some (execB env st c)
  | none =>
    match B.succs with
    | [t] => some { c with b := t, pc := 0 }
    | [f, t] =>
      match B.pred with
      | some p =>
        let r := eval env p c.s
        some { c with b := if r.1.truthy then t else f, pc := 0, s := r.2 }
      | none => none
    | _ => none

/-- one step: next statement of the block, or the jump at its end.  `none`: halted (a block without
    successors) or stuck (index out of range, two successors without predicate, more than two). -/
def step (env : Env) (blocks : List Block) (c : Config) : Option Config :=
  match blocks[c.b]? with
  | none => none
  | some B => stepB env B c

def run (env : Env) (blocks : List Block) : Nat → Config → Option Config
  | 0, _ => none
  | n + 1, c =>
    match step env blocks c with
    | some c' => run env blocks n c'
    | none => some c

end GuppyVerif.Builder
