/-! Model of `guppylang_internals/cfg/analysis.py` (with `cfg.py: CFG.analyze`):
    the two chaotic-iteration worklists `BackwardAnalysis.run` / `ForwardAnalysis.run`,
    instantiated as `LivenessAnalysis` and `AssignmentAnalysis`.  Import-free, executable.

    Sets of variables are lists read up to membership (`sameSet` mirrors Python's
    `keys() == keys()` / `set == set`).  The worklist is a list read as a set; which element
    is popped is left open: `liveStep g s b` / `assStep g P s b` process block `b`, the
    relations `LReach` / `AReach` allow any queued block (every visiting order), and
    `liveReplay` / `assReplay` replay a concrete pop sequence (used by the correspondence
    with the real code, whose pop order the harness controls through the guarded hook). -/
namespace GuppyVerif.Dataflow

abbrev Var := Nat
abbrev Blk := Nat

/-- A control-flow graph as the analyses see it.  `succ`/`pred` are `BB.successors` /
    `BB.predecessors`; `dsucc`/`dpred` the dummy (never-taken) edges *when the analysis
    runs with `include_unreachable`* and `[]` otherwise (the harness passes the effective
    edge lists).  `used`/`assigned` are the `VariableStats` of each block. -/
structure Cfg where
  blocks : List Blk
  succ : Blk → List Blk
  dsucc : Blk → List Blk
  pred : Blk → List Blk
  dpred : Blk → List Blk
  used : Blk → List Var
  assigned : Blk → List Var

/-- Python set equality on list-represented sets -/
def sameSet (a b : List Nat) : Bool := a.all (b.contains ·) && b.all (a.contains ·)

def upd {α : Type} (f : Blk → α) (b : Blk) (v : α) : Blk → α := fun c => if c = b then v else f c

/-! ## Backward analysis: liveness -/

structure LSt where
  vals : Blk → List Var      -- `vals_before`
  queue : List Blk

/-- `join(*(vals_before[succ] for succ in succs))` with `succs = successors + dummy_successors` -/
def liveOut (g : Cfg) (vals : Blk → List Var) (b : Blk) : List Var :=
  (g.succ b ++ g.dsucc b).flatMap vals

/-- `LivenessAnalysis.apply_bb`: `used | {x in live_after if x not in assigned}` -/
def liveApply (g : Cfg) (b : Blk) (after : List Var) : List Var :=
  g.used b ++ after.filter (fun x => !(g.assigned b).contains x)

def liveF (g : Cfg) (vals : Blk → List Var) (b : Blk) : List Var :=
  liveApply g b (liveOut g vals b)

/-- one iteration of the `while` loop of `BackwardAnalysis.run` with `bb = b` popped -/
def liveStep (g : Cfg) (s : LSt) (b : Blk) : LSt :=
  let nb := liveF g s.vals b
  let q := s.queue.filter (· != b)
  if sameSet (s.vals b) nb then ⟨s.vals, q⟩
  else ⟨upd s.vals b nb, q ++ (g.pred b ++ g.dpred b)⟩

/-- `vals_before = {bb: initial}`, `queue = set(bbs)` -/
def liveInit (g : Cfg) (init : List Var) : LSt := ⟨fun _ => init, g.blocks⟩

/-- every visiting order: any queued block may be popped next -/
inductive LReach (g : Cfg) : LSt → LSt → Prop
  | refl (s : LSt) : LReach g s s
  | step {s t : LSt} (b : Blk) (hb : b ∈ s.queue) (h : LReach g (liveStep g s b) t) : LReach g s t

/-- replay a given pop sequence; `none` if a popped block is not queued -/
def liveReplay (g : Cfg) (s : LSt) : List Blk → Option LSt
  | [] => some s
  | b :: rest => if s.queue.contains b then liveReplay g (liveStep g s b) rest else none

/-- run with a scheduler `sched` (any function choosing from the queue; an answer that is
    not queued falls back to the head) for at most `fuel` pops; `none` = fuel exhausted -/
def liveRun (g : Cfg) (sched : List Blk → Blk) : Nat → LSt → Option LSt
  | 0, s => if s.queue.isEmpty then some s else none
  | fuel + 1, s =>
    match s.queue with
    | [] => some s
    | h :: _ =>
      let b := if s.queue.contains (sched s.queue) then sched s.queue else h
      liveRun g sched fuel (liveStep g s b)

/-! ## Forward analysis: definite / maybe assignment -/

/-- `AssignmentAnalysis.__init__` arguments -/
structure AParams where
  entryDef : List Var      -- `ass_before_entry`
  entryMaybe : List Var    -- `maybe_ass_before_entry`

/-- `all_vars = union of assigned over all stats | ass_before_entry` -/
def allVars (g : Cfg) (P : AParams) : List Var := g.blocks.flatMap g.assigned ++ P.entryDef

structure ASt where
  befD : Blk → List Var    -- `vals_before[bb][0]`
  befM : Blk → List Var    -- `vals_before[bb][1]`
  aftD : Blk → List Var    -- `vals_after[bb][0]` (cache)
  aftM : Blk → List Var
  queue : List Blk

/-- `set.intersection(*xs)` for a non-empty argument list -/
def interAll : List (List Var) → List Var
  | [] => []
  | x :: xs => x.filter (fun v => xs.all (·.contains v))

/-- `AssignmentAnalysis.join` -/
def assJoin (P : AParams) (ds ms : List (List Var)) : List Var × List Var :=
  if ds.isEmpty then (P.entryDef, P.entryMaybe) else (interAll ds, ms.flatten)

def assStep (g : Cfg) (P : AParams) (s : ASt) (b : Blk) : ASt :=
  let preds := g.pred b ++ g.dpred b
  let j := assJoin P (preds.map s.aftD) (preds.map s.aftM)
  let ad := j.1 ++ g.assigned b
  let am := j.2 ++ g.assigned b
  let q := s.queue.filter (· != b)
  if sameSet ad (s.aftD b) && sameSet am (s.aftM b) then
    { s with befD := upd s.befD b j.1, befM := upd s.befM b j.2, queue := q }
  else
    { befD := upd s.befD b j.1, befM := upd s.befM b j.2,
      aftD := upd s.aftD b ad, aftM := upd s.aftM b am,
      queue := q ++ (g.succ b ++ g.dsucc b) }

/-- `vals_before = {bb: initial()}`, `vals_after = {bb: apply_bb(initial, bb)}` -/
def assInit (g : Cfg) (P : AParams) : ASt :=
  { befD := fun _ => allVars g P, befM := fun _ => P.entryMaybe,
    aftD := fun b => allVars g P ++ g.assigned b, aftM := fun b => P.entryMaybe ++ g.assigned b,
    queue := g.blocks }

inductive AReach (g : Cfg) (P : AParams) : ASt → ASt → Prop
  | refl (s : ASt) : AReach g P s s
  | step {s t : ASt} (b : Blk) (hb : b ∈ s.queue) (h : AReach g P (assStep g P s b) t) : AReach g P s t

def assReplay (g : Cfg) (P : AParams) (s : ASt) : List Blk → Option ASt
  | [] => some s
  | b :: rest => if s.queue.contains b then assReplay g P (assStep g P s b) rest else none

def assRun (g : Cfg) (P : AParams) (sched : List Blk → Blk) : Nat → ASt → Option ASt
  | 0, s => if s.queue.isEmpty then some s else none
  | fuel + 1, s =>
    match s.queue with
    | [] => some s
    | h :: _ =>
      let b := if s.queue.contains (sched s.queue) then sched s.queue else h
      assRun g P sched fuel (assStep g P s b)

end GuppyVerif.Dataflow
