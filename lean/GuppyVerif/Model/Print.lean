import GuppyVerif.Model.Ty
/-! # C31 — the type printer and the reader of printed types

Model of `guppylang_internals/tys/printing.py` (`TypePrinter`, `_fresh_name`, `_wrap`; with the two
`fix:` commits: a 1-tuple prints `(int,)`, a tuple that is the only type argument prints
`Option[(int, bool),]`) and of the way a printed type is read back:

  * stage 1 — CPython's `ast.parse(s, mode="eval")` on the expression fragment the printer can emit
    (`parseToks`: names, `None/True/False`, number literals, unary minus, parenthesised expressions
    and tuples incl. `()` and `(t,)`, subscripts `name[...]` whose slice is a tuple iff it has a
    comma or is itself a parenthesised tuple);
  * stage 2 — `tys/parsing.py`: `arg_from_ast`, `type_from_ast`, `_try_parse_defn`,
    `_arg_from_instantiated_defn`, the `check_instantiate` of numeric / tuple / opaque / list /
    struct definitions, `check_all_args` and `TypeParam.check_arg` / `ConstParam.check_arg`
    (`param.py`), with every user error as a result.

The printer produces a *token list*; `render` turns it into the string compared with the real
`str(ty)`.  Variable occurrences carry ghost annotations (`Tok.ident _ (some idx)`, `Tok.evar _ id`)
that neither `render` nor the parser looks at; they are what `distinct_vars_distinct_names` talks
about.  Import-free apart from `Model/Ty.lean`; executable. -/
namespace GuppyVerif.Print

/-! ## Tokens and rendering -/
inductive Tok where
  /-- an identifier; `var = some idx` marks an occurrence of the bound variable with that index -/
  | ident (s : String) (var : Option Nat)
  /-- `?name`, an existential variable with unique id `id`; ghost `isConst`: an `ExistentialConstVar` -/
  | evar (s : String) (id : Nat) (isConst : Bool)
  | kwNone | kwTrue | kwFalse
  | nat (n : Nat)
  /-- unsigned float literal as produced by `str(float)` -/
  | float (r : String)
  | minus
  /-- `str(value)` of a constant that is neither int, bool nor float -/
  | other (s : String)
  | lpar | rpar | lbrack | rbrack | comma
  | arrow | forallKw | dot | colon | atOwned | atComptime
  /-- `self.bound_names[param.idx]` raised `IndexError` -/
  | indexError
  deriving DecidableEq, Repr, Inhabited

def Tok.text : Tok → String
  | .ident s _ => s
  | .evar s _ _ => "?" ++ s
  | .kwNone => "None" | .kwTrue => "True" | .kwFalse => "False"
  | .nat n => toString n
  | .float r => r
  | .minus => "-"
  | .other s => s
  | .lpar => "(" | .rpar => ")" | .lbrack => "[" | .rbrack => "]" | .comma => ","
  | .arrow => " -> " | .forallKw => "forall " | .dot => ". " | .colon => ": "
  | .atOwned => " @owned" | .atComptime => " @comptime"
  | .indexError => "<IndexError>"

/-- the string: `", ".join` puts a blank after every comma except the trailing ones -/
def render : List Tok → String
  | [] => ""
  | .comma :: rest =>
      (match rest with
        | .rpar :: _ => ","
        | .rbrack :: _ => ","
        | _ => ", ") ++ render rest
  | t :: rest => t.text ++ render rest

/-! ## `TypePrinter` -/
structure PState where
  /-- `counter` (latest binding first) -/
  counter : List (String × Nat) := []
  /-- `bound_names` -/
  bound : List String := []
  /-- `existential_names` (latest binding first) -/
  exist : List (Nat × String) := []
  deriving Repr, Inhabited

def PState.init : PState := {}

/-- `T`, `T'1`, `T'2`, … -/
def indexed (d : String) (k : Nat) : String := d ++ "'" ++ toString k

/-- `_fresh_name` -/
def freshName (st : PState) (d : String) : String × PState :=
  match st.counter.lookup d with
  | none => (d, { st with counter := (d, 1) :: st.counter })
  | some k => (indexed d k, { st with counter := (d, k + 1) :: st.counter })

/-- the name part of `_visit_ExistentialVar` -/
def existName (st : PState) (id : Nat) (d : String) : String × PState :=
  match st.exist.lookup id with
  | some s => (s, st)
  | none =>
    let r := freshName st d
    (r.1, { r.2 with exist := (id, r.1) :: r.2.exist })

/-- `_visit_BoundVar` -/
def boundTok (st : PState) (name : String) (idx : Nat) : Tok :=
  .ident (match st.bound[idx]? with | some s => s | none => name) (some idx)

/-- `self.bound_names[param.idx]` in `_visit_TypeParam` / `_visit_ConstParam` -/
def paramTok (st : PState) (idx : Nat) : Tok :=
  match st.bound[idx]? with
  | some s => .ident s (some idx)
  | none => .indexError

def paramName : Param → String
  | .ty _ n _ _ => n
  | .const _ n _ _ => n

/-- implicit parameters generated for comptime arguments are not listed -/
def paramHidden : Param → Bool
  | .const _ _ _ fc => fc
  | .ty .. => false

/-- `for p in ty.params: self.bound_names.append(self._fresh_name(p.name))` -/
def pushParams (st : PState) : List String → PState
  | [] => st
  | n :: ns =>
    let r := freshName st n
    pushParams { r.2 with bound := r.2.bound ++ [r.1] } ns

def kindName : NumKind → String
  | .nat => "nat" | .int => "int" | .float => "float"

def floatToks (r : String) : List Tok :=
  let body (s : String) : Tok := if s == "inf" || s == "nan" then .ident s none else .float s
  match r.toList with
  | '-' :: cs => [.minus, body (String.ofList cs)]
  | _ => [body r]

/-- `str(c.value)` -/
def valToks : PyVal → List Tok
  | .int v => if v < 0 then [.minus, .nat v.natAbs] else [.nat v.toNat]
  | .bool b => [if b then .kwTrue else .kwFalse]
  | .float r => floatToks r
  | .other r => [.other r]

def flagToks (f : Flags) : List Tok :=
  (if f.owned then [.atOwned] else []) ++ (if f.comptime then [.atComptime] else [])

/-- `_wrap` -/
def wrap (inside : Bool) (xs : List Tok) : List Tok :=
  if inside then .lpar :: xs ++ [.rpar] else xs

def sepToks (b : Bool) : List Tok := if b then [.comma] else []

/-- the trailing comma of a tuple type that is the only type argument -/
def soleTupleComma : List Arg → List Tok
  | [.ty (.tuple _ _)] => [.comma]
  | _ => []

mutual
/-- `TypePrinter._visit(ty, inside_row)` -/
def visitTy (st : PState) : Ty → Bool → List Tok × PState
  | .num k, _ => ([.ident (kindName k) none], st)
  | .none _, _ => ([.kwNone], st)
  | .bvar n i _ _, _ => ([boundTok st n i], st)
  | .evar n id _ _, _ =>
      let r := existName st id n
      ([.evar r.1 id false], r.2)
  | .tuple ts _, _ =>
      let r := visitTys st false ts
      (.lpar :: r.1 ++ (if ts.length = 1 then [.comma] else []) ++ [.rpar], r.2)
  | .opaque n as, _ =>
      if as.isEmpty then ([.ident n none], st)
      else
        let r := visitArgs st false as
        (.ident n none :: .lbrack :: r.1 ++ soleTupleComma as ++ [.rbrack], r.2)
  | .struct n as _, _ =>
      if as.isEmpty then ([.ident n none], st)
      else
        let r := visitArgs st false as
        (.ident n none :: .lbrack :: r.1 ++ soleTupleComma as ++ [.rbrack], r.2)
  | .func ins out ps _, inside =>
      let st1 := if ps.isEmpty then st else pushParams st (ps.map paramName)
      let ri := visitIns st1 false ins
      let itoks := if ins.length = 1 then ri.1 else .lpar :: ri.1 ++ [.rpar]
      let ro := visitTy ri.2 out true
      if ps.isEmpty then (wrap inside (itoks ++ .arrow :: ro.1), ro.2)
      else
        let rq := visitParams ro.2 false ps
        -- `del self.bound_names[: -len(ty.params)]` keeps the LAST len(params) names
        let st5 := { rq.2 with bound := rq.2.bound.drop (rq.2.bound.length - ps.length) }
        (wrap inside (.forallKw :: rq.1 ++ .dot :: itoks ++ .arrow :: ro.1), st5)
/-- `", ".join(self._visit(t, True) for t in ts)`; `sep` = a comma goes first -/
def visitTys (st : PState) (sep : Bool) : List Ty → List Tok × PState
  | [] => ([], st)
  | t :: ts =>
      let r := visitTy st t true
      let r2 := visitTys r.2 true ts
      (sepToks sep ++ r.1 ++ r2.1, r2.2)
def visitArg (st : PState) : Arg → List Tok × PState
  | .ty t => visitTy st t true
  | .const c => visitConst st c
def visitArgs (st : PState) (sep : Bool) : List Arg → List Tok × PState
  | [] => ([], st)
  | a :: as =>
      let r := visitArg st a
      let r2 := visitArgs r.2 true as
      (sepToks sep ++ r.1 ++ r2.1, r2.2)
def visitConst (st : PState) : Const → List Tok × PState
  | .val _ v => (valToks v, st)
  | .bvar _ n i => ([boundTok st n i], st)
  | .evar _ n id =>
      let r := existName st id n
      ([.evar r.1 id true], r.2)
def visitIn (st : PState) : FuncIn → List Tok × PState
  | .mk t f =>
      let r := visitTy st t true
      (r.1 ++ flagToks f, r.2)
def visitIns (st : PState) (sep : Bool) : List FuncIn → List Tok × PState
  | [] => ([], st)
  | i :: is =>
      let r := visitIn st i
      let r2 := visitIns r.2 true is
      (sepToks sep ++ r.1 ++ r2.1, r2.2)
def visitParam (st : PState) : Param → List Tok × PState
  | .ty idx _ _ _ => ([paramTok st idx], st)
  | .const idx _ ty _ =>
      let r := visitTy st ty true
      (paramTok r.2 idx :: .colon :: r.1, r.2)
def visitParams (st : PState) (sep : Bool) : List Param → List Tok × PState
  | [] => ([], st)
  | p :: ps =>
      if paramHidden p then visitParams st sep ps
      else
        let r := visitParam st p
        let r2 := visitParams r.2 true ps
        (sepToks sep ++ r.1 ++ r2.1, r2.2)
end

/-- `TypePrinter().visit(ty)` as tokens -/
def printToks (t : Ty) : List Tok := (visitTy .init t false).1

/-- `str(ty)`; `none` = the printer raised `IndexError` -/
def printStr (t : Ty) : Option String :=
  let ts := printToks t
  if ts.contains .indexError then none else some (render ts)

/-! ### variable occurrences of a printed type (ghost annotations) -/
inductive VarId where
  | bound (idx : Nat)
  | exist (id : Nat)
  deriving DecidableEq, Repr

/-- (variable, printed name) for every variable occurrence, in print order -/
def varOccs : List Tok → List (VarId × String)
  | [] => []
  | .ident s (some i) :: r => (.bound i, s) :: varOccs r
  | .evar s id _ :: r => (.exist id, "?" ++ s) :: varOccs r
  | _ :: r => varOccs r

/-! ## Existential variables have a kind; their ids come from a session allocator

`ExistentialTypeVar` and `ExistentialConstVar` both inherit `ExistentialVar._fresh_id`, ONE counter:
`ExistentialTypeVar.fresh`, `ExistentialConstVar.fresh`, `Parameter.to_existential`,
`FunctionType.unquantified` all draw from it.  `TypePrinter.existential_names` is keyed by the id
alone, so the printer relies on ids being unique ACROSS kinds. -/
inductive EKind where
  | ty | const
  deriving DecidableEq, Repr

/-- `ExistentialVar._fresh_id` (shared `itertools.count()`) -/
structure Alloc where
  next : Nat

/-- a sequence of `.fresh` calls of either kind: the variables (kind, id) handed out -/
def Alloc.run (a : Alloc) : List EKind → List (EKind × Nat)
  | [] => []
  | k :: ks => (k, a.next) :: Alloc.run ⟨a.next + 1⟩ ks

/-- the variant with one counter per kind (NOT the code; used for the negative witness) -/
structure Alloc2 where
  nextTy : Nat
  nextConst : Nat

def Alloc2.run (a : Alloc2) : List EKind → List (EKind × Nat)
  | [] => []
  | .ty :: ks => (.ty, a.nextTy) :: Alloc2.run ⟨a.nextTy + 1, a.nextConst⟩ ks
  | .const :: ks => (.const, a.nextConst) :: Alloc2.run ⟨a.nextTy, a.nextConst + 1⟩ ks

/-- (kind, id, printed name) of every existential occurrence, in print order -/
def evarOccs : List Tok → List (EKind × Nat × String)
  | [] => []
  | .evar s id c :: r => ((if c then .const else .ty), id, "?" ++ s) :: evarOccs r
  | _ :: r => evarOccs r

/-! ## Stage 1: CPython's expression parser on the printed fragment -/
inductive Ast where
  | name (s : String)
  | cNone
  | cBool (b : Bool)
  | cNat (n : Nat)
  | cFloat (r : String)
  /-- `UnaryOp(USub, e)` -/
  | neg (e : Ast)
  | tuple (es : List Ast)
  | sub (value : Ast) (slice : Ast)
  deriving Repr, Inhabited

inductive PErr where
  /-- CPython `SyntaxError` -/
  | syntaxError
  /-- valid Python outside the modelled fragment (`a[b][c]`, string/other literals, attributes, …) -/
  | unsupported
  | fuel
  | varNotDefined | invalidTypeArg | wrongNumberOfTypeArgs | expected | typeMismatch
  | experimentalFeature
  /-- an internal error (assertion in `Instantiator`) -/
  | crash
  deriving DecidableEq, Repr, Inhabited

def isClose (brack : Bool) : Tok → Bool
  | .rpar => !brack
  | .rbrack => brack
  | _ => false

def stuck : List Tok → PErr
  | .lbrack :: _ => .unsupported
  | .other _ :: _ => .unsupported
  | _ => .syntaxError

/-- what a bracketed item list denotes: (items, has a trailing comma) -/
def groupAst : List Ast → Bool → Ast
  | [e], false => e
  | es, _ => .tuple es

mutual
def parseExpr : Nat → List Tok → Except PErr (Ast × List Tok)
  | 0, _ => .error .fuel
  | f + 1, .ident s _ :: .lbrack :: rest =>
      match parseItems f true rest with
      | .error e => .error e
      | .ok ([], _, _) => .error .syntaxError
      | .ok (es, tr, rest') => .ok (.sub (.name s) (groupAst es tr), rest')
  | _ + 1, .ident s _ :: rest => .ok (.name s, rest)
  | _ + 1, .kwNone :: rest => .ok (.cNone, rest)
  | _ + 1, .kwTrue :: rest => .ok (.cBool true, rest)
  | _ + 1, .kwFalse :: rest => .ok (.cBool false, rest)
  | _ + 1, .nat n :: rest => .ok (.cNat n, rest)
  | _ + 1, .float r :: rest => .ok (.cFloat r, rest)
  | f + 1, .minus :: rest =>
      match parseExpr f rest with
      | .error e => .error e
      | .ok (e, rest') => .ok (.neg e, rest')
  | f + 1, .lpar :: rest =>
      match parseItems f false rest with
      | .error e => .error e
      | .ok (es, tr, rest') => .ok (groupAst es tr, rest')
  | _ + 1, toks => .error (stuck toks)
/-- items up to the closing bracket; at the start an immediate close is the empty list -/
def parseItems : Nat → Bool → List Tok → Except PErr (List Ast × Bool × List Tok)
  | 0, _, _ => .error .fuel
  | _ + 1, _, [] => .error .syntaxError
  | f + 1, br, t :: rest =>
      if isClose br t then .ok ([], false, rest)
      else
        match parseExpr f (t :: rest) with
        | .error e => .error e
        | .ok (e, r1) =>
          match parseMore f br r1 with
          | .error e => .error e
          | .ok (es, tr, r2) => .ok (e :: es, tr, r2)
/-- after an item: close, `,` close (trailing comma) or `,` item … -/
def parseMore : Nat → Bool → List Tok → Except PErr (List Ast × Bool × List Tok)
  | 0, _, _ => .error .fuel
  | f + 1, br, .comma :: t :: rest =>
      if isClose br t then .ok ([], true, rest)
      else
        match parseExpr f (t :: rest) with
        | .error e => .error e
        | .ok (e, r1) =>
          match parseMore f br r1 with
          | .error e => .error e
          | .ok (es, _, r2) => .ok (e :: es, true, r2)
  | _ + 1, br, t :: rest => if isClose br t then .ok ([], false, rest) else .error (stuck (t :: rest))
  | _ + 1, _, [] => .error .syntaxError
end

/-- `ast.parse(s, mode="eval").body` -/
def parseToks (toks : List Tok) : Except PErr Ast :=
  match parseExpr (toks.length + 1) toks with
  | .error e => .error e
  | .ok (e, []) => .ok e
  | .ok (_, rest) => .error (stuck rest)

/-! ## Stage 2: `tys/parsing.py` -/
inductive Defn where
  /-- `_NumericTypeDef` -/
  | num (k : NumKind)
  /-- `_TupleTypeDef` (`tuple`) -/
  | tuple
  /-- `OpaqueTypeDef` (`isList`: `_ListTypeDef`, needs experimental features) -/
  | opaque (name : String) (ps : List Param) (neverCopy neverDrop : Bool) (isList : Bool)
  /-- a struct definition: parameters and the field types of the checked definition -/
  | struct (name : String) (ps : List Param) (fields : List Ty)
  /-- `Callable` / `Self`: parsed by dedicated code that is not modelled -/
  | special
  /-- any other Guppy definition (a function, …) -/
  | nonType
  deriving Inhabited

structure Env where
  /-- `Globals.__getitem__` restricted to Guppy definitions (`PythonObject`s are `none`) -/
  defs : String → Option Defn
  /-- experimental features enabled -/
  lists : Bool

/-- `param_var_mapping` -/
abbrev Ctx := String → Option Param

/-- `(ty.copyable, ty.droppable)` -/
abbrev Classifier := Ty → Bool × Bool

def boolTy : Ty := .opaque "bool" []

/-- `Parameter.to_bound()` -/
def toBound : Param → Arg
  | .ty idx n cp dr => .ty (.bvar n idx cp dr)
  | .const idx n ty _ => .const (.bvar ty n idx)

def constTy : Const → Ty
  | .val t _ => t
  | .bvar t _ _ => t
  | .evar t _ _ => t

mutual
/-- `unify(s, t, {}) is not None` for types without existential variables (bound variables are
    compared by index only; function types are not modelled and never unify here) -/
def unifyEq : Ty → Ty → Bool
  | .num k, .num k' => k == k'
  | .none _, .none _ => true
  | .bvar _ i _ _, .bvar _ j _ _ => i == j
  | .tuple ts _, .tuple ts' _ => unifyArgsTy ts ts'
  | .opaque n as, .opaque n' as' => n == n' && unifyArgs as as'
  | .struct n as _, .struct n' as' _ => n == n' && unifyArgs as as'
  | _, _ => false
termination_by structural a _ => a
def unifyArgsTy : List Ty → List Ty → Bool
  | [], [] => true
  | a :: as, b :: bs => unifyEq a b && unifyArgsTy as bs
  | _, _ => false
termination_by structural a _ => a
def unifyArg : Arg → Arg → Bool
  | .ty a, .ty b => unifyEq a b
  | .const a, .const b => unifyConst a b
  | _, _ => false
termination_by structural a _ => a
def unifyArgs : List Arg → List Arg → Bool
  | [], [] => true
  | a :: as, b :: bs => unifyArg a b && unifyArgs as bs
  | _, _ => false
termination_by structural a _ => a
def unifyConst : Const → Const → Bool
  | .val t v, .val t' v' => v == v' && Ty.beq t t'
  | .bvar _ _ i, .bvar _ _ j => i == j
  | _, _ => false
end

/-- `param.instantiate_bounds(args).check_arg(arg)` -/
def checkArg (cd : Classifier) (full : List Arg) : Param → Arg → Except PErr Unit
  | .ty _ _ _ _, .const _ => .error .expected
  | .ty _ _ mc md, .ty t =>
      if mc && !(cd t).1 then .error .expected
      else if md && !(cd t).2 then .error .expected
      else .ok ()
  | .const _ _ pty _, a =>
      match Ty.inst full pty with
      | none => .error .crash
      | some pty' =>
        match a with
        | .const c => if unifyEq (constTy c) pty' then .ok () else .error .typeMismatch
        | .ty _ => .error .expected

def checkEach (cd : Classifier) (full : List Arg) : List Param → List Arg → Except PErr Unit
  | p :: ps, a :: as =>
      match checkArg cd full p a with
      | .error e => .error e
      | .ok () => checkEach cd full ps as
  | _, _ => .ok ()

/-- `check_all_args` -/
def checkAllArgs (cd : Classifier) (ps : List Param) (args : List Arg) : Except PErr Unit :=
  if ps.length != args.length then .error .wrongNumberOfTypeArgs else checkEach cd args ps args

/-- `_TupleTypeDef.check_instantiate`: every argument must be a type -/
def tupleArgs : List Arg → Except PErr (List Ty)
  | [] => .ok []
  | .ty t :: as =>
      match tupleArgs as with
      | .error e => .error e
      | .ok ts => .ok (t :: ts)
  | .const _ :: _ => .error .expected

/-- `_arg_from_instantiated_defn` for an already parsed argument list -/
def instDefn (env : Env) (cd : Classifier) (d : Defn) (args : List Arg) : Except PErr Arg :=
  match d with
  | .num k => if args.isEmpty then .ok (.ty (.num k)) else .error .wrongNumberOfTypeArgs
  | .tuple =>
      match tupleArgs args with
      | .error e => .error e
      | .ok ts => .ok (.ty (.tuple ts false))
  | .opaque n ps _ _ isList =>
      if isList && !env.lists then .error .experimentalFeature
      else
        match checkAllArgs cd ps args with
        | .error e => .error e
        | .ok () => .ok (.ty (.opaque n args))
  | .struct n ps fs =>
      match checkAllArgs cd ps args with
      | .error e => .error e
      | .ok () => .ok (.ty (.struct n args fs))
  | .special => .error .unsupported
  | .nonType => .error .expected

/-- whether `_arg_from_instantiated_defn` parses the argument nodes (`case TypeDef()`) -/
def Defn.parsesArgs : Defn → Bool
  | .special => false
  | .nonType => false
  | _ => true

/-- `_type_param.check_arg(arg)` in `type_with_flags_from_ast` -/
def asType : Arg → Except PErr Ty
  | .ty t => .ok t
  | .const _ => .error .expected

mutual
/-- `arg_from_ast` -/
def argFromAst (env : Env) (ctx : Ctx) (cd : Classifier) : Ast → Except PErr Arg
  | .name s =>
      match env.defs s with
      | some d => instDefn env cd d []
      | none =>
        match ctx s with
        | some p => .ok (toBound p)
        | none => .error .varNotDefined
  | .sub (.name s) (.tuple es) =>
      match env.defs s with
      | some d =>
        if d.parsesArgs then
          match argsFromAst env ctx cd es with
          | .error e => .error e
          | .ok args => instDefn env cd d args
        else instDefn env cd d []
      | none => .error .invalidTypeArg
  | .sub (.name s) e =>
      match env.defs s with
      | some d =>
        if d.parsesArgs then
          match argFromAst env ctx cd e with
          | .error e => .error e
          | .ok a => instDefn env cd d [a]
        else instDefn env cd d []
      | none => .error .invalidTypeArg
  | .sub _ _ => .error .invalidTypeArg
  | .tuple es =>
      match tysFromAst env ctx cd es with
      | .error e => .error e
      | .ok ts => .ok (.ty (.tuple ts false))
  | .cNone => .ok (.ty (.none false))
  | .cBool b => .ok (.const (.val boolTy (.bool b)))
  | .cNat n => .ok (.const (.val (.num .nat) (.int n)))
  | .cFloat r => .ok (.const (.val (.num .float) (.float r)))
  | .neg _ => .error .invalidTypeArg
def argsFromAst (env : Env) (ctx : Ctx) (cd : Classifier) : List Ast → Except PErr (List Arg)
  | [] => .ok []
  | e :: es =>
      match argFromAst env ctx cd e with
      | .error err => .error err
      | .ok a =>
        match argsFromAst env ctx cd es with
        | .error err => .error err
        | .ok as => .ok (a :: as)
/-- `[type_from_ast(el, ctx) for el in node.elts]` -/
def tysFromAst (env : Env) (ctx : Ctx) (cd : Classifier) : List Ast → Except PErr (List Ty)
  | [] => .ok []
  | e :: es =>
      match argFromAst env ctx cd e with
      | .error err => .error err
      | .ok a =>
        match asType a with
        | .error err => .error err
        | .ok t =>
          match tysFromAst env ctx cd es with
          | .error err => .error err
          | .ok ts => .ok (t :: ts)
end

/-- `type_from_ast` -/
def typeFromAst (env : Env) (ctx : Ctx) (cd : Classifier) (e : Ast) : Except PErr Ty :=
  match argFromAst env ctx cd e with
  | .error err => .error err
  | .ok a => asType a

/-- `type_from_ast(ast.parse(s, mode="eval").body, TypeParsingCtx(globals, param_var_mapping))`
    for `s` = the rendering of `toks` -/
def readToks (env : Env) (ctx : Ctx) (cd : Classifier) (toks : List Tok) : Except PErr Ty :=
  match parseToks toks with
  | .error e => .error e
  | .ok a => typeFromAst env ctx cd a

/-! ## A concrete classifier: `Type.copyable` / `Type.droppable`

`ρ` classifies the bound variables that stand for the arguments of an enclosing struct definition
(`StructType.fields` are the definition's fields instantiated with the arguments; classifying the
definition's field under `ρ` = classifying the instantiated field). -/
def band2 (a b : Bool × Bool) : Bool × Bool := (a.1 && b.1, a.2 && b.2)

mutual
def cls (nc : String → Bool × Bool) (ρ : List (Bool × Bool)) : Ty → Bool × Bool
  | .num _ => (true, true)
  | .none _ => (true, true)
  | .bvar _ i c d => match ρ[i]? with | some r => r | none => (c, d)
  | .evar _ _ c d => (c, d)
  | .tuple ts _ => clsTys nc ρ ts
  | .func .. => (true, true)
  | .opaque n as => band2 (nc n) (clsArgs nc ρ as)
  | .struct _ as fs => band2 (clsTys nc (clsArgList nc ρ as) fs) (clsArgs nc ρ as)
def clsTys (nc : String → Bool × Bool) (ρ : List (Bool × Bool)) : List Ty → Bool × Bool
  | [] => (true, true)
  | t :: ts => band2 (cls nc ρ t) (clsTys nc ρ ts)
/-- conjunction over the type arguments -/
def clsArgs (nc : String → Bool × Bool) (ρ : List (Bool × Bool)) : List Arg → Bool × Bool
  | [] => (true, true)
  | .ty t :: as => band2 (cls nc ρ t) (clsArgs nc ρ as)
  | .const _ :: as => clsArgs nc ρ as
/-- classification of each argument (constants count as copyable and droppable) -/
def clsArgList (nc : String → Bool × Bool) (ρ : List (Bool × Bool)) : List Arg → List (Bool × Bool)
  | [] => []
  | .ty t :: as => cls nc ρ t :: clsArgList nc ρ as
  | .const _ :: as => (true, true) :: clsArgList nc ρ as
end

/-- `(not never_copyable, not never_droppable)` of the opaque definition a name resolves to -/
def Env.intrinsic (env : Env) (n : String) : Bool × Bool :=
  match env.defs n with
  | some (.opaque _ _ nc nd _) => (!nc, !nd)
  | _ => (true, true)

def classify (env : Env) : Classifier := cls env.intrinsic []

end GuppyVerif.Print
