/-! Model of the capturing-closure gate in `checker/func_checker.py::check_nested_func_def`.

    cfg.analyze(...)                                       # liveness of the nested body
    captured = {x: ... for x in cfg.live_before[cfg.entry_bb]
                if x not in func_ty.input_names and x in ctx.locals}
    if captured: check_capturing_closures_enabled(loc)     # GuppyError(UnsupportedError) when the flag is off
    for bb in cfg.bbs: for v in captured: if v.name in bb.vars.assigned: raise IllegalAssignError

The enclosing function is a sequence of items that extend `ctx.locals` (parameters, value
locals, function-valued locals, earlier nested functions); a nested body is a straight-line list
of statements, each reading some names and possibly assigning one.  The *type* of a local
(value or function) is part of the model precisely because the gate must not depend on it.
Import-free, executable. -/
namespace GuppyVerif.ClosureGate

/-- type class of a local of the enclosing function -/
inductive VKind where
  | value   -- int, tuple, array, ...
  | func    -- `Callable` parameter, `g = double`, an earlier nested function
  deriving DecidableEq, Repr

/-- one statement of a nested body: `x = e` / `return e` with the names `e` reads -/
structure Stmt where
  reads : List Nat
  assigns : Option Nat
  deriving DecidableEq, Repr

structure Inner where
  name : Nat
  params : List Nat
  body : List Stmt
  deriving DecidableEq, Repr

inductive Item where
  | localVar (x : Nat) (k : VKind)     -- parameter / `x = 3` / `g = double`
  | nested (f : Inner)                 -- `def f(params): body`
  deriving DecidableEq, Repr

def assignsName (s : Stmt) (x : Nat) : Bool := s.assigns == some x

/-- backward liveness of straight-line code: `live_before[entry]` -/
def liveBefore : List Stmt → List Nat
  | [] => []
  | s :: rest => s.reads ++ (liveBefore rest).filter fun x => !assignsName s x

def isLocal (locals : List (Nat × VKind)) (x : Nat) : Bool := locals.any fun l => l.1 == x

/-- the `captured` dict (keys) -/
def captured (locals : List (Nat × VKind)) (f : Inner) : List Nat :=
  (liveBefore f.body).filter fun x => !f.params.contains x && isLocal locals x

inductive Outcome where
  | accept
  | reject          -- GuppyError(UnsupportedError(loc, "Capturing closures"))
  | illegalAssign   -- IllegalAssignError: a captured variable is assigned in the nested body
  deriving DecidableEq, Repr

/-- `check_nested_func_def` as far as the gate is concerned -/
def checkNested (flag : Bool) (locals : List (Nat × VKind)) (f : Inner) : Outcome :=
  match captured locals f with
  | [] => .accept
  | c :: cs =>
    if !flag then .reject
    else if f.body.any fun s => (c :: cs).any fun x => assignsName s x then .illegalAssign
    else .accept

/-- checking the enclosing function: items in order, `ctx.locals` grows, first error wins -/
def checkOuter (flag : Bool) : List (Nat × VKind) → List Item → Outcome
  | _, [] => .accept
  | locals, .localVar x k :: rest => checkOuter flag ((x, k) :: locals.filter fun l => l.1 != x) rest
  | locals, .nested f :: rest =>
    match checkNested flag locals f with
    | .accept => checkOuter flag ((f.name, .func) :: locals.filter fun l => l.1 != f.name) rest
    | o => o

end GuppyVerif.ClosureGate
