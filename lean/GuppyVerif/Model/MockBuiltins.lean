/-! Model of `tracing/builtins_mock.py::mock_builtins` and of the part of
`tracing/function.py::trace_function` that brackets the user's Python function with it.

    mock = {"float": float, "int": int, "len": len}
    old = {x: f.__globals__[x] for x in mock if x in f.__globals__}
    f.__globals__.update(mock)
    try:     yield
    finally:
        for x in mock:
            if x not in old: del f.__globals__[x]
        f.__globals__.update(old)

A module's globals are a Python `dict`: insertion-ordered, `d[k] = v` keeps the position of an
existing key and appends a new one, `del d[k]` removes the key (KeyError when absent).  The
model keeps the key order and the mapping separately (`order`, `val`).  Import-free, executable. -/
namespace GuppyVerif.MockBuiltins

inductive Name where
  | int | float | len
  | other (k : Nat)
  deriving DecidableEq, Repr

inductive Val where
  | user (id : Nat)          -- whatever the user bound (identity = id)
  | mock (n : Name)          -- `builtins_mock.<n>`
  deriving DecidableEq, Repr

/-- an insertion-ordered dict -/
structure Globals where
  order : List Name
  val : Name → Option Val

namespace Globals

def contains (g : Globals) (n : Name) : Bool := (g.val n).isSome

/-- `g[n] = v` -/
def set (g : Globals) (n : Name) (v : Val) : Globals :=
  { order := if g.contains n then g.order else g.order ++ [n]
    val := fun k => if k = n then some v else g.val k }

/-- `del g[n]`; `none` = KeyError -/
def del (g : Globals) (n : Name) : Option Globals :=
  if g.contains n then
    some { order := g.order.erase n, val := fun k => if k = n then none else g.val k }
  else none

/-- items in dict order -/
def items (g : Globals) : List (Name × Option Val) := g.order.map fun n => (n, g.val n)

end Globals

/-- key order of the `mock` dict literal -/
def mockNames : List Name := [.float, .int, .len]

def mockDict : List (Name × Val) := mockNames.map fun n => (n, .mock n)

/-- `old = {x: g[x] for x in mock if x in g}` -/
def save (g : Globals) : List (Name × Val) :=
  mockNames.filterMap fun n => (g.val n).map fun v => (n, v)

/-- `g.update(kvs)` -/
def updateAll (kvs : List (Name × Val)) (g : Globals) : Globals :=
  kvs.foldl (fun g kv => g.set kv.1 kv.2) g

def hasKey (old : List (Name × Val)) (n : Name) : Bool := old.any fun kv => kv.1 == n

/-- `for x in mock: if x not in old: del g[x]`; `false` = a `del` raised KeyError (the rest of
    the `finally` block is then skipped) -/
def restoreDel : List Name → List (Name × Val) → Globals → Globals × Bool
  | [], _, g => (g, true)
  | n :: ns, old, g =>
    if hasKey old n then restoreDel ns old g
    else match g.del n with
      | none => (g, false)
      | some g' => restoreDel ns old g'

/-- the whole `finally` block -/
def restore (old : List (Name × Val)) (g : Globals) : Globals × Bool :=
  match restoreDel mockNames old g with
  | (g₁, true) => (updateAll old g₁, true)
  | (g₁, false) => (g₁, false)

/-- what happens while (nested) comptime compilation runs -/
inductive Prog where
  | skip
  | seq (p q : Prog)
  /-- observer: record what `int`, `float`, `len` are in every module right now -/
  | probe
  /-- a Python exception raised by the traced body (or by a failing `trace_call`) -/
  | raise
  /-- `trace_function` on a comptime function defined in module `m` whose Python body does
      `body`; `retOk = false`: the returned value is rejected after the mocks were removed
      (TracingReturnError / TypeMismatchError) -/
  | trace (m : Nat) (body : Prog) (retOk : Bool)
  /-- `try: p except Exception: pass` (the observer's hook around a nested compilation) -/
  | catch (p : Prog)
  deriving Repr

abbrev Mods := Nat → Globals

def setMod (σ : Mods) (m : Nat) (g : Globals) : Mods := fun j => if j = m then g else σ j

/-- per module: values of `int`, `float`, `len` -/
abbrev Obs := List (List (Option Val))

def observe (K : Nat) (σ : Mods) : Obs :=
  (List.range K).map fun j => [(σ j).val .int, (σ j).val .float, (σ j).val .len]

structure Result where
  mods : Mods
  trace : List Obs
  raised : Bool

def exec (K : Nat) : Prog → Mods → Result
  | .skip, σ => ⟨σ, [], false⟩
  | .seq p q, σ =>
    let r₁ := exec K p σ
    if r₁.raised then r₁
    else
      let r₂ := exec K q r₁.mods
      ⟨r₂.mods, r₁.trace ++ r₂.trace, r₂.raised⟩
  | .probe, σ => ⟨σ, [observe K σ], false⟩
  | .raise, σ => ⟨σ, [], true⟩
  | .trace m body retOk, σ =>
    let old := save (σ m)
    let σ₁ := setMod σ m (updateAll mockDict (σ m))
    let r := exec K body σ₁
    let fin := restore old (r.mods m)
    ⟨setMod r.mods m fin.1, r.trace, r.raised || !fin.2 || !retOk⟩
  | .catch p, σ =>
    let r := exec K p σ
    ⟨r.mods, r.trace, false⟩

end GuppyVerif.MockBuiltins
