import GuppyVerif.Gen.C21DunderMixin
/-! # C21 — the two operator dispatch procedures

*Regular* Guppy (`ExprSynthesizer._synthesize_binary`, checker/expr_checker.py): look the AST operator up
in `binary_table` → `(lop, rop)`; try `lop` of the left type on `[left, right]`; if that is not defined or
does not type-check, try `rop` of the right type on `[right, left]`; else `BinaryOperatorNotDefinedError`.

*Comptime* (tracing/object.py): Python evaluates `l op r`.
 * `l` traced: CPython calls `type(l).lop(l, r)` = `DunderMixin.lop` wrapped by `binary_operation`.
 * `l` a Python constant, `r` traced: `type(l).lop(l, r)` returns `NotImplemented` and CPython calls
   `type(r).rop(r, l)` = `DunderMixin.rop`, same wrapper.
 The wrapper turns both operands into Guppy objects (a constant gets its literal's type), calls the
 method body (`self._get_method(<delegate>)(other)`: the `<delegate>` dunder of `self`'s type on
 `[self, other]`), and if that raises, looks its own name `n` up: if `n ∈ binary_table` the fallback is
 `binary_table[n]`, else `reverse_binary_table[n]`; it calls that dunder of `other`'s type on
 `[other, self]`; else `BinaryOperatorNotDefinedError`.

Both end in the same `CallableDef.synthesize_call`, abstracted here as the acceptance table. Everything is
parameterised by a `Tables` value (so sensitivity can be shown on modified tables). -/
namespace GuppyVerif.C21

structure Tables where
  mixin : List (Dunder × Option Dunder × Deco)
  ops : List (Op × Dunder × Dunder)
  uops : List (UOp × Dunder)
  fwd : List (Dunder × Dunder)
  rev : List (Dunder × Dunder)
  acc : NTy → NTy → List Dunder
  uacc : List (NTy × Dunder)

def tables : Tables := ⟨mixin, checkerOps, checkerUOps, fwdTable, revTable, accBy, uaccTable⟩

/-- an operand: a traced (runtime) value or a Python constant, with its (literal) type -/
inductive Operand where
  | traced (t : NTy)
  | const (t : NTy)
  deriving DecidableEq, Repr

def Operand.ty : Operand → NTy
  | .traced t => t
  | .const t => t

/-- what a dispatch selects: the implementing type, its dunder, and whether the arguments are passed
    as `[right, left]` (`swapped`) or `[left, right]` -/
structure Sel where
  ty : NTy
  dunder : Dunder
  swapped : Bool
  deriving DecidableEq, Repr

variable (T : Tables)

def accepts (t : NTy) (d : Dunder) (u : NTy) : Bool := (T.acc t u).contains d

/-- `_synthesize_binary` -/
def regular (op : Op) (l r : NTy) : Option Sel :=
  match T.ops.lookup op with
  | none => none
  | some (lop, rop) =>
    if accepts T l lop r then some ⟨l, lop, false⟩
    else if accepts T r rop l then some ⟨r, rop, true⟩
    else none

/-- `binary_operation(f)` for the mixin method named `n`, called with `self` / `other`;
    `selfIsLeft` says whether `self` is the source-level left operand -/
def wrapped (n : Dunder) (self other : NTy) (selfIsLeft : Bool) : Option Sel :=
  match T.mixin.lookup n with
  | none => none                       -- no such method: CPython raises TypeError
  | some (delegate, deco) =>
    let direct : Option Sel :=
      match delegate with
      | some d => if accepts T self d other then some ⟨self, d, !selfIsLeft⟩ else none
      | none => none
    match direct with
    | some s => some s
    | none =>
      if deco = .binary then
        let fb := match T.fwd.lookup n with
          | some r => some r
          | none => T.rev.lookup n
        match fb with
        | some r => if accepts T other r self then some ⟨other, r, selfIsLeft⟩ else none
        | none => none
      else none

/-- CPython's binary operator protocol on top of the mixin; `none` at the outer level: both operands
    are Python constants, nothing is traced -/
def comptime (op : Op) (l r : Operand) : Option (Option Sel) :=
  match T.ops.lookup op with
  | none => some none
  | some (lop, rop) =>
    match l, r with
    | .traced tl, _ => some (wrapped T lop tl r.ty true)
    | .const tl, .traced tr => some (wrapped T rop tr tl false)
    | .const _, .const _ => none

/-- `regular` on operands (a constant is a literal of its type) -/
def regularO (op : Op) : Operand → Operand → Option Sel
  | .traced a, .traced b | .traced a, .const b | .const a, .traced b | .const a, .const b => regular T op a b

/-- unary: `visit_UnaryOp` vs the mixin method wrapped by `unary_operation` -/
def regularU (op : UOp) (t : NTy) : Option Dunder :=
  match T.uops.lookup op with
  | none => none
  | some d => if T.uacc.contains (t, d) then some d else none

def comptimeU (op : UOp) (t : NTy) : Option Dunder :=
  match T.uops.lookup op with
  | none => none
  | some n =>
    match T.mixin.lookup n with
    | some (some d, _) => if T.uacc.contains (t, d) then some d else none
    | _ => none

end GuppyVerif.C21
