/-! Model of `guppylang_internals/span.py`: `Loc` (dataclass, order=True) and
    `Span.__post_init__`, `__contains__`, `__and__`.  Import-free, executable. -/
namespace GuppyVerif.Span

/-- `Loc(file, line, column)`; `order=True` compares `(file, line, column)` tuples. -/
structure Loc where
  file : String
  line : Nat
  col : Nat
  deriving DecidableEq, Repr

/-- tuple comparison `(f1,l1,c1) <= (f2,l2,c2)` as CPython performs it:
    first differing component decides. -/
def Loc.le (a b : Loc) : Bool :=
  if a.file ≠ b.file then decide (a.file < b.file)
  else if a.line ≠ b.line then decide (a.line < b.line)
  else decide (a.col ≤ b.col)

def Loc.lt (a b : Loc) : Bool :=
  if a.file ≠ b.file then decide (a.file < b.file)
  else if a.line ≠ b.line then decide (a.line < b.line)
  else decide (a.col < b.col)

/-- CPython `max(a, b)`: `b if b > a else a`; `min(a, b)`: `b if b < a else a`. -/
def Loc.max (a b : Loc) : Loc := if Loc.lt a b then b else a
def Loc.min (a b : Loc) : Loc := if Loc.lt b a then b else a

structure Span where
  start : Loc
  stop : Loc
  deriving DecidableEq, Repr

/-- `Span.__post_init__`: `none` = InternalGuppyError -/
def Span.mk? (s e : Loc) : Option Span :=
  if s.file ≠ e.file then none
  else if Loc.lt e s then none
  else some ⟨s, e⟩

def Span.file (s : Span) : String := s.start.file

/-- `x in self` for a `Span` x -/
def Span.containsSpan (self x : Span) : Bool :=
  if self.file ≠ x.file then false
  else Loc.le self.start x.start && Loc.le x.stop self.stop

/-- `x in self` for a `Loc` x -/
def Span.containsLoc (self : Span) (x : Loc) : Bool :=
  if self.file ≠ x.file then false
  else Loc.le self.start x && Loc.le x self.stop

/-- result of `self & other`: Python `None`, a span, or `InternalGuppyError` from
    `Span.__post_init__` -/
inductive InterRes where
  | none
  | some (s : Span)
  | error
  deriving DecidableEq, Repr

/-- `self & other` -/
def Span.inter (self other : Span) : InterRes :=
  if self.file ≠ other.file then .none
  else if Loc.lt other.stop self.start || Loc.lt self.stop other.start then .none
  else match Span.mk? (Loc.max self.start other.start) (Loc.min self.stop other.stop) with
    | Option.some s => .some s
    | Option.none => .error

end GuppyVerif.Span
