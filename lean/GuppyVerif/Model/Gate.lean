/-! # Model of the quantum standard library's gate bindings (C20)

A row of the (regenerated) gate table says how one library function of `std/quantum` or
`std/qsystem` is implemented: bound to a single HUGR op by one of the call compilers of
`definition/custom.py` / `std/_internal/compiler/quantum.py`, or written as a straight-line Guppy
body, which the table records as the list of calls it makes.  `emit` computes which ops a call with
given actual arguments applies, to which of the caller's values, on which op ports. -/
namespace GuppyVerif.Gate

/-- parameter kinds read from the annotations -/
inductive PTy | qubit | qubitOwned | angle | float | other
  deriving DecidableEq, Repr

/-- argument expressions occurring in library bodies, over the formal parameters `p i` -/
inductive Exp
  | p (i : Nat)                 -- the i-th parameter of the enclosing function
  | pi                          -- the constant `std.angles.pi`
  | neg (e : Exp)               -- `-e`        (angle.__neg__)
  | divN (e : Exp) (n : Nat)    -- `e / n`     (angle.__truediv__ with an int literal)
  | mulN (e : Exp) (n : Nat)    -- `e * n`     (angle.__mul__ / __rmul__ with an int literal)
  | toFloat (e : Exp)           -- `float(e)`  (angle.__float__ : halfturns * math.pi)
  | res (j : Nat)               -- the value returned by the j-th call of the enclosing body
  deriving DecidableEq, Repr

structure Call where
  modl : String
  fn : String
  args : List Exp
  deriving DecidableEq, Repr

inductive Binding
  | direct (op : String)        -- `@hugr_op(quantum_op(op))`: OpCompiler, all arguments to the op in order
  | rotation (op : String)      -- `RotationCompiler(op)`: `[*qs, angle]`, angle through from_halfturns_unchecked
  | measure (op : String)       -- `InoutMeasureCompiler`: op on the qubit, bit through make_opaque
  | measureReset (op : String)  -- `InoutMeasureResetCompiler`
  | body (calls : List Call)    -- `@guppy` straight-line body
  | opaque                      -- `@guppy` body outside the straight-line fragment (not modelled)
  deriving DecidableEq, Repr

structure Row where
  modl : String
  name : String
  params : List PTy
  ret : String
  binding : Binding
  returns : List Exp   -- what a `@guppy` body returns (in order); `[]` for op-bound functions and `None`
  deriving DecidableEq, Repr

/-- how a value reaches an op input port -/
inductive OpArg
  | val (e : Exp)   -- the value itself (a qubit, a float)
  | rot (e : Exp)   -- `tket.rotation.from_halfturns_unchecked(e.halfturns)`: half turns, unscaled
  deriving DecidableEq, Repr

/-- one applied op: qualified name and what is wired to its input ports, in port order -/
structure Emitted where
  op : String
  args : List OpArg
  deriving DecidableEq, Repr

/-- replace formal parameters by actual arguments -/
def Exp.subst (σ : List Exp) : Exp → Exp
  | .p i => σ.getD i (.p i)
  | .pi => .pi
  | .neg e => .neg (e.subst σ)
  | .divN e n => .divN (e.subst σ) n
  | .mulN e n => .mulN (e.subst σ) n
  | .toFloat e => .toFloat (e.subst σ)
  | .res j => .res j

def lookup (tbl : List Row) (m f : String) : Option Row :=
  tbl.find? fun r => r.modl == m && r.name == f

/-- ops applied by the call `m.f(actuals)`; `none`: unknown function, arity mismatch, opaque body or
    call depth beyond `fuel` -/
def emit (tbl : List Row) : Nat → String → String → List Exp → Option (List Emitted)
  | 0, _, _, _ => none
  | fuel + 1, m, f, actuals =>
    match lookup tbl m f with
    | none => none
    | some row =>
      if row.params.length ≠ actuals.length then none else
      match row.binding with
      | .direct op => some [⟨op, actuals.map .val⟩]
      | .measure op => some [⟨op, actuals.map .val⟩]
      | .measureReset op => some [⟨op, actuals.map .val⟩]
      | .rotation op =>
        match actuals.reverse with
        | [] => none
        | a :: qs => some [⟨op, qs.reverse.map .val ++ [.rot a]⟩]
      | .body calls =>
        (calls.mapM fun c => emit tbl fuel c.modl c.fn (c.args.map (Exp.subst actuals))).map List.flatten
      | .opaque => none

/-- call depth that suffices for the library (deepest chain: zz_max → zz_phase → _zz_phase) -/
def fuel : Nat := 4

/-- the value in half turns of a closed angle expression, in any carrier with the needed operators;
    `piH` is the number of half turns of the constant `pi` -/
def Exp.halfturns? {α : Type} [Neg α] [Mul α] [Div α] [NatCast α] (piH : α) : Exp → Option α
  | .p _ => none
  | .pi => some piH
  | .neg e => (e.halfturns? piH).map fun h => -h
  | .divN e n => if n = 0 then none else (e.halfturns? piH).map fun h => h / (n : α)
  | .mulN e n => (e.halfturns? piH).map fun h => h * (n : α)
  | .toFloat _ => none
  | .res _ => none

/-- what the call `m.f(actuals)` returns, for functions written as a Guppy body: the returned
    expressions with the actual arguments substituted (`.res j` = result of the body's j-th call) -/
def returnsOf (tbl : List Row) (m f : String) (actuals : List Exp) : Option (List Exp) :=
  match lookup tbl m f with
  | none => none
  | some row =>
    if row.params.length ≠ actuals.length then none else
    match row.binding with
    | .body _ => some (row.returns.map (Exp.subst actuals))
    | _ => none

end GuppyVerif.Gate

namespace GuppyVerif.Gate
-- realise the equation lemmas of `halfturns?` here (so they are not attributed to a Props module)
example : (Exp.neg .pi).halfturns? (1 : Int) = some (-1) := by
  simp [Exp.halfturns?]
end GuppyVerif.Gate
