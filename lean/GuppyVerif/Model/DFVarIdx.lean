/-! # Model of the de Bruijn re-indexing under partial monomorphization (compiler/core.py, tys/ty.py)

`mono : List Bool` abstracts `PartiallyMonomorphizedArgs`: `mono[i] = true` iff Guppy parameter `i` is
monomorphised away (`mono_args[i] is not None`), `false` iff it stays a HUGR type parameter.

```python
def compile_variable_idx(idx, mono_args):
    assert mono_args[idx] is None
    return sum(1 for arg in mono_args[:idx] if arg is None)

def type_var_to_hugr / const_var_to_hugr (self, var):
    if self.current_mono_args is None: return Variable(var.idx)
    match self.current_mono_args[var.idx]:
        case <arg>: return <the argument, lowered>
        case None:  return Variable(compile_variable_idx(var.idx, self.current_mono_args))

def instantiate_partial(self, args):           # signature of the monomorphised FuncDefn
    remaining_params = []
    for param, arg in zip(self.params, args):
        if arg is None: remaining_params.append(param.with_idx(len(remaining_params)))
```
Import-free, executable, total (the `assert` is an `Option`). -/
namespace GuppyVerif.DFVarIdx

/-- number of kept (`false`) entries -/
def countKept : List Bool → Nat
  | [] => 0
  | b :: bs => (if b then 0 else 1) + countKept bs

/-- `compile_variable_idx`; `none` = the assertion fails (index out of range or monomorphised) -/
def compileVariableIdx (idx : Nat) (mono : List Bool) : Option Nat :=
  match mono[idx]? with
  | some false => some (countKept (mono.take idx))
  | _ => none

/-- what a bound variable is lowered to inside a function body -/
inductive Lowered where
  | var (hugrIdx : Nat)     -- stays a HUGR variable with this de Bruijn index
  | arg                     -- replaced by its monomorphic argument
  | error                   -- IndexError / failed assertion
  deriving DecidableEq, Repr, Inhabited

/-- `type_var_to_hugr` / `const_var_to_hugr` (index part); `ctx = none`: no monomorphisation context -/
def varToHugr (ctx : Option (List Bool)) (idx : Nat) : Lowered :=
  match ctx with
  | none => .var idx
  | some mono =>
    match mono[idx]? with
    | none => .error
    | some true => .arg
    | some false =>
      match compileVariableIdx idx mono with
      | some j => .var j
      | none => .error

/-- `instantiate_partial(...).params`: the original indices of the kept parameters, in order
    (the HUGR parameter list of the monomorphised `FuncDefn`); `i` = index of the head -/
def remainingFrom (i : Nat) : List Bool → List Nat
  | [] => []
  | true :: bs => remainingFrom (i + 1) bs
  | false :: bs => i :: remainingFrom (i + 1) bs

def remaining (mono : List Bool) : List Nat := remainingFrom 0 mono

end GuppyVerif.DFVarIdx
