import GuppyVerif.Gen.C32SyntaxCoverage
/-! # C32 — how the per-visitor tables combine into one disposition per (node kind, field)

Mirrors the pipeline of `guppylang_internals` for the body of a `@guppy` function:

* a statement node `K` is dispatched by `CFGBuilder.visit` (`visit_K`, else `generic_visit`, which
  raises `UnsupportedError`); nodes the builder appends to a basic block are later dispatched by
  `StmtChecker.visit` (whose `visit_If/While/Break/Continue` raise `InternalGuppyError`: those kinds
  are consumed by the builder).
* an expression node `K` first goes through `ExprBuilder` (a `NodeTransformer`; explicit `visit_K`
  or `generic_visit`, which forwards every child) and, in branch position, `BranchBuilder`; what is
  not desugared away there is dispatched by `ExprSynthesizer.visit` **or** `ExprChecker.visit` (two alternatives, chosen
  by position; `ExprChecker.generic_visit` falls back to the synthesizer, `ExprSynthesizer.
  generic_visit` raises `UnsupportedError`) **or**, when the node is an assignment target, by the
  single-dispatch `StmtChecker._check_assign` (`AssignTarget`; any other class raises).
* nodes of the other grammar types (`arguments`, `arg`, `keyword`, `withitem`, `comprehension`,
  patterns, handlers, type parameters) have no dispatcher: they are reached only through a field
  of a parent node and read by whichever function got hold of them (`aux`).

Everything is a function of a `Tables` value so that the theorems' sensitivity to the table can be
demonstrated on modified tables. -/
namespace GuppyVerif.C32

inductive Disp where
  | handled       -- some stage looks at the field outside a rejection
  | rejected      -- the field is only looked at to raise a user error when it is populated
  | ignored       -- the node kind is accepted but no stage looks at the field
  | nodeRejected  -- the node kind itself is rejected by the dispatcher
  | unreachable   -- every grammar position of this kind lies in a rejected field / node kind
  deriving DecidableEq, Repr

def Disp.blocked : Disp → Bool
  | .rejected | .nodeRejected | .unreachable => true
  | _ => false

/-- combine two sequential stages -/
def Disp.seq (a b : Disp) : Disp :=
  if a = .handled ∨ b = .handled then .handled
  else if a = .rejected ∨ b = .rejected then .rejected
  else if a = .nodeRejected ∨ b = .nodeRejected then .nodeRejected
  else if a = .unreachable ∨ b = .unreachable then .unreachable
  else .ignored

/-- combine two alternatives (either may be the one taken) -/
def Disp.alt (a b : Disp) : Disp :=
  if a = .ignored ∨ b = .ignored then .ignored
  else if a = .handled ∨ b = .handled then .handled
  else a

variable (T : Tables)

def visitHow (v : Visitor) (k : Kind) : Option VisitHow :=
  (T.visits.find? (fun r => r.1 = v ∧ r.2.1 = k)).map (·.2.2)

def readHow (v : Visitor) (k : Kind) (f : Field) : Option ReadHow :=
  if T.reads.any (fun r => r.1 = v ∧ r.2.1 = k ∧ r.2.2.1 = f ∧ r.2.2.2 = .read) then some .read
  else if T.reads.any (fun r => r.1 = v ∧ r.2.1 = k ∧ r.2.2.1 = f ∧ r.2.2.2 = .guard) then some .guard
  else none

def stage (v : Visitor) (k : Kind) (f : Field) : Disp :=
  match readHow T v k f with
  | some .read => .handled
  | some .guard => .rejected
  | none => .ignored

def genericHow (v : Visitor) : GenericHow :=
  ((T.generic.find? (fun r => r.1 = v)).map (·.2)).getD .other

def catOf (k : Kind) : Option Cat := (T.kindCat.find? (fun r => r.1 = k)).map (·.2)

/-- statements: `CFGBuilder` then `StmtChecker` -/
def stmtDisp (k : Kind) (f : Field) : Disp :=
  match visitHow T .CFGBuilder k with
  | none => if genericHow T .CFGBuilder = .rejects then .nodeRejected else .ignored
  | some .raisesUser => .nodeRejected
  | some .raisesInternal => .ignored
  | some .identity => .ignored
  | some .explicit =>
    let a := stage T .CFGBuilder k f
    match visitHow T .StmtChecker k with
    | some .explicit => a.seq (stage T .StmtChecker k f)
    | _ => a

/-- One consumer of expression nodes.  Each visitor with an explicit (non-identity) `visit_K` may be
    the one that consumes the node on some path (`ExprBuilder.visit_Call` turns `comptime(…)` calls
    into `ComptimeExpr` and forwards all other calls), so each must cover the field *on its own*:
    a read or guard in one consumer does not excuse another. -/
def consumer (v : Visitor) (k : Kind) (f : Field) (built : Bool) : Option Disp :=
  match visitHow T v k with
  | none => none
  | some .identity => none
  | some .explicit => some (stage T v k f)
  | some .raisesInternal => some (if built then .unreachable else .ignored)  -- must be consumed upstream
  | some .raisesUser => some .nodeRejected

def altAll : List (Option Disp) → Option Disp
  | [] => none
  | none :: r => altAll r
  | some d :: r => match altAll r with
    | none => some d
    | some e => some (d.alt e)

/-- expressions: `ExprBuilder` / `BranchBuilder` (desugaring), `ExprSynthesizer` | `ExprChecker`
    (evaluation positions), `AssignTarget` (assignment targets), `ModifierItem` (the context expression of a
    `with` item, consumed by `CFGBuilder._handle_withitem`) are alternatives -/
def exprDisp (k : Kind) (f : Field) : Disp :=
  let built := visitHow T .ExprBuilder k = some .explicit ∨ visitHow T .BranchBuilder k = some .explicit
  match altAll [consumer T .ExprBuilder k f built, consumer T .BranchBuilder k f built,
      consumer T .ExprSynthesizer k f built, consumer T .ExprChecker k f built,
      consumer T .AssignTarget k f built, consumer T .ModifierItem k f built] with
  | some d => d
  | none => if genericHow T .ExprSynthesizer = .rejects then .nodeRejected else .ignored

/-- disposition of a field of a stmt / expr kind -/
def coreDisp (k : Kind) (f : Field) : Disp :=
  match catOf T k with
  | some .stmt => stmtDisp T k f
  | some .expr => exprDisp T k f
  | _ => .ignored

/-- grammar positions at which a node of kind `k` (category `c`) can occur, from outside its own
    category (positions inside the category are closed under the argument in `auxDisp`) -/
def parentsOf (k : Kind) (c : Cat) : List GRow :=
  T.grammar.filter fun r =>
    (r.ftype = .prod k ∨ (c ≠ .prod ∧ r.ftype = .sum c)) ∧ ¬ (c ≠ .prod ∧ r.cat = c)

/-- Disposition of any (kind, field).  For the kinds without a dispatcher: a read anywhere counts;
    otherwise the kind is `unreachable` when every grammar position from which its category can be
    entered is a blocked field (the set of such kinds is closed: a path from a statement into it
    would have to cross one of those fields).  `fuel` bounds the parent chain
    (`arg ← arguments ← FunctionDef`). -/
def disp : Nat → Kind → Field → Disp
  | 0, _, _ => .ignored
  | fuel + 1, k, f =>
    match catOf T k with
    | some .stmt => stmtDisp T k f
    | some .expr => exprDisp T k f
    | some c =>
      match stage T .aux k f with
      | .ignored =>
        if (parentsOf T k c).all (fun r => (disp fuel r.kind r.field).blocked) then .unreachable else .ignored
      | d => d
    | none => .ignored

end GuppyVerif.C32
