import GuppyVerif.Model.FeatureGate
/-! Where the experimental-feature gate sits inside the checker code that handles a gated
construct (C33).  A *site* is one call `check_<feature>_enabled(..)`; the statements of the
enclosing block that come before it and can raise a different user error (anything but plain
assignments) are counted in `raisingBefore`.  `runBlock` is the block's behaviour on a construct
for which some of those earlier statements, and possibly later checks, fail. -/
namespace GuppyVerif.GateOrder

open GuppyVerif.FeatureGate

structure Site where
  file : String
  func : String
  feature : Feature
  raisingBefore : Nat
  deriving DecidableEq, Repr

inductive Res where
  | ok
  | gateError (f : Feature)
  | otherBefore (i : Nat)     -- a statement in front of the gate raised
  | otherAfter               -- a check after the gate raised
  deriving DecidableEq, Repr

/-- `failsBefore i`: does the i-th statement in front of the gate raise on this construct;
    `failsAfter`: does anything after the gate raise -/
def runBlock (s : Site) (flag : Bool) (failsBefore : Nat → Bool) (failsAfter : Bool) : Res :=
  match (List.range s.raisingBefore).find? failsBefore with
  | some i => .otherBefore i
  | none =>
    if !flag then .gateError s.feature
    else if failsAfter then .otherAfter else .ok

end GuppyVerif.GateOrder
