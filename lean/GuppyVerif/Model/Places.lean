/-! # Model for C07 — places, stores, and the write-back scheme for borrowed arguments

`callee(π)` where `π` is a place (`x`, `s.f`, `t[0]`, `xs[i]`, `xs[i].f`, `s.t[0]`, `ys[j][i]`, …) and
the callee borrows its argument.  The compiler (`ExprCompiler.visit_PlaceNode`,
`_update_inout_ports`, the `__getitem__`/`__setitem__` calls stored in `SubscriptAccess`,
`DFContainer.__getitem__/__setitem__`) turns this into

* **place level**: a cascade of array `borrow`s and `return`s around the call
  (`emitAbs`, instructions `AOp`, executed by `runA` on tree-shaped stores), and
* **wire level**: the same cascade plus the tuple `unpack`/`pack` plumbing of `DFContainer` and the
  `itousize` conversions, as an SSA op list (`emitW`, executed by `runW`).

A path is cut at its subscripts into *chunks*: `x.p₁[i₁].p₂[i₂] … .p_m[i_m].tail`; `s_j` is the
place up to and including `[i_j]`, `P_j = s_{j-1}.p_j` the array it indexes.

Values are trees; a lent array cell holds `V.hole`.  Runtime values proper (qubits, ints) are
unmodelled: leaves are opaque numbers and the callee is an arbitrary function on trees. -/
namespace GuppyVerif.Places

inductive V where
  | leaf (n : Nat)
  | hole
  | tup (vs : List V)
  | arr (cs : List V)
  deriving Repr, Inhabited

def V.isHole : V → Bool
  | .hole => true
  | _ => false

inductive Step where
  | proj (k : Nat)   -- struct field number k / tuple element k
  | idx (i : Nat)    -- array subscript with runtime index i
  deriving DecidableEq, Repr, Inhabited

/-- the lens: read the sub-value at a path (`none`: path does not exist in this value) -/
def getP : List Step → V → Option V
  | [], v => some v
  | .proj k :: r, .tup vs => match vs[k]? with
    | some c => getP r c
    | none => none
  | .idx i :: r, .arr cs => match cs[i]? with
    | some c => getP r c
    | none => none
  | _ :: _, _ => none

/-- the lens: replace the sub-value at a path -/
def putP : List Step → V → V → Option V
  | [], new, _ => some new
  | .proj k :: r, new, .tup vs => match vs[k]? with
    | some c => match putP r new c with
      | some c' => some (.tup (vs.set k c'))
      | none => none
    | none => none
  | .idx i :: r, new, .arr cs => match cs[i]? with
    | some c => match putP r new c with
      | some c' => some (.arr (cs.set i c'))
      | none => none
    | none => none
  | _ :: _, _, _ => none

/-- one chunk `.p[i]` of a path -/
structure Chunk where
  projs : List Nat
  idx : Nat
  deriving Repr, Inhabited, DecidableEq

structure CPath where
  chunks : List Chunk
  tail : List Nat
  deriving Repr, Inhabited, DecidableEq

def Chunk.steps (c : Chunk) : List Step := c.projs.map .proj ++ [.idx c.idx]
def stepsOf : List Chunk → List Step
  | [] => []
  | c :: cs => c.steps ++ stepsOf cs
def CPath.tailSteps (p : CPath) : List Step := p.tail.map .proj
def CPath.steps (p : CPath) : List Step := stepsOf p.chunks ++ p.tailSteps

/-! ## Place level -/

inductive AOp where
  | borrow (j : Nat)   -- lend element `i_j` of the array at `P_j` (inside container `j-1`) into slot `j`
  | ret (j : Nat)      -- put slot `j` back into cell `i_j` of the array at `P_j`
  | call               -- the callee updates the argument inside slot `m` (the root when `m = 0`)
  | cset (j : Nat)     -- classical `set`: overwrite the PRESENT cell `i_j` of the array at `P_j` with slot `j`
  deriving DecidableEq, Repr, Inhabited

/-- `(load j, store j)`:
    `load j` = `visit_PlaceNode` for a place whose rightmost subscript is `s_j`
      (`dfg[s_j] = visit(getitem_call)`: visit the parent place = `load (j-1)`, borrow, then
      `_update_inout_ports` on the parent = `store (j-1)`);
    `store j` = the subscript branch of `_update_inout_ports` (`visit(setitem_call)`: visit the parent
      place = `load (j-1)`, return, `_update_inout_ports` on the parent = `store (j-1)`). -/
def loadStore : Nat → List AOp × List AOp
  | 0 => ([], [])
  | j + 1 =>
    let ls := loadStore j
    (ls.1 ++ [.borrow (j + 1)] ++ ls.2, ls.1 ++ [.ret (j + 1)] ++ ls.2)

def load (j : Nat) : List AOp := (loadStore j).1
def store (j : Nat) : List AOp := (loadStore j).2

/-- `callee(π)` for a path with `m` subscripts -/
def emitAbs (m : Nat) : List AOp := load m ++ [.call] ++ store m

inductive Err where
  | badPath          -- a projection / index that does not exist in the value (incl. index out of range)
  | alreadyBorrowed  -- borrowing a cell that holds a hole
  | notBorrowed      -- returning into a cell that is not a hole
  | illTyped         -- wire-level only: arity / wiring error
  deriving DecidableEq, Repr, Inhabited

abbrev M := Except Err

/-- containers: `0` is the root variable, `j ≥ 1` the element lent at subscript level `j` -/
abbrev Slots := Nat → V

def upd (s : Slots) (j : Nat) (v : V) : Slots := fun k => if k = j then v else s k

def stepA (f : V → V) (p : CPath) (s : Slots) : AOp → M Slots
  | .borrow j =>
    match p.chunks[j - 1]? with
    | none => throw .badPath
    | some c =>
      match getP c.steps (s (j - 1)) with
      | none => throw .badPath
      | some e =>
        if e.isHole then throw .alreadyBorrowed else
        match putP c.steps .hole (s (j - 1)) with
        | none => throw .badPath
        | some cont => pure (upd (upd s (j - 1) cont) j e)
  | .ret j =>
    match p.chunks[j - 1]? with
    | none => throw .badPath
    | some c =>
      match getP c.steps (s (j - 1)) with
      | none => throw .badPath
      | some e =>
        if !e.isHole then throw .notBorrowed else
        match putP c.steps (s j) (s (j - 1)) with
        | none => throw .badPath
        | some cont => pure (upd s (j - 1) cont)
  | .cset j =>
    match p.chunks[j - 1]? with
    | none => throw .badPath
    | some c =>
      match getP c.steps (s (j - 1)) with
      | none => throw .badPath
      | some e =>
        if e.isHole then throw .alreadyBorrowed else
        match putP c.steps (s j) (s (j - 1)) with
        | none => throw .badPath
        | some cont => pure (upd s (j - 1) cont)
  | .call =>
    let m := p.chunks.length
    match getP p.tailSteps (s m) with
    | none => throw .badPath
    | some v =>
      match putP p.tailSteps (f v) (s m) with
      | none => throw .badPath
      | some cont => pure (upd s m cont)

def runA (f : V → V) (p : CPath) : List AOp → Slots → M Slots
  | [], s => pure s
  | o :: os, s => do
    let s' ← stepA f p s o
    runA f p os s'

def initSlots (x : V) : Slots := fun k => if k = 0 then x else .hole

/-- place-level execution of `callee(π)` on the store `x`; returns the new value of the root -/
def callBorrowA (f : V → V) (p : CPath) (x : V) : M V := do
  let s ← runA f p (emitAbs p.chunks.length) (initSlots x)
  pure (s 0)

/-- `xs…[i_m] = v` for a COPYABLE element (`_assign_place` with `subscript == lhs.place`, classical
    `__setitem__`): the place is bound to `v` (slot `m`), the parent is visited (`load (m-1)`),
    `set`, and the parent is written back (`store (m-1)`).  Requires `m ≥ 1` and an empty tail. -/
def emitAssignSetAbs (m : Nat) : List AOp := load (m - 1) ++ [.cset m] ++ store (m - 1)

def assignSetA (f : V → V) (p : CPath) (x v : V) : M V := do
  let s ← runA f p (emitAssignSetAbs p.chunks.length) (upd (initSlots x) p.chunks.length v)
  pure (s 0)

/-! ## Function types: borrowed inputs are appended to the outputs (`FunctionType.to_hugr`) and
consumed in the same order by `_update_inout_ports` -/

structure Param where
  name : Nat
  borrowed : Bool    -- `InputFlags.Inout`
  comptime : Bool := false
  place : Bool := true   -- the ARGUMENT of a call is a place (`PlaceNode`); temporaries are not
  deriving DecidableEq, Repr, Inhabited

/-- output row of the lowered function: declared results, then one port per borrowed input in
    input order (`FunctionType._to_hugr_function_type`: `outs = row(output) + [inp for Inout]`) -/
def hugrOutputs (params : List Param) (results : List Nat) : List (Sum Nat Nat) :=
  results.map .inl ++ (params.filter (·.borrowed)).map (fun p => .inr p.name)

/-- `_update_inout_ports`: walk parameters and an iterator over the extra output ports; every
    borrowed parameter takes the next port — also when its argument is not a place (a temporary
    such as `array(7, 8)` or `fresh()`, which may be dropped after the call): then the port is
    consumed (`next(inout_ports); continue`) and nothing is bound.  Returns the bindings
    (place-argument name ↦ port) and the unconsumed ports. -/
def updateInoutPorts : List Param → List Nat → Option (List (Nat × Nat) × List Nat)
  | [], ports => some ([], ports)
  | p :: ps, ports =>
    if p.borrowed then
      match ports with
      | [] => none                       -- `next(inout_ports)` raises StopIteration
      | w :: ws => match updateInoutPorts ps ws with
        | some (asg, rest) => some (if p.place then (p.name, w) :: asg else asg, rest)
        | none => none
    else updateInoutPorts ps ports

/-! ## Wire level: `DFContainer` + builder -/

inductive Ty where
  | q                    -- a linear leaf (qubit)
  | c                    -- a copyable leaf (int, bool, …)
  | tup (ts : List Ty)   -- struct or tuple
  | arr (t : Ty)
  deriving Repr, Inhabited

mutual
/-- `ty.linear` of the compiler: neither copyable nor droppable.  An array / struct / tuple is
    linear iff it contains a linear component (`array[int, n]` and structs of such are affine). -/
def Ty.lin : Ty → Bool
  | .q => true
  | .c => false
  | .arr t => t.lin
  | .tup ts => linAny ts
def linAny : List Ty → Bool
  | [] => false
  | t :: ts => t.lin || linAny ts
end

inductive Op where
  | unpack | pack | itousize | borrow | ret
  | call (name : String)
  | drop                 -- `tket.guppy.drop` of a droppable value that was replaced
  | set                  -- classical `borrow_arr.set` (copyable elements)
  | unwrap               -- `build_unwrap_right(…, "Array index out of bounds")` of the `set` result
  | other (name : String)
  deriving DecidableEq, Repr, Inhabited

structure Instr where
  op : Op
  args : List Nat
  nout : Nat
  deriving DecidableEq, Repr, Inhabited

structure Prog where
  nin : Nat
  instrs : List Instr
  outs : List Nat
  deriving DecidableEq, Repr, Inhabited

/-- place ids: root variable, then projections / subscript levels -/
inductive PStep where
  | proj (k : Nat)
  | sub (level : Nat)
  deriving DecidableEq, Repr, Inhabited

abbrev PlaceId := List PStep

structure CS where
  locals : List (PlaceId × Nat) := []
  instrs : List Instr := []     -- reversed
  next : Nat := 0
  bad : Bool := false           -- "Couldn't obtain a port" (InternalGuppyError)
  deriving Repr, Inhabited

def CS.find (s : CS) (p : PlaceId) : Option Nat := (s.locals.find? (·.1 == p)).map (·.2)
def CS.set (s : CS) (p : PlaceId) (w : Nat) : CS :=
  { s with locals := (p, w) :: s.locals.filter (·.1 != p) }
def CS.pop (s : CS) (p : PlaceId) : CS := { s with locals := s.locals.filter (·.1 != p) }

/-- `builder.add_op`: returns the new wires -/
def CS.addOp (s : CS) (op : Op) (args : List Nat) (nout : Nat) : CS × List Nat :=
  ({ s with instrs := ⟨op, args, nout⟩ :: s.instrs, next := s.next + nout },
    (List.range nout).map (· + s.next))

/-- forget the wires of the linear children of `p` -/
def popLin : List Ty → PlaceId → Nat → CS → CS
  | [], _, _, s => s
  | t :: ts, p, k, s => popLin ts p (k + 1) (if t.lin then s.pop (p ++ [.proj k]) else s)

mutual
/-- `DFContainer.__getitem__`: a struct/tuple place that is not bound is packed from its children;
    the wires of *linear* children are forgotten (`if child.ty.linear: self.locals.pop(child.id)`),
    copyable and affine children stay bound -/
def dget : Ty → PlaceId → CS → CS × Nat
  | ty, p, s =>
    match s.find p with
    | some w => (s, w)
    | none =>
      match ty with
      | .tup ts =>
        let (s1, ws) := dgetChildren ts p 0 s
        let (s2, out) := s1.addOp .pack ws 1
        let s3 := popLin ts p 0 s2
        (s3.set p (out.headD 0), out.headD 0)
      | _ => ({ s with bad := true }, 4294967295)
def dgetChildren : List Ty → PlaceId → Nat → CS → CS × List Nat
  | [], _, _, s => (s, [])
  | t :: ts, p, k, s =>
    let (s1, w) := dget t (p ++ [.proj k]) s
    let (s2, ws) := dgetChildren ts p (k + 1) s1
    (s2, w :: ws)
end

mutual
/-- `DFContainer.__setitem__`: struct / tuple values are unpacked down to their leaves -/
def dset : Ty → PlaceId → Nat → CS → CS
  | .tup ts, p, w, s =>
    let (s1, outs) := s.addOp .unpack [w] ts.length
    let s2 := dsetChildren ts p 0 outs s1
    s2.pop p
  | _, p, w, s => s.set p w
def dsetChildren : List Ty → PlaceId → Nat → List Nat → CS → CS
  | [], _, _, _, s => s
  | t :: ts, p, k, ws, s =>
    let s1 := dset t (p ++ [.proj k]) (ws.headD 4294967295) s
    dsetChildren ts p (k + 1) ws.tail s1
end

/-- type reached from `t` by a list of projections -/
def tyProj : Ty → List Nat → Option Ty
  | t, [] => some t
  | .tup ts, k :: r => match ts[k]? with
    | some t => tyProj t r
    | none => none
  | _, _ :: _ => none

def arrElemTy : Ty → Option Ty
  | .arr t => some t
  | _ => none

/-- executable well-typedness check of a path under a root type; returns the type of the place -/
def wtCheck : Ty → List Chunk → List Nat → Option Ty
  | t, [], tail => tyProj t tail
  | t, c :: cs, tail =>
    match tyProj t c.projs with
    | some (.arr te) => wtCheck te cs tail
    | _ => none

/-- static information per subscript level `j = 1 … m`: the place id of `s_{j-1}` (container), the
    chunk, the type of the container, the wire holding the index -/
structure Level where
  contId : PlaceId     -- place id of the container (`[]` = root variable, else `s_{j-1}`)
  contTy : Ty
  projs : List Nat
  idxWire : Nat
  deriving Repr, Inhabited

def Level.arrId (l : Level) : PlaceId := l.contId ++ l.projs.map .proj
def Level.arrTy (l : Level) : Ty := (tyProj l.contTy l.projs).getD .q
def Level.elemTy (l : Level) : Ty := (arrElemTy l.arrTy).getD .q

/-- levels of a path under a root of type `t`; the index of level `j` is input wire `j` -/
def mkLevels : Ty → PlaceId → List Chunk → Nat → List Level
  | _, _, [], _ => []
  | t, pid, c :: cs, j =>
    let l : Level := ⟨pid, t, c.projs, j⟩
    l :: mkLevels l.elemTy (pid ++ c.projs.map .proj ++ [.sub j]) cs (j + 1)

def subId (l : Level) (j : Nat) : PlaceId := l.arrId ++ [.sub j]

/-- lowering of `__getitem__(P, i)` on a non-copyable element followed by the re-binding of `P`:
    lookup of the array place, `itousize`, `borrow`, `dfg[P] = array'`.  Returns the element wire. -/
def borrowStepW (l : Level) (s : CS) : CS × Nat :=
  let r1 := dget l.arrTy l.arrId s
  let r2 := r1.1.addOp .itousize [l.idxWire] 1
  let r3 := r2.1.addOp .borrow [r1.2, r2.2.headD 0] 2
  (dset l.arrTy l.arrId (r3.2.headD 0) r3.1, r3.2.tail.headD 0)

/-- lowering of `__setitem__(P, i, tmp)`: lookup of the array place, `itousize`, `return`,
    `dfg[P] = array'` -/
def retStepW (l : Level) (tmp : Nat) (s : CS) : CS :=
  let r1 := dget l.arrTy l.arrId s
  let r2 := r1.1.addOp .itousize [l.idxWire] 1
  let r3 := r2.1.addOp .ret [r1.2, r2.2.headD 0, tmp] 1
  dset l.arrTy l.arrId (r3.2.headD 0) r3.1

/-- `(loadW j, storeW j)` on the compile state, for levels `lv[0 … j-1]`; mirrors `loadStore` with
    the `DFContainer` plumbing made explicit -/
def loadStoreW (lv : List Level) : Nat → (CS → CS) × (CS → CS)
  | 0 => (id, id)
  | j + 1 =>
    let ls := loadStoreW lv j
    match lv[j]? with
    | none => (fun s => { s with bad := true }, fun s => { s with bad := true })
    | some l =>
      (fun s =>
        -- args of `__getitem__(parent, item)`: visit_PlaceNode(parent), then the item variable;
        -- `_update_inout_ports`: parent := returned array (+ its own write-back)
        let r := borrowStepW l (ls.1 s)
        let s := ls.2 r.1
        -- `self.dfg[subscript] = …`
        dset l.elemTy (subId l (j + 1)) r.2 s,
       fun s =>
        -- `self.dfg[value_var] = self.dfg[subscript]` (packed; the tmp variable is never unpacked)
        let r := dget l.elemTy (subId l (j + 1)) s
        let s := retStepW l r.2 (ls.1 r.1)
        ls.2 s)

/-- place id and type of the innermost container `s_m` (the root variable when there is no subscript) -/
def lastPlace (t : Ty) (lv : List Level) (m : Nat) : PlaceId × Ty :=
  match lv[m - 1]? with
  | none => ([], t)
  | some l => (subId l m, l.elemTy)

/-- the whole probe `def probe(x: T, i1: int, …) -> None: callee(π)` with `x` borrowed:
    inputs `x = 0`, `i_j = j`; output = the repacked `x` -/
def emitW (t : Ty) (p : CPath) (callee : String) : Prog :=
  let m := p.chunks.length
  let lv := mkLevels t [] p.chunks 1
  let s : CS := { next := m + 1 }
  let s := dset t [] 0 s
  let cp := lastPlace t lv m
  let pid := cp.1 ++ p.tail.map .proj
  let pty := (tyProj cp.2 p.tail).getD .q
  let ls := loadStoreW lv m
  -- visit_PlaceNode(π)
  let s := ls.1 s
  let (s, w) := dget pty pid s
  let (s, o) := s.addOp (.call callee) [w] 1
  -- _update_inout_ports
  let s := dset pty pid (o.headD 0) s
  let s := ls.2 s
  -- function exit: the borrowed parameter is an output
  let (s, out) := dget t [] s
  if s.bad then ⟨m + 1, [⟨.other "bad", [], 0⟩], []⟩ else ⟨m + 1, s.instrs.reverse, [out]⟩

/-- `def probe(x: T, i1: int, …, v: U @owned) -> None: π = v` (`StmtCompiler._assign_place`) for a
    place `π` that ends in a field whose old value is droppable: the same cascade as `emitW` with the
    call replaced by binding the place to the input wire `m+1`; the replaced value is dropped at
    the end of the block.  (Requires a non-empty tail: for `π = s_m` itself `_assign_place` skips
    the `__getitem__`.) -/
def emitAssignW (t : Ty) (p : CPath) : Prog :=
  let m := p.chunks.length
  let lv := mkLevels t [] p.chunks 1
  let s : CS := { next := m + 2 }
  let s := dset t [] 0 s
  let cp := lastPlace t lv m
  let pid := cp.1 ++ p.tail.map .proj
  let pty := (tyProj cp.2 p.tail).getD .q
  let ls := loadStoreW lv m
  let s := ls.1 s
  let old := (s.find pid).getD 4294967295
  let s := dset pty pid (m + 1) s
  let s := ls.2 s
  let (s, out) := dget t [] s
  let (s, _) := s.addOp .drop [old] 0
  if s.bad || p.tail.isEmpty then ⟨m + 2, [⟨.other "bad", [], 0⟩], []⟩ else ⟨m + 2, s.instrs.reverse, [out]⟩

/-- `def probe(x: T, i1: int, …, v: E) -> None: x.p₁[i₁]…p_m[i_m] = v` for a copyable element type `E`
    (empty tail): `self.dfg[lhs.place] = port`, `value_var := dfg[subscript]`, then the classical
    `__setitem__(parent, i_m, value_var)` = visit parent, `itousize`, `set`, unwrap, re-bind the array
    place, write-back of the parent. -/
def emitAssignSetW (t : Ty) (p : CPath) : Prog :=
  let m := p.chunks.length
  let lv := mkLevels t [] p.chunks 1
  let s : CS := { next := m + 2 }
  let s := dset t [] 0 s
  match lv[m - 1]? with
  | none => ⟨m + 2, [⟨.other "bad", [], 0⟩], []⟩
  | some l =>
    let s := dset l.elemTy (subId l m) (m + 1) s
    let r := dget l.elemTy (subId l m) s
    let ls := loadStoreW lv (m - 1)
    let s := ls.1 r.1
    let r1 := dget l.arrTy l.arrId s
    let r2 := r1.1.addOp .itousize [l.idxWire] 1
    let r3 := r2.1.addOp .set [r1.2, r2.2.headD 0, r.2] 1
    let r4 := r3.1.addOp .unwrap [r3.2.headD 0] 2
    let s := dset l.arrTy l.arrId (r4.2.tail.headD 0) r4.1
    let s := ls.2 s
    let r5 := dget t [] s
    if r5.1.bad || m == 0 || !p.tail.isEmpty then ⟨m + 2, [⟨.other "bad", [], 0⟩], []⟩
    else ⟨m + 2, r5.1.instrs.reverse, [r5.2]⟩

/-! ### interpreter of wire-level op lists -/

inductive W where
  | val (v : V)
  | int (i : Nat)       -- a non-negative Guppy int (index variable)
  | usize (n : Nat)
  | either (right : Bool) (elem arr : V)   -- result of `set`: right = (old element, new array)
  deriving Repr, Inhabited

/-- the tree values on a list of wires (`none` if an index / usize is among them) -/
def valsOf : List W → Option (List V)
  | [] => some []
  | .val v :: r => (valsOf r).map (v :: ·)
  | _ :: _ => none

def stepW (f : V → V) : Op → List W → M (List W)
  | .unpack, [.val (.tup vs)] => pure (vs.map .val)
  | .pack, ws =>
      match valsOf ws with
      | some vs => pure [.val (.tup vs)]
      | none => throw .illTyped
  | .itousize, [.int i] => pure [.usize i]
  | .borrow, [.val (.arr cs), .usize i] =>
      match cs[i]? with
      | none => throw .badPath
      | some e => if e.isHole then throw .alreadyBorrowed else pure [.val (.arr (cs.set i .hole)), .val e]
  | .ret, [.val (.arr cs), .usize i, .val e] =>
      match cs[i]? with
      | none => throw .badPath
      | some c => if !c.isHole then throw .notBorrowed else pure [.val (.arr (cs.set i e))]
  | .call _, [.val v] => pure [.val (f v)]
  | .drop, [.val _] => pure []
  | .set, [.val (.arr cs), .usize i, .val v] =>
      match cs[i]? with
      | none => pure [.either false v (.arr cs)]
      | some e => if e.isHole then throw .alreadyBorrowed else pure [.either true e (.arr (cs.set i v))]
  | .unwrap, [.either r e a] => if r then pure [.val e, .val a] else throw .badPath
  | _, _ => throw .illTyped

def lookupW (env : List W) : List Nat → M (List W)
  | [] => pure []
  | w :: ws => match env[w]? with
    | none => throw .illTyped
    | some v => do
      let vs ← lookupW env ws
      pure (v :: vs)

def runInstrsW (f : V → V) : List Instr → List W → M (List W)
  | [], env => pure env
  | i :: is, env => do
    let args ← lookupW env i.args
    let outs ← stepW f i.op args
    if outs.length = i.nout then runInstrsW f is (env ++ outs) else throw .illTyped

def runW (f : V → V) (p : Prog) (inputs : List W) : M (List W) :=
  if inputs.length ≠ p.nin then throw .illTyped else do
  let env ← runInstrsW f p.instrs inputs
  lookupW env p.outs

end GuppyVerif.Places
