/-! # Small total models of checker components with an explicit *internal failure* outcome (C02)

Each function mirrors a piece of `/repo`'s checker at the level of "which branch raises what":
`Except Failure α` with `Failure.user` (a `GuppyError` with a diagnostic) and `Failure.internal`
(`InternalGuppyError`, `AssertionError`, `KeyError`, `ValueError` from `zip(strict=True)` …).
The theorems in `Props/C02.lean` show the internal outcome unreachable under the documented
preconditions.  Names are natural numbers.  Import-free, total. -/
namespace GuppyVerif.C02

inductive UserError where
  | varNotDefined (x : Nat)
  | varMaybeNotDefined (x : Nat)
  | wrongNumberOfArgs (expected actual : Nat)
  | branchType (x : Nat)
  /-- `ExpectedError(node, "a value", got="type `T`")` -/
  | expectedValueGotType (x : Nat)
  /-- `ExpectedError(node, "a value", got="<definition kind> `x`")` -/
  | expectedValueGotDef (x : Nat)
  deriving DecidableEq, Repr

inductive Failure where
  | user (e : UserError)
  /-- the named internal site was reached -/
  | internal (site : String)
  deriving DecidableEq, Repr

def Failure.isInternal : Failure → Bool
  | .internal _ => true
  | .user _ => false

/-- an outcome is acceptable for C02 if it is a result or a user error -/
def Acceptable {α : Type} : Except Failure α → Prop
  | .ok _ => True
  | .error (.user _) => True
  | .error (.internal _) => False

/-! ## arity: `check_num_args` before `zip(inputs, func_ty.inputs, strict=True)` (expr_checker.type_check_args) -/

/-- `check_num_args(exp, act, node)` -/
def checkNumArgs (exp act : Nat) : Except Failure Unit :=
  if exp = act then .ok () else .error (.user (.wrongNumberOfArgs exp act))

/-- `zip(xs, ys, strict=True)`: `ValueError` when the lengths differ -/
def zipStrict {α β : Type} : List α → List β → Except Failure (List (α × β))
  | [], [] => .ok []
  | x :: xs, y :: ys =>
    match zipStrict xs ys with
    | .ok r => .ok ((x, y) :: r)
    | .error e => .error e
  | _, _ => .error (.internal "ValueError: zip() arguments have different lengths")

/-- the skeleton of `type_check_args(inputs, func_ty, …)`: arity check, then pair every argument with
    its declared input -/
def typeCheckArgs {α β : Type} (inputs : List α) (params : List β) : Except Failure (List (α × β)) :=
  match checkNumArgs params.length inputs.length with
  | .ok () => zipStrict inputs params
  | .error e => .error e

/-! ## name resolution: program analysis in `check_bb`, then `ExprSynthesizer.visit_Name` -/

/-- what `ctx.globals[x]` is -/
inductive GKind where
  /-- a `ValueDef`, or a `TypeDef` with a `__new__` constructor: becomes a `GlobalName` -/
  | value
  /-- any other Guppy definition: `ExpectedError "a value"` -/
  | nonValueDef
  /-- a plain Python object in scope: `VarNotDefinedError` -/
  | pyObject
  deriving DecidableEq, Repr

structure Scope where
  /-- `ctx.locals` -/
  locals : List Nat
  /-- `ctx.generic_params`: (name, isConstParam) -/
  generic : List (Nat × Bool)
  /-- names for which `x in ctx.globals`, with what the lookup returns -/
  globals : List (Nat × GKind)
  deriving Repr

inductive Resolved where
  | place (x : Nat) | genericValue (x : Nat) | global (x : Nat)
  deriving DecidableEq, Repr

def lookup {α : Type} (x : Nat) : List (Nat × α) → Option α
  | [] => none
  | (y, b) :: r => if y = x then some b else lookup x r

/-- `ExprSynthesizer.visit_Name` (case order as in the source) -/
def visitName (sc : Scope) (x : Nat) : Except Failure Resolved :=
  if sc.locals.contains x then .ok (.place x)
  else match lookup x sc.generic with
    | some true => .ok (.genericValue x)
    | some false => .error (.user (.expectedValueGotType x))
    | none =>
      match lookup x sc.globals with
      | some .value => .ok (.global x)
      | some .nonValueDef => .error (.user (.expectedValueGotDef x))
      | some .pyObject => .error (.user (.varNotDefined x))
      | none => .error (.internal "Variable is not defined in TypeSynthesiser")

/-- the entry-block test of `check_bb`: every name used before being assigned in the block must be
    assigned before the block, or be a non-local that the globals / generic parameters know -/
def entryCheck (used assBefore assignedSomewhere : List Nat) (sc : Scope) : Except Failure Unit :=
  match used with
  | [] => .ok ()
  | x :: rest =>
    if !assBefore.contains x &&
        (assignedSomewhere.contains x ||
          ((lookup x sc.globals).isNone && (lookup x sc.generic).isNone)) then
      .error (.user (.varNotDefined x))
    else entryCheck rest assBefore assignedSomewhere sc

/-- the successor test at the end of `check_bb` for one successor: every name live before the successor
    is a local that is in the context, or a non-local that the globals / generic parameters know -/
def succCheck (live assignedSomewhere maybeAss : List Nat) (sc : Scope) : Except Failure Unit :=
  match live with
  | [] => .ok ()
  | x :: rest =>
    if assignedSomewhere.contains x then
      if !sc.locals.contains x then
        .error (.user (if maybeAss.contains x then .varMaybeNotDefined x else .varNotDefined x))
      else succCheck rest assignedSomewhere maybeAss sc
    else if (lookup x sc.globals).isNone && (lookup x sc.generic).isNone then
      .error (.user (.varNotDefined x))
    else succCheck rest assignedSomewhere maybeAss sc

/-- the name events of a basic block, in evaluation order: a name is read (`visit_Name`) or assigned
    (then it is in `ctx.locals`) -/
inductive Ev where
  | use (x : Nat) | assign (x : Nat)
  deriving DecidableEq, Repr

/-- `bb.vars.used`: the names read before being assigned in the block (`VariableVisitor`) -/
def usedFirst : List Ev → List Nat → List Nat
  | [], _ => []
  | .use x :: r, asg => if asg.contains x then usedFirst r asg else x :: usedFirst r asg
  | .assign x :: r, asg => usedFirst r (x :: asg)

/-- checking the statements of a block: every read goes through `visit_Name`, every assignment extends
    `ctx.locals`; the first error aborts -/
def runBlock (sc : Scope) : List Ev → Except Failure Scope
  | [] => .ok sc
  | .use x :: r =>
    match visitName sc x with
    | .ok _ => runBlock sc r
    | .error e => .error e
  | .assign x :: r => runBlock { sc with locals := x :: sc.locals } r

/-- `check_bb` for the entry block, names only: the program analysis test, then the statements -/
def checkEntryBlock (evs : List Ev) (assBefore assignedSomewhere : List Nat) (sc : Scope) : Except Failure Scope :=
  match entryCheck (usedFirst evs []) assBefore assignedSomewhere sc with
  | .ok () => runBlock sc evs
  | .error e => .error e

/-! ## block signatures: output row of `check_bb`, `check_rows_match` -/

/-- a row: (name, type) -/
abbrev Row := List (Nat × Nat)

def rowLookup (x : Nat) : Row → Option Nat
  | [] => none
  | (y, t) :: r => if y = x then some t else rowLookup x r

/-- `[ctx.locals[x] for x in cfg.live_before[succ] if x in ctx.locals]` -/
def outputRow (live : List Nat) (locals : Row) : Row :=
  live.filterMap fun x => (rowLookup x locals).map fun t => (x, t)

/-- `check_rows_match`: for every name of either row look it up in BOTH (`map1[x], map2[x]`: `KeyError`
    if one row lacks it), compare the types -/
def rowsMatchOn (names : List Nat) (r1 r2 : Row) : Except Failure Unit :=
  match names with
  | [] => .ok ()
  | x :: rest =>
    match rowLookup x r1, rowLookup x r2 with
    | some t1, some t2 => if t1 = t2 then rowsMatchOn rest r1 r2 else .error (.user (.branchType x))
    | _, _ => .error (.internal "KeyError in check_rows_match")

def checkRowsMatch (r1 r2 : Row) : Except Failure Unit :=
  rowsMatchOn (r1.map (·.1) ++ r2.map (·.1)) r1 r2

end GuppyVerif.C02
