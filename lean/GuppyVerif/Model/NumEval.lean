import GuppyVerif.Model.IntSem
/-! # NumEval — what a Guppy numeric operator computes, given the dunder table of `std/num.py` / `std/bool.py` (C04)

The table (`Gen/C04NumTable.lean`) is regenerated from /repo's source on every run.  This file is the
evaluator that gives a table a meaning:

* `hugr_op(int_op(..))` / `BoolOpCompiler` rows are HUGR ops with the semantics of `Model/IntSem.lean`;
* `NoopCompiler` rows return their argument re-read at the declared return type;
* `ReversingChecker` rows call the un-reflected dunder of `self`'s type with swapped arguments;
* `DunderChecker` builtins (`abs`, `divmod`, `pow`, `int`, `nat`, `float`, `bool`) call the named dunder of the
  first argument's type;
* `@guppy` rows have a body in a small expression language which is evaluated recursively (operators inside
  a body dispatch through the table again);
* binary operators follow `ExprSynthesizer._synthesize_binary`: left dunder of the left operand's type, and if
  that call does not type-check (arguments are implicitly coerced only by widening), the reflected dunder of
  the right operand's type;
* float operations are kept *symbolic* (`FTerm`): no rounding is modelled.

`fuel` bounds the dunder → body → dunder recursion (structural recursion, so the kernel can evaluate it).
Import-free. -/
namespace GuppyVerif.NumEval
open GuppyVerif.IntSem

/-! ## the table -/

inductive BExpr
  | var (x : String)
  | int (n : Int)
  | flt (s : String)
  | str (s : String)
  | bool (b : Bool)
  | bin (op : String) (a b : BExpr)          -- arithmetic, bitwise and comparison operators by display name
  | not (a : BExpr)
  | neg (a : BExpr)
  | call (f : String) (args : List BExpr)    -- `float(x)`, `nat(1)`, `panic("…")`
  | meth (recv : BExpr) (name : String) (args : List BExpr)
  | ite (c a b : BExpr)
  | tup (es : List BExpr)
  | unsupported (src : String)
  deriving Repr, Inhabited

inductive BStmt
  | ret (e : BExpr)
  | ifThen (c : BExpr) (body : List BStmt)
  | expr (e : BExpr)
  | unsupported (src : String)
  deriving Repr, Inhabited

inductive Impl
  | hugr (ext op : String)
  | boolop (ext op : String)
  | unwrapop (ext op : String)
  | noop
  | reversed (target : String)   -- `ReversingChecker.parse_name` applied to the row's name (`__rX__` ↦ `__X__`)
  | dunder (name : String) (nargs : Nat)
  | body (stmts : List BStmt)
  | unsupported (op : String)
  | other (desc : String)
  deriving Repr, Inhabited

structure Row where
  ty : String
  name : String
  params : List String
  pnames : List String
  ret : String
  impl : Impl
  deriving Repr, Inhabited

structure Table where
  rows : List Row
  binary : List (String × String × String)   -- display, left dunder, reflected dunder
  unary : List (String × String)             -- display, dunder

/-! ## values -/

/-- symbolic float term (no rounding is modelled) -/
inductive FTerm
  | var (i : Nat)              -- i-th float input
  | lit (s : String)
  | ofS (w : W)                -- convert_s
  | ofU (w : W)                -- convert_u
  | op1 (name : String) (a : FTerm)
  | op2 (name : String) (a b : FTerm)
  deriving Repr, Inhabited, DecidableEq

inductive Val
  | int (w : W)
  | nat (w : W)
  | bool (b : Bool)
  | flt (t : FTerm)
  | fbool (t : FTerm)          -- the (symbolic) result of a float comparison
  | tup (a b : Val)
  deriving Repr, Inhabited, DecidableEq

inductive Res
  | ok (v : Val)
  | panic
  | stuck (why : String)       -- not typable / outside the model
  deriving Repr, Inhabited, DecidableEq

def Val.ty : Val → String
  | .int _ => "int" | .nat _ => "nat" | .bool _ => "bool" | .flt _ => "float" | .fbool _ => "bool"
  | .tup _ _ => "tuple"

def Table.find (t : Table) (ty name : String) : Option Row :=
  t.rows.find? (fun r => r.ty == ty && r.name == name)

/-- implicit argument coercion at a call (`check_type_against` / `try_coerce_to`, C16): identical type, or
    a widening nat → int (no-op), nat → float (`convert_u`), int → float (`convert_s`).  `none` = type error. -/
def coerceTo (v : Val) (ty : String) : Option Val :=
  match v, ty with
  | .int w, "int" => some (.int w)
  | .nat w, "nat" => some (.nat w)
  | .bool b, "bool" => some (.bool b)
  | .fbool t, "bool" => some (.fbool t)
  | .flt t, "float" => some (.flt t)
  | .nat w, "int" => some (.int w)
  | .nat w, "float" => some (.flt (.ofU w))
  | .int w, "float" => some (.flt (.ofS w))
  | _, _ => none

def coerceArgs : List Val → List String → Option (List Val)
  | [], [] => some []
  | v :: vs, t :: ts => match coerceTo v t, coerceArgs vs ts with
    | some v', some vs' => some (v' :: vs')
    | _, _ => none
  | _, _ => none

/-- re-read 64 bits at a declared integer type -/
def tagInt (ret : String) (w : W) : Res :=
  match ret with
  | "int" => .ok (.int w)
  | "nat" => .ok (.nat w)
  | _ => .stuck "return type"

def Res.ofOpt (ret : String) : Option W → Res
  | some w => tagInt ret w
  | none => .panic

def tagPair (ret : String) : Option (W × W) → Res
  | none => .panic
  | some (q, r) =>
    match ret with
    | "tuple[int, int]" => .ok (.tup (.int q) (.int r))
    | "tuple[nat, nat]" => .ok (.tup (.nat q) (.nat r))
    | _ => .stuck "return type"

/-- a HUGR op applied to already-coerced arguments -/
def applyHugr (ext op ret : String) (args : List Val) : Res :=
  match ext, args with
  | "arithmetic.int", [.int a, .int b] | "arithmetic.int", [.nat a, .nat b] =>
    match binOp op with
    | some f => Res.ofOpt ret (f a b)
    | none => match divmodOp op with
      | some f => tagPair ret (f a b)
      | none => .stuck "unknown int op"
  | "arithmetic.int", [.int a] | "arithmetic.int", [.nat a] =>
    match unOp op with
    | some f => Res.ofOpt ret (f a)
    | none => .stuck "unknown int op"
  | "arithmetic.conversions", [.int a] =>
    if op == "convert_s" then .ok (.flt (.ofS a)) else if op == "convert_u" then .ok (.flt (.ofU a)) else .stuck "unknown conversion"
  | "arithmetic.conversions", [.nat a] =>
    if op == "convert_u" then .ok (.flt (.ofU a)) else if op == "convert_s" then .ok (.flt (.ofS a)) else .stuck "unknown conversion"
  | "arithmetic.float", [.flt a, .flt b] => .ok (.flt (.op2 op a b))
  | "arithmetic.float", [.flt a] => .ok (.flt (.op1 op a))
  | "tket.bool", [.bool a, .bool b] =>
    match boolOp op with
    | some f => .ok (.bool (f a b))
    | none => .stuck "unknown bool op"
  | _, _ => .stuck "hugr op shape"

/-- a `BoolOpCompiler` op -/
def applyBoolOp (ext op : String) (args : List Val) : Res :=
  match ext, args with
  | "arithmetic.int", [.int a, .int b] | "arithmetic.int", [.nat a, .nat b] =>
    match cmpOp op with
    | some f => .ok (.bool (f a b))
    | none => .stuck "unknown comparison"
  | "arithmetic.float", [.flt a, .flt b] => .ok (.fbool (.op2 op a b))
  | _, _ => .stuck "bool op shape"

def applyNoop (ret : String) (args : List Val) : Res :=
  match args, ret with
  | [.int w], "int" | [.nat w], "int" => .ok (.int w)
  | [.int w], "nat" | [.nat w], "nat" => .ok (.nat w)
  | [.flt t], "float" => .ok (.flt t)
  | [.bool b], "bool" => .ok (.bool b)
  | [.fbool t], "bool" => .ok (.fbool t)
  | _, _ => .stuck "noop shape"

/-- does the call `row(args)` type-check?  Ordinary rows: every argument is implicitly coercible to its
    parameter type.  `ReversingChecker` rows: the un-reflected dunder of `self`'s type accepts `(other, self)`. -/
def accepts (t : Table) (row : Row) (args : List Val) : Bool :=
  match row.impl with
  | .reversed n =>
    match args with
    | [self, other] =>
      match t.find self.ty n with
      | some r2 => (coerceArgs [other, self] r2.params).isSome
      | none => false
    | _ => false
  | .dunder _ _ => true
  | _ => (coerceArgs args row.params).isSome

abbrev Env := List (String × Val)

def Res.bind (r : Res) (f : Val → Res) : Res :=
  match r with
  | .ok v => f v
  | .panic => .panic
  | .stuck w => .stuck w

mutual
/-- call a table row on argument values (arguments are coerced to the declared parameter types first) -/
def callRow (t : Table) : Nat → Row → List Val → Res
  | 0, _, _ => .stuck "fuel"
  | fuel + 1, row, args =>
    match row.impl with
    | .reversed n =>
      -- ReversingChecker.synthesize: look the un-reflected dunder up on *self*'s type, call it with (other, self)
      match args with
      | [self, other] => callMeth t fuel self.ty n [other, self]
      | _ => .stuck "reversed shape"
    | .dunder n _ =>
      match args with
      | fst :: _ => callMeth t fuel fst.ty n args
      | [] => .stuck "dunder shape"
    | impl =>
      match coerceArgs args row.params with
      | none => .stuck "argument type"
      | some args =>
        match impl with
        | .hugr ext op => applyHugr ext op row.ret args
        | .boolop ext op => applyBoolOp ext op args
        | .noop => applyNoop row.ret args
        | .body stmts => evalStmts t fuel (row.pnames.zip args) stmts
        | .unwrapop _ _ => .stuck "float to int conversion is not modelled"
        | .unsupported _ => .stuck "unsupported op"
        | _ => .stuck "implementation kind"

/-- method call `v.name(args…)` where `args` includes the receiver -/
def callMeth (t : Table) : Nat → String → String → List Val → Res
  | 0, _, _, _ => .stuck "fuel"
  | fuel + 1, ty, name, args =>
    match t.find ty name with
    | some row => callRow t fuel row args
    | none => .stuck "no such method"

/-- `_synthesize_binary`: the left dunder of the left operand's type if its call type-checks (`accepts`),
    otherwise (`with suppress(GuppyError)`) the reflected dunder of the right operand's type -/
def binop (t : Table) : Nat → String → Val → Val → Res
  | 0, _, _, _ => .stuck "fuel"
  | fuel + 1, op, l, r =>
    match t.binary.find? (fun e => e.1 == op) with
    | none => .stuck "operator"
    | some (_, lop, rop) =>
      match (t.find l.ty lop).filter (fun row => accepts t row [l, r]) with
      | some row => callRow t fuel row [l, r]
      | none =>
        match (t.find r.ty rop).filter (fun row => accepts t row [r, l]) with
        | some row => callRow t fuel row [r, l]
        | none => .stuck "BinaryOperatorNotDefined"

/-- truth value (`to_bool`): `__bool__` of the value's type -/
def truth (t : Table) : Nat → Val → Res
  | 0, _ => .stuck "fuel"
  | fuel + 1, v => callMeth t fuel v.ty "__bool__" [v]

def evalExpr (t : Table) : Nat → Env → BExpr → Res
  | 0, _, _ => .stuck "fuel"
  | fuel + 1, env, e =>
    match e with
    | .var x => match env.lookup x with
      | some v => .ok v
      | none => .stuck "unbound"
    | .int n => .ok (.int (BitVec.ofInt 64 n))
    | .flt s => .ok (.flt (.lit s))
    | .bool b => .ok (.bool b)
    | .str _ => .stuck "string"
    | .bin op a b =>
      (evalExpr t fuel env a).bind fun va => (evalExpr t fuel env b).bind fun vb => binop t fuel op va vb
    | .not a =>
      (evalExpr t fuel env a).bind fun va => (truth t fuel va).bind fun
        | .bool b => .ok (.bool (!b))
        | .fbool x => .ok (.fbool (.op1 "not" x))
        | _ => .stuck "not"
    | .neg a => (evalExpr t fuel env a).bind fun va => callMeth t fuel va.ty "__neg__" [va]
    | .call "panic" _ => .panic
    | .call f [a] =>
      -- `float(x)`, `nat(x)`, `int(x)`, `bool(x)`: the type's `__new__` row (a DunderChecker)
      (evalExpr t fuel env a).bind fun va => callMeth t fuel f "__new__" [va]
    | .call _ _ => .stuck "call"
    | .meth recv name [] => (evalExpr t fuel env recv).bind fun vr => callMeth t fuel vr.ty name [vr]
    | .meth recv name [a] =>
      (evalExpr t fuel env recv).bind fun vr => (evalExpr t fuel env a).bind fun va => callMeth t fuel vr.ty name [vr, va]
    | .meth _ _ _ => .stuck "method arity"
    | .ite c a b =>
      (evalExpr t fuel env c).bind fun vc => (truth t fuel vc).bind fun
        | .bool true => evalExpr t fuel env a
        | .bool false => evalExpr t fuel env b
        | _ => .stuck "symbolic condition"
    | .tup [a, b] => (evalExpr t fuel env a).bind fun va => (evalExpr t fuel env b).bind fun vb => .ok (.tup va vb)
    | .tup _ => .stuck "tuple arity"
    | .unsupported _ => .stuck "unsupported expression"

/-- a body is a sequence of guards `if c: panic(..)` followed by `return e` -/
def evalStmts (t : Table) : Nat → Env → List BStmt → Res
  | 0, _, _ => .stuck "fuel"
  | _ + 1, _, [] => .stuck "no return"
  | fuel + 1, env, s :: rest =>
    match s with
    | .ret e => evalExpr t fuel env e
    | .expr e => (evalExpr t fuel env e).bind fun _ => evalStmts t fuel env rest
    | .ifThen c body =>
      (evalExpr t fuel env c).bind fun vc => (truth t fuel vc).bind fun
        | .bool true => evalStmts t fuel env (body ++ rest)
        | .bool false => evalStmts t fuel env rest
        | _ => .stuck "symbolic condition"
    | .unsupported _ => .stuck "unsupported statement"
end

/-- fuel used by the entry points (deepest chain: operator → reversed → body → operator → body → op ≈ 14) -/
def FUEL : Nat := 24

/-- `l op r` -/
def evalBin (t : Table) (op : String) (l r : Val) : Res := binop t FUEL op l r

/-- unary `+ - ~` (`ExprSynthesizer.visit_UnaryOp`) -/
def evalUn (t : Table) (op : String) (v : Val) : Res :=
  match t.unary.find? (fun e => e.1 == op) with
  | some (_, d) => callMeth t FUEL v.ty d [v]
  | none => .stuck "operator"

/-- `not v` -/
def evalNot (t : Table) (v : Val) : Res :=
  (truth t FUEL v).bind fun
    | .bool b => .ok (.bool (!b))
    | .fbool x => .ok (.fbool (.op1 "not" x))
    | _ => .stuck "not"

/-- builtins `abs`, `divmod`, `pow`, `round` (module-level DunderCheckers) and the constructors
    `int`, `nat`, `float`, `bool` (`__new__` of the type) -/
def evalBuiltin (t : Table) (f : String) (args : List Val) : Res :=
  if f == "int" || f == "nat" || f == "float" || f == "bool" then callMeth t FUEL f "__new__" args
  else callMeth t FUEL "<builtin>" f args

/-- direct method call `v.dunder(args)` -/
def evalMeth (t : Table) (name : String) (args : List Val) : Res :=
  match args with
  | v :: _ => callMeth t FUEL v.ty name args
  | [] => .stuck "no receiver"

end GuppyVerif.NumEval
