import GuppyVerif.Model.Overload
import GuppyVerif.Util.Sexp
/-! Line-protocol driver for C15.  One S-expression per line:
    `(res <exp> (<variant>…) (<arg>…))` → `none` | `<index> <ret> <argty>…`   (repaired loop)
    `(shared <exp> (<variant>…) (<arg>…))` → same for the pre-fix loop
    ty: `n` | `i` | `f` | `b` | `(t <ty>…)` | `(v <k>)`;  exp: `-` | ty;  variant: `((<ty>…) <ty>)`
    arg: `(y <ty>)` | `li` | `ln` | `lf` | `lb` | `(t <arg>…)` -/
open GuppyVerif GuppyVerif.Overload

partial def ty? : Sexp → Option Ty
  | .atom "n" => some .nat
  | .atom "i" => some .int
  | .atom "f" => some .float
  | .atom "b" => some .bool
  | .list [.atom "v", k] => do some (.var (← k.asNat?))
  | .list (.atom "t" :: ts) => do some (.tup (← ts.mapM ty?))
  | _ => none

partial def arg? : Sexp → Option Arg
  | .atom "li" => some (.intLit false)
  | .atom "ln" => some (.intLit true)
  | .atom "lf" => some .floatLit
  | .atom "lb" => some .boolLit
  | .list [.atom "y", t] => do some (.typed (← ty? t))
  | .list (.atom "t" :: es) => do some (.tup (← es.mapM arg?))
  | _ => none

def variant? : Sexp → Option Variant
  | .list [.list ps, r] => do some ⟨← ps.mapM ty?, ← ty? r⟩
  | _ => none

partial def showTy : Ty → String
  | .nat => "n" | .int => "i" | .float => "f" | .bool => "b"
  | .var k => s!"(v {k})"
  | .tup ts => "(t " ++ " ".intercalate (ts.map showTy) ++ ")"

def showRes : Option (Nat × Outcome) → String
  | none => "none"
  | some (i, o) => " ".intercalate (toString i :: showTy o.ret :: o.argTys.map showTy)

def handle (line : String) : String :=
  match Sexp.parse line with
  | some (.list [.atom op, e, .list vs, .list as]) =>
    let exp : Option (Option Ty) := match e with
      | .atom "-" => some none
      | e => (ty? e).map some
    match exp, vs.mapM variant?, as.mapM arg? with
    | some exp, some vs, some as =>
      if op == "res" then showRes (resolve vs as exp)
      else if op == "shared" then showRes (resolveShared vs as exp)
      else "bad-op"
    | _, _, _ => "bad-op"
  | _ => "bad-op"

def main : IO Unit := do lineLoop (← IO.getStdin) handle
