import GuppyVerif.Model.Overload
import GuppyVerif.Util.Sexp
/-! Line-protocol driver for C15.  One S-expression per line:
    `(res <exp> (<variant>…) (<arg>…))` → `none` | `<index> <ret> <argty>…`   (repaired loop)
    `(shared <exp> (<variant>…) (<arg>…))` → same for the pre-fix loop
    ty: `n` | `i` | `f` | `b` | `(t <ty>…)` | `(v <k>)`;  exp: `-` | ty;  variant: `((<ty>…) <ty> [(<comptime 0|1>…)])` | `(o <sig>…)` nested overload | `ai` custom all-int checker | `x` ill-formed signature (reply `invalid <i>`)
    arg: `(y <ty>)` | `li` | `ln` | `lf` | `lb` | `(t <arg>…)` -/
open GuppyVerif GuppyVerif.Overload

partial def ty? : Sexp → Option Ty
  | .atom "n" => some .nat
  | .atom "i" => some .int
  | .atom "f" => some .float
  | .atom "b" => some .bool
  | .atom "q" => some .qubit
  | .list [.atom "v", k] => do some (.var (← k.asNat?))
  | .list (.atom "t" :: ts) => do some (.tup (← ts.mapM ty?))
  | _ => none

partial def arg? : Sexp → Option Arg
  | .atom "li" => some (.intLit false)
  | .atom "ln" => some (.intLit true)
  | .atom "lf" => some .floatLit
  | .atom "lb" => some .boolLit
  | .list [.atom "y", t] => do some (.typed (← ty? t))
  | .list (.atom "t" :: es) => do some (.tup (← es.mapM arg?))
  | _ => none

def bit? : Sexp → Option Bool
  | .atom "0" => some false
  | .atom "1" => some true
  | _ => none

def sig? : Sexp → Option Sig
  | .list [.list ps, r] => do some { params := ← ps.mapM ty?, ret := ← ty? r }
  | .list [.list ps, r, .list cs] => do some { params := ← ps.mapM ty?, comptime := ← cs.mapM bit?, ret := ← ty? r }
  | _ => none

def variant? : Sexp → Option Variant
  | .atom "ai" => some .allInts
  | .atom "x" => some .invalid
  | .list (.atom "o" :: ss) => do some (.nested (← ss.mapM sig?))
  | e => (sig? e).map .plain

partial def showTy : Ty → String
  | .nat => "n" | .int => "i" | .float => "f" | .bool => "b" | .qubit => "q"
  | .var k => s!"(v {k})"
  | .tup ts => "(t " ++ " ".intercalate (ts.map showTy) ++ ")"

def showRes : Option (Nat × Outcome) → String
  | none => "none"
  | some (i, o) =>
    let idx := match o.inner with
      | some j => s!"{i}.{j}"
      | none => toString i
    " ".intercalate (idx :: showTy o.ret :: o.argTys.map showTy)

def handle (line : String) : String :=
  match Sexp.parse line with
  | some (.list [.atom op, e, .list vs, .list as]) =>
    let exp : Option (Option Ty) := match e with
      | .atom "-" => some none
      | e => (ty? e).map some
    match exp, vs.mapM variant?, as.mapM arg? with
    | some exp, some vs, some as =>
      if op == "res" then
        match resolveR vs as exp with
        | .chosen i o => showRes (some (i, o))
        | .noMatch => "none"
        | .invalid i => s!"invalid {i}"
      else if op == "shared" then showRes (resolveShared vs as exp)
      else "bad-op"
    | _, _, _ => "bad-op"
  | _ => "bad-op"

def main : IO Unit := do lineLoop (← IO.getStdin) handle
