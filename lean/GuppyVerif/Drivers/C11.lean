import GuppyVerif.Model.Session
import GuppyVerif.Util.Sexp
/-! Line-protocol driver for C11.  One request per line:

    `<nat|name> <b b b b b> <pool> <ops> <target>`  as one S-expression
    `(ord (checkResets returnVarsGuard compilerReadsInputTys tracingRestored nestedRecBindsInFrame
           resetClearsParsing parseRestores checkRestartsTmp) pool ops target)`

    pool entry: `((deps) illTyped ctExprCall nRet tmps ctmps ((row) ...) ((name rec caps) ...) comptime raises badSig)` (booleans 0/1)
    op: `(c d)` check, `(l d)` lower, `(r d)` relower.

    Reply: for every op `outcome;tmpCtr;defCtr;store;tracing;leaks;checked;parsing` joined by ` | `, then
    ` || ` and the observation of the target in the final state `check=… lower=…`. -/
open GuppyVerif GuppyVerif.Session

def b? (e : Sexp) : Option Bool := do
  let n ← e.asNat?
  some (n != 0)

def nested? (e : Sexp) : Option Nested := do
  match ← e.asList? with
  | [n, r, c] => some ⟨← n.asNat?, ← b? r, ← c.asNat?⟩
  | _ => none

def def? (e : Sexp) : Option RawDef := do
  match ← e.asList? with
  | [deps, ill, ctx, nret, tmps, ctmps, rows, nested, ct, raises, badSig] =>
    some { deps := ← deps.natList?, illTyped := ← b? ill, ctExprCall := ← b? ctx, nRet := ← nret.asNat?,
           tmps := ← tmps.asNat?, ctmps := ← ctmps.asNat?, rows := ← (← rows.asList?).mapM Sexp.natList?,
           nested := ← (← nested.asList?).mapM nested?, comptime := ← b? ct, raises := ← b? raises,
           badSig := ← b? badSig }
  | _ => none

def op? (e : Sexp) : Option Op := do
  match ← e.asList? with
  | [k, d] =>
    let d ← d.asNat?
    match ← k.asAtom? with
    | "c" => some (.check d) | "l" => some (.lower d) | "r" => some (.relower d) | _ => none
  | _ => none

def cfg? (e : Sexp) : Option Config := do
  match ← e.asList? with
  | [a, b, c, d, f, g, h, i] => some ⟨← b? a, ← b? b, ← b? c, ← b? d, ← b? f, ← b? g, ← b? h, ← b? i⟩
  | _ => none

def showErr : Err → String
  | .typeError => "typeError" | .ctEval => "ctEval" | .illegalCt => "illegalCt"
  | .undefinedName => "undefinedName" | .crash => "crash" | .userRaise => "userRaise" | .fuel => "fuel"
  | .cyclic => "cyclic" | .sigError => "sigError"

def showNats (l : List Nat) : String := "(" ++ " ".intercalate (l.map toString) ++ ")"

def showEntry (e : OutEntry) : String :=
  s!"({e.id} {e.rets} ({" ".intercalate (e.rows.map showNats)}) " ++
    (match e.inputTys with | none => "-" | some n => toString n) ++ ")"

def showOut : Except Err (List OutEntry) → String
  | .error e => "err:" ++ showErr e
  | .ok es => "ok:" ++ "".intercalate (es.map showEntry)

def showUnit : Except Err Unit → String
  | .error e => "err:" ++ showErr e
  | .ok _ => "ok"

def showState (s : State) : String :=
  let chk := " ".intercalate (s.checked.map fun c =>
    s!"{c.core.id}/{c.core.retInserted}/{c.core.inputTysExtra}/{c.base}")
  s!"{s.tmpCtr};{s.defCtr};{s.store};{if s.tracing then 1 else 0};{s.leaks.length};{chk};{s.parsing.length}"

def outcome (cfg : Config) (lt : Nat → Nat → Bool) (P : Pool) (o : Op) (s : State) : String :=
  match o with
  | .check d => showUnit (check cfg P d s).2
  | .lower d => showOut (lower cfg lt P d s).2
  | .relower d => match (relower cfg lt P d s).2 with | none => "absent" | some r => showOut r

def handle (line : String) : String :=
  match Sexp.parse line with
  | some (.list [ord, cfg, pool, ops, tgt]) =>
    match ord.asAtom?, cfg? cfg, pool.asList?.bind (·.mapM def?), ops.asList?.bind (·.mapM op?), tgt.asNat? with
    | some ord, some cfg, some P, some ops, some d =>
      let lt := if ord == "name" then nameLt else natLt
      let rec go (os : List Op) (s : State) (acc : List String) : State × List String :=
        match os with
        | [] => (s, acc.reverse)
        | o :: os =>
          let r := outcome cfg lt P o s
          let s' := step cfg lt P o s
          go os s' ((r ++ ";" ++ showState s') :: acc)
      let (s, outs) := go ops State.init []
      let obs := observe cfg lt P s d
      " | ".intercalate outs ++ " || check=" ++ showUnit obs.1 ++ " lower=" ++ showOut obs.2
    | _, _, _, _, _ => "bad-request"
  | _ => "bad-request"

def main : IO Unit := do lineLoop (← IO.getStdin) handle
