import GuppyVerif.Model.UseDef
import GuppyVerif.Util.Sexp
/-! Line-protocol driver for C08.
    `(check (ucfg (blocks b…) (succ (b c…)…) (dsucc …) (pred …) (dpred …) (entry e)
                  (events (b (u x) (a x t) …) …) (args (x t) …) (globals x…)))`
    reply: `ok` | `err notDefined x…` | `err branchType x…` | `err internal n` | `no-fuel` -/
open GuppyVerif GuppyVerif.Dataflow GuppyVerif.UseDef

def tbl? (e : Sexp) : Option (Nat → List Nat) := do
  let rows ← e.asList?
  let rows ← rows.drop 1 |>.mapM fun r => do
    let xs ← r.natList?
    match xs with
    | b :: cs => some (b, cs)
    | [] => none
  some fun b => ((rows.find? (·.1 == b)).map (·.2)).getD []

def field? (tag : String) (e : Sexp) : Option (List Nat) :=
  match e with
  | .list (.atom t :: xs) => if t == tag then xs.mapM Sexp.asNat? else none
  | _ => none

def ev? : Sexp → Option Ev
  | .list [.atom "u", x] => do some (.use (← x.asNat?))
  | .list [.atom "a", x, t] => do some (.asg (← x.asNat?) (← t.asNat?))
  | _ => none

def events? (e : Sexp) : Option (Nat → List Ev) := do
  let rows ← e.asList?
  let rows ← rows.drop 1 |>.mapM fun r => do
    match r with
    | .list (b :: es) => some (← b.asNat?, ← es.mapM ev?)
    | _ => none
  some fun b => ((rows.find? (·.1 == b)).map (·.2)).getD []

def args? (e : Sexp) : Option Row := do
  let rows ← e.asList?
  rows.drop 1 |>.mapM fun r => do
    match ← r.natList? with
    | [x, t] => some (x, t)
    | _ => none

def ucfg? : Sexp → Option UCfg
  | .list [.atom "ucfg", bl, su, ds, pr, dp, en, evs, ar, gl] => do
    let [entry] ← field? "entry" en | none
    some { blocks := ← field? "blocks" bl, succ := ← tbl? su, dsucc := ← tbl? ds, pred := ← tbl? pr,
           dpred := ← tbl? dp, entry := entry, events := ← events? evs, args := ← args? ar,
           globals := ← field? "globals" gl }
  | _ => none

def dedup (l : List Nat) : List Nat := l.foldl (fun acc x => if acc.contains x then acc else acc ++ [x]) []

def showErrs (es : List Err) : String :=
  let nd := es.filterMap fun | .notDefined x => some x | _ => none
  let bt := es.filterMap fun | .branchType x => some x | _ => none
  let it := es.filterMap fun | .internal n => some n | _ => none
  if !it.isEmpty then "err internal " ++ " ".intercalate (it.map toString)
  else if !nd.isEmpty then "err notDefined " ++ " ".intercalate ((dedup nd).map toString)
  else "err branchType " ++ " ".intercalate ((dedup bt).map toString)

def handle (line : String) : String :=
  match Sexp.parse line with
  | some (.list [.atom "check", u]) =>
    match ucfg? u with
    | some U =>
      match check U 100000 with
      | none => "no-fuel"
      | some (.ok _) => "ok"
      | some (.error es) => showErrs es
    | none => "bad-op"
  | _ => "bad-op"

def main : IO Unit := do lineLoop (← IO.getStdin) handle
