import GuppyVerif.Model.Print
/-! Line-protocol driver for C31 (stateful: the definition environment is sent once).

    `env <lists> (<def>*)`       → `ok`
        def ::= (num KEY kind) | (tuple KEY) | (opaque KEY name (param*) nc nd isList)
              | (struct KEY name (param*) (fieldty*)) | (special KEY) | (nontype KEY)
    `case (<param>*) <ty>`       → `P <str> ;; A <ast> ;; R <result> ;; N <occs> ;; C <cp> <dr>`
        (print, stage-1 parse of the printed tokens, full read-back, variable occurrences,
         classification); `<param>*` is the parameter context (`param_var_mapping.values()`)
    `parse (<param>*) <ast>`     → `ok <ty>` | `err <E>`   (stage 2 on an arbitrary AST)
    ast ::= (name s) | none | (bool b) | (nat n) | (float r) | (neg ast) | (tuple ast*) | (sub ast ast) -/
open GuppyVerif GuppyVerif.Print GuppyVerif.TySexp

def showErr : PErr → String
  | .syntaxError => "SyntaxError"
  | .unsupported => "Unsupported"
  | .fuel => "Fuel"
  | .varNotDefined => "VarNotDefinedError"
  | .invalidTypeArg => "InvalidTypeArgError"
  | .wrongNumberOfTypeArgs => "WrongNumberOfTypeArgsError"
  | .expected => "ExpectedError"
  | .typeMismatch => "TypeMismatchError"
  | .experimentalFeature => "ExperimentalFeatureError"
  | .crash => "Crash"

partial def showAst : Ast → Sexp
  | .name s => .list [.atom "name", .atom s]
  | .cNone => .atom "none"
  | .cBool b => .list [.atom "bool", showBool b]
  | .cNat n => .list [.atom "nat", .atom (toString n)]
  | .cFloat r => .list [.atom "float", .atom r]
  | .neg e => .list [.atom "neg", showAst e]
  | .tuple es => .list (.atom "tuple" :: es.map showAst)
  | .sub v s => .list [.atom "sub", showAst v, showAst s]

partial def ast? : Sexp → Option Ast
  | .list [.atom "name", .atom s] => some (.name s)
  | .atom "none" => some .cNone
  | .list [.atom "bool", b] => do some (.cBool (← bool? b))
  | .list [.atom "nat", n] => do some (.cNat (← n.asNat?))
  | .list [.atom "float", .atom r] => some (.cFloat r)
  | .list [.atom "neg", e] => do some (.neg (← ast? e))
  | .list (.atom "tuple" :: es) => do some (.tuple (← es.mapM ast?))
  | .list [.atom "sub", v, s] => do some (.sub (← ast? v) (← ast? s))
  | _ => none

def def? : Sexp → Option (String × Defn)
  | .list [.atom "num", .atom key, k] => do some (key, .num (← numKind? k))
  | .list [.atom "tuple", .atom key] => some (key, .tuple)
  | .list [.atom "opaque", .atom key, .atom n, .list ps, nc, nd, il] => do
      some (key, .opaque n (← ps.mapM param?) (← bool? nc) (← bool? nd) (← bool? il))
  | .list [.atom "struct", .atom key, .atom n, .list ps, .list fs] => do
      some (key, .struct n (← ps.mapM param?) (← fs.mapM ty?))
  | .list [.atom "special", .atom key] => some (key, .special)
  | .list [.atom "nontype", .atom key] => some (key, .nonType)
  | _ => none

def mkEnv (lists : Bool) (ds : List (String × Defn)) : Env :=
  { defs := fun s => (ds.find? (·.1 == s)).map (·.2), lists := lists }

/-- `{p.name: p for p in params}` -/
def mkCtx (ps : List Param) : Ctx := fun s => ps.reverse.find? (paramName · == s)

def showOcc : VarId × String → String
  | (.bound i, s) => s!"(b {i} {s})"
  | (.exist i, s) => s!"(e {i} {s})"

def showRes : Except PErr Ty → String
  | .ok t => "ok " ++ toString (showTy t)
  | .error e => "err " ++ showErr e

def handle (env : Env) (line : String) : Option Env × String :=
  match Sexp.parse ("(" ++ line ++ ")") with
  | some (.list [.atom "env", l, .list ds]) =>
    match bool? l, ds.mapM def? with
    | some l, some ds => (some (mkEnv l ds), "ok")
    | _, _ => (none, "bad-env")
  | some (.list [.atom "case", .list ps, t]) =>
    match ps.mapM param?, ty? t with
    | some ps, some t =>
      let toks := printToks t
      let p := match printStr t with | some s => "P " ++ s | none => "CRASH"
      let a := match parseToks toks with
        | .ok a => toString (showAst a) | .error e => "err " ++ showErr e
      let r := showRes (readToks env (mkCtx ps) (classify env) toks)
      let n := " ".intercalate ((varOccs toks).map showOcc)
      let c := classify env t
      (none, s!"{p} ;; A {a} ;; R {r} ;; N {n} ;; C {c.1} {c.2}")
    | _, _ => (none, "bad-op")
  | some (.list [.atom "parse", .list ps, a]) =>
    match ps.mapM param?, ast? a with
    | some ps, some a => (none, showRes (typeFromAst env (mkCtx ps) (classify env) a))
    | _, _ => (none, "bad-op")
  | _ => (none, "bad-op")

partial def loop (h : IO.FS.Stream) (env : Env) : IO Unit := do
  let line ← h.getLine
  if line.isEmpty then return ()
  let (e, reply) := handle env line
  IO.println reply
  loop h (e.getD env)

def main : IO Unit := do loop (← IO.getStdin) (mkEnv false [])
