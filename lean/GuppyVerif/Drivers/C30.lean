import GuppyVerif.Model.Span
import GuppyVerif.Util.Sexp
/-! Line-protocol driver for C30.  Requests:
    `mk f l c f l c` | `cs <span> <span>` (x in self: self first) | `cl <span> <loc>` | `and <span> <span>`
    where span = `f l c f l c`, loc = `f l c`. -/
open GuppyVerif GuppyVerif.Span

def loc? : List String → Option (Loc × List String)
  | f :: l :: c :: rest => do some (⟨f, ← l.toNat?, ← c.toNat?⟩, rest)
  | _ => none

def span? (ts : List String) : Option (Span × List String) := do
  let (s, r) ← loc? ts
  let (e, r) ← loc? r
  some (⟨s, e⟩, r)

def showLoc (l : Loc) : String := s!"{l.file} {l.line} {l.col}"
def showSpan (s : Span) : String := s!"{showLoc s.start} {showLoc s.stop}"

def handle (line : String) : String :=
  match (line.splitOn " ").filter (· ≠ "") |>.map (·.trimAscii.toString) |>.filter (· ≠ "") with
  | "mk" :: r => match span? r with
    | some (s, []) => match Span.mk? s.start s.stop with
      | some _ => "ok" | none => "error"
    | _ => "bad-op"
  | "cs" :: r => match span? r with
    | some (a, r) => match span? r with
      | some (b, []) => toString (a.containsSpan b)
      | _ => "bad-op"
    | _ => "bad-op"
  | "cl" :: r => match span? r with
    | some (a, r) => match loc? r with
      | some (l, []) => toString (a.containsLoc l)
      | _ => "bad-op"
    | _ => "bad-op"
  | "and" :: r => match span? r with
    | some (a, r) => match span? r with
      | some (b, []) => match a.inter b with
        | .none => "none" | .some s => "some " ++ showSpan s | .error => "error"
      | _ => "bad-op"
    | _ => "bad-op"
  | _ => "bad-op"

def main : IO Unit := do lineLoop (← IO.getStdin) handle
