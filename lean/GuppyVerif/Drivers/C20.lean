import GuppyVerif.Gen.C20GateTable
import GuppyVerif.Model.Angle
import GuppyVerif.Util.Sexp
/-! Line-protocol driver for C20.  Requests:
    `emit <modl> <name> <j0> <j1> …`  — the call `modl.name(p_{j0}, p_{j1}, …)` made from a probe whose
        parameter `i` has the kind of the row's parameter `i`; reply: ops applied, `;`-separated, as
        `op[arg arg …]`, then ` -> ` and the probe's borrowed qubits in order; `none` if `emit` fails
    `angle <method> <a> <x>…`  — angle method on exact rationals `n/d`; reply `a n/d` | `pimul n/d` | `b true|false` | `error`
    `anglepi` — halfturns of the constant `pi` as recorded in the regenerated table -/
open GuppyVerif GuppyVerif.Gate GuppyVerif.Angle

def showRat (r : Rat) : String := s!"{r.num}/{r.den}"

def piH : Rat := mkRat Gen.piHalfturnsNum Gen.piHalfturnsDen

/-- halfturns of an angle expression: closed subtrees are evaluated, the rest printed structurally -/
partial def showH (e : Exp) : String :=
  match e.halfturns? piH with
  | some r => showRat r
  | none =>
    match e with
    | .p i => s!"p{i}"
    | .pi => showRat piH
    | .neg e => s!"neg({showH e})"
    | .divN e n => s!"div({showH e},{n})"
    | .mulN e n => s!"mul({showH e},{n})"
    | .toFloat e => s!"rad({showH e})"
    | .res j => s!"r{j}"

def showVal (kinds : List PTy) : Exp → String
  | .p i =>
    match kinds.getD i .other with
    | .qubit => s!"q{i}"
    | .qubitOwned => s!"q{i}"
    | .float => s!"f{i}"
    | .angle => s!"tup(p{i})"
    | .other => s!"?{i}"
  | .toFloat e => s!"rad({showH e})"
  | .res j => s!"r{j}"
  | e => s!"tup({showH e})"

def showArg (kinds : List PTy) : OpArg → String
  | .val e => showVal kinds e
  | .rot e => s!"rot({showH e})"

def showEmitted (kinds : List PTy) (e : Emitted) : String :=
  e.op ++ "[" ++ " ".intercalate (e.args.map (showArg kinds)) ++ "]"

def parseRat (s : String) : Option Rat :=
  match s.splitOn "/" with
  | [n, d] => do
    let n ← n.toInt?
    let d ← d.toNat?
    if d = 0 then none else some (mkRat n d)
  | _ => none

def showA (a : Angle Rat) : String := "a " ++ showRat a.halfturns
def showOA : Option (Angle Rat) → String
  | some a => showA a
  | none => "error"

def handleAngle (m : String) (xs : List Rat) : String :=
  match m, xs with
  | "__add__", [a, b] => showA (Angle.add ⟨a⟩ ⟨b⟩)
  | "__sub__", [a, b] => showA (Angle.sub ⟨a⟩ ⟨b⟩)
  | "__mul__", [a, x] => showA (Angle.mul ⟨a⟩ x)
  | "__rmul__", [a, x] => showA (Angle.rmul ⟨a⟩ x)
  | "__truediv__", [a, x] => showOA (Angle.truediv ⟨a⟩ x)
  | "__rtruediv__", [a, x] => showOA (Angle.rtruediv ⟨a⟩ x)
  | "__neg__", [a] => showA (Angle.neg ⟨a⟩)
  -- `toFloat π a = a.halfturns * π`: run with π := 1, i.e. report the multiple of π
  | "__float__", [a] => "pimul " ++ showRat (Angle.toFloat 1 ⟨a⟩)
  | "__eq__", [a, b] => "b " ++ toString (Angle.eq (⟨a⟩ : Angle Rat) ⟨b⟩)
  | _, _ => "bad-op"

def handle (line : String) : String :=
  match (line.splitOn " ").map (·.trimAscii.toString) |>.filter (· ≠ "") with
  | "emit" :: m :: f :: js =>
    match js.mapM (·.toNat?) with
    | none => "bad-op"
    | some js =>
      match lookup Gen.table m f with
      | none => "none"
      | some row =>
        let kinds := row.params
        match emit Gen.table fuel m f (js.map Exp.p) with
        | none => "none"
        | some es =>
          -- function outputs that are caller qubits: first the returned ones (Guppy body), then the borrowed ones
          let returned := match returnsOf Gen.table m f (js.map Exp.p) with
            | some rs => rs.filterMap fun e => match e with
                | .p i => (match kinds.getD i .other with
                    | .qubit => some i | .qubitOwned => some i | _ => none)
                | _ => none
            | none => []
          let borrowed := (List.range kinds.length).filter (fun i => kinds.getD i .other == .qubit)
          ";".intercalate (es.map (showEmitted kinds)) ++ " -> " ++
            " ".intercalate ((returned ++ borrowed).map fun i => s!"q{i}")
  | "angle" :: m :: xs =>
    match xs.mapM parseRat with
    | some xs => handleAngle m xs
    | none => "bad-op"
  | ["anglepi"] => showA (⟨piH⟩ : Angle Rat)
  | _ => "bad-op"

def main : IO Unit := do lineLoop (← IO.getStdin) handle
