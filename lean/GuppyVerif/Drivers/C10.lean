import GuppyVerif.Spec.C10
import GuppyVerif.Gen.C10SetSites
import GuppyVerif.Util.Sexp
/-! Line-protocol driver for C10.
    `(reach n (succ (a b…)…) <min|max|last>)` → `ok 1 0 1 …`
    `(mismatch (keys k…) (t1 (x t)…) (t2 (x t)…))` → first mismatching name or `none`
    `(sortvars (row x…) (drop x…))` → sorted row
    `(uncovered)` → sites classified `unproven` -/
open GuppyVerif GuppyVerif.Dataflow GuppyVerif.Determ

def tbl? (e : Sexp) : Option (Nat → List Nat) := do
  let rows ← e.asList?
  let rows ← rows.drop 1 |>.mapM fun r => do
    let xs ← r.natList?
    match xs with
    | b :: cs => some (b, cs)
    | [] => none
  some fun b => ((rows.find? (·.1 == b)).map (·.2)).getD []

def field? (tag : String) (e : Sexp) : Option (List Nat) :=
  match e with
  | .list (.atom t :: xs) => if t == tag then xs.mapM Sexp.asNat? else none
  | _ => none

def sched? : Sexp → Option (List Blk → Blk)
  | .atom "min" => some fun q => q.foldl min (q.headD 0)
  | .atom "max" => some fun q => q.foldl max 0
  | .atom "last" => some fun q => q.getLastD 0
  | _ => none

def uncoveredSites : List (String × String × String × Nat) :=
  Gen.setSites.filter fun s => classify s == some .unproven || classify s == none

def handle (line : String) : String :=
  match Sexp.parse line with
  | some (.list [.atom "reach", n, su, sc]) =>
    match n.asNat?, tbl? su, sched? sc with
    | some n, some succ, some sched =>
      match reachRun succ sched 100000 (reachInit 0) with
      | none => "no-fuel"
      | some t => "ok " ++ " ".intercalate ((List.range n).map fun b => if t.reach b then "1" else "0")
    | _, _, _ => "bad-op"
  | some (.list [.atom "mismatch", ks, a, b]) =>
    match field? "keys" ks, tbl? a, tbl? b with
    | some keys, some t1, some t2 =>
      match firstMismatch (fun x => (t1 x).headD 0) (fun x => (t2 x).headD 0) keys with
      | none => "none"
      | some x => toString x
    | _, _, _ => "bad-op"
  | some (.list [.atom "sortvars", r, d]) =>
    match field? "row" r, field? "drop" d with
    | some row, some drop =>
      " ".intercalate ((sortVars (fun x => drop.contains x) row).map toString)
    | _, _ => "bad-op"
  | some (.list [.atom "uncovered"]) =>
    "; ".intercalate (uncoveredSites.map fun (f, fn, k, n) => s!"{f}:{fn}:{k}:{n}")
  | _ => "bad-op"

def main : IO Unit := do lineLoop (← IO.getStdin) handle
