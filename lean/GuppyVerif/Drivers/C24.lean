import GuppyVerif.Model.Unitary
import GuppyVerif.Util.Sexp
/-! Line-protocol driver for C24.  One S-expression per line:
    `(chk fn|with <flags:nat> (<stmt>…))` → `ok` | `pre loop|assign` | `bb <err>…`
    `(kw u c d p)` → flags value of `_parse_kwargs`;  `(wf d|c|p …)` → flags value of a modifier list.
    expr: `l` | `(p q <index expr>…)` | `(c <flags> <retq> <expr>…)` | `(x <expr>…)` | `(n <q> <expr>…)`
    stmt: `(e <expr>)` | `(a <target>)` | `(a <target> <expr>)` | `(i <expr> (<stmt>…) (<stmt>…))` | `(w <expr> (<stmt>…))`
          | `(wb <flags> (<expr>…) (<stmt>…))` -/
open GuppyVerif GuppyVerif.Unitary

def bit? : Sexp → Option Bool
  | .atom "0" => some false
  | .atom "1" => some true
  | _ => none

mutual
partial def expr? : Sexp → Option Expr
  | .atom "l" => some .leaf
  | .list (.atom "p" :: q :: is) => do some (.place (← bit? q) (← args? is))
  | .list (.atom "c" :: g :: r :: as) => do some (.call (Flags.ofNat (← g.asNat?)) (← args? as) (← bit? r))
  | .list (.atom "x" :: as) => do some (.exempt (← args? as))
  | .list (.atom "n" :: q :: as) => do some (.node (← args? as) (← bit? q))
  | _ => none
partial def args? : List Sexp → Option Args
  | [] => some .nil
  | e :: r => do some (.cons (← expr? e) (← args? r))
end

mutual
partial def stmt? : Sexp → Option Stmt
  | .list [.atom "e", e] => do some (.expr (← expr? e))
  | .list [.atom "a", t] => do some (.assign (← expr? t) none)
  | .list [.atom "a", t, e] => do some (.assign (← expr? t) (some (← expr? e)))
  | .list [.atom "i", c, .list t, .list f] => do some (.ite (← expr? c) (← block? t) (← block? f))
  | .list [.atom "w", c, .list b] => do some (.while (← expr? c) (← block? b))
  | .list [.atom "wb", g, .list cs, .list b] => do
      some (.withBlock (← args? cs) (Flags.ofNat (← g.asNat?)) (← block? b))
  | _ => none
partial def block? : List Sexp → Option Block
  | [] => some .nil
  | s :: r => do some (.cons (← stmt? s) (← block? r))
end

def showErr : Err → String
  | .call m => s!"call:{m.toNat}"
  | .loop => "loop"
  | .assign => "assign"
  | .subscript => "subscript"

def mod? : Sexp → Option Mod
  | .atom "d" => some .dagger
  | .atom "c" => some .control
  | .atom "p" => some .power
  | _ => none

def handle (line : String) : String :=
  match Sexp.parse line with
  | some (.list [.atom "chk", .atom k, f, .list b]) =>
    match (if k == "fn" then some Kind.fn else if k == "with" then some Kind.withBlock else none),
          f.asNat?, block? b with
    | some k, some f, some b =>
      match check k (Flags.ofNat f) b with
      | .ok => "ok"
      | .pre e => "pre " ++ showErr e
      | .bb es => "bb " ++ " ".intercalate (es.map showErr)
    | _, _, _ => "bad-op"
  | some (.list [.atom "kw", u, c, d, p]) =>
    match bit? u, bit? c, bit? d, bit? p with
    | some u, some c, some d, some p => toString (parseKwargs u c d p).toNat
    | _, _, _, _ => "bad-op"
  | some (.list (.atom "wf" :: ms)) =>
    match ms.mapM mod? with
    | some ms => toString (withFlags ms).toNat
    | none => "bad-op"
  | _ => "bad-op"

def main : IO Unit := do lineLoop (← IO.getStdin) handle
