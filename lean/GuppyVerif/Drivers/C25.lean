import GuppyVerif.Model.Modifier
import GuppyVerif.Util.Sexp
/-! Line-protocol driver for C25.  One S-expression per line:
    `(emit <mod>…)` → emitted ops, same syntax;   mod: `d` | `(p <e>)` | `(c <id> <n>)`
    `(call (<mod>…) ((<name> <copyable 0|1>)…))` → `<args> | <outs>` with slots `c<id>:<n>` / `v<name>`
      (controls taken from the modifier list via `push_modifier`)
    `(unpack (<var>…)…)` → per control (call-output order) `var<-wire` pairs, controls separated by `|` -/
open GuppyVerif GuppyVerif.Modifier

def mod? : Sexp → Option Mod
  | .atom "d" => some .dagger
  | .list [.atom "p", e] => do some (.power (← e.asNat?))
  | .list [.atom "c", i, n] => do some (.control (← i.asNat?) (← n.asNat?))
  | _ => none

def showMod : Mod → String
  | .dagger => "d"
  | .power e => s!"(p {e})"
  | .control i n => s!"(c {i} {n})"

def var? : Sexp → Option Var
  | .list [n, .atom "0"] => do some { name := ← n.asNat?, copyable := false }
  | .list [n, .atom "1"] => do some { name := ← n.asNat?, copyable := true }
  | _ => none

def showSlot : Slot → String
  | .ctrl i n => s!"c{i}:{n}"
  | .cap v => s!"v{v.name}"

def handle (line : String) : String :=
  match Sexp.parse line with
  | some (.list (.atom "emit" :: ms)) =>
    match ms.mapM mod? with
    | some ms => " ".intercalate ((emit ms).map showMod)
    | none => "bad-op"
  | some (.list [.atom "call", .list ms, .list vs]) =>
    match ms.mapM mod?, vs.mapM var? with
    | some ms, some vs =>
      let cs := (pushAll ms).control
      let vs := capture vs
      " ".intercalate ((callArgs cs vs).map showSlot) ++ " | " ++
        " ".intercalate ((handBack cs vs).map showSlot)
    | _, _ => "bad-op"
  | some (.list (.atom "unpack" :: cs)) =>
    match cs.mapM Sexp.natList? with
    | some cs =>
      " | ".intercalate ((handBackElems cs).map fun ps =>
        " ".intercalate (ps.map fun p => s!"{p.1}<-{p.2}"))
    | none => "bad-op"
  | _ => "bad-op"

def main : IO Unit := do lineLoop (← IO.getStdin) handle
