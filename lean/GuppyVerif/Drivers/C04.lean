import GuppyVerif.Gen.C04NumTable
import GuppyVerif.Util.Sexp
/-! Line-protocol driver for C04.  Values: `int U` / `nat U` (U = the 64 bits as an unsigned decimal; a leading
    `-` is accepted and wrapped), `bool 0|1`, `float I` (the I-th symbolic float input).
    Requests
      `op NAME U [U]`                  raw `IntSem` op by its HUGR name
      `bin OP T V T V` | `un OP T V` | `not T V` | `call F T V [T V]` | `meth NAME T V [T V]`
                                       evaluated by `NumEval` through the regenerated `C04Gen.table`
    Replies: `int U` | `nat U` | `bool b` | `flt S` | `fbool S` | `tup (R) (R)` | `w U` | `b b` | `t U U` | `panic`
             | `stuck WHY` | `bad-op` -/
open GuppyVerif GuppyVerif.IntSem GuppyVerif.NumEval

def w? (s : String) : Option W := s.toInt?.map (BitVec.ofInt 64)

def val? (t v : String) : Option Val :=
  match t with
  | "int" => (w? v).map .int
  | "nat" => (w? v).map .nat
  | "bool" => if v == "1" then some (.bool true) else if v == "0" then some (.bool false) else none
  | "float" => v.toNat?.map (fun i => .flt (.var i))
  | _ => none

def showF : FTerm → String
  | .var i => s!"(var {i})"
  | .lit s => s!"(lit {s})"
  | .ofS w => s!"(ofS {w.toNat})"
  | .ofU w => s!"(ofU {w.toNat})"
  | .op1 n a => s!"({n} {showF a})"
  | .op2 n a b => s!"({n} {showF a} {showF b})"

def showVal : Val → String
  | .int w => s!"int {w.toNat}"
  | .nat w => s!"nat {w.toNat}"
  | .bool b => if b then "bool 1" else "bool 0"
  | .flt t => "flt " ++ showF t
  | .fbool t => "fbool " ++ showF t
  | .tup a b => s!"tup ({showVal a}) ({showVal b})"

def showRes : Res → String
  | .ok v => showVal v
  | .panic => "panic"
  | .stuck w => "stuck " ++ w

def rawOp (name : String) (args : List W) : String :=
  match args with
  | [a, b] =>
    match binOp name with
    | some f => match f a b with
      | some r => s!"w {r.toNat}" | none => "panic"
    | none => match divmodOp name with
      | some f => match f a b with
        | some (q, r) => s!"t {q.toNat} {r.toNat}" | none => "panic"
      | none => match cmpOp name with
        | some f => if f a b then "b 1" else "b 0"
        | none => "bad-op"
  | [a] =>
    match unOp name with
    | some f => match f a with
      | some r => s!"w {r.toNat}" | none => "panic"
    | none => "bad-op"
  | _ => "bad-op"

def handle (line : String) : String :=
  let t := C04Gen.table
  match (line.splitOn " ").filter (· ≠ "") |>.map (·.trimAscii.toString) |>.filter (· ≠ "") with
  | ["op", n, a] => match w? a with
    | some a => rawOp n [a] | none => "bad-op"
  | ["op", n, a, b] => match w? a, w? b with
    | some a, some b => rawOp n [a, b] | _, _ => "bad-op"
  | ["bin", op, t1, v1, t2, v2] => match val? t1 v1, val? t2 v2 with
    | some l, some r => showRes (evalBin t op l r) | _, _ => "bad-op"
  | ["un", op, t1, v1] => match val? t1 v1 with
    | some v => showRes (evalUn t op v) | none => "bad-op"
  | ["not", t1, v1] => match val? t1 v1 with
    | some v => showRes (evalNot t v) | none => "bad-op"
  | ["call", f, t1, v1] => match val? t1 v1 with
    | some v => showRes (evalBuiltin t f [v]) | none => "bad-op"
  | ["call", f, t1, v1, t2, v2] => match val? t1 v1, val? t2 v2 with
    | some l, some r => showRes (evalBuiltin t f [l, r]) | _, _ => "bad-op"
  | ["meth", n, t1, v1] => match val? t1 v1 with
    | some v => showRes (evalMeth t n [v]) | none => "bad-op"
  | ["meth", n, t1, v1, t2, v2] => match val? t1 v1, val? t2 v2 with
    | some l, some r => showRes (evalMeth t n [l, r]) | _, _ => "bad-op"
  | _ => "bad-op"

def main : IO Unit := do lineLoop (← IO.getStdin) handle
