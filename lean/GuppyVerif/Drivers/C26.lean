import GuppyVerif.Model.Pytket
import GuppyVerif.Util.Sexp
/-! Line-protocol driver for C26.  One S-expression per line.

    CIRC  = `(circ (UNIT…) (UNIT…) (REG…) (REG…) nsyms)`   qubits, bits, q_registers, c_registers
    UNIT  = `(name i j …)`      REG = `(name size)`
    requests:
      `(load ua CIRC META OUTS)`   ua = 0|1, META = `none` | `(m name…)`, OUTS = `(o q|b|x …)`
      `(stub CIRC (body e|o …) none|SIG)`
      `(view CIRC)`
      `(session EVENT…)`  EVENT = `other` | `(load objid ua CIRC META OUTS (body atom…))`
        → `(results R…)`, R = load reply with `(body …)` appended on success
    replies:
      load: `(ok SIG (args SRC…) (outs OUT…))` | `(err sig TAG)` | `(err compile TAG)`
      stub: `(accepted SIG)` | `bodyNotEmpty` | `signatureError` | `(mismatch SIG)`
      view: `true` | `false`
    SIG = `(sig (ins (LEAF FLAG)…) TY)`; LEAF = `qubit|angle|bool|(other tag)|(array SCALAR n)`;
    TY = `none | LEAF | (tuple LEAF…)`. -/
open GuppyVerif GuppyVerif.Pytket

def unit? : Sexp → Option UnitId
  | .list (.atom n :: idx) => do some ⟨n, ← idx.mapM Sexp.asNat?⟩
  | _ => none

def reg? : Sexp → Option Reg
  | .list [.atom n, s] => do some ⟨n, ← s.asNat?⟩
  | _ => none

def circ? : Sexp → Option Circ
  | .list [.atom "circ", .list qs, .list bs, .list qr, .list cr, n] => do
    some ⟨← qs.mapM unit?, ← bs.mapM unit?, ← qr.mapM reg?, ← cr.mapM reg?, ← n.asNat?⟩
  | _ => none

def scalar? : Sexp → Option Scalar
  | .atom "qubit" => some .qubit
  | .atom "angle" => some .angle
  | .atom "bool" => some .bool
  | .list [.atom "other", .atom t] => some (.other t)
  | _ => none

def leaf? : Sexp → Option Leaf
  | .list [.atom "array", s, n] => do some (.array (← scalar? s) (← n.asNat?))
  | e => (scalar? e).map .scalar

def ty? : Sexp → Option Ty
  | .atom "none" => some .none
  | .list (.atom "tuple" :: ls) => do some (.tuple (← ls.mapM leaf?))
  | e => (leaf? e).map .leaf

def flags? : Sexp → Option Flags
  | .atom "noFlags" => some .noFlags
  | .atom "inout" => some .inout
  | .atom "owned" => some .owned
  | .atom "comptime" => some .comptime
  | _ => none

def input? : Sexp → Option FuncInput
  | .list [l, f] => do some ⟨← leaf? l, ← flags? f⟩
  | _ => none

def sig? : Sexp → Option Sig
  | .list [.atom "sig", .list (.atom "ins" :: ins), out] => do some ⟨← ins.mapM input?, ← ty? out⟩
  | _ => none

def portTy? : Sexp → Option PortTy
  | .atom "q" => some .qubit
  | .atom "b" => some .bool
  | .atom "x" => some .other
  | _ => none

def a (s : String) : Sexp := .atom s
def n (k : Nat) : Sexp := .atom (toString k)

def showScalar : Scalar → Sexp
  | .qubit => a "qubit" | .angle => a "angle" | .bool => a "bool"
  | .other t => .list [a "other", a t]

def showLeaf : Leaf → Sexp
  | .scalar s => showScalar s
  | .array s k => .list [a "array", showScalar s, n k]

def showTy : Ty → Sexp
  | .none => a "none"
  | .leaf l => showLeaf l
  | .tuple ls => .list (a "tuple" :: ls.map showLeaf)

def showFlags : Flags → Sexp
  | .noFlags => a "noFlags" | .inout => a "inout" | .owned => a "owned" | .comptime => a "comptime"

def showSig (s : Sig) : Sexp :=
  .list [a "sig", .list (a "ins" :: s.inputs.map fun i => .list [showLeaf i.ty, showFlags i.flags]),
    showTy s.output]

def showElem : Elem → Sexp
  | .qubit => a "qubit" | .bool => a "bool" | .angle => a "angle"

def showPort : Port → Sexp
  | .input k => .list [a "in", n k]
  | .unpack el sz k e => .list [a "unpack", showElem el, n sz, n k, n e]

def showSrc : Src → Sexp
  | .port p => showPort p
  | .falseConst => a "false"
  | .untuple p => .list [a "untuple", showPort p]

def showOutLeaf : OutLeaf → Sexp
  | .call j => .list [a "call", n j]
  | .opaque j => .list [a "opaque", n j]

def showOut : Out → Sexp
  | .wire l => showOutLeaf l
  | .newArray el sz ls => .list (a "new" :: showElem el :: n sz :: ls.map showOutLeaf)

def showSigErr : SigErr → String
  | .unitsOutsideRegisters => "unitsOutsideRegisters"

def showCompileErr : CompileErr → String
  | .missingMetadata => "missingMetadata" | .zipLength => "zipLength"
  | .index => "index" | .key => "key"

def handleLoad (ua : Sexp) (c : Sexp) (m : Sexp) (o : Sexp) : Option String := do
  let ua ← ua.asNat?
  let c ← circ? c
  let metadata : Option (List String) ← match m with
    | .atom "none" => some none
    | .list (.atom "m" :: names) => (names.mapM Sexp.asAtom?).map some
    | _ => none
  let outs ← match o with
    | .list (.atom "o" :: ts) => ts.mapM portTy?
    | _ => none
  match loadPytket c (ua != 0) metadata outs with
  | .error (.sig e) => some s!"(err sig {showSigErr e})"
  | .error (.compile e) => some s!"(err compile {showCompileErr e})"
  | .ok (sig, w) =>
    some (toString (Sexp.list [a "ok", showSig sig, .list (a "args" :: w.callArgs.map showSrc),
      .list (a "outs" :: w.outputs.map showOut)]))

def showLoaded : Loaded → Sexp
  | .error (.sig e) => .list [a "err", a "sig", a (showSigErr e)]
  | .error (.compile e) => .list [a "err", a "compile", a (showCompileErr e)]
  | .ok (sig, w, body) =>
    .list [a "ok", showSig sig, .list (a "args" :: w.callArgs.map showSrc),
      .list (a "outs" :: w.outputs.map showOut), .list (a "body" :: body.map a)]

def event? : Sexp → Option Event
  | .atom "other" => some .other
  | .list [.atom "load", obj, ua, c, m, o, .list (.atom "body" :: body)] => do
    let obj ← obj.asNat?
    let ua ← ua.asNat?
    let c ← circ? c
    let metadata : Option (List String) ← match m with
      | .atom "none" => some none
      | .list (.atom "m" :: names) => (names.mapM Sexp.asAtom?).map some
      | _ => none
    let outs ← match o with
      | .list (.atom "o" :: ts) => ts.mapM portTy?
      | _ => none
    let body ← body.mapM Sexp.asAtom?
    some (.load obj ⟨c, ua != 0, ⟨metadata, outs, body⟩⟩)
  | _ => none

def handleSession (evs : List Sexp) : Option String := do
  let evs ← evs.mapM event?
  some (toString (Sexp.list (a "results" :: (session evs).map showLoaded)))

def handleStub (c : Sexp) (body : Sexp) (s : Sexp) : Option String := do
  let c ← circ? c
  let body ← match body with
    | .list (.atom "body" :: ss) => ss.mapM fun
      | .atom "e" => some StubStmt.ellipsis
      | .atom "o" => some StubStmt.other
      | _ => none
    | _ => none
  let sig : Option Sig ← match s with
    | .atom "none" => some none
    | e => (sig? e).map some
  match parseStub c ⟨body, sig⟩ with
  | .accepted ty => some (toString (Sexp.list [a "accepted", showSig ty]))
  | .bodyNotEmpty => some "bodyNotEmpty"
  | .signatureError => some "signatureError"
  | .mismatch cs => some (toString (Sexp.list [a "mismatch", showSig cs]))

def handle (line : String) : String :=
  match Sexp.parse line with
  | some (.list [.atom "load", ua, c, m, o]) => (handleLoad ua c m o).getD "bad-op"
  | some (.list [.atom "stub", c, body, s]) => (handleStub c body s).getD "bad-op"
  | some (.list (.atom "session" :: evs)) => (handleSession evs).getD "bad-op"
  | some (.list [.atom "view", c]) =>
    match circ? c with
    | some c => toString c.viewOk
    | none => "bad-op"
  | _ => "bad-op"

def main : IO Unit := do lineLoop (← IO.getStdin) handle
