import GuppyVerif.Model.Instantiate
/-! Line-protocol driver for C13.  One S-expression per line (syntax of `harness/tysexp.py`; a missing
    argument of a partial instantiation is the atom `-`):

    (inst AP (σ*) ty) | (insta AP (σ*) arg) | (inst0 (σ*) ty)        Instantiator (inst0 = `Ty.inst` of Model/Ty)
    (ip f (a*)) | (ipip f (a*) (b*))                                  instantiate_partial, two chained steps
    (cvi idx (m*)) | (pma (param*) (arg*) CUR) | (rm (param*))        compiler/core.py (CUR = `-` or (m*))
    (tv CUR idx) | (cv CUR ty idx)                                    type_var_to_hugr / const_var_to_hugr indices
    Replies: printed result, `error` for a modelled Python failure, `bad-op` for an unreadable request. -/
open GuppyVerif GuppyVerif.Instantiate GuppyVerif.TySexp

def pinst? : Sexp → Option PInst
  | .list xs => xs.mapM optArg?
  | _ => none

def args? : Sexp → Option (List Arg)
  | .list xs => xs.mapM arg?
  | _ => none

def params? : Sexp → Option (List Param)
  | .list xs => xs.mapM param?
  | _ => none

def cur? : Sexp → Option (Option PInst)
  | .atom "-" => some none
  | e => do some (some (← pinst? e))

def showOptArg : Option Arg → Sexp
  | none => .atom "-"
  | some a => showArg a

def out (f : α → Sexp) : Option α → String
  | none => "error"
  | some x => (f x).toStr

def showHV : HugrVar → Sexp
  | .var k => .list [.atom "var", .atom (toString k)]
  | .monoTy t => .list [.atom "monoTy", showTy t]
  | .monoNat v => .list [.atom "monoNat", .atom (toString v)]

def handleSexp : Sexp → Option String
  | .list [.atom "inst", ap, s, t] => do
      some (out showTy (instTy (← pinst? s) (← bool? ap) (← ty? t)))
  | .list [.atom "insta", ap, s, a] => do
      some (out showArg (instArg (← pinst? s) (← bool? ap) (← arg? a)))
  | .list [.atom "inst0", s, t] => do
      some (out showTy (Ty.inst (← args? s) (← ty? t)))
  | .list [.atom "ip", f, a] => do
      some (out showTy (instantiatePartial (← ty? f) (← pinst? a)))
  | .list [.atom "ipip", f, a, b] => do
      let b ← pinst? b
      some (out showTy ((instantiatePartial (← ty? f) (← pinst? a)).bind (instantiatePartial · b)))
  | .list [.atom "cvi", i, m] => do
      some (out (fun k => .atom (toString k)) (compileVariableIdx (← i.asNat?) (← pinst? m)))
  | .list [.atom "pma", ps, as, c] => do
      some (out (fun (r : PInst × List Arg) => .list [.list (r.1.map showOptArg), .list (r.2.map showArg)])
        (partiallyMonomorphizeArgs (← params? ps) (← args? as) (← cur? c)))
  | .list [.atom "rm", ps] => do
      some (out (fun r => .list (r.map showParam)) (requireMonomorphization (← params? ps)))
  | .list [.atom "tv", c, i] => do
      some (out showHV (typeVarToHugr (← cur? c) (← i.asNat?)))
  | .list [.atom "cv", c, t, i] => do
      some (out showHV (constVarToHugr (← cur? c) (← ty? t) (← i.asNat?)))
  | _ => none

def handle (line : String) : String :=
  match Sexp.parse line with
  | none => "bad-op"
  | some e => (handleSexp e).getD "bad-op"

def main : IO Unit := do lineLoop (← IO.getStdin) handle
