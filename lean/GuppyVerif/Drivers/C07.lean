import GuppyVerif.Model.Places
import GuppyVerif.Util.Sexp
/-! Line-protocol driver for C07 (one S-expression per line).

  ty    = q | c | (tup ty…) | (arr ty)      q = linear leaf, c = copyable leaf
  path  = (path (((p…) i) …) (t…))        chunks `.p…[i]`, then the tail projections
  val   = (l n) | h | (t val…) | (a val…)   leaf / hole / tuple-or-struct / array
  (emit ty path callee)       -> wire-level emission, printed as (prog nin ((name (params) (args) nout) …) (outs))
  (runw prog val (i…))        -> run a (extracted) wire-level op list on store `val` and index values
  (runa path val)             -> place-level execution of callee(π)
  (lens path val)             -> putP π (f (getP π val)) val    (the specification)
  (sig ((name borrowed)…) (result…))  -> hugrOutputs and the port assignment of _update_inout_ports
  (wt ty path)                -> `ok` iff the path is well typed under the root type (hypothesis WT of wire_writeback)
  (emitset ty path) | (runaset path val val2)  -> `x…[i] = v` for a copyable element (classical set)
  (emitassign ty path) | (runw2 prog val (i…) val2) | (runa2 path val val2) | (lens2 path val val2)
                              -> the same for the assignment `π = v` (new value val2 is the last input)
 The callee adds 1000 to every leaf of its argument.  replies: `ok …` | `err <name>` | `bad-request`. -/
open GuppyVerif GuppyVerif.Places

partial def parseTy : Sexp → Option Ty
  | .atom "q" => some .q
  | .atom "c" => some .c
  | .list (.atom "tup" :: ts) => do some (.tup (← ts.mapM parseTy))
  | .list [.atom "arr", t] => do some (.arr (← parseTy t))
  | _ => none

partial def parseV : Sexp → Option V
  | .atom "h" => some .hole
  | .list [.atom "l", .atom n] => do some (.leaf (← n.toNat?))
  | .list (.atom "t" :: vs) => do some (.tup (← vs.mapM parseV))
  | .list (.atom "a" :: vs) => do some (.arr (← vs.mapM parseV))
  | _ => none

partial def showV : V → String
  | .leaf n => s!"(l {n})"
  | .hole => "h"
  | .tup vs => "(t" ++ String.join (vs.map fun v => " " ++ showV v) ++ ")"
  | .arr vs => "(a" ++ String.join (vs.map fun v => " " ++ showV v) ++ ")"

/-- the callee: every leaf + 1000 -/
partial def bump : V → V
  | .leaf n => .leaf (n + 1000)
  | .hole => .hole
  | .tup vs => .tup (vs.map bump)
  | .arr vs => .arr (vs.map bump)

def parseChunk : Sexp → Option Chunk
  | .list [ps, .atom i] => do some ⟨← Sexp.natList? ps, ← i.toNat?⟩
  | _ => none

def parsePath : Sexp → Option CPath
  | .list [.atom "path", .list cs, t] => do some ⟨← cs.mapM parseChunk, ← Sexp.natList? t⟩
  | _ => none

def showOp : Op → String × List String
  | .unpack => ("unpack", [])
  | .pack => ("pack", [])
  | .itousize => ("itousize", [])
  | .borrow => ("borrow", [])
  | .ret => ("return", [])
  | .call n => ("call", [n])
  | .drop => ("drop", [])
  | .set => ("set", [])
  | .unwrap => ("unwrap", ["1", "Array%20index%20out%20of%20bounds"])
  | .other n => (n, [])

def showProg (p : Prog) : String :=
  let items := p.instrs.map fun i =>
    let (n, ps) := showOp i.op
    s!"({n} ({" ".intercalate ps}) ({" ".intercalate (i.args.map toString)}) {i.nout})"
  s!"(prog {p.nin} ({" ".intercalate items}) ({" ".intercalate (p.outs.map toString)}))"

def parseOp (name : String) (ps : List String) : Op :=
  match name, ps with
  | "unpack", [] => .unpack
  | "pack", [] => .pack
  | "itousize", [] => .itousize
  | "borrow", [] => .borrow
  | "return", [] => .ret
  | "call", [n] => .call n
  | "drop", [] => .drop
  | "set", [] => .set
  | "unwrap", ["1", "Array%20index%20out%20of%20bounds"] => .unwrap
  | _, _ => .other name

def parseInstr : Sexp → Option Instr
  | .list [.atom name, .list ps, args, .atom nout] => do
    some ⟨parseOp name (← ps.mapM Sexp.asAtom?), ← Sexp.natList? args, ← nout.toNat?⟩
  | _ => none

def parseProg : Sexp → Option Prog
  | .list [.atom "prog", .atom nin, .list is, outs] => do
    some ⟨← nin.toNat?, ← is.mapM parseInstr, ← Sexp.natList? outs⟩
  | _ => none

def showErr : Err → String
  | .badPath => "err badPath"
  | .alreadyBorrowed => "err alreadyBorrowed"
  | .notBorrowed => "err notBorrowed"
  | .illTyped => "err illTyped"

def showW : W → String
  | .val v => showV v
  | .int i => s!"(int {i})"
  | .usize n => s!"(usize {n})"
  | .either r e a => s!"(either {r} {showV e} {showV a})"

def parseParam : Sexp → Option Param
  | .list [.atom n, .atom b] => do some ⟨← n.toNat?, b == "1", false, true⟩
  | .list [.atom n, .atom b, .atom pl] => do some ⟨← n.toNat?, b == "1", false, pl == "1"⟩
  | _ => none

def handleSexp : Sexp → Option String
  | .list [.atom "emit", t, p, .atom c] => do
    some (showProg (emitW (← parseTy t) (← parsePath p) c))
  | .list [.atom "runw", pr, v, is] => do
    let pr ← parseProg pr
    let v ← parseV v
    let is ← Sexp.natList? is
    match runW bump pr (.val v :: is.map .int) with
    | .ok ws => some ("ok " ++ " ".intercalate (ws.map showW))
    | .error e => some (showErr e)
  | .list [.atom "emitset", t, p] => do
    some (showProg (emitAssignSetW (← parseTy t) (← parsePath p)))
  | .list [.atom "runaset", p, v, v2] => do
    let v2 ← parseV v2
    match assignSetA id (← parsePath p) (← parseV v) v2 with
    | .ok r => some ("ok " ++ showV r)
    | .error e => some (showErr e)
  | .list [.atom "wt", t, p] => do
    let p ← parsePath p
    match wtCheck (← parseTy t) p.chunks p.tail with
    | some _ => some "ok"
    | none => some "none"
  | .list [.atom "emitassign", t, p] => do
    some (showProg (emitAssignW (← parseTy t) (← parsePath p)))
  | .list [.atom "runw2", pr, v, is, v2] => do
    let pr ← parseProg pr
    let v ← parseV v
    let v2 ← parseV v2
    let is ← Sexp.natList? is
    match runW bump pr (.val v :: is.map .int ++ [.val v2]) with
    | .ok ws => some ("ok " ++ " ".intercalate (ws.map showW))
    | .error e => some (showErr e)
  | .list [.atom "runa2", p, v, v2] => do
    let v2 ← parseV v2
    match callBorrowA (fun _ => v2) (← parsePath p) (← parseV v) with
    | .ok r => some ("ok " ++ showV r)
    | .error e => some (showErr e)
  | .list [.atom "lens2", p, v, v2] => do
    let p ← parsePath p
    match putP p.steps (← parseV v2) (← parseV v) with
    | none => some "none"
    | some r => some ("ok " ++ showV r)
  | .list [.atom "runa", p, v] => do
    match callBorrowA bump (← parsePath p) (← parseV v) with
    | .ok r => some ("ok " ++ showV r)
    | .error e => some (showErr e)
  | .list [.atom "lens", p, v] => do
    let p ← parsePath p
    let v ← parseV v
    match getP p.steps v with
    | none => some "none"
    | some x => match putP p.steps (bump x) v with
      | none => some "none"
      | some r => some ("ok " ++ showV r)
  | .list [.atom "sig", .list ps, rs] => do
    let ps ← ps.mapM parseParam
    let rs ← Sexp.natList? rs
    let outs := hugrOutputs ps rs
    let showO : Sum Nat Nat → String := fun | .inl r => s!"r{r}" | .inr n => s!"b{n}"
    let ports := (List.range (outs.length - rs.length)).map (· + rs.length)
    let asg := match updateInoutPorts ps ports with
      | none => "stop"
      | some (a, rest) => "(" ++ " ".intercalate (a.map fun (n, w) => s!"({n} {w})") ++ s!") left={rest.length}"
    some ("ok (" ++ " ".intercalate (outs.map showO) ++ ") " ++ asg)
  | _ => none

def handle (line : String) : String :=
  match Sexp.parse line with
  | some e => (handleSexp e).getD "bad-request"
  | none => "bad-request"

def main : IO Unit := do lineLoop (← IO.getStdin) handle
