import GuppyVerif.Model.MockBuiltins
import GuppyVerif.Util.Sexp
/-! Line-protocol driver for C23.  Request: `(<module> ...) <prog>` where
    module ::= (name ...)   names `int` `float` `len` `o<k>` in dict order (each bound to a distinct user value)
    prog   ::= skip | probe | raise | (seq p q) | (trace m body 0|1) | (catch p)
    Reply: one `P:<iii>/<iii>..` per probe (per module: int,float,len as a=absent m=mock u=user's own ?=other)
    then `| r=<raised> final=<same|diff>/...` (per module: ordered items equal to the initial ones). -/
open GuppyVerif GuppyVerif.MockBuiltins

def name? : Sexp → Option Name
  | .atom "int" => some .int
  | .atom "float" => some .float
  | .atom "len" => some .len
  | .atom s => if s.startsWith "o" then (s.drop 1).toNat?.map .other else none
  | _ => none

def mkGlobals (ns : List Name) : Globals :=
  ⟨ns, fun n => (ns.idxOf? n).map .user⟩

partial def prog? : Sexp → Option Prog
  | .atom "skip" => some .skip
  | .atom "probe" => some .probe
  | .atom "raise" => some .raise
  | .list [.atom "seq", p, q] => do some (.seq (← prog? p) (← prog? q))
  | .list [.atom "trace", m, b, r] => do
      let r ← r.asNat?
      some (.trace (← m.asNat?) (← prog? b) (r != 0))
  | .list [.atom "catch", p] => do some (.catch (← prog? p))
  | _ => none

/-- the model's `Obs` carries raw values; render them relative to the initial bindings -/
def render (mods : List Globals) (o : Obs) : String :=
  "P:" ++ "/".intercalate ((o.zip mods).map fun (vals, i) =>
    String.join ((vals.zip [Name.int, Name.float, Name.len]).map fun (v, n) =>
      match v with
      | none => "a"
      | some v => if v == .mock n then "m" else if some v == i.val n then "u" else "?"))

def handle (line : String) : String :=
  match Sexp.parse ("(" ++ line ++ ")") with
  | some (.list [.list ms, p]) =>
    match ms.mapM (fun m => do (← m.asList?).mapM name?), prog? p with
    | some nss, some prog =>
      let mods := nss.map mkGlobals
      let σ : Mods := fun j => mods.getD j ⟨[], fun _ => none⟩
      let r := exec mods.length prog σ
      let fin := (List.range mods.length).map fun j =>
        if (r.mods j).items == (σ j).items then "same" else "diff"
      " ".intercalate (r.trace.map (render mods)) ++
        s!" | r={if r.raised then 1 else 0} final={"/".intercalate fin}"
    | _, _ => "bad-op"
  | _ => "bad-op"

def main : IO Unit := do lineLoop (← IO.getStdin) handle
