import GuppyVerif.Model.FeatureGate
import GuppyVerif.Model.ClosureGate
import GuppyVerif.Util.Sexp
/-! Line-protocol driver for C33.  Request: `<0|1> <prog>` where
    prog ::= skip | raise | (seq p q) | (call e|d) | (with e|d p) | (bind n e|d) | (withvar n p)
           | (check lists|tensors|closures|modifiers) | (try p)
    Reply: observations (`F0`/`F1` flag, `A:<f>` accept, `R:<f>:<exp|uns>` reject) then
    `| f=<final flag> r=<raised>`. -/
open GuppyVerif GuppyVerif.FeatureGate

def kind? : Sexp → Option Kind
  | .atom "e" => some .enable
  | .atom "d" => some .disable
  | _ => none

def feature? : Sexp → Option Feature
  | .atom "lists" => some .lists
  | .atom "tensors" => some .tensors
  | .atom "closures" => some .closures
  | .atom "modifiers" => some .modifiers
  | _ => none

partial def prog? : Sexp → Option Prog
  | .atom "skip" => some .skip
  | .atom "raise" => some .raise
  | .list [.atom "seq", p, q] => do some (.seq (← prog? p) (← prog? q))
  | .list [.atom "call", k] => do some (.call (← kind? k))
  | .list [.atom "with", k, p] => do some (.withNew (← kind? k) (← prog? p))
  | .list [.atom "bind", x, k] => do some (.bind (← x.asNat?) (← kind? k))
  | .list [.atom "withvar", x, p] => do some (.withVar (← x.asNat?) (← prog? p))
  | .list [.atom "check", f] => do some (.check (← feature? f))
  | .list [.atom "try", p] => do some (.tryCatch (← prog? p))
  | _ => none

def bit (b : Bool) : String := if b then "1" else "0"

def showFeature : Feature → String
  | .lists => "lists" | .tensors => "tensors" | .closures => "closures" | .modifiers => "modifiers"

def showObs : Obs → String
  | .flag b => "F" ++ bit b
  | .accept f => "A:" ++ showFeature f
  | .reject f .experimental => "R:" ++ showFeature f ++ ":exp"
  | .reject f .unsupported => "R:" ++ showFeature f ++ ":uns"

/-! Closure-gate requests: `cl <0|1> (<item> ...)` with
    item ::= (v x) | (f x) | (n name (param ...) (stmt ...)),  stmt ::= (<assigned name | -> read ...).
    Reply: accept | reject | illegal. -/
open GuppyVerif.ClosureGate in
def stmt? : Sexp → Option Stmt
  | .list (.atom a :: reads) => do
      let rs ← reads.mapM Sexp.asNat?
      if a == "-" then some ⟨rs, none⟩ else some ⟨rs, some (← a.toNat?)⟩
  | _ => none

open GuppyVerif.ClosureGate in
def item? : Sexp → Option Item
  | .list [.atom "v", x] => x.asNat?.map fun n => .localVar n .value
  | .list [.atom "f", x] => x.asNat?.map fun n => .localVar n .func
  | .list [.atom "n", nm, .list ps, .list ss] => do
      some (.nested ⟨← nm.asNat?, ← ps.mapM Sexp.asNat?, ← ss.mapM stmt?⟩)
  | _ => none

open GuppyVerif.ClosureGate in
def handleClosure (flag : String) (items : List Sexp) : String :=
  match items.mapM item? with
  | some its =>
    match checkOuter (flag == "1") [] its with
    | .accept => "accept" | .reject => "reject" | .illegalAssign => "illegal"
  | none => "bad-op"

def handle (line : String) : String :=
  match Sexp.parse ("(" ++ line ++ ")") with
  | some (.list [.atom "cl", .atom f, .list items]) => handleClosure f items
  | _ =>
  match Sexp.parse ("(" ++ line ++ ")") with
  | some (.list [.atom b, p]) =>
    match prog? p with
    | some prog =>
      if b == "0" || b == "1" then
        let r := exec prog ⟨b == "1", []⟩
        " ".intercalate (r.trace.map showObs) ++ s!" | f={bit r.state.flag} r={bit r.raised}"
      else "bad-op"
    | none => "bad-op"
  | _ => "bad-op"

def main : IO Unit := do lineLoop (← IO.getStdin) handle
