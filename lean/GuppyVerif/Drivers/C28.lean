import GuppyVerif.Model.EmuConfig
import GuppyVerif.Util.Sexp
/-! Line-protocol driver for C28.  Request: `<fixed 0|1> <n_qubits> (<op> ...)` with
    op ::= (newsim <kind> <seed|none>) | (newcomp <seed|none>) | (run i) | (derive i <d>) | (bderive i <bd>) | (build i n)
    bd ::= (name v|none) (builddir v|none) (verbose 0|1) (arg k v)
    d  ::= (seed v|none) (shots n) (shotoffset n) (shotincrement n) (nqubits n) (nprocesses n) (verbose 0|1)
           (timeout t|none) (progressbar 0|1) (runtime r) (errormodel e) (eventhook h) (simulator sid) statevector coinflip stabilizer
    kind ::= quest | coinflip | stim | c<k>
    Reply: the `run_shots` log, one token per run:
    `i:kind,simseed,runtime,runtimeseed,errormodel,errormodelseed,eventhook,eventhookseed,nqubits,shots,verbose,timeout,seed,offset,increment,nprocesses,progressbar,origin`
    (origin = index of the build call that produced the instance's SeleneInstance, or none), then `||`, then the
    `selene_sim.build` log, one token per call: `b:name,builddir,verbose,k=v;k=v..`; or `invalid`. -/
open GuppyVerif GuppyVerif.EmuConfig

def optNat? : Sexp → Option (Option Nat)
  | .atom "none" => some none
  | .atom s => s.toNat?.map some
  | _ => none

def kind? : Sexp → Option SimKind
  | .atom "quest" => some .quest
  | .atom "coinflip" => some .coinflip
  | .atom "stim" => some .stim
  | .atom s => if s.startsWith "c" then (s.drop 1).toNat?.map .custom else none
  | _ => none

def deriv? : Sexp → Option Deriv
  | .atom "statevector" => some .statevector
  | .atom "coinflip" => some .coinflip
  | .atom "stabilizer" => some .stabilizer
  | .list [.atom "seed", v] => (optNat? v).map .seed
  | .list [.atom "shots", n] => n.asNat?.map .shots
  | .list [.atom "shotoffset", n] => n.asNat?.map .shotOffset
  | .list [.atom "shotincrement", n] => n.asNat?.map .shotIncrement
  | .list [.atom "nqubits", n] => n.asNat?.map .nQubits
  | .list [.atom "nprocesses", n] => n.asNat?.map .nProcesses
  | .list [.atom "verbose", n] => n.asNat?.map fun b => .verbose (b != 0)
  | .list [.atom "timeout", t] => (optNat? t).map .timeout
  | .list [.atom "progressbar", n] => n.asNat?.map fun b => .progressBar (b != 0)
  | .list [.atom "runtime", n] => n.asNat?.map .runtime
  | .list [.atom "errormodel", n] => n.asNat?.map .errorModel
  | .list [.atom "eventhook", n] => n.asNat?.map .eventHook
  | .list [.atom "simulator", n] => n.asNat?.map .simulator
  | _ => none

def bderiv? : Sexp → Option BDeriv
  | .list [.atom "name", v] => (optNat? v).map .name
  | .list [.atom "builddir", v] => (optNat? v).map .buildDir
  | .list [.atom "verbose", n] => n.asNat?.map fun b => .verbose (b != 0)
  | .list [.atom "arg", k, v] => do some (.buildArg (← k.asNat?) (← v.asNat?))
  | _ => none

def op? : Sexp → Option Op
  | .list [.atom "newsim", k, sd] => do some (.newSim (← kind? k) (← optNat? sd))
  | .list [.atom "newcomp", sd] => (optNat? sd).map .newComp
  | .list [.atom "run", i] => i.asNat?.map .run
  | .list [.atom "derive", i, d] => do some (.derive (← i.asNat?) (← deriv? d))
  | .list [.atom "bderive", i, d] => do some (.bderive (← i.asNat?) (← bderiv? d))
  | .list [.atom "build", i, n] => do some (.build (← i.asNat?) (← n.asNat?))
  | _ => none

def showOpt : Option Nat → String
  | none => "none"
  | some n => toString n

def showKind : SimKind → String
  | .quest => "quest" | .coinflip => "coinflip" | .stim => "stim" | .custom c => s!"c{c}"

def showBuild (e : Nat × BuildArgs) : String :=
  let a := e.2
  s!"{e.1}:{showOpt a.name},{showOpt a.buildDir},{if a.verbose then 1 else 0}," ++
    ";".intercalate (a.custom.map fun kv => s!"{kv.1}={kv.2}")

def showEntry (origin : Option Nat) (e : Nat × RunArgs) : String :=
  let a := e.2
  s!"{e.1}:{showKind a.simKind},{showOpt a.simSeed},{a.runtime},{showOpt a.runtimeSeed},{a.errorModel},{showOpt a.errorModelSeed},{a.eventHook},{showOpt a.eventHookSeed},{a.nQubits}," ++
  s!"{a.shots},{if a.verbose then 1 else 0},{showOpt a.timeout},{showOpt a.seed},{a.shotOffset},{a.shotIncrement},{a.nProcesses},{if a.progressBar then 1 else 0},{showOpt origin}"

def handle (line : String) : String :=
  match Sexp.parse ("(" ++ line ++ ")") with
  | some (.list [.atom f, n, .list ops]) =>
    match n.asNat?, ops.mapM op? with
    | some n, some ops =>
      match runOps (f != "0") (initial n) ops with
      | some s =>
        " ".intercalate (s.log.map fun e => showEntry ((s.insts[e.1]?).bind (·.origin)) e) ++ " || " ++
          " ".intercalate (s.blog.map showBuild)
      | none => "invalid"
    | _, _ => "bad-op"
  | _ => "bad-op"

def main : IO Unit := do lineLoop (← IO.getStdin) handle
