import GuppyVerif.Model.Check02
import GuppyVerif.Spec.C02
import GuppyVerif.Util.Sexp
/-! Line-protocol driver for C02.  Requests (space separated; lists are comma separated, `-` = empty):
    `tca <nInputs> <nParams>`                     arity skeleton of `type_check_args`
    `zip <n> <m>`                                 `zip(strict=True)` on lists of these lengths
    `name <locals> <generic n:b,..> <globals n:k,..> <x>`   `visit_Name`   (b: 1 const param, 0 type param; k: v|d|p)
    `block <locals> <generic> <globals> <assBefore> <assignedSomewhere> <evs u3,a4,..>`   `checkEntryBlock`
    `class <site id>`                             classification of an inventory site
    `coverage`                                    numbers of guarded / unmodelled / unclassified / stale sites -/
open GuppyVerif GuppyVerif.C02

def items (s : String) : List String := if s == "-" then [] else s.splitOn ","

def nats? (s : String) : Option (List Nat) := (items s).mapM (·.toNat?)

def pair? (s : String) : Option (Nat × String) :=
  match s.splitOn ":" with
  | [a, b] => a.toNat?.map (·, b)
  | _ => none

def generic? (s : String) : Option (List (Nat × Bool)) :=
  (items s).mapM fun it => (pair? it).map fun (n, b) => (n, b == "1")

def gkind? : String → Option GKind
  | "v" => some .value | "d" => some .nonValueDef | "p" => some .pyObject | _ => none

def globals? (s : String) : Option (List (Nat × GKind)) :=
  (items s).mapM fun it => (pair? it).bind fun (n, k) => (gkind? k).map (n, ·)

def ev? (s : String) : Option Ev :=
  match s.toList with
  | 'u' :: r => (String.ofList r).toNat?.map .use
  | 'a' :: r => (String.ofList r).toNat?.map .assign
  | _ => none

def showUser : UserError → String
  | .varNotDefined x => s!"user varNotDefined {x}"
  | .varMaybeNotDefined x => s!"user varMaybeNotDefined {x}"
  | .wrongNumberOfArgs e a => s!"user wrongNumberOfArgs {e} {a}"
  | .branchType x => s!"user branchType {x}"
  | .expectedValueGotType x => s!"user expectedValueGotType {x}"
  | .expectedValueGotDef x => s!"user expectedValueGotDef {x}"

def showFail : Failure → String
  | .user e => showUser e
  | .internal _ => "internal"

def showRes : Resolved → String
  | .place x => s!"place {x}" | .genericValue x => s!"generic {x}" | .global x => s!"global {x}"

def handle (line : String) : String :=
  match (line.splitOn " ").filter (· ≠ "") |>.map (·.trimAscii.toString) |>.filter (· ≠ "") with
  | ["tca", n, m] => match n.toNat?, m.toNat? with
    | some n, some m => match typeCheckArgs (List.range n) (List.range m) with
      | .ok r => s!"ok {r.length}"
      | .error e => showFail e
    | _, _ => "bad-op"
  | ["zip", n, m] => match n.toNat?, m.toNat? with
    | some n, some m => match zipStrict (List.range n) (List.range m) with
      | .ok r => s!"ok {r.length}"
      | .error e => showFail e
    | _, _ => "bad-op"
  | ["name", l, g, gl, x] => match nats? l, generic? g, globals? gl, x.toNat? with
    | some l, some g, some gl, some x => match visitName ⟨l, g, gl⟩ x with
      | .ok r => showRes r
      | .error e => showFail e
    | _, _, _, _ => "bad-op"
  | ["block", l, g, gl, ab, asg, evs] =>
    match nats? l, generic? g, globals? gl, nats? ab, nats? asg, (items evs).mapM ev? with
    | some l, some g, some gl, some ab, some asg, some evs => match checkEntryBlock evs ab asg ⟨l, g, gl⟩ with
      | .ok sc => "ok " ++ ",".intercalate (sc.locals.map toString)
      | .error e => showFail e
    | _, _, _, _, _, _ => "bad-op"
  | ["class", i] => match i.toNat? with
    | some i => match classOf i with
      | some (.guarded g) => "guarded " ++ g.theorem
      | some (.unmodelled _) => "unmodelled"
      | none => "unclassified"
    | none => "bad-op"
  | ["coverage"] =>
    let cls := Gen.siteIds.map classOf
    let g := (cls.filter fun c => match c with | some (.guarded _) => true | _ => false).length
    let u := (cls.filter fun c => match c with | some (.unmodelled _) => true | _ => false).length
    let n := (cls.filter (·.isNone)).length
    let stale := (classifiedIds.filter fun i => !Gen.siteIds.contains i).length
    s!"sites {Gen.siteIds.length} guarded {g} unmodelled {u} unclassified {n} stale {stale}"
  | _ => "bad-op"

def main : IO Unit := do lineLoop (← IO.getStdin) handle
