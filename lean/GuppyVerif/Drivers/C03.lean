import GuppyVerif.Spec.C03
import GuppyVerif.Model.Wiring
import GuppyVerif.Model.OrderEdges
import GuppyVerif.Model.Scope
import GuppyVerif.Util.Sexp
/-! Line-protocol driver for C03 / C05 (protocol: notes/C03.md §Protocol).
    `(build RN (s*))`                      -> `ok HS (cfg (bb i R|U (stmts …) (pred e|none) (succ …) (dsucc …)) …)` | `err K`
    `(run RN (s*) (args ((n x) V)…) FUEL)` -> `py OUT cfg OUT` -/
open GuppyVerif GuppyVerif.Surface GuppyVerif.Builder

def var? : Sexp → Option Var
  | .list [.atom "n", .atom x] => some (.user x)
  | .list [.atom "t", k] => k.asNat?.map .tmp
  | _ => none

def binop? : String → Option BinOp
  | "+" => some .add | "-" => some .sub | "*" => some .mul | _ => none
def cmpop? : String → Option CmpOp
  | "<" => some .lt | "<=" => some .le | ">" => some .gt | ">=" => some .ge | "==" => some .eq | "!=" => some .ne
  | _ => none
def prim? : String → Option Prim
  | "range" => some .range | "makeiter" => some .makeiter | "iternext" => some .iternext
  | "issome" => some .issome | "unwrapnothing" => some .unwrapnothing | "unwrap" => some .unwrap | _ => none

partial def expr? : Sexp → Option Expr
  | .list [.atom "n", .atom x] => some (.var (.user x))
  | .list [.atom "t", k] => k.asNat?.map fun k => .var (.tmp k)
  | .list [.atom "i", n] => n.asInt?.map .num
  | .list [.atom "b", .atom "1"] => some (.bool true)
  | .list [.atom "b", .atom "0"] => some (.bool false)
  | .list [.atom "neg", e] => do some (.un .neg (← expr? e))
  | .list [.atom "not", e] => do some (.un .not (← expr? e))
  | .list [.atom "prim", .atom p, e] => do some (.un (.prim (← prim? p)) (← expr? e))
  | .list [.atom "call0", .atom f] => some (.call0 f)
  | .list [.atom "call1", .atom f, a] => do some (.un (.call1 f) (← expr? a))
  | .list [.atom "call2", .atom f, a, b] => do some (.bi (.call2 f) (← expr? a) (← expr? b))
  | .list [.atom "bin", .atom o, l, r] => do some (.bi (.arith (← binop? o)) (← expr? l) (← expr? r))
  | .list [.atom "cmp", .atom o, l, r] => do some (.bi (.cmp (← cmpop? o)) (← expr? l) (← expr? r))
  | .list [.atom "cmp2", .atom o1, .atom o2, l, m, r] => do
    some (.cmp2 (← cmpop? o1) (← cmpop? o2) (← expr? l) (← expr? m) (← expr? r))
  | .list [.atom "and", l, r] => do some (.and (← expr? l) (← expr? r))
  | .list [.atom "or", l, r] => do some (.or (← expr? l) (← expr? r))
  | .list [.atom "if", t, b, o] => do some (.ite (← expr? t) (← expr? b) (← expr? o))
  | .list [.atom "walrus", x, e] => do some (.walrus (← var? x) (← expr? e))
  | _ => none

mutual
partial def stmt? : Sexp → Option Stmt
  | .list [.atom "assign", x, e] => do some (.assign (← var? x) (← expr? e))
  | .list [.atom "aug", x, .atom o, e] => do some (.aug (← var? x) (← binop? o) (← expr? e))
  | .list [.atom "expr", e] => do some (.expr (← expr? e))
  | .list [.atom "pass"] => some .pass
  | .list [.atom "break"] => some .brk
  | .list [.atom "continue"] => some .cont
  | .list [.atom "ret", e] => do some (.ret (← expr? e))
  | .list [.atom "ret0"] => some .ret0
  | .list [.atom "ite", c, t, e] => do some (.ite (← expr? c) (← stmts? t) (← stmts? e))
  | .list [.atom "while", c, b] => do some (.while (← expr? c) (← stmts? b))
  | .list [.atom "for", x, e, b] => do some (.for (← var? x) (← expr? e) (← stmts? b))
  | _ => none
partial def stmts? : Sexp → Option Stmt
  | .list xs => do
    let ss ← xs.mapM stmt?
    some (ss.foldr Stmt.cons .nil)
  | _ => none
end

def showVar : Var → String
  | .user x => s!"(n {x})"
  | .tmp k => s!"(t {k})"
def showBin : BinOp → String
  | .add => "+" | .sub => "-" | .mul => "*"
def showCmp : CmpOp → String
  | .lt => "<" | .le => "<=" | .gt => ">" | .ge => ">=" | .eq => "==" | .ne => "!="
def showPrim : Prim → String
  | .range => "range" | .makeiter => "makeiter" | .iternext => "iternext" | .issome => "issome"
  | .unwrapnothing => "unwrapnothing" | .unwrap => "unwrap"

def showE : Expr → String
  | .var x => showVar x
  | .num n => s!"(i {n})"
  | .bool b => if b then "(b 1)" else "(b 0)"
  | .call0 f => s!"(call0 {f})"
  | .un .neg e => s!"(neg {showE e})"
  | .un .not e => s!"(not {showE e})"
  | .un (.prim p) e => s!"(prim {showPrim p} {showE e})"
  | .un (.call1 f) e => s!"(call1 {f} {showE e})"
  | .bi (.arith o) l r => s!"(bin {showBin o} {showE l} {showE r})"
  | .bi (.cmp o) l r => s!"(cmp {showCmp o} {showE l} {showE r})"
  | .bi (.call2 f) l r => s!"(call2 {f} {showE l} {showE r})"
  | .cmp2 o1 o2 l m r => s!"(cmp2 {showCmp o1} {showCmp o2} {showE l} {showE m} {showE r})"
  | .and l r => s!"(and {showE l} {showE r})"
  | .or l r => s!"(or {showE l} {showE r})"
  | .ite t b o => s!"(if {showE t} {showE b} {showE o})"
  | .walrus x e => s!"(walrus {showVar x} {showE e})"

def showB : BStmt → String
  | .assign x e => s!"(assign {showVar x} {showE e})"
  | .assign2 x y e => s!"(assign2 {showVar x} {showVar y} {showE e})"
  | .aug x o e => s!"(aug {showVar x} {showBin o} {showE e})"
  | .expr e => s!"(expr {showE e})"
  | .ret e => s!"(ret {showE e})"
  | .ret0 => "(ret0)"

def showNats (tag : String) (xs : List Nat) : String :=
  "(" ++ " ".intercalate (tag :: xs.map toString) ++ ")"

def showBlock (i : Nat) (B : Block) : String :=
  let st := "(" ++ " ".intercalate ("stmts" :: B.stmts.map showB) ++ ")"
  let pr := match B.pred with | some p => s!"(pred {showE p})" | none => "(pred none)"
  s!"(bb {i} {if B.reach then "R" else "U"} {st} {pr} {showNats "succ" B.succs} {showNats "dsucc" B.dsuccs})"

def showCfg (g : Cfg) : String :=
  "(" ++ " ".intercalate ("cfg" :: g.blocks.zipIdx.map fun (B, i) => showBlock i B) ++ ")"

def showErr : BuildErr → String
  | .unsupported => "err unsupported"
  | .internal => "err internal"
  | .expectedReturn => "err expected-return"

/-- the fixed environment of the protocol -/
def protoEnv : Env := fun tr f args =>
  let k : Int := tr.length
  let c : Int := (f.toList.headD 'f').toNat
  let r : Int := 17 * k + 31 * (args.map Val.toInt).foldl (· + ·) 0 + 7 * c
  if c == 99 || c == 112 || c == 113 then .bool (r % 3 == 0) else .int (r % 11 - 5)

def showVal : Val → String
  | .int n => s!"i:{n}"
  | .bool b => if b then "b:1" else "b:0"
  | .none => "none"
  | .iter n s => s!"iter:{n}:{s}"
  | .some e n s => s!"some:{e}:{n}:{s}"

def val? (s : String) : Option Val :=
  match s.splitOn ":" with
  | ["i", n] => n.toInt?.map .int
  | ["b", "1"] => some (.bool true)
  | ["b", "0"] => some (.bool false)
  | _ => none

def showTrace (tr : Trace) : String :=
  "(" ++ " ".intercalate ("trace" :: tr.map fun ev =>
    "(" ++ ev.f ++ " (" ++ " ".intercalate (ev.args.map showVal) ++ ") " ++ showVal ev.res ++ ")") ++ ")"

def showOut (r : Val) (tr : Trace) : String := s!"(res {showVal r} {showTrace tr})"

def args? : Sexp → Option Store
  | .list (.atom "args" :: xs) => do
    let ps ← xs.mapM fun p => match p with
      | .list [x, .atom v] => do some (← var? x, ← val? v)
      | _ => none
    some (ps.foldl (fun st p => st.set p.1 p.2) (fun _ => .int 0))
  | _ => none

def runPy (body : Stmt) (st : Store) (fuel : Nat) : String :=
  match execFuel protoEnv fuel body (st, []) with
  | none => "nofuel"
  | some (.ret v, s) => showOut v s.2
  | some (.normal, s) => showOut .none s.2
  | some (_, _) => "err loop-control-outside-loop"

def runCfg (rn : Bool) (body : Stmt) (st : Store) (fuel : Nat) : String :=
  match buildCfg rn body with
  | .error e => showErr e
  | .ok g =>
    match run protoEnv g.blocks fuel { b := 0, pc := 0, s := (st, []) } with
    | none => "nofuel"
    | some c =>
      if c.b == 1 then showOut (c.ret.getD .none) c.s.2 else s!"err stuck-at-{c.b}"

/-! `(wire ENTRY (in P*) (outs (row P*)…) (exits B*))` with P = `(p NAME D)` → `ok (inputs P*) (deliver (P*)…)` -/
def place? : Sexp → Option Wiring.Place
  | .list [.atom "p", .atom n, .atom d] => some ⟨n, d == "1"⟩
  | _ => none
def showPlace (p : Wiring.Place) : String := s!"(p {p.name} {if p.droppable then "1" else "0"})"
def showPlaces (tag : String) (ps : List Wiring.Place) : String :=
  "(" ++ " ".intercalate ((if tag == "" then [] else [tag]) ++ ps.map showPlace) ++ ")"

def handleWire (entry : String) (inS outsS exitsS : Sexp) : String :=
  match inS, outsS, exitsS with
  | .list (.atom "in" :: ins), .list (.atom "outs" :: rows), .list (.atom "exits" :: exs) =>
    match ins.mapM place?, rows.mapM (fun r => match r with
        | .list (.atom "row" :: ps) => ps.mapM place?
        | _ => none), exs.mapM Sexp.asAtom? with
    | some inRow, some outRows, some ex =>
      let sig : Wiring.Sig := ⟨inRow, outRows⟩
      match Wiring.deliver sig (ex.map (· == "1")) with
      | none => "err assert"
      | some ds =>
        "ok " ++ showPlaces "inputs" (Wiring.blockInputs (entry == "1") sig) ++ " (" ++
          " ".intercalate ("deliver" :: ds.map (showPlaces "")) ++ ")"
    | _, _, _ => "bad-op"
  | _, _, _ => "bad-op"

/-! `(order (N PARENT KIND EFF)…)`: node insertions in order; PARENT = index or `-`; KIND = f|c|g|o (FuncDefn,
    Conditional, CFG, other); EFF = 0|1 → `ok DUP (edges (a b)…)` (order edges in creation order) -/
def onode? : Sexp → Option OrderEdges.Node
  | .list [.atom "N", .atom par, .atom k, .atom e] =>
    let kind? : Option OrderEdges.Kind := match k with
      | "f" => some .funcDefn | "c" => some .cond | "g" => some .cfg | "o" => some .other | _ => none
    match kind? with
    | some kind => if par == "-" then some ⟨none, kind, e == "1"⟩ else par.toNat?.map fun p => ⟨some p, kind, e == "1"⟩
    | none => none
  | _ => none

def handleOrder (xs : List Sexp) : String :=
  match xs.mapM onode? with
  | some nds =>
    let s := OrderEdges.runAll nds
    s!"ok {if s.dup then 1 else 0} (" ++ " ".intercalate ("edges" :: s.edges.map fun e => s!"({e.1} {e.2})") ++ ")"
  | none => "bad-op"

/-- `(scope BIND F ID X (loc (n d|p k)*) (glob (n d|p k)*) (blt (n k)*))` -> `defn K` | `py K` | `missing`:
    lookup of `X` in the scope with `F` bound to definition `ID` by `bindNested` (BIND = `l`), by the `f_globals` variant
    (BIND = `g`) or not at all (BIND = `-`) -/
def sval? : Sexp → Option (String × Scope.Val)
  | .list [.atom n, .atom "d", k] => k.asNat?.map fun k => (n, .defn k)
  | .list [.atom n, .atom "p", k] => k.asNat?.map fun k => (n, .py k)
  | _ => none
def sblt? : Sexp → Option (String × Nat)
  | .list [.atom n, k] => k.asNat?.map fun k => (n, k)
  | _ => none
def handleScope (bind f : String) (id : Sexp) (x : String) (loc glob blt : Sexp) : String :=
  match id.asNat?, loc, glob, blt with
  | some id, .list (.atom "loc" :: ls), .list (.atom "glob" :: gs), .list (.atom "blt" :: bs) =>
    match ls.mapM sval?, gs.mapM sval?, bs.mapM sblt? with
    | some l, some g, some b =>
      let g0 : Scope.Globals := ⟨l, g, b⟩
      let g1 := if bind == "l" then Scope.bindNested g0 f id else if bind == "g" then Scope.bindNestedInGlobals g0 f id else g0
      match Scope.lookup g1 x with
      | .defn k => s!"defn {k}"
      | .py k => s!"py {k}"
      | .missing => "missing"
    | _, _, _ => "bad-op"
  | _, _, _, _ => "bad-op"

def handle (line : String) : String :=
  match Sexp.parse line with
  | some (.list [.atom "build", .atom rn, body]) =>
    match stmts? body with
    | none => "bad-op"
    | some p =>
      match buildCfg (rn == "1") p with
      | .error e => showErr e
      | .ok g => s!"ok {hsClass p} {showCfg g}"
  | some (.list [.atom "run", .atom rn, body, args, fuel]) =>
    match stmts? body, args? args, fuel.asNat? with
    | some p, some st, some fu => s!"py {runPy p st fu} cfg {runCfg (rn == "1") p st fu}"
    | _, _, _ => "bad-op"
  | some (.list [.atom "wire", .atom entry, inS, outsS, exitsS]) => handleWire entry inS outsS exitsS
  | some (.list (.atom "order" :: xs)) => handleOrder xs
  | some (.list [.atom "scope", .atom bind, .atom f, id, .atom x, loc, glob, blt]) => handleScope bind f id x loc glob blt
  | _ => "bad-op"

def main : IO Unit := do lineLoop (← IO.getStdin) handle
