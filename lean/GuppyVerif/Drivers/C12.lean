import GuppyVerif.Model.Unify
import GuppyVerif.Model.GenCall
import GuppyVerif.Util.Sexp
/-! Line-protocol driver for C12.  One S-expression per line:
      (unify ENV S T SIGMA)   → `fail` | `oof` | `ok SIGMA'`
      (apply SIGMA T)         → term          (one `Substituter` pass)
      (star SIGMA T)          → term          (`|σ|` passes)
      (lin ENV T)             → `true` | `false`
      (gcall ENV (term…) OUT ((c d)…) (N…) (N…) (EX…) TY|synth) → `accept (term…) term` | `mismatch` | `arity` | `bounds` | `infer` | `oof`
                                  EX ::= (val term) | (tup EX…); inputs/OUT use (bv i)/(cbv i) for the parameters
      (cta ENV P0 EXP (N…) ACT) → `mismatch` | `cant-infer i` | `free-vars i` | `oof` | `ok (term…) SIGMA`
    term  ::= (v N) | (bv i) | (cbv i) | (num k) | none | (cv ty val)
            | (fn (flag…) params arg…) | (tup arg…) | (op d arg…) | (st d arg…) | (ta term) | (ca term)
    SIGMA ::= ((N term) …)     ENV ::= ((N…) (N…) (N…) (N…) (N…) (N…))  -- vNoCopy vNoDrop bNoCopy bNoDrop dNoCopy dNoDrop -/
open GuppyVerif GuppyVerif.Unify

partial def tm? : Sexp → Option Tm
  | .atom "none" => some (.atom .none)
  | .list [.atom "v", n] => do some (.var (← n.asNat?))
  | .list [.atom "bv", n] => do some (.atom (.bvar (← n.asNat?)))
  | .list [.atom "cbv", n] => do some (.atom (.cbvar (← n.asNat?)))
  | .list [.atom "num", n] => do some (.atom (.num (← n.asNat?)))
  | .list [.atom "cv", a, b] => do some (.atom (.cval (← a.asNat?) (← b.asNat?)))
  | .list [.atom "ta", t] => do some (.targ (← tm? t))
  | .list [.atom "ca", t] => do some (.carg (← tm? t))
  | .list (.atom "fn" :: fl :: p :: args) => do
      some (.node (.func (← fl.natList?) (← p.asNat?)) (← args.mapM tm?))
  | .list (.atom "tup" :: args) => do some (.node .tuple (← args.mapM tm?))
  | .list (.atom "op" :: d :: args) => do some (.node (.opaque (← d.asNat?)) (← args.mapM tm?))
  | .list (.atom "st" :: d :: args) => do some (.node (.struct (← d.asNat?)) (← args.mapM tm?))
  | _ => none

def subst? : Sexp → Option Subst
  | .list xs => xs.mapM fun
    | .list [n, t] => do some (← n.asNat?, ← tm? t)
    | _ => none
  | _ => none

def env? : Sexp → Option Env
  | .list [a, b, c, d, e, f] => do
    some ⟨← a.natList?, ← b.natList?, ← c.natList?, ← d.natList?, ← e.natList?, ← f.natList?⟩
  | _ => none

partial def showTm : Tm → String
  | .var v => s!"(v {v})"
  | .atom (.bvar i) => s!"(bv {i})"
  | .atom (.cbvar i) => s!"(cbv {i})"
  | .atom (.num k) => s!"(num {k})"
  | .atom .none => "none"
  | .atom (.cval a b) => s!"(cv {a} {b})"
  | .targ t => s!"(ta {showTm t})"
  | .carg t => s!"(ca {showTm t})"
  | .node h as =>
    let hd := match h with
      | .func fl p => "fn (" ++ " ".intercalate (fl.map toString) ++ s!") {p}"
      | .tuple => "tup"
      | .opaque d => s!"op {d}"
      | .struct d => s!"st {d}"
    "(" ++ " ".intercalate (hd :: as.map showTm) ++ ")"

partial def ex? : Sexp → Option Ex
  | .list [.atom "val", t] => do some (.val (← tm? t))
  | .list (.atom "tup" :: es) => do some (.tup (← es.mapM ex?))
  | _ => none

def bounds? : Sexp → Option (List (Bool × Bool))
  | .list xs => xs.mapM fun
    | .list [a, b] => do some ((← a.asNat?) != 0, (← b.asNat?) != 0)
    | _ => none
  | _ => none

def showOut : CallOut → String
  | .oof => "oof"
  | .arity => "arity"
  | .mismatch => "mismatch"
  | .infer => "infer"
  | .bounds => "bounds"
  | .accept ins ret => "accept (" ++ " ".intercalate (ins.map showTm) ++ ") " ++ showTm ret

def showSubst (σ : Subst) : String :=
  "(" ++ " ".intercalate (σ.map fun (v, t) => s!"({v} {showTm t})") ++ ")"


/-- the fuel `unify_terminates_explicit` proves sufficient for the one `unify` call made by `checkAgainst` -/
def callFuel (p0 : Nat) (exp : Tm) (fresh : List V) (act : Tm) : Nat :=
  match act with
  | .node (.func fl _) args => fuelBound exp (.node (.func fl p0) (instBList (fresh.map .var) args)) []
  | _ => 1

def handle (line : String) : String :=
  match Sexp.parse line with
  | some (.list [.atom "unify", e, s, t, sg]) =>
    match env? e, tm? s, tm? t, subst? sg with
    | some E, some s, some t, some σ =>
      match unify E (fuelBound s t σ) s t σ with
      | .oof => "oof"
      | .fail => "fail"
      | .ok σ' => "ok " ++ showSubst σ'
    | _, _, _, _ => "bad-op"
  | some (.list [.atom "apply", sg, t]) =>
    match subst? sg, tm? t with
    | some σ, some t => showTm (apply σ t)
    | _, _ => "bad-op"
  | some (.list [.atom "star", sg, t]) =>
    match subst? sg, tm? t with
    | some σ, some t => showTm (applyStar σ t)
    | _, _ => "bad-op"
  | some (.list [.atom "gcall", e, ins, out, bs, f1, f2, es, ty]) =>
    match env? e, ins.asList?.bind (·.mapM tm?), tm? out, bounds? bs, f1.natList?, f2.natList?,
          es.asList?.bind (·.mapM ex?) with
    | some E, some ins, some out, some bs, some f1, some f2, some es =>
      let sg : Sig := ⟨ins, out, bs⟩
      match ty with
      | .atom "synth" => showOut (synthCall E sg f1 es)
      | t => match tm? t with
        | some t => showOut (checkCall E sg f1 f2 es t)
        | none => "bad-op"
    | _, _, _, _, _, _, _ => "bad-op"
  | some (.list [.atom "cta", e, p0, x, fr, a]) =>
    match env? e, p0.asNat?, tm? x, fr.natList?, tm? a with
    | some E, some p0, some x, some fr, some a =>
      match checkAgainst E (callFuel p0 x fr a) p0 x fr a with
      | .oof => "oof"
      | .mismatch => "mismatch"
      | .cantInfer i => s!"cant-infer {i}"
      | .freeVars i => s!"free-vars {i}"
      | .ok inst σ => "ok (" ++ " ".intercalate (inst.map showTm) ++ ") " ++ showSubst σ
    | _, _, _, _, _ => "bad-op"
  | some (.list [.atom "lin", e, t]) =>
    match env? e, tm? t with
    | some E, some t => toString (linear E t)
    | _, _ => "bad-op"
  | _ => "bad-op"

def main : IO Unit := do lineLoop (← IO.getStdin) handle
