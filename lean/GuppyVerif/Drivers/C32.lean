import GuppyVerif.Spec.C32
import GuppyVerif.Util.Sexp
/-! Line-protocol driver for C32.  Request: `disp <Kind> <field>`; reply: the disposition the model
    computes from the regenerated tables (`handled|rejected|ignored|nodeRejected|unreachable`), followed
    by ` covered` / ` uncovered`. -/
open GuppyVerif GuppyVerif.C32

def showDisp : Disp → String
  | .handled => "handled" | .rejected => "rejected" | .ignored => "ignored"
  | .nodeRejected => "nodeRejected" | .unreachable => "unreachable"

def handle (line : String) : String :=
  match (line.splitOn " ").filter (· ≠ "") |>.map (·.trimAscii.toString) |>.filter (· ≠ "") with
  | ["disp", k, f] =>
    match kindNames.lookup k, fieldNames.lookup f with
    | some k, some f =>
      showDisp (disp tables fuel k f) ++ (if coveredB tables k f then " covered" else " uncovered")
    | _, _ => "unknown"
  | _ => "bad-op"

def main : IO Unit := do lineLoop (← IO.getStdin) handle
