import GuppyVerif.Model.IntLit
import GuppyVerif.Util.Sexp
/-! Line-protocol driver for C17 (K = nat|int|float, V = decimal integer, lists comma separated, `-` = empty):
    `const K V` | `comptime K V` | `lit K NEGS N` | `synth NEGS N` | `tuple K,K,… V,V,…` | `list K V,V,…`
    | `payload K V` | `eval NEGS N` -/
open GuppyVerif GuppyVerif.IntLit GuppyVerif.IntSem

def kind? : String → Option Kind
  | "nat" => some .nat | "int" => some .int | "float" => some .float | _ => none

def showKind : Kind → String
  | .nat => "nat" | .int => "int" | .float => "float"

def showRes : Res → String
  | .ok k => "ok:" ++ showKind k
  | .overflow => "overflow" | .mismatch => "mismatch" | .incoherent => "incoherent"

def csv (s : String) : List String := if s == "-" then [] else s.splitOn ","

def mkLit (negs n : Nat) : Lit := negs.fold (fun _ _ l => .neg l) (.pos n)

def allSome {α} : List (Option α) → Option (List α)
  | [] => some []
  | none :: _ => none
  | some x :: xs => (allSome xs).map (x :: ·)

def countNeg : Folded → Nat
  | .const _ => 0
  | .negOp e => countNeg e + 1

def innerConst : Folded → Int
  | .const v => v
  | .negOp e => innerConst e

def handle (line : String) : String :=
  match (line.splitOn " ").filter (· ≠ "") |>.map (·.trimAscii.toString) |>.filter (· ≠ "") with
  | ["const", k, v] => match kind? k, v.toInt? with
    | some k, some v => showRes (checkConst v k) | _, _ => "bad-op"
  | ["comptime", k, v] => match kind? k, v.toInt? with
    | some k, some v => showRes (checkComptime v k) | _, _ => "bad-op"
  | ["lit", k, negs, n] => match kind? k, negs.toNat?, n.toNat? with
    | some k, some negs, some n => showRes (checkLit (mkLit negs n) k) | _, _, _ => "bad-op"
  | ["synth", negs, n] => match negs.toNat?, n.toNat? with
    | some negs, some n => showRes (synthFolded (fold (mkLit negs n))) | _, _ => "bad-op"
  | ["tuple", ks, vs] => match allSome ((csv ks).map kind?), allSome ((csv vs).map String.toInt?) with
    | some ks, some vs => match checkComptimeTuple vs ks with
      | .ok _ => "ok" | r => showRes r
    | _, _ => "bad-op"
  | ["list", k, vs] => match kind? k, allSome ((csv vs).map String.toInt?) with
    | some k, some vs => showRes (checkComptimeList vs k) | _, _ => "bad-op"
  | ["payload", k, v] => match kind? k, v.toInt? with
    | some k, some v => match payload v k with
      | some u => s!"some {u}" | none => "none"
    | _, _ => "bad-op"
  | ["eval", negs, n] => match negs.toNat?, n.toNat? with
    | some negs, some n =>
      let f := fold (mkLit negs n)
      match payload (innerConst f) .int, evalFolded f with
      | some u, some w => s!"u={u} negs={countNeg f} val={w.toInt}"
      | _, _ => "none"
    | _, _ => "bad-op"
  | _ => "bad-op"

def main : IO Unit := do lineLoop (← IO.getStdin) handle
