import GuppyVerif.Model.CopyDrop
import GuppyVerif.Gen.C14TypeDefs
/-! Line-protocol driver for C14.  Requests (type syntax: `Model/Ty.lean`, `TySexp`):
    `all <ty>`    → `cp=<0|1> dr=<0|1> hb=<C|L|err> tb=<C|L|-> rd=<0|1|-> h=<hugr|err>`  (or `unknown-def`)
    `fields <ty>` → `(<ty> ...)` the instantiated field types of a struct type, or `err` -/
open GuppyVerif GuppyVerif.CopyDrop

def D := GuppyVerif.CopyDrop.Gen.typeDefs
def aff := GuppyVerif.CopyDrop.Gen.affineExtTys

def b01 (b : Bool) : String := if b then "1" else "0"

def handle (line : String) : String :=
  match Sexp.parse ("(" ++ line ++ ")") with
  | some (.list [.atom "all", e]) =>
    match TySexp.ty? e with
    | none => "bad-type"
    | some t =>
      if !known D t then "unknown-def" else
      let hb := match hugrBound D t with | some b => showB b | none => "err"
      let (tb, rd, h) := match toHugr D t with
        | some h => (showB (typeBound h), b01 (requiresDrop aff h), showH h)
        | none => ("-", "-", "err")
      s!"cp={b01 (copyable D t)} dr={b01 (droppable D t)} hb={hb} tb={tb} rd={rd} h={h}"
  | some (.list [.atom "fields", e]) =>
    match TySexp.ty? e with
    | some (.struct _ as fs) =>
      match Ty.structFields as fs with
      | some ts => toString (Sexp.list (ts.map TySexp.showTy))
      | none => "err"
    | _ => "bad-type"
  | _ => "bad-op"

def main : IO Unit := do lineLoop (← IO.getStdin) handle
