import GuppyVerif.Spec.C21
import GuppyVerif.Util.Sexp
/-! Line-protocol driver for C21.
    `bin <Op> <t|c> <ty> <t|c> <ty>` → `reg=<sel> ct=<sel> agree=<bool>`   (sel = `ty.__dunder__/swapped` | `none` | `n/a`)
    `un <UOp> <ty>`                  → `reg=<dunder|none> ct=<dunder|none>` -/
open GuppyVerif GuppyVerif.C21

def ty? : String → Option NTy
  | "bool" => some .bool | "nat" => some .nat | "int" => some .int | "float" => some .float | _ => none

def showTy : NTy → String
  | .bool => "bool" | .nat => "nat" | .int => "int" | .float => "float"

def operand? (k t : String) : Option Operand := do
  let t ← ty? t
  match k with
  | "t" => some (.traced t) | "c" => some (.const t) | _ => none

def dname (d : Dunder) : String := (dunderNames.lookup d).getD "?"

def showSel : Option Sel → String
  | none => "none"
  | some s => s!"{showTy s.ty}.{dname s.dunder}/{if s.swapped then 1 else 0}"

def handle (line : String) : String :=
  match (line.splitOn " ").filter (· ≠ "") |>.map (·.trimAscii.toString) |>.filter (· ≠ "") with
  | ["bin", op, lk, lt, rk, rt] =>
    match opNames.lookup op, operand? lk lt, operand? rk rt with
    | some op, some l, some r =>
      let rg := regularO tables op l r
      let ct := comptime tables op l r
      let cs := match ct with | some c => showSel c | none => "n/a"
      s!"reg={showSel rg} ct={cs} agree={Agree tables op ct rg}"
    | _, _, _ => "bad-op"
  | ["un", op, t] =>
    match uopNames.lookup op, ty? t with
    | some op, some t =>
      let sh (d : Option Dunder) := match d with | some d => dname d | none => "none"
      s!"reg={sh (regularU tables op t)} ct={sh (comptimeU tables op t)}"
    | _, _ => "bad-op"
  | _ => "bad-op"

def main : IO Unit := do lineLoop (← IO.getStdin) handle
