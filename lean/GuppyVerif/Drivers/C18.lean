import GuppyVerif.Model.Range
import GuppyVerif.Spec.C18
import GuppyVerif.Util.Sexp
/-! Line-protocol driver for C18.  Requests (all numbers decimal, possibly negative):
    `next <next> <stop> <step>`            one call of `Range.__next__`: `none` | `some <v> <next> <stop> <step>`
    `r3 <start> <stop> <step> <cap>`       drive `_range3(..)` at most `cap` steps: `<done|more> v1 v2 …`
    `r2 <start> <stop> <cap>` / `r1 <stop> <cap>`   likewise for `_range2`, `_range1`
    `rc <n> <cap>`                         `_range_comptime(n)`: `size=<n> <done|more> v1 v2 …`
    `py <start> <stop> <step> <cap>`       the SPEC's `pyLen`/`pyRange`: `<len> v1 … v_min(len,cap)` -/
open GuppyVerif GuppyVerif.Range

def showRun (cap : Nat) (r : Range) : String :=
  let res := run cap r
  let flag := if res.2.done then "done" else "more"
  " ".intercalate (flag :: res.1.map toString)

def handle (line : String) : String :=
  let toks := (line.splitOn " ").map (·.trimAscii.toString) |>.filter (· ≠ "")
  match toks with
  | ["next", a, b, c] =>
    match a.toInt?, b.toInt?, c.toInt? with
    | some a, some b, some c =>
      match (Range.mk a b c).next? with
      | none => "none"
      | some (v, r) => s!"some {v} {r.next} {r.stop} {r.step}"
    | _, _, _ => "bad-op"
  | ["r3", a, b, c, cap] =>
    match a.toInt?, b.toInt?, c.toInt?, cap.toNat? with
    | some a, some b, some c, some cap => showRun cap (range3 a b c)
    | _, _, _, _ => "bad-op"
  | ["r2", a, b, cap] =>
    match a.toInt?, b.toInt?, cap.toNat? with
    | some a, some b, some cap => showRun cap (range2 a b)
    | _, _, _ => "bad-op"
  | ["r1", b, cap] =>
    match b.toInt?, cap.toNat? with
    | some b, some cap => showRun cap (range1 b)
    | _, _ => "bad-op"
  | ["rc", n, cap] =>
    match n.toNat?, cap.toNat? with
    | some n, some cap =>
      let s := rangeComptime n
      s!"size={s.size} " ++ showRun cap s.iter
    | _, _ => "bad-op"
  | ["py", a, b, c, cap] =>
    match a.toInt?, b.toInt?, c.toInt?, cap.toNat? with
    | some a, some b, some c, some cap =>
      let len := pyLen a b c
      let vals : List Int :=
        if len ≤ cap then pyRange a b c
        else (List.range cap).map (fun (i : Nat) => a + (i : Int) * c)
      " ".intercalate (toString len :: vals.map toString)
    | _, _, _, _ => "bad-op"
  | _ => "bad-op"

def main : IO Unit := do lineLoop (← IO.getStdin) handle
