import GuppyVerif.Model.Coll
import GuppyVerif.Util.Sexp
/-! Line-protocol driver for C27.  Request: `stack <cap> <op>*` or `pq <cap> <op>*` with
    op = `push:<v>:<p>` | `pop` | `peek` | `len` | `next`.
    Reply: results separated by spaces (`u`, `v:<p>:<x>`, `n:<k>`, `done`, `panic:<err>`), then
    ` | ` and the final state (`<size> <cell>*`, cell = `_` or `<p>:<x>`; Stack cells `0:<x>`), or
    `aborted` when the script panicked / the collection was consumed by `next`. -/
open GuppyVerif GuppyVerif.Coll

def op? (t : String) : Option (Op Int) :=
  match t.splitOn ":" with
  | ["push", v, p] => do some (.push (← v.toInt?) (← p.toInt?))
  | ["pop"] => some .pop
  | ["peek"] => some .peek
  | ["len"] => some .len
  | ["next"] => some .next
  | _ => none

def showRes : Res Int → String
  | .unit => "u"
  | .val p x => s!"v:{p}:{x}"
  | .num n => s!"n:{n}"
  | .done => "done"
  | .panic e => "panic:" ++ e.toString

def aborted : List (Res Int) → Bool
  | [] => false
  | [.panic _] => true
  | [.done] => true
  | _ :: rest => aborted rest

/-- final state after a script (none if aborted) -/
def finalStack (cap : Nat) : Stack Int → List (Op Int) → Option (Stack Int)
  | s, [] => some s
  | s, .push v _ :: ops => match s.push cap v with | .ok s' => finalStack cap s' ops | .error _ => none
  | s, .pop :: ops => match s.pop with | .ok (_, s') => finalStack cap s' ops | .error _ => none
  | s, .peek :: ops => match s.peek with | .ok (_, s') => finalStack cap s' ops | .error _ => none
  | s, .len :: ops => finalStack cap s ops
  | s, .next :: ops => match s.next with | .ok (some (_, s')) => finalStack cap s' ops | _ => none

def finalPQ (cap : Nat) : PQ Int → List (Op Int) → Option (PQ Int)
  | s, [] => some s
  | s, .push v p :: ops => match s.push cap v p with | .ok s' => finalPQ cap s' ops | .error _ => none
  | s, .pop :: ops => match s.pop with | .ok (_, _, s') => finalPQ cap s' ops | .error _ => none
  | s, .peek :: ops => match s.peek with | .ok (_, _, s') => finalPQ cap s' ops | .error _ => none
  | s, .len :: ops => finalPQ cap s ops
  | s, .next :: ops => match s.next with | .ok (some (_, s')) => finalPQ cap s' ops | _ => none

def showCellS : Option Int → String
  | none => "_" | some x => s!"0:{x}"
def showCellP : Option (Int × Int) → String
  | none => "_" | some (p, x) => s!"{p}:{x}"

def handle (line : String) : String :=
  match (line.splitOn " ").map (·.trimAscii.toString) |>.filter (· ≠ "") with
  | kind :: cap :: ops =>
    match cap.toNat?, ops.mapM op? with
    | some cap, some ops =>
      if kind == "stack" then
        let rs := runStack cap (Stack.empty cap) ops
        let st := match finalStack cap (Stack.empty cap) ops with
          | some s => " ".intercalate (toString s.end_ :: s.buf.map showCellS) | none => "aborted"
        " ".intercalate (rs.map showRes) ++ " | " ++ st
      else if kind == "pq" then
        let rs := runPQ cap (PQ.empty cap) ops
        let st := match finalPQ cap (PQ.empty cap) ops with
          | some s => " ".intercalate (toString s.size :: s.buf.map showCellP) | none => "aborted"
        " ".intercalate (rs.map showRes) ++ " | " ++ st
      else "bad-op"
    | _, _ => "bad-op"
  | _ => "bad-op"

def main : IO Unit := do lineLoop (← IO.getStdin) handle
