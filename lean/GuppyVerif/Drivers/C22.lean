import GuppyVerif.Model.TraceOwn
import GuppyVerif.Util.Sexp
/-! Line-protocol driver for C22.  Request: `trace <op>*` with ops `cXY` (create, X = copyable, Y = droppable,
    as 0/1), `u<id>`, `b<id>`, `r<id>`, `m0` / `m1` (mutate non-frozen / frozen).
    Reply: `ok` | `alreadyUsed` | `leaked` | `frozen` | `badId` | `bad-op`. -/
open GuppyVerif GuppyVerif.TraceOwn

def op? (t : String) : Option Op :=
  match t.toList with
  | ['c', x, y] => some (.create (x == '1') (y == '1'))
  | 'u' :: r => (String.ofList r).toNat?.map .use
  | 'b' :: r => (String.ofList r).toNat?.map .borrow
  | 'r' :: r => (String.ofList r).toNat?.map .reset
  | ['m', x] => some (.mutate (x == '1'))
  | _ => none

def showRes : Except Err Unit → String
  | .ok _ => "ok"
  | .error .alreadyUsed => "alreadyUsed"
  | .error .leaked => "leaked"
  | .error .frozen => "frozen"
  | .error .badId => "badId"

def handle (line : String) : String :=
  match (line.splitOn " ").filter (· ≠ "") |>.map (·.trimAscii.toString) |>.filter (· ≠ "") with
  | "trace" :: toks =>
    match toks.mapM op? with
    | some ops => showRes (trace ops)
    | none => "bad-op"
  | _ => "bad-op"

def main : IO Unit := do lineLoop (← IO.getStdin) handle
