import GuppyVerif.Model.TraceOwn
import GuppyVerif.Util.Sexp
/-! Line-protocol driver for C22.  Request: `trace <op>*` with ops `cXY` (create, X = copyable, Y = droppable,
    as 0/1), `u<id>`, `b<id>`, `r<id>`, `m0` / `m1` (mutate non-frozen / frozen).
    Reply: `ok` | `alreadyUsed` | `leaked` | `frozen` | `badId` | `bad-op`.
    `unpack <0|1 frozen> <shape> <path steps e|0|1>` → `frozen` | `ok` | `invalid`. -/
open GuppyVerif GuppyVerif.TraceOwn

def op? (t : String) : Option Op :=
  match t.toList with
  | ['c', x, y] => some (.create (x == '1') (y == '1'))
  | 'u' :: r => (String.ofList r).toNat?.map .use
  | 'b' :: r => (String.ofList r).toNat?.map .borrow
  | 'r' :: r => (String.ofList r).toNat?.map .reset
  | ['m', x] => some (.mutate (x == '1'))
  | _ => none

def showRes : Except Err Unit → String
  | .ok _ => "ok"
  | .error .alreadyUsed => "alreadyUsed"
  | .error .leaked => "leaked"
  | .error .frozen => "frozen"
  | .error .badId => "badId"

/-- prefix shape syntax: `L` | `A <s>` | `S <s> <s>` | `T <s> <s>` -/
partial def shape? : List String → Option (Shape × List String)
  | "L" :: r => some (.leaf, r)
  | "A" :: r => do let (e, r) ← shape? r; some (.arr e, r)
  | "S" :: r => do let (a, r) ← shape? r; let (b, r) ← shape? r; some (.struct a b, r)
  | "T" :: r => do let (a, r) ← shape? r; let (b, r) ← shape? r; some (.tuple a b, r)
  | _ => none

def step? : String → Option Step
  | "e" => some .elem | "0" => some .fst | "1" => some .snd | _ => none

def handle (line : String) : String :=
  match (line.splitOn " ").filter (· ≠ "") |>.map (·.trimAscii.toString) |>.filter (· ≠ "") with
  | "trace" :: toks =>
    match toks.mapM op? with
    | some ops => showRes (trace ops)
    | none => "bad-op"
  | "unpack" :: fr :: toks =>
    match shape? toks with
    | some (sh, path) =>
      match path.mapM step? with
      | some p => match mutateAt (unpack (fr == "1") sh) p with
        | .ok _ => "ok" | .error .frozen => "frozen" | .error _ => "invalid"
      | none => "bad-op"
    | none => "bad-op"
  | _ => "bad-op"

def main : IO Unit := do lineLoop (← IO.getStdin) handle
