import GuppyVerif.Model.ArraySem
import GuppyVerif.Util.Sexp
/-! Line-protocol driver for C19 (one S-expression per line).

  (emit getitem <lin>) | (emit setitem <lin>) | (emit inout <callee>) | (emit unpack l r <starred> n)
  | (emit discard <lin>) | (emit copy) | (emit compbody)          -> the model's emission, printed as
        (prog nin ((name (params) (args) nout) …) (outs))
  (run <prog> (<val> …))        -> run an (extracted) op list; `call` is interpreted as +1000
        val  = (int i) | (usize n) | (elem v) | (arr <cell>…)   cell = `_` (lent) or an integer
  (getitem <lin> (<cell>…) i) | (setitem <lin> (<cell>…) i v)
  (next <lin> (<cell>…) i)      -> ArrayIter.__next__
  (drain <lin> (<cell>…) i fuel)
  (fnext (e…) i)                -> FrozenarrayIter.__next__
  (comp n (e…))                 -> the comprehension loop on the generated elements
  (emit comploop n) | (comploop n (<cell>…) fuel)  -> the whole comprehension loop structure / its run (element expr = +1000)
  <lin> = 0 | 1
 replies: `ok …` | `panic <name>` | `bad-request`. -/
open GuppyVerif GuppyVerif.ArraySem

def hexDigit (n : Nat) : Char := if n < 10 then Char.ofNat (48 + n) else Char.ofNat (87 + n)

def encodeAtom (s : String) : String :=
  let out := s.toList.foldl (fun acc c =>
    if c.isAlphanum || c == '_' || c == '-' || c == '.' then acc.push c
    else if c.toNat < 256 then (acc.push '%').push (hexDigit (c.toNat / 16)) |>.push (hexDigit (c.toNat % 16))
    else acc ++ "%u") ""
  if out.isEmpty then "%" else out

def showOp : Op → String × List String
  | .itousize => ("itousize", [])
  | .get => ("get", [])
  | .set => ("set", [])
  | .borrow => ("borrow", [])
  | .ret => ("return", [])
  | .popLeft n => ("pop_left", [toString n])
  | .popRight n => ("pop_right", [toString n])
  | .discardEmpty => ("discard_empty", [])
  | .discardAllBorrowed => ("discard_all_borrowed", [])
  | .newAllBorrowed n => ("new_all_borrowed", [toString n])
  | .clone => ("clone", [])
  | .unwrap t m => ("unwrap", [toString t, m])
  | .call n => ("call", [n])
  | .const v => ("const", [toString v])
  | .iadd => ("iadd", [])
  | .other n => (n, [])

def showProg (p : Prog) : String :=
  let items := p.instrs.map fun i =>
    let (n, ps) := showOp i.op
    s!"({encodeAtom n} ({" ".intercalate (ps.map encodeAtom)}) ({" ".intercalate (i.args.map toString)}) {i.nout})"
  s!"(prog {p.nin} ({" ".intercalate items}) ({" ".intercalate (p.outs.map toString)}))"

def showCompLoop (L : CompLoop) : String :=
  s!"(comploop {L.initLen} {L.initCount} {L.arrPort} {L.countPort} ({" ".intercalate (L.nonePass.map toString)}) {showProg L.body} {L.breakTag} {L.contTag} {L.resultPort})"

def parseOp (name : String) (ps : List String) : Op :=
  match name, ps with
  | "itousize", [] => .itousize
  | "get", [] => .get
  | "set", [] => .set
  | "borrow", [] => .borrow
  | "return", [] => .ret
  | "pop_left", [n] => match n.toNat? with | some k => .popLeft k | none => .other name
  | "pop_right", [n] => match n.toNat? with | some k => .popRight k | none => .other name
  | "discard_empty", [] => .discardEmpty
  | "discard_all_borrowed", [] => .discardAllBorrowed
  | "new_all_borrowed", [n] => match n.toNat? with | some k => .newAllBorrowed k | none => .other name
  | "clone", [] => .clone
  | "unwrap", [t, m] => match t.toNat? with | some k => .unwrap k m | none => .other name
  | "call", [n] => .call n
  | "const", [v] => match v.toInt? with | some k => .const k | none => .other name
  | "iadd", [] => .iadd
  | _, _ => .other name

def parseInstr : Sexp → Option Instr
  | .list [.atom name, .list ps, args, .atom nout] => do
    let ps ← ps.mapM Sexp.asAtom?
    let args ← Sexp.natList? args
    let nout ← nout.toNat?
    some ⟨parseOp name ps, args, nout⟩
  | _ => none

def parseProg : Sexp → Option Prog
  | .list [.atom "prog", .atom nin, .list is, outs] => do
    let nin ← nin.toNat?
    let is ← is.mapM parseInstr
    let outs ← Sexp.natList? outs
    some ⟨nin, is, outs⟩
  | _ => none

def parseCells : List Sexp → Option (Cells Int)
  | [] => some []
  | .atom "_" :: r => do some (none :: (← parseCells r))
  | .atom s :: r => do some (some (← s.toInt?) :: (← parseCells r))
  | _ => none

def parseVal : Sexp → Option (Val Int)
  | .list [.atom "int", .atom i] => do some (vInt (← i.toInt?))
  | .list [.atom "usize", .atom i] => do some (vUsize (← i.toNat?))
  | .list [.atom "elem", .atom i] => do some (vElem (← i.toInt?))
  | .list (.atom "arr" :: cs) => do some (vArr (← parseCells cs))
  | _ => none

def showCells (c : Cells Int) : String :=
  "(" ++ " ".intercalate (c.map fun | none => "_" | some v => toString v) ++ ")"

def showAtom : Atom Int → String
  | .int i => s!"(int {i})"
  | .usize n => s!"(usize {n})"
  | .elem v => s!"(elem {v})"
  | .arr c => "(arr" ++ String.join (c.map fun | none => " _" | some v => s!" {v}") ++ ")"

def showVal : Val Int → String
  | .atom a => showAtom a
  | .sum t vs => s!"(sum {t} {" ".intercalate (vs.map showAtom)})"

def showPanic : Panic → String
  | .indexOob => "panic indexOob"
  | .alreadyBorrowed => "panic alreadyBorrowed"
  | .notBorrowed => "panic notBorrowed"
  | .notAllBorrowed => "panic notAllBorrowed"
  | .unwrapFail m => "panic unwrapFail " ++ encodeAtom m
  | .illTyped => "panic illTyped"

def reply {β} (sh : β → String) : M β → String
  | .ok v => "ok " ++ sh v
  | .error e => showPanic e

def lin? : Sexp → Option Bool
  | .atom "0" => some false
  | .atom "1" => some true
  | _ => none

def handleSexp : Sexp → Option String
  | .list [.atom "emit", .atom "getitem", l] => do some (showProg (emitGetitem (← lin? l)))
  | .list [.atom "emit", .atom "setitem", l] => do some (showProg (emitSetitem (← lin? l)))
  | .list [.atom "emit", .atom "inout", .atom c] => some (showProg (emitInout c))
  | .list [.atom "emit", .atom "unpack", .atom l, .atom r, s, .atom n] => do
    some (showProg (emitUnpack (← l.toNat?) (← r.toNat?) (← lin? s) (← n.toNat?)))
  | .list [.atom "emit", .atom "unpacknamed", .atom l, .atom r, s, .atom n, names] => do
    some (showProg (emitUnpackNamed (← l.toNat?) (← r.toNat?) (← lin? s) (← n.toNat?) (← Sexp.natList? names)))
  | .list [.atom "emit", .atom "discard", l] => do some (showProg (emitDiscardAllUsed (← lin? l)))
  | .list [.atom "emit", .atom "copy"] => some (showProg emitCopy)
  | .list [.atom "emit", .atom "compbody"] => some (showProg emitCompBody)
  | .list [.atom "emit", .atom "comploop", .atom n] => do some (showCompLoop (emitCompLoop (← n.toNat?)))
  | .list [.atom "comploop", .atom n, .list cs, .atom fuel] => do
    let r := runComp (emitCompLoop (← n.toNat?)) (· + 1000) (← fuel.toNat?) (← parseCells cs)
    some (reply (fun
      | none => "fuel"
      | some v => showVal v) r)
  | .list [.atom "run", p, .list vs] => do
    let p ← parseProg p
    let vs ← vs.mapM parseVal
    some (reply (fun os => " ".intercalate (os.map showVal)) (run (· + 1000) p vs))
  | .list [.atom "getitem", l, .list cs, .atom i] => do
    let r := getitem (← lin? l) (← parseCells cs) (← i.toInt?)
    some (reply (fun (v, a) => s!"{v} {showCells a}") r)
  | .list [.atom "setitem", l, .list cs, .atom i, .atom v] => do
    let r := setitem (← lin? l) (← parseCells cs) (← i.toInt?) (← v.toInt?)
    some (reply showCells r)
  | .list [.atom "next", l, .list cs, .atom i] => do
    let r := next (← lin? l) ⟨← parseCells cs, ← i.toInt?⟩
    some (reply (fun
      | none => "none"
      | some (v, st) => s!"some {v} {showCells st.xs} {st.i}") r)
  | .list [.atom "drain", l, .list cs, .atom i, .atom fuel] => do
    let r := drain (← lin? l) (← fuel.toNat?) ⟨← parseCells cs, ← i.toInt?⟩
    some (reply (fun
      | none => "fuel"
      | some es => "(" ++ " ".intercalate (es.map toString) ++ ")") r)
  | .list [.atom "fnext", .list es, .atom i] => do
    let es ← es.mapM Sexp.asInt?
    let r := fnext (α := Int) ⟨es, ← i.toInt?⟩
    some (reply (fun
      | none => "none"
      | some (v, st) => s!"some {v} {st.i}") r)
  | .list [.atom "comp", .atom n, .list es] => do
    let es ← es.mapM Sexp.asInt?
    let r := es.foldlM compStep (compInit (α := Int) (← n.toNat?))
    some (reply (fun (a, c) => s!"{showCells a} {c}") r)
  | _ => none

def handle (line : String) : String :=
  match Sexp.parse line with
  | some e => (handleSexp e).getD "bad-request"
  | none => "bad-request"

def main : IO Unit := do lineLoop (← IO.getStdin) handle
