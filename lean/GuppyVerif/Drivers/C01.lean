import GuppyVerif.Model.DFWiring
import GuppyVerif.Model.DFVarIdx
import GuppyVerif.Util.Sexp
/-! Line-protocol driver for C01 (wiring model).  One request per line:

    `(n0 <ty> <ret:0|1> (<op> ...))`
      ty  = `(L c d)` | `(S ty ...)` | `(T ty ...)`           (c, d = 0|1: copyable, droppable)
      op  = `(s (sel ...) node port)`   dfg[sub-place] = wire   (selectors outermost first)
          | `(g (sel ...))`             dfg[sub-place]
    The root place is variable `0` (a `%ret` variable when ret=1).  Reply: one item per op,
    `(s <ops>)`, `(g ok node port <ops>)`, `(g err noPort|keyError <place id>)` (script stops),
    then `(loc <w|-> ...)` over `places [0] ty`; ops are `(M n (a b)...)` / `(U n (a b) k)`; finally
    `(rs <#reads> <next node> <#ops> <read wires>)` | `(rs err)`: the same script through `runScript`. -/
open GuppyVerif GuppyVerif.DFWiring

partial def tyOf : Sexp → Option Ty
  | .list (.atom "L" :: .atom c :: .atom d :: []) => some (.leaf (c == "1") (d == "1"))
  | .list (.atom "S" :: cs) => (cs.mapM tyOf).map (Ty.node .struct)
  | .list (.atom "T" :: cs) => (cs.mapM tyOf).map (Ty.node .tuple)
  | _ => none

def showWire (w : Wire) : String := s!"({w.node} {w.port})"

def tyAt (t : Ty) (s : List Nat) : Option Ty := t.at s

/-- the same script through `runScript` (the function `store_script_correct` is about) -/
def sopOf : Sexp → Option SOp
  | .list [.atom "s", path, .atom a, .atom b] => do
    some (.set (← path.natList?) ⟨← a.toNat?, ← b.toNat?⟩)
  | .list [.atom "g", path] => do some (.get (← path.natList?))
  | _ => none

def showRunScript (t : Ty) (n : Nat) (ops : List Sexp) : String :=
  match ops.mapM sopOf with
  | none => "(rs bad)"
  | some script =>
    match runScript t [0] script Locals.empty n with
    | .ok (ws, _, n2, os) => s!"(rs {ws.length} {n2} {os.length}{String.join (ws.map fun w => " " ++ showWire w)})"
    | .error _ => "(rs err)"

def showOp : Op → String
  | .make n ins => s!"(M {n}{String.join (ins.map fun w => " " ++ showWire w)})"
  | .unpack n inp k => s!"(U {n} {showWire inp} {k})"
def showOps (os : List Op) : String := "(" ++ " ".intercalate (os.map showOp) ++ ")"
def showPlace (p : PlaceId) : String := "(" ++ " ".intercalate (p.map toString) ++ ")"

def runOps (t : Ty) (ret : Bool) : List Sexp → Locals → Nat → List String → Option (List String × Option Locals)
  | [], L, _, acc => some (acc.reverse, some L)
  | .list [.atom "s", path, .atom a, .atom b] :: rest, L, n, acc => do
    let s ← path.natList?
    let t' ← tyAt t s
    let (L1, n1, os) := setitem L n (s.reverse ++ [0]) (ret && s.isEmpty) ⟨← a.toNat?, ← b.toNat?⟩ t'
    runOps t ret rest L1 n1 (s!"(s {showOps os})" :: acc)
  | .list [.atom "g", path] :: rest, L, n, acc => do
    let s ← path.natList?
    let t' ← tyAt t s
    match getitem L n (s.reverse ++ [0]) t' with
    | .ok (w, L1, n1, os) => runOps t ret rest L1 n1 (s!"(g ok {w.node} {w.port} {showOps os})" :: acc)
    | .error (.noPort p) => some ((s!"(g err noPort {showPlace p})" :: acc).reverse, none)
    | .error (.keyError p) => some ((s!"(g err keyError {showPlace p})" :: acc).reverse, none)
  | _, _, _, _ => none

def showLowered : DFVarIdx.Lowered → String
  | .var j => s!"v{j}"
  | .arg => "m"
  | .error => "e"

/-- `(vi b0 b1 ...)` (bi = 1: parameter i monomorphised away) | `(vi - k)` (no monomorphisation
    context, k parameters): how each parameter's variable is lowered, then the kept parameter list -/
def handleVarIdx (args : List Sexp) : String :=
  match args with
  | [.atom "-", .atom k] =>
    match k.toNat? with
    | some k => " ".intercalate ((List.range k).map fun i => showLowered (DFVarIdx.varToHugr none i))
    | none => "bad-op"
  | _ =>
    match args.mapM Sexp.asNat? with
    | some bits =>
      let mono := bits.map (· != 0)
      let outs := (List.range mono.length).map fun i => showLowered (DFVarIdx.varToHugr (some mono) i)
      " ".intercalate outs ++ " | " ++ " ".intercalate ((DFVarIdx.remaining mono).map toString)
    | none => "bad-op"

def handle (line : String) : String :=
  match Sexp.parse line with
  | some (.list (.atom "vi" :: args)) => handleVarIdx args
  | some (.list [.atom n0, ty, .atom ret, .list ops]) =>
    match n0.toNat?, tyOf ty with
    | some n, some t =>
      let rs := if ret == "1" then "(rs -)" else showRunScript t n ops
      match runOps t (ret == "1") ops Locals.empty n [] with
      | some (items, some L) =>
        let loc := (places [0] t).map fun q => match L q with
          | some w => showWire w
          | none => "-"
        " ".intercalate (items ++ ["(loc " ++ " ".intercalate loc ++ ")", rs])
      | some (items, none) => " ".intercalate (items ++ [rs])
      | none => "bad-op"
    | _, _ => "bad-op"
  | _ => "bad-op"

def main : IO Unit := do lineLoop (← IO.getStdin) handle
