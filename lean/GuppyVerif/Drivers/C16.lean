import GuppyVerif.Gen.C16Coerce
import GuppyVerif.Util.Sexp
/-! Line-protocol driver for C16 (model instantiated with the regenerated `C16Gen.cfg`):
    `index ACT` → `<read> | <write> | <place>`;  `against ACT EXP` / `expr FORM ACT EXP` → `same` | `coerced <impl>` | `mismatch` | `stuck <why>`
    `operand L R`     → `<result kind> <left impl|same> <right impl|same>` | `none` -/
open GuppyVerif GuppyVerif.Coerce GuppyVerif.IntLit

def kind? : String → Option Kind
  | "nat" => some .nat | "int" => some .int | "float" => some .float | _ => none

def showOut : Out → String
  | .same => "same" | .coerced i => "coerced " ++ i | .mismatch => "mismatch" | .stuck w => "stuck " ++ w

def showOut1 : Out → String
  | .same => "same" | .coerced i => i | .mismatch => "mismatch" | .stuck w => "stuck:" ++ w

def handle (line : String) : String :=
  match (line.splitOn " ").filter (· ≠ "") |>.map (·.trimAscii.toString) |>.filter (· ≠ "") with
  | ["against", a, e] => match kind? a, kind? e with
    | some a, some e => showOut (against C16Gen.cfg a e) | _, _ => "bad-op"
  | ["expr", f, a, e] =>
    let form? : Option Form := match f with
      | "synth" => some .synth | "call" => some .call | "comptime" => some .comptime | _ => none
    match form?, kind? a, kind? e with
    | some f, some a, some e => showOut (checkExpr C16Gen.cfg f a e) | _, _, _ => "bad-op"
  | ["index", a] => match kind? a with
    | some a => s!"{showOut1 (indexRead C16Gen.cfg a)} | {showOut1 (indexWrite C16Gen.cfg a)} | {showOut1 (indexPlace C16Gen.cfg a)}"
    | none => "bad-op"
  | ["operand", l, r] => match kind? l, kind? r with
    | some l, some r => match operand C16Gen.cfg l r with
      | some (k, li, ri) => s!"{tyName k} {showOut1 li} {showOut1 ri}"
      | none => "none"
    | _, _ => "bad-op"
  | _ => "bad-op"

def main : IO Unit := do lineLoop (← IO.getStdin) handle
