import GuppyVerif.Model.Dataflow
import GuppyVerif.Util.Sexp
/-! Line-protocol driver for C09 (also used by C08/C10).  One S-expression per line:
    `(live <cfg> (init v…) (seq b…))`            replay the real pop sequence, print live_before
    `(ass <cfg> (edef v…) (emaybe v…) (seq b…))` replay, print ass_before / maybe_ass_before
    `(liverun <cfg> (init v…) <min|max|last>)`   run with a built-in scheduler
    `(assrun <cfg> (edef v…) (emaybe v…) <min|max|last>)`
    `<cfg> = (cfg (blocks b…) (succ (b c…)…) (dsucc …) (pred …) (dpred …) (used (b v…)…) (assigned …))` -/
open GuppyVerif GuppyVerif.Dataflow

def tbl? (e : Sexp) : Option (Nat → List Nat) := do
  let rows ← e.asList?
  let rows ← rows.drop 1 |>.mapM fun r => do
    let xs ← r.natList?
    match xs with
    | b :: cs => some (b, cs)
    | [] => none
  some fun b => ((rows.find? (·.1 == b)).map (·.2)).getD []

def field? (tag : String) (e : Sexp) : Option (List Nat) :=
  match e with
  | .list (.atom t :: xs) => if t == tag then xs.mapM Sexp.asNat? else none
  | _ => none

def cfg? (e : Sexp) : Option Cfg :=
  match e with
  | .list [.atom "cfg", bl, su, ds, pr, dp, us, asg] => do
    some { blocks := ← field? "blocks" bl, succ := ← tbl? su, dsucc := ← tbl? ds, pred := ← tbl? pr,
           dpred := ← tbl? dp, used := ← tbl? us, assigned := ← tbl? asg }
  | _ => none

def insertSorted (x : Nat) : List Nat → List Nat
  | [] => [x]
  | y :: ys => if x < y then x :: y :: ys else if x == y then y :: ys else y :: insertSorted x ys
def canon (l : List Nat) : List Nat := l.foldr insertSorted []

def showRows (g : Cfg) (f : Blk → List Var) : String :=
  " ".intercalate (g.blocks.map fun b => "(" ++ " ".intercalate ((b :: canon (f b)).map toString) ++ ")")

def sched? : Sexp → Option (List Blk → Blk)
  | .atom "min" => some fun q => q.foldl min (q.headD 0)
  | .atom "max" => some fun q => q.foldl max 0
  | .atom "last" => some fun q => q.getLastD 0
  | _ => none

def handle (line : String) : String :=
  match Sexp.parse line with
  | some (.list [.atom "live", c, i, sq]) =>
    match cfg? c, field? "init" i, field? "seq" sq with
    | some g, some init, some seq =>
      match liveReplay g (liveInit g init) seq with
      | none => "bad-schedule"
      | some t => if t.queue.isEmpty then "ok " ++ showRows g t.vals else "queue-not-empty"
    | _, _, _ => "bad-op"
  | some (.list [.atom "ass", c, d, m, sq]) =>
    match cfg? c, field? "edef" d, field? "emaybe" m, field? "seq" sq with
    | some g, some ed, some em, some seq =>
      match assReplay g ⟨ed, em⟩ (assInit g ⟨ed, em⟩) seq with
      | none => "bad-schedule"
      | some t =>
        if t.queue.isEmpty then "ok " ++ showRows g t.befD ++ " | " ++ showRows g t.befM
        else "queue-not-empty"
    | _, _, _, _ => "bad-op"
  | some (.list [.atom "liverun", c, i, sc]) =>
    match cfg? c, field? "init" i, sched? sc with
    | some g, some init, some sched =>
      match liveRun g sched 100000 (liveInit g init) with
      | none => "no-fuel"
      | some t => "ok " ++ showRows g t.vals
    | _, _, _ => "bad-op"
  | some (.list [.atom "assrun", c, d, m, sc]) =>
    match cfg? c, field? "edef" d, field? "emaybe" m, sched? sc with
    | some g, some ed, some em, some sched =>
      match assRun g ⟨ed, em⟩ sched 100000 (assInit g ⟨ed, em⟩) with
      | none => "no-fuel"
      | some t => "ok " ++ showRows g t.befD ++ " | " ++ showRows g t.befM
    | _, _, _, _ => "bad-op"
  | _ => "bad-op"

def main : IO Unit := do lineLoop (← IO.getStdin) handle
