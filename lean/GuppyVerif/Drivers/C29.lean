import GuppyVerif.Model.Render
import GuppyVerif.Util.Sexp
/-! Line-protocol driver for C29.  Strings travel as lists of code points.
    Requests (one S-expression per line):
      `(wrap W (text) (initial) (subsequent))`
      `(snip (content) (l c l c) LABEL MAXLINENO PRIMARY PREFIX)`      LABEL = `none` | `(codes)`
      `(tospan ((line) (line) ...) (lineno col_offset end_lineno end_col_offset))`  -> `span l c l c`
      `(hist (OP ...) (file) (l c l c) LABEL MAXLINENO PRIMARY PREFIX)`   OP = `(cache (file) ((line) ...))` | `(content (file) (text))`
      `(diag (file) (content) (LEVEL SPAN (title) LABEL MESSAGE (CHILD ...)))`
          SPAN = `none` | `(l c l c)`; CHILD = `(LEVEL SPAN LABEL MESSAGE)`
    Replies: `ok (codes) (codes) ...` one list per rendered line, or `err assertion|internal|value`. -/
open GuppyVerif GuppyVerif.Render

def str? (e : Sexp) : Option Str := do
  let ns ← e.natList?
  some (ns.map Char.ofNat)

def optStr? : Sexp → Option (Option Str)
  | .atom "none" => some none
  | e => do some (some (← str? e))

def span? : Sexp → Option Span
  | .list [a, b, c, d] => do some ⟨⟨← a.asNat?, ← b.asNat?⟩, ⟨← c.asNat?, ← d.asNat?⟩⟩
  | _ => none

def optSpan? : Sexp → Option (Option Span)
  | .atom "none" => some none
  | e => do some (some (← span? e))

def level? : Sexp → Option Level
  | .atom "fatal" => some .fatal
  | .atom "error" => some .error
  | .atom "warning" => some .warning
  | .atom "note" => some .note
  | .atom "help" => some .help
  | _ => none

def child? : Sexp → Option SubDiag
  | .list [lv, sp, lb, ms] => do some ⟨← level? lv, ← optSpan? sp, ← optStr? lb, ← optStr? ms⟩
  | _ => none

def diag? : Sexp → Option Diag
  | .list [lv, sp, ti, lb, ms, .list cs] => do
    some ⟨← level? lv, ← optSpan? sp, ← str? ti, ← optStr? lb, ← optStr? ms, ← cs.mapM child?⟩
  | _ => none

def srcOp? : Sexp → Option SrcOp
  | .list [.atom "cache", f, .list ls] => do some (.cache (← str? f) (← ls.mapM str?))
  | .list [.atom "content", f, t] => do some (.content (← str? f) (← str? t))
  | _ => none

def showStr (s : Str) : String :=
  "(" ++ " ".intercalate (s.map fun c => toString c.toNat) ++ ")"

def showRes : Except Err (List Str) → String
  | .ok ls => " ".intercalate ("ok" :: ls.map showStr)
  | .error .assertion => "err assertion"
  | .error .internal => "err internal"
  | .error .value => "err value"
  | .error .key => "err key"

def handle (line : String) : String :=
  match Sexp.parse line with
  | some (.list [.atom "wrap", w, t, ii, si]) =>
    match w.asNat?, str? t, str? ii, str? si with
    | some w, some t, some ii, some si => showRes (wrap t w ii si)
    | _, _, _, _ => "bad-op"
  | some (.list [.atom "snip", content, sp, lb, ml, pr, pf]) =>
    match str? content, span? sp, optStr? lb, ml.asNat?, pr.asNat?, pf.asNat? with
    | some content, some sp, some lb, some ml, some pr, some pf =>
      showRes (renderSnippet (splitlines content) sp lb ml (pr != 0) pf)
    | _, _, _, _, _, _ => "bad-op"
  | some (.list [.atom "tospan", .list ls, .list [a, b, c, d]]) =>
    match ls.mapM str?, a.asNat?, b.asNat?, c.asNat?, d.asNat? with
    | some lines, some a, some b, some c, some d =>
      let s := toSpan lines a b c d
      -- Span.__post_init__: start > end raises InternalGuppyError
      if s.stop.line < s.start.line || (s.stop.line == s.start.line && s.stop.col < s.start.col) then "err internal"
      else s!"span {s.start.line} {s.start.col} {s.stop.line} {s.stop.col}"
    | _, _, _, _, _ => "bad-op"
  | some (.list [.atom "hist", .list ops, file, sp, lb, ml, pr, pf]) =>
    match ops.mapM srcOp?, str? file, span? sp, optStr? lb, ml.asNat?, pr.asNat?, pf.asNat? with
    | some ops, some file, some sp, some lb, some ml, some pr, some pf =>
      showRes (renderIn ops file sp lb ml (pr != 0) pf)
    | _, _, _, _, _, _, _ => "bad-op"
  | some (.list [.atom "diag", file, content, d]) =>
    match str? file, str? content, diag? d with
    | some file, some content, some d => showRes (renderDiagnostic file (splitlines content) d)
    | _, _, _ => "bad-op"
  | _ => "bad-op"

def main : IO Unit := do lineLoop (← IO.getStdin) handle
