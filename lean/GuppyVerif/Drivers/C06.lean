import GuppyVerif.Model.Linearity
import GuppyVerif.Spec.C06
import GuppyVerif.Util.Sexp
/-! Line-protocol driver for C06.  One S-expression per line:
    `(prog (lin x…) (bvars v…) (bleaves x…) (blocks b…) (entry e) (exit x <0|1 reachable>)
           (rows (b x…)…) (succ (b c…)…) (stmts (b stmt…)…))`
    stmt  = `(move (place…) (place…))` | `(call (place…) (arg…) <0|1>)` | `(ret place…)`
    arg   = `(o place)` | `(b place)`
    place = `(p <var|-> <0|1> leaf…)`
    reply: `ok (b x…)…` (place-level live_before of the inner blocks) | `err <class>`
           (`ok-rows-not-covering` / `err-rows-not-covering` if the assumption `RowsOK` fails on this CFG) | `bad-wf` (the CFG does not have the shape `Prog.WF`) -/
open GuppyVerif GuppyVerif.Linearity

def fieldC06? (tag : String) (e : Sexp) : Option (List Nat) :=
  match e with
  | .list (.atom t :: xs) => if t == tag then xs.mapM Sexp.asNat? else none
  | _ => none

def tblC06? (tag : String) (e : Sexp) : Option (Nat → List Nat) :=
  match e with
  | .list (.atom t :: rows) =>
    if t != tag then none else do
      let rows ← rows.mapM fun r => do
        let xs ← r.natList?
        match xs with
        | b :: cs => some (b, cs)
        | [] => none
      some fun b => ((rows.find? (·.1 == b)).map (·.2)).getD []
  | _ => none

def place? : Sexp → Option Place
  | .list (.atom "p" :: v :: .atom lf :: ls) => do
    let ls ← ls.mapM Sexp.asNat?
    let var := match v with
      | .atom "-" => none
      | e => e.asNat?
    some ⟨ls, var, lf == "1"⟩
  | _ => none

def arg? : Sexp → Option Arg
  | .list [.atom "o", p] => (place? p).map .owned
  | .list [.atom "b", p] => (place? p).map .inout
  | _ => none

def stmt? : Sexp → Option Stmt
  | .list [.atom "move", .list ts, .list ss] => do
    some (.move (← ts.mapM place?) (← ss.mapM place?))
  | .list [.atom "call", .list ts, .list as, .atom d] => do
    some (.call (← ts.mapM place?) (← as.mapM arg?) (d == "1"))
  | .list (.atom "ret" :: ss) => do some (.ret (← ss.mapM place?))
  | _ => none

def stmtTbl? : Sexp → Option (Nat → List Stmt)
  | .list (.atom "stmts" :: rows) => do
    let rows ← rows.mapM fun r =>
      match r with
      | .list (b :: ss) => do some ((← b.asNat?), (← ss.mapM stmt?))
      | _ => none
    some fun b => ((rows.find? (·.1 == b)).map (·.2)).getD []
  | _ => none

def prog? : Sexp → Option Prog
  | .list [.atom "prog", li, bv, bl, bs, en, ex, ro, su, st] => do
    let lin ← fieldC06? "lin" li
    let [e] ← fieldC06? "entry" en | none
    let [x, xr] ← fieldC06? "exit" ex | none
    some { lin := fun l => lin.contains l, borrowedVars := ← fieldC06? "bvars" bv,
           borrowedLeaves := ← fieldC06? "bleaves" bl, blocks := ← fieldC06? "blocks" bs,
           entry := e, exit := x, exitReachable := xr == 1, row := ← tblC06? "rows" ro, succ := ← tblC06? "succ" su,
           stmts := ← stmtTbl? st }
  | _ => none

def errName : Err → String
  | .notOwned => "NotOwnedError"
  | .alreadyUsed => "AlreadyUsedError"
  | .placeNotUsed => "PlaceNotUsedError"
  | .borrowShadowed => "BorrowShadowedError"
  | .unnamedExprNotUsed => "UnnamedExprNotUsedError"
  | .usedThenLive false => "AlreadyUsedError"
  | .usedThenLive true => "AlreadyUsedError|BorrowSubPlaceUsedError"
  | .crash => "crash"
  | .fuel => "fuel"

def insSorted (x : Nat) : List Nat → List Nat
  | [] => [x]
  | y :: ys => if x < y then x :: y :: ys else if x == y then y :: ys else y :: insSorted x ys

/-- ` (b x…)…` for the blocks other than entry and exit, leaves sorted and deduplicated -/
def showLive (P : Prog) : String :=
  match liveOf P with
  | none => " no-live"
  | some rows =>
    String.join ((rows.filter fun r => r.1 != P.entry && r.1 != P.exit).map fun r =>
      " (" ++ " ".intercalate ((r.1 :: r.2.foldr insSorted []).map toString) ++ ")")

/-- all leaves that occur in the program -/
def allLeaves (P : Prog) : List Nat :=
  let ofPlaces (ps : List Place) := ps.flatMap (·.leaves)
  let ofStmt : Stmt → List Nat
    | .move t s => ofPlaces t ++ ofPlaces s
    | .call t a _ => ofPlaces t ++ ofPlaces (a.map Arg.place)
    | .ret s => ofPlaces s
  (P.borrowedLeaves ++ P.blocks.flatMap (fun b => P.row b ++ (P.stmts b).flatMap ofStmt)).foldr insSorted []

/-- blocks from whose start some continuation reads `l` before redefining it (`WillUse`), by
    iteration to a fixpoint (at most `|blocks|` rounds) -/
def willUseBlocks (P : Prog) (l : Nat) : List Nat :=
  let here := P.blocks.filter fun b => (P.blockEvs l b).head? == some Ev.use
  let quiet := P.blocks.filter fun b => (P.blockEvs l b).isEmpty
  let step (w : List Nat) := w ++ quiet.filter fun b => !w.contains b && (P.succ b).any w.contains
  (List.range P.blocks.length).foldl (fun w _ => step w) here

/-- executable check of the assumption `RowsOK` of `lin_complete_rows_partial` on the CFG at hand -/
def rowsOKb (P : Prog) : Bool :=
  (allLeaves P).all fun l => (willUseBlocks P l).all fun b => (P.row b).contains l

def handleC06 (line : String) : String :=
  match Sexp.parse line with
  | some e =>
    match prog? e with
    | some P =>
      if !P.wfb then "bad-wf" else
      match checkCfg P with
      | .ok _ => (if rowsOKb P then "ok" else "ok-rows-not-covering") ++ showLive P
      | .error er => (if rowsOKb P then "err " else "err-rows-not-covering ") ++ errName er
    | none => "bad-op"
  | none => "bad-op"

def main : IO Unit := do lineLoop (← IO.getStdin) handleC06
