import GuppyVerif.Model.Linearity
import GuppyVerif.Spec.C06
import GuppyVerif.Util.Sexp
/-! Line-protocol driver for C06.  One S-expression per line:
    `(prog (bvars v…) (bleaves x…) (blocks b…) (entry e) (exit x <0|1 reachable>)
           (rows (b x…)…) (rowlin (b x…)…) (succ (b c…)…) (stmts (b stmt…)…))`
    stmt  = `(st (act…) (place…) <0|1 dropsLin>)`
    act   = `(u place <0|1 borrow>)` | `(g place)` | `(d)` | `(m)`
    place = `(p <var|-> <0|1 isLeaf> (leaf <0|1 linear>)…)`
    reply: `ok (b x…)…` (place-level live_before of the inner blocks) | `err <class>` |
           `bad-wf` (not the shape `Prog.WF`) | `bad-kinds` (not well-kinded: `Prog.KindsOK`) -/
open GuppyVerif GuppyVerif.Linearity

def fieldC06? (tag : String) (e : Sexp) : Option (List Nat) :=
  match e with
  | .list (.atom t :: xs) => if t == tag then xs.mapM Sexp.asNat? else none
  | _ => none

def tblC06? (tag : String) (e : Sexp) : Option (Nat → List Nat) :=
  match e with
  | .list (.atom t :: rows) =>
    if t != tag then none else do
      let rows ← rows.mapM fun r => do
        let xs ← r.natList?
        match xs with
        | b :: cs => some (b, cs)
        | [] => none
      some fun b => ((rows.find? (·.1 == b)).map (·.2)).getD []
  | _ => none

def leafK? : Sexp → Option (Nat × Bool)
  | .list [x, .atom k] => do some ((← x.asNat?), k == "1")
  | _ => none

def place? : Sexp → Option Place
  | .list (.atom "p" :: v :: .atom lf :: ls) => do
    let ls ← ls.mapM leafK?
    let var := match v with
      | .atom "-" => none
      | e => e.asNat?
    some ⟨ls, var, lf == "1"⟩
  | _ => none

def act? : Sexp → Option Act
  | .list [.atom "u", p, .atom b] => (place? p).map fun q => .use q (b == "1")
  | .list [.atom "g", p] => (place? p).map .give
  | .list [.atom "d"] => some .dropAfter
  | .list [.atom "m"] => some .moveOut
  | _ => none

def stmt? : Sexp → Option Stmt
  | .list [.atom "st", .list as, .list ts, .atom d] => do
    some ⟨← as.mapM act?, ← ts.mapM place?, d == "1"⟩
  | _ => none

def stmtTbl? : Sexp → Option (Nat → List Stmt)
  | .list (.atom "stmts" :: rows) => do
    let rows ← rows.mapM fun r =>
      match r with
      | .list (b :: ss) => do some ((← b.asNat?), (← ss.mapM stmt?))
      | _ => none
    some fun b => ((rows.find? (·.1 == b)).map (·.2)).getD []
  | _ => none

def prog? : Sexp → Option Prog
  | .list [.atom "prog", bv, bl, bs, en, ex, ro, rl, su, st] => do
    let [e] ← fieldC06? "entry" en | none
    let [x, xr] ← fieldC06? "exit" ex | none
    some { borrowedVars := ← fieldC06? "bvars" bv,
           borrowedLeaves := ← fieldC06? "bleaves" bl, blocks := ← fieldC06? "blocks" bs,
           entry := e, exit := x, exitReachable := xr == 1, row := ← tblC06? "rows" ro,
           rowLin := ← tblC06? "rowlin" rl, succ := ← tblC06? "succ" su, stmts := ← stmtTbl? st }
  | _ => none

def errName : Err → String
  | .notOwned => "NotOwnedError"
  | .alreadyUsed => "AlreadyUsedError"
  | .placeNotUsed => "PlaceNotUsedError"
  | .borrowShadowed => "BorrowShadowedError"
  | .unnamedExprNotUsed => "UnnamedExprNotUsedError"
  | .dropAfterCall => "DropAfterCallError"
  | .moveOutOfSubscript => "MoveOutOfSubscriptError"
  | .usedThenLive false => "AlreadyUsedError"
  | .usedThenLive true => "AlreadyUsedError|BorrowSubPlaceUsedError"
  | .crash => "crash"
  | .fuel => "fuel"

def insSorted (x : Nat) : List Nat → List Nat
  | [] => [x]
  | y :: ys => if x < y then x :: y :: ys else if x == y then y :: ys else y :: insSorted x ys

/-- ` (b x…)…` for the blocks other than entry and exit, leaves sorted and deduplicated -/
def showLive (P : Prog) : String :=
  match liveOf P with
  | none => " no-live"
  | some rows =>
    String.join ((rows.filter fun r => r.1 != P.entry && r.1 != P.exit).map fun r =>
      " (" ++ " ".intercalate ((r.1 :: r.2.foldr insSorted []).map toString) ++ ")")

def handleC06 (line : String) : String :=
  match Sexp.parse line with
  | some e =>
    match prog? e with
    | some P =>
      if !P.wfb then "bad-wf" else if !P.kindsOKb then "bad-kinds" else
      match checkCfg P with
      | .ok _ => "ok" ++ showLive P
      | .error er => "err " ++ errName er
    | none => "bad-op"
  | none => "bad-op"

def main : IO Unit := do lineLoop (← IO.getStdin) handleC06
