/-! GENERATED on every run by harness/props/c21.py (translate): the AST of `DunderMixin`
    (tracing/object.py), the imported tables `expr_checker.binary_table` / `unary_table`, `tracing.object.binary_table` /
    `reverse_binary_table`, and the acceptance table obtained by checking `a.dunder(b)` with the real checker.  Do not edit. -/
namespace GuppyVerif.C21

inductive Dunder where
  | d_abs
  | d_add
  | d_and
  | d_bool
  | d_ceil
  | d_divmod
  | d_eq
  | d_float
  | d_floor
  | d_floordiv
  | d_ge
  | d_gt
  | d_int
  | d_invert
  | d_le
  | d_lshift
  | d_lt
  | d_matmul
  | d_mod
  | d_mul
  | d_ne
  | d_neg
  | d_or
  | d_pos
  | d_pow
  | d_radd
  | d_rand
  | d_rfloordiv
  | d_rlshift
  | d_rmatmul
  | d_rmod
  | d_rmul
  | d_ror
  | d_rpow
  | d_rrshift
  | d_rshift
  | d_rsub
  | d_rtruediv
  | d_rxor
  | d_sub
  | d_truediv
  | d_trunc
  | d_xor
  deriving DecidableEq, Repr

inductive Op where
  | Add
  | BitAnd
  | BitOr
  | BitXor
  | Div
  | Eq
  | FloorDiv
  | Gt
  | GtE
  | LShift
  | Lt
  | LtE
  | MatMult
  | Mod
  | Mult
  | NotEq
  | Pow
  | RShift
  | Sub
  deriving DecidableEq, Repr

inductive UOp where
  | Invert
  | UAdd
  | USub
  deriving DecidableEq, Repr

inductive NTy where | bool | nat | int | float deriving DecidableEq, Repr
inductive Deco where | binary | unary | none deriving DecidableEq, Repr

/-- `DunderMixin`: method, the dunder its body delegates to via `_get_method`, decorator -/
def mixin : List (Dunder × Option Dunder × Deco) := [
  (.d_abs, some .d_abs, .none),
  (.d_add, some .d_add, .binary),
  (.d_and, some .d_and, .binary),
  (.d_bool, some .d_bool, .none),
  (.d_ceil, some .d_ceil, .none),
  (.d_divmod, some .d_divmod, .none),
  (.d_eq, some .d_eq, .binary),
  (.d_float, some .d_float, .none),
  (.d_floor, some .d_floor, .none),
  (.d_floordiv, some .d_floordiv, .binary),
  (.d_ge, some .d_ge, .binary),
  (.d_gt, some .d_gt, .binary),
  (.d_int, some .d_int, .none),
  (.d_invert, some .d_invert, .unary),
  (.d_le, some .d_le, .binary),
  (.d_lshift, some .d_lshift, .binary),
  (.d_lt, some .d_lt, .binary),
  (.d_mod, some .d_mod, .binary),
  (.d_mul, some .d_mul, .binary),
  (.d_ne, some .d_ne, .binary),
  (.d_neg, some .d_neg, .unary),
  (.d_or, some .d_or, .binary),
  (.d_pos, some .d_pos, .unary),
  (.d_pow, some .d_pow, .binary),
  (.d_radd, some .d_radd, .binary),
  (.d_rand, some .d_rand, .binary),
  (.d_rfloordiv, some .d_rfloordiv, .binary),
  (.d_rlshift, some .d_rlshift, .binary),
  (.d_rmod, some .d_rmod, .binary),
  (.d_rmul, some .d_rmul, .binary),
  (.d_ror, some .d_ror, .binary),
  (.d_rpow, some .d_rpow, .binary),
  (.d_rrshift, some .d_rrshift, .binary),
  (.d_rshift, some .d_rshift, .binary),
  (.d_rsub, some .d_rsub, .binary),
  (.d_rtruediv, some .d_rtruediv, .binary),
  (.d_rxor, some .d_rxor, .binary),
  (.d_sub, some .d_sub, .binary),
  (.d_truediv, some .d_truediv, .binary),
  (.d_trunc, some .d_trunc, .none),
  (.d_xor, some .d_xor, .binary)
]

/-- `expr_checker.binary_table`: AST operator, left dunder, reflected dunder -/
def checkerOps : List (Op × Dunder × Dunder) := [
  (.Add, .d_add, .d_radd),
  (.BitAnd, .d_and, .d_rand),
  (.BitOr, .d_or, .d_ror),
  (.BitXor, .d_xor, .d_rxor),
  (.Div, .d_truediv, .d_rtruediv),
  (.Eq, .d_eq, .d_eq),
  (.FloorDiv, .d_floordiv, .d_rfloordiv),
  (.Gt, .d_gt, .d_lt),
  (.GtE, .d_ge, .d_le),
  (.LShift, .d_lshift, .d_rlshift),
  (.Lt, .d_lt, .d_gt),
  (.LtE, .d_le, .d_ge),
  (.MatMult, .d_matmul, .d_rmatmul),
  (.Mod, .d_mod, .d_rmod),
  (.Mult, .d_mul, .d_rmul),
  (.NotEq, .d_ne, .d_ne),
  (.Pow, .d_pow, .d_rpow),
  (.RShift, .d_rshift, .d_rrshift),
  (.Sub, .d_sub, .d_rsub)
]

def checkerUOps : List (UOp × Dunder) := [
  (.Invert, .d_invert),
  (.UAdd, .d_pos),
  (.USub, .d_neg)
]

/-- `tracing.object.binary_table`: method ↦ reverse method -/
def fwdTable : List (Dunder × Dunder) := [
  (.d_add, .d_radd),
  (.d_and, .d_rand),
  (.d_eq, .d_eq),
  (.d_floordiv, .d_rfloordiv),
  (.d_ge, .d_le),
  (.d_gt, .d_lt),
  (.d_le, .d_ge),
  (.d_lshift, .d_rlshift),
  (.d_lt, .d_gt),
  (.d_matmul, .d_rmatmul),
  (.d_mod, .d_rmod),
  (.d_mul, .d_rmul),
  (.d_ne, .d_ne),
  (.d_or, .d_ror),
  (.d_pow, .d_rpow),
  (.d_rshift, .d_rrshift),
  (.d_sub, .d_rsub),
  (.d_truediv, .d_rtruediv),
  (.d_xor, .d_rxor)
]

/-- `tracing.object.reverse_binary_table`: reverse method ↦ method -/
def revTable : List (Dunder × Dunder) := [
  (.d_eq, .d_eq),
  (.d_ge, .d_le),
  (.d_gt, .d_lt),
  (.d_le, .d_ge),
  (.d_lt, .d_gt),
  (.d_ne, .d_ne),
  (.d_radd, .d_add),
  (.d_rand, .d_and),
  (.d_rfloordiv, .d_floordiv),
  (.d_rlshift, .d_lshift),
  (.d_rmatmul, .d_matmul),
  (.d_rmod, .d_mod),
  (.d_rmul, .d_mul),
  (.d_ror, .d_or),
  (.d_rpow, .d_pow),
  (.d_rrshift, .d_rshift),
  (.d_rsub, .d_sub),
  (.d_rtruediv, .d_truediv),
  (.d_rxor, .d_xor)
]

/-- accepted dunders by (self type, other type): `a.dunder(b)` type-checks for a : self, b : other.
    (A function by cases rather than one flat list: the kernel evaluates lookups by linear scan.) -/
def accBy : NTy → NTy → List Dunder
  | .bool, .bool => [.d_and, .d_eq, .d_ne, .d_or, .d_xor]
  | .bool, .nat => []
  | .bool, .int => []
  | .bool, .float => []
  | .nat, .bool => []
  | .nat, .nat => [.d_add, .d_and, .d_eq, .d_floordiv, .d_ge, .d_gt, .d_le, .d_lshift, .d_lt, .d_mod, .d_mul, .d_ne, .d_or, .d_pow, .d_radd, .d_rand, .d_rfloordiv, .d_rlshift, .d_rmod, .d_rmul, .d_ror, .d_rpow, .d_rrshift, .d_rshift, .d_rsub, .d_rtruediv, .d_rxor, .d_sub, .d_truediv, .d_xor]
  | .nat, .int => []
  | .nat, .float => []
  | .int, .bool => []
  | .int, .nat => [.d_add, .d_and, .d_eq, .d_floordiv, .d_ge, .d_gt, .d_le, .d_lshift, .d_lt, .d_mod, .d_mul, .d_ne, .d_or, .d_pow, .d_radd, .d_rand, .d_rfloordiv, .d_rlshift, .d_rmod, .d_rmul, .d_ror, .d_rpow, .d_rrshift, .d_rshift, .d_rsub, .d_rtruediv, .d_rxor, .d_sub, .d_truediv, .d_xor]
  | .int, .int => [.d_add, .d_and, .d_eq, .d_floordiv, .d_ge, .d_gt, .d_le, .d_lshift, .d_lt, .d_mod, .d_mul, .d_ne, .d_or, .d_pow, .d_radd, .d_rand, .d_rfloordiv, .d_rlshift, .d_rmod, .d_rmul, .d_ror, .d_rpow, .d_rrshift, .d_rshift, .d_rsub, .d_rtruediv, .d_rxor, .d_sub, .d_truediv, .d_xor]
  | .int, .float => []
  | .float, .bool => []
  | .float, .nat => [.d_add, .d_eq, .d_floordiv, .d_ge, .d_gt, .d_le, .d_lt, .d_mod, .d_mul, .d_ne, .d_pow, .d_radd, .d_rfloordiv, .d_rmod, .d_rmul, .d_rpow, .d_rsub, .d_rtruediv, .d_sub, .d_truediv]
  | .float, .int => [.d_add, .d_eq, .d_floordiv, .d_ge, .d_gt, .d_le, .d_lt, .d_mod, .d_mul, .d_ne, .d_pow, .d_radd, .d_rfloordiv, .d_rmod, .d_rmul, .d_rpow, .d_rsub, .d_rtruediv, .d_sub, .d_truediv]
  | .float, .float => [.d_add, .d_eq, .d_floordiv, .d_ge, .d_gt, .d_le, .d_lt, .d_mod, .d_mul, .d_ne, .d_pow, .d_radd, .d_rfloordiv, .d_rmod, .d_rmul, .d_rpow, .d_rsub, .d_rtruediv, .d_sub, .d_truediv]

/-- accepted unary (self type, dunder) -/
def uaccTable : List (NTy × Dunder) := [
  (.float, .d_neg),
  (.float, .d_pos),
  (.int, .d_invert),
  (.int, .d_neg),
  (.int, .d_pos),
  (.nat, .d_invert),
  (.nat, .d_pos)
]

def opNames : List (String × Op) := [("Add", .Add), ("BitAnd", .BitAnd), ("BitOr", .BitOr), ("BitXor", .BitXor), ("Div", .Div), ("Eq", .Eq), ("FloorDiv", .FloorDiv), ("Gt", .Gt), ("GtE", .GtE), ("LShift", .LShift), ("Lt", .Lt), ("LtE", .LtE), ("MatMult", .MatMult), ("Mod", .Mod), ("Mult", .Mult), ("NotEq", .NotEq), ("Pow", .Pow), ("RShift", .RShift), ("Sub", .Sub)]
def uopNames : List (String × UOp) := [("Invert", .Invert), ("UAdd", .UAdd), ("USub", .USub)]
def dunderNames : List (Dunder × String) := [(.d_abs, "__abs__"), (.d_add, "__add__"), (.d_and, "__and__"), (.d_bool, "__bool__"), (.d_ceil, "__ceil__"), (.d_divmod, "__divmod__"), (.d_eq, "__eq__"), (.d_float, "__float__"), (.d_floor, "__floor__"), (.d_floordiv, "__floordiv__"), (.d_ge, "__ge__"), (.d_gt, "__gt__"), (.d_int, "__int__"), (.d_invert, "__invert__"), (.d_le, "__le__"), (.d_lshift, "__lshift__"), (.d_lt, "__lt__"), (.d_matmul, "__matmul__"), (.d_mod, "__mod__"), (.d_mul, "__mul__"), (.d_ne, "__ne__"), (.d_neg, "__neg__"), (.d_or, "__or__"), (.d_pos, "__pos__"), (.d_pow, "__pow__"), (.d_radd, "__radd__"), (.d_rand, "__rand__"), (.d_rfloordiv, "__rfloordiv__"), (.d_rlshift, "__rlshift__"), (.d_rmatmul, "__rmatmul__"), (.d_rmod, "__rmod__"), (.d_rmul, "__rmul__"), (.d_ror, "__ror__"), (.d_rpow, "__rpow__"), (.d_rrshift, "__rrshift__"), (.d_rshift, "__rshift__"), (.d_rsub, "__rsub__"), (.d_rtruediv, "__rtruediv__"), (.d_rxor, "__rxor__"), (.d_sub, "__sub__"), (.d_truediv, "__truediv__"), (.d_trunc, "__trunc__"), (.d_xor, "__xor__")]

/-- `trace_function`: the returned value is unpacked into a row when [it is a tuple and] `len(row) > unpackIfLenGt`,
    handed on as one value when `len(row) > singleIfLenGt`, and dropped otherwise (AST of tracing/function.py) -/
def unpackNeedsTuple : Bool := true
def unpackIfLenGt : Nat := 0
def singleIfLenGt : Nat := 0

end GuppyVerif.C21
