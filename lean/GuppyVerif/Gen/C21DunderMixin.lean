/-! GENERATED on every run by harness/props/c21.py (translate): the AST of `DunderMixin`
    (tracing/object.py), the imported tables `expr_checker.binary_table` / `unary_table`, `tracing.object.binary_table` /
    `reverse_binary_table`, and the acceptance table obtained by checking `a.dunder(b)` with the real checker.  Do not edit. -/
namespace GuppyVerif.C21

inductive Dunder where
  | d_abs
  | d_add
  | d_and
  | d_bool
  | d_ceil
  | d_divmod
  | d_eq
  | d_float
  | d_floor
  | d_floordiv
  | d_ge
  | d_gt
  | d_int
  | d_invert
  | d_le
  | d_lshift
  | d_lt
  | d_matmul
  | d_mod
  | d_mul
  | d_ne
  | d_neg
  | d_or
  | d_pos
  | d_pow
  | d_radd
  | d_rand
  | d_rfloordiv
  | d_rlshift
  | d_rmatmul
  | d_rmod
  | d_rmul
  | d_ror
  | d_rpow
  | d_rrshift
  | d_rshift
  | d_rsub
  | d_rtruediv
  | d_rxor
  | d_sub
  | d_truediv
  | d_trunc
  | d_xor
  deriving DecidableEq, Repr

inductive Op where
  | Add
  | BitAnd
  | BitOr
  | BitXor
  | Div
  | Eq
  | FloorDiv
  | Gt
  | GtE
  | LShift
  | Lt
  | LtE
  | MatMult
  | Mod
  | Mult
  | NotEq
  | Pow
  | RShift
  | Sub
  deriving DecidableEq, Repr

inductive UOp where
  | Invert
  | UAdd
  | USub
  deriving DecidableEq, Repr

inductive NTy where | bool | nat | int | float deriving DecidableEq, Repr
inductive Deco where | binary | unary | none deriving DecidableEq, Repr

/-- `DunderMixin`: method, the dunder its body delegates to via `_get_method`, decorator -/
def mixin : List (Dunder × Option Dunder × Deco) := [
  (.d_abs, some .d_abs, .none),
  (.d_add, some .d_add, .binary),
  (.d_and, some .d_and, .binary),
  (.d_bool, some .d_bool, .none),
  (.d_ceil, some .d_ceil, .none),
  (.d_divmod, some .d_divmod, .none),
  (.d_eq, some .d_eq, .binary),
  (.d_float, some .d_float, .none),
  (.d_floor, some .d_floor, .none),
  (.d_floordiv, some .d_floordiv, .binary),
  (.d_ge, some .d_ge, .binary),
  (.d_gt, some .d_gt, .binary),
  (.d_int, some .d_int, .none),
  (.d_invert, some .d_invert, .unary),
  (.d_le, some .d_le, .binary),
  (.d_lshift, some .d_lshift, .binary),
  (.d_lt, some .d_lt, .binary),
  (.d_mod, some .d_mod, .binary),
  (.d_mul, some .d_mul, .binary),
  (.d_ne, some .d_ne, .binary),
  (.d_neg, some .d_neg, .unary),
  (.d_or, some .d_or, .binary),
  (.d_pos, some .d_pos, .unary),
  (.d_pow, some .d_pow, .binary),
  (.d_radd, some .d_radd, .binary),
  (.d_rand, some .d_rand, .binary),
  (.d_rfloordiv, some .d_rfloordiv, .binary),
  (.d_rlshift, some .d_rlshift, .binary),
  (.d_rmod, some .d_rmod, .binary),
  (.d_rmul, some .d_rmul, .binary),
  (.d_ror, some .d_ror, .binary),
  (.d_rpow, some .d_rpow, .binary),
  (.d_rrshift, some .d_rrshift, .binary),
  (.d_rshift, some .d_rshift, .binary),
  (.d_rsub, some .d_rsub, .binary),
  (.d_rtruediv, some .d_rtruediv, .binary),
  (.d_rxor, some .d_rxor, .binary),
  (.d_sub, some .d_sub, .binary),
  (.d_truediv, some .d_truediv, .binary),
  (.d_trunc, some .d_trunc, .none),
  (.d_xor, some .d_xor, .binary)
]

/-- `expr_checker.binary_table`: AST operator, left dunder, reflected dunder -/
def checkerOps : List (Op × Dunder × Dunder) := [
  (.Add, .d_add, .d_radd),
  (.BitAnd, .d_and, .d_rand),
  (.BitOr, .d_or, .d_ror),
  (.BitXor, .d_xor, .d_rxor),
  (.Div, .d_truediv, .d_rtruediv),
  (.Eq, .d_eq, .d_eq),
  (.FloorDiv, .d_floordiv, .d_rfloordiv),
  (.Gt, .d_gt, .d_lt),
  (.GtE, .d_ge, .d_le),
  (.LShift, .d_lshift, .d_rlshift),
  (.Lt, .d_lt, .d_gt),
  (.LtE, .d_le, .d_ge),
  (.MatMult, .d_matmul, .d_rmatmul),
  (.Mod, .d_mod, .d_rmod),
  (.Mult, .d_mul, .d_rmul),
  (.NotEq, .d_ne, .d_ne),
  (.Pow, .d_pow, .d_rpow),
  (.RShift, .d_rshift, .d_rrshift),
  (.Sub, .d_sub, .d_rsub)
]

def checkerUOps : List (UOp × Dunder) := [
  (.Invert, .d_invert),
  (.UAdd, .d_pos),
  (.USub, .d_neg)
]

/-- `tracing.object.binary_table`: method ↦ reverse method -/
def fwdTable : List (Dunder × Dunder) := [
  (.d_add, .d_radd),
  (.d_and, .d_rand),
  (.d_eq, .d_eq),
  (.d_floordiv, .d_rfloordiv),
  (.d_ge, .d_le),
  (.d_gt, .d_lt),
  (.d_le, .d_ge),
  (.d_lshift, .d_rlshift),
  (.d_lt, .d_gt),
  (.d_matmul, .d_rmatmul),
  (.d_mod, .d_rmod),
  (.d_mul, .d_rmul),
  (.d_ne, .d_ne),
  (.d_or, .d_ror),
  (.d_pow, .d_rpow),
  (.d_rshift, .d_rrshift),
  (.d_sub, .d_rsub),
  (.d_truediv, .d_rtruediv),
  (.d_xor, .d_rxor)
]

/-- `tracing.object.reverse_binary_table`: reverse method ↦ method -/
def revTable : List (Dunder × Dunder) := [
  (.d_eq, .d_eq),
  (.d_ge, .d_le),
  (.d_gt, .d_lt),
  (.d_le, .d_ge),
  (.d_lt, .d_gt),
  (.d_ne, .d_ne),
  (.d_radd, .d_add),
  (.d_rand, .d_and),
  (.d_rfloordiv, .d_floordiv),
  (.d_rlshift, .d_lshift),
  (.d_rmatmul, .d_matmul),
  (.d_rmod, .d_mod),
  (.d_rmul, .d_mul),
  (.d_ror, .d_or),
  (.d_rpow, .d_pow),
  (.d_rrshift, .d_rshift),
  (.d_rsub, .d_sub),
  (.d_rtruediv, .d_truediv),
  (.d_rxor, .d_xor)
]

/-- accepted (self type, dunder, other type): `a.dunder(b)` type-checks -/
def accTable : List (NTy × Dunder × NTy) := [
  (.bool, .d_and, .bool),
  (.bool, .d_eq, .bool),
  (.bool, .d_ne, .bool),
  (.bool, .d_or, .bool),
  (.bool, .d_xor, .bool),
  (.float, .d_add, .float),
  (.float, .d_add, .int),
  (.float, .d_add, .nat),
  (.float, .d_eq, .float),
  (.float, .d_eq, .int),
  (.float, .d_eq, .nat),
  (.float, .d_floordiv, .float),
  (.float, .d_floordiv, .int),
  (.float, .d_floordiv, .nat),
  (.float, .d_ge, .float),
  (.float, .d_ge, .int),
  (.float, .d_ge, .nat),
  (.float, .d_gt, .float),
  (.float, .d_gt, .int),
  (.float, .d_gt, .nat),
  (.float, .d_le, .float),
  (.float, .d_le, .int),
  (.float, .d_le, .nat),
  (.float, .d_lt, .float),
  (.float, .d_lt, .int),
  (.float, .d_lt, .nat),
  (.float, .d_mod, .float),
  (.float, .d_mod, .int),
  (.float, .d_mod, .nat),
  (.float, .d_mul, .float),
  (.float, .d_mul, .int),
  (.float, .d_mul, .nat),
  (.float, .d_ne, .float),
  (.float, .d_ne, .int),
  (.float, .d_ne, .nat),
  (.float, .d_pow, .float),
  (.float, .d_pow, .int),
  (.float, .d_pow, .nat),
  (.float, .d_radd, .float),
  (.float, .d_radd, .int),
  (.float, .d_radd, .nat),
  (.float, .d_rfloordiv, .float),
  (.float, .d_rfloordiv, .int),
  (.float, .d_rfloordiv, .nat),
  (.float, .d_rmod, .float),
  (.float, .d_rmod, .int),
  (.float, .d_rmod, .nat),
  (.float, .d_rmul, .float),
  (.float, .d_rmul, .int),
  (.float, .d_rmul, .nat),
  (.float, .d_rpow, .float),
  (.float, .d_rpow, .int),
  (.float, .d_rpow, .nat),
  (.float, .d_rsub, .float),
  (.float, .d_rsub, .int),
  (.float, .d_rsub, .nat),
  (.float, .d_rtruediv, .float),
  (.float, .d_rtruediv, .int),
  (.float, .d_rtruediv, .nat),
  (.float, .d_sub, .float),
  (.float, .d_sub, .int),
  (.float, .d_sub, .nat),
  (.float, .d_truediv, .float),
  (.float, .d_truediv, .int),
  (.float, .d_truediv, .nat),
  (.int, .d_add, .int),
  (.int, .d_add, .nat),
  (.int, .d_and, .int),
  (.int, .d_and, .nat),
  (.int, .d_eq, .int),
  (.int, .d_eq, .nat),
  (.int, .d_floordiv, .int),
  (.int, .d_floordiv, .nat),
  (.int, .d_ge, .int),
  (.int, .d_ge, .nat),
  (.int, .d_gt, .int),
  (.int, .d_gt, .nat),
  (.int, .d_le, .int),
  (.int, .d_le, .nat),
  (.int, .d_lshift, .int),
  (.int, .d_lshift, .nat),
  (.int, .d_lt, .int),
  (.int, .d_lt, .nat),
  (.int, .d_mod, .int),
  (.int, .d_mod, .nat),
  (.int, .d_mul, .int),
  (.int, .d_mul, .nat),
  (.int, .d_ne, .int),
  (.int, .d_ne, .nat),
  (.int, .d_or, .int),
  (.int, .d_or, .nat),
  (.int, .d_pow, .int),
  (.int, .d_pow, .nat),
  (.int, .d_radd, .int),
  (.int, .d_radd, .nat),
  (.int, .d_rand, .int),
  (.int, .d_rand, .nat),
  (.int, .d_rfloordiv, .int),
  (.int, .d_rfloordiv, .nat),
  (.int, .d_rlshift, .int),
  (.int, .d_rlshift, .nat),
  (.int, .d_rmod, .int),
  (.int, .d_rmod, .nat),
  (.int, .d_rmul, .int),
  (.int, .d_rmul, .nat),
  (.int, .d_ror, .int),
  (.int, .d_ror, .nat),
  (.int, .d_rpow, .int),
  (.int, .d_rpow, .nat),
  (.int, .d_rrshift, .int),
  (.int, .d_rrshift, .nat),
  (.int, .d_rshift, .int),
  (.int, .d_rshift, .nat),
  (.int, .d_rsub, .int),
  (.int, .d_rsub, .nat),
  (.int, .d_rtruediv, .int),
  (.int, .d_rtruediv, .nat),
  (.int, .d_rxor, .int),
  (.int, .d_rxor, .nat),
  (.int, .d_sub, .int),
  (.int, .d_sub, .nat),
  (.int, .d_truediv, .int),
  (.int, .d_truediv, .nat),
  (.int, .d_xor, .int),
  (.int, .d_xor, .nat),
  (.nat, .d_add, .nat),
  (.nat, .d_and, .nat),
  (.nat, .d_eq, .nat),
  (.nat, .d_floordiv, .nat),
  (.nat, .d_ge, .nat),
  (.nat, .d_gt, .nat),
  (.nat, .d_le, .nat),
  (.nat, .d_lshift, .nat),
  (.nat, .d_lt, .nat),
  (.nat, .d_mod, .nat),
  (.nat, .d_mul, .nat),
  (.nat, .d_ne, .nat),
  (.nat, .d_or, .nat),
  (.nat, .d_pow, .nat),
  (.nat, .d_radd, .nat),
  (.nat, .d_rand, .nat),
  (.nat, .d_rfloordiv, .nat),
  (.nat, .d_rlshift, .nat),
  (.nat, .d_rmod, .nat),
  (.nat, .d_rmul, .nat),
  (.nat, .d_ror, .nat),
  (.nat, .d_rpow, .nat),
  (.nat, .d_rrshift, .nat),
  (.nat, .d_rshift, .nat),
  (.nat, .d_rsub, .nat),
  (.nat, .d_rtruediv, .nat),
  (.nat, .d_rxor, .nat),
  (.nat, .d_sub, .nat),
  (.nat, .d_truediv, .nat),
  (.nat, .d_xor, .nat)
]

/-- accepted unary (self type, dunder) -/
def uaccTable : List (NTy × Dunder) := [
  (.float, .d_neg),
  (.float, .d_pos),
  (.int, .d_invert),
  (.int, .d_neg),
  (.int, .d_pos),
  (.nat, .d_invert),
  (.nat, .d_pos)
]

def opNames : List (String × Op) := [("Add", .Add), ("BitAnd", .BitAnd), ("BitOr", .BitOr), ("BitXor", .BitXor), ("Div", .Div), ("Eq", .Eq), ("FloorDiv", .FloorDiv), ("Gt", .Gt), ("GtE", .GtE), ("LShift", .LShift), ("Lt", .Lt), ("LtE", .LtE), ("MatMult", .MatMult), ("Mod", .Mod), ("Mult", .Mult), ("NotEq", .NotEq), ("Pow", .Pow), ("RShift", .RShift), ("Sub", .Sub)]
def uopNames : List (String × UOp) := [("Invert", .Invert), ("UAdd", .UAdd), ("USub", .USub)]
def dunderNames : List (Dunder × String) := [(.d_abs, "__abs__"), (.d_add, "__add__"), (.d_and, "__and__"), (.d_bool, "__bool__"), (.d_ceil, "__ceil__"), (.d_divmod, "__divmod__"), (.d_eq, "__eq__"), (.d_float, "__float__"), (.d_floor, "__floor__"), (.d_floordiv, "__floordiv__"), (.d_ge, "__ge__"), (.d_gt, "__gt__"), (.d_int, "__int__"), (.d_invert, "__invert__"), (.d_le, "__le__"), (.d_lshift, "__lshift__"), (.d_lt, "__lt__"), (.d_matmul, "__matmul__"), (.d_mod, "__mod__"), (.d_mul, "__mul__"), (.d_ne, "__ne__"), (.d_neg, "__neg__"), (.d_or, "__or__"), (.d_pos, "__pos__"), (.d_pow, "__pow__"), (.d_radd, "__radd__"), (.d_rand, "__rand__"), (.d_rfloordiv, "__rfloordiv__"), (.d_rlshift, "__rlshift__"), (.d_rmatmul, "__rmatmul__"), (.d_rmod, "__rmod__"), (.d_rmul, "__rmul__"), (.d_ror, "__ror__"), (.d_rpow, "__rpow__"), (.d_rrshift, "__rrshift__"), (.d_rshift, "__rshift__"), (.d_rsub, "__rsub__"), (.d_rtruediv, "__rtruediv__"), (.d_rxor, "__rxor__"), (.d_sub, "__sub__"), (.d_truediv, "__truediv__"), (.d_trunc, "__trunc__"), (.d_xor, "__xor__")]

end GuppyVerif.C21
