/-! GENERATED on every run by harness/props/c32.py (translate) from CPython's `ast` grammar and from
    guppylang_internals/{cfg/builder,checker/func_checker,checker/stmt_checker,checker/expr_checker,tys/parsing}.py
    of the tree under check.  Do not edit. -/
namespace GuppyVerif.C32

inductive Kind where
  | AnnAssign
  | Assert
  | Assign
  | AsyncFor
  | AsyncFunctionDef
  | AsyncWith
  | Attribute
  | AugAssign
  | Await
  | BinOp
  | BoolOp
  | Break
  | Call
  | ClassDef
  | Compare
  | Constant
  | Continue
  | Delete
  | Dict
  | DictComp
  | ExceptHandler
  | Expr
  | For
  | FormattedValue
  | FunctionDef
  | GeneratorExp
  | Global
  | If
  | IfExp
  | Import
  | ImportFrom
  | JoinedStr
  | Lambda
  | List
  | ListComp
  | Match
  | MatchAs
  | MatchClass
  | MatchMapping
  | MatchOr
  | MatchSequence
  | MatchSingleton
  | MatchStar
  | MatchValue
  | Name
  | NamedExpr
  | Nonlocal
  | ParamSpec
  | Pass
  | Raise
  | Return
  | Set
  | SetComp
  | Slice
  | Starred
  | Subscript
  | Try
  | TryStar
  | Tuple
  | TypeAlias
  | TypeVar
  | TypeVarTuple
  | UnaryOp
  | While
  | With
  | Yield
  | YieldFrom
  | alias
  | arg
  | arguments
  | comprehension
  | keyword
  | match_case
  | withitem
  deriving DecidableEq, Repr

inductive Field where
  | f_annotation
  | f_arg
  | f_args
  | f_asname
  | f_attr
  | f_bases
  | f_body
  | f_bound
  | f_cases
  | f_cause
  | f_cls
  | f_comparators
  | f_context_expr
  | f_conversion
  | f_ctx
  | f_decorator_list
  | f_defaults
  | f_elt
  | f_elts
  | f_exc
  | f_finalbody
  | f_format_spec
  | f_func
  | f_generators
  | f_guard
  | f_handlers
  | f_id
  | f_ifs
  | f_is_async
  | f_items
  | f_iter
  | f_key
  | f_keys
  | f_keywords
  | f_kind
  | f_kw_defaults
  | f_kwarg
  | f_kwd_attrs
  | f_kwd_patterns
  | f_kwonlyargs
  | f_left
  | f_level
  | f_lower
  | f_module
  | f_msg
  | f_name
  | f_names
  | f_op
  | f_operand
  | f_ops
  | f_optional_vars
  | f_orelse
  | f_pattern
  | f_patterns
  | f_posonlyargs
  | f_rest
  | f_returns
  | f_right
  | f_simple
  | f_slice
  | f_step
  | f_subject
  | f_target
  | f_targets
  | f_test
  | f_type
  | f_type_comment
  | f_type_params
  | f_upper
  | f_value
  | f_values
  | f_vararg
  deriving DecidableEq, Repr

inductive Cat where
  | stmt
  | expr
  | prod
  | pattern
  | excepthandler
  | type_param
  deriving DecidableEq, Repr

inductive FType where
  | sum (c : Cat) | prod (k : Kind) | prim
  deriving DecidableEq, Repr

inductive Visitor where
  | CFGBuilder
  | ExprBuilder
  | BranchBuilder
  | StmtChecker
  | ExprSynthesizer
  | ExprChecker
  | AssignTarget
  | ModifierItem
  | aux
  deriving DecidableEq, Repr

inductive VisitHow where | explicit | identity | raisesInternal | raisesUser deriving DecidableEq, Repr
inductive ReadHow where | read | guard deriving DecidableEq, Repr
inductive GenericHow where | rejects | forwards | fallback | other deriving DecidableEq, Repr

structure GRow where
  kind : Kind
  cat : Cat
  field : Field
  ftype : FType
  deriving DecidableEq, Repr

structure Tables where
  grammar : List GRow
  kindCat : List (Kind × Cat)
  visits : List (Visitor × Kind × VisitHow)
  reads : List (Visitor × Kind × Field × ReadHow)
  generic : List (Visitor × GenericHow)

/-- Python 3.12 abstract grammar: (kind, category, field, field type) -/
def grammar : List GRow := [
  ⟨.AnnAssign, .stmt, .f_annotation, .sum .expr⟩,
  ⟨.AnnAssign, .stmt, .f_simple, .prim⟩,
  ⟨.AnnAssign, .stmt, .f_target, .sum .expr⟩,
  ⟨.AnnAssign, .stmt, .f_value, .sum .expr⟩,
  ⟨.Assert, .stmt, .f_msg, .sum .expr⟩,
  ⟨.Assert, .stmt, .f_test, .sum .expr⟩,
  ⟨.Assign, .stmt, .f_targets, .sum .expr⟩,
  ⟨.Assign, .stmt, .f_type_comment, .prim⟩,
  ⟨.Assign, .stmt, .f_value, .sum .expr⟩,
  ⟨.AsyncFor, .stmt, .f_body, .sum .stmt⟩,
  ⟨.AsyncFor, .stmt, .f_iter, .sum .expr⟩,
  ⟨.AsyncFor, .stmt, .f_orelse, .sum .stmt⟩,
  ⟨.AsyncFor, .stmt, .f_target, .sum .expr⟩,
  ⟨.AsyncFor, .stmt, .f_type_comment, .prim⟩,
  ⟨.AsyncFunctionDef, .stmt, .f_args, .prod .arguments⟩,
  ⟨.AsyncFunctionDef, .stmt, .f_body, .sum .stmt⟩,
  ⟨.AsyncFunctionDef, .stmt, .f_decorator_list, .sum .expr⟩,
  ⟨.AsyncFunctionDef, .stmt, .f_name, .prim⟩,
  ⟨.AsyncFunctionDef, .stmt, .f_returns, .sum .expr⟩,
  ⟨.AsyncFunctionDef, .stmt, .f_type_comment, .prim⟩,
  ⟨.AsyncFunctionDef, .stmt, .f_type_params, .sum .type_param⟩,
  ⟨.AsyncWith, .stmt, .f_body, .sum .stmt⟩,
  ⟨.AsyncWith, .stmt, .f_items, .prod .withitem⟩,
  ⟨.AsyncWith, .stmt, .f_type_comment, .prim⟩,
  ⟨.Attribute, .expr, .f_attr, .prim⟩,
  ⟨.Attribute, .expr, .f_ctx, .prim⟩,
  ⟨.Attribute, .expr, .f_value, .sum .expr⟩,
  ⟨.AugAssign, .stmt, .f_op, .prim⟩,
  ⟨.AugAssign, .stmt, .f_target, .sum .expr⟩,
  ⟨.AugAssign, .stmt, .f_value, .sum .expr⟩,
  ⟨.Await, .expr, .f_value, .sum .expr⟩,
  ⟨.BinOp, .expr, .f_left, .sum .expr⟩,
  ⟨.BinOp, .expr, .f_op, .prim⟩,
  ⟨.BinOp, .expr, .f_right, .sum .expr⟩,
  ⟨.BoolOp, .expr, .f_op, .prim⟩,
  ⟨.BoolOp, .expr, .f_values, .sum .expr⟩,
  ⟨.Call, .expr, .f_args, .sum .expr⟩,
  ⟨.Call, .expr, .f_func, .sum .expr⟩,
  ⟨.Call, .expr, .f_keywords, .prod .keyword⟩,
  ⟨.ClassDef, .stmt, .f_bases, .sum .expr⟩,
  ⟨.ClassDef, .stmt, .f_body, .sum .stmt⟩,
  ⟨.ClassDef, .stmt, .f_decorator_list, .sum .expr⟩,
  ⟨.ClassDef, .stmt, .f_keywords, .prod .keyword⟩,
  ⟨.ClassDef, .stmt, .f_name, .prim⟩,
  ⟨.ClassDef, .stmt, .f_type_params, .sum .type_param⟩,
  ⟨.Compare, .expr, .f_comparators, .sum .expr⟩,
  ⟨.Compare, .expr, .f_left, .sum .expr⟩,
  ⟨.Compare, .expr, .f_ops, .prim⟩,
  ⟨.Constant, .expr, .f_kind, .prim⟩,
  ⟨.Constant, .expr, .f_value, .prim⟩,
  ⟨.Delete, .stmt, .f_targets, .sum .expr⟩,
  ⟨.Dict, .expr, .f_keys, .sum .expr⟩,
  ⟨.Dict, .expr, .f_values, .sum .expr⟩,
  ⟨.DictComp, .expr, .f_generators, .prod .comprehension⟩,
  ⟨.DictComp, .expr, .f_key, .sum .expr⟩,
  ⟨.DictComp, .expr, .f_value, .sum .expr⟩,
  ⟨.ExceptHandler, .excepthandler, .f_body, .sum .stmt⟩,
  ⟨.ExceptHandler, .excepthandler, .f_name, .prim⟩,
  ⟨.ExceptHandler, .excepthandler, .f_type, .sum .expr⟩,
  ⟨.Expr, .stmt, .f_value, .sum .expr⟩,
  ⟨.For, .stmt, .f_body, .sum .stmt⟩,
  ⟨.For, .stmt, .f_iter, .sum .expr⟩,
  ⟨.For, .stmt, .f_orelse, .sum .stmt⟩,
  ⟨.For, .stmt, .f_target, .sum .expr⟩,
  ⟨.For, .stmt, .f_type_comment, .prim⟩,
  ⟨.FormattedValue, .expr, .f_conversion, .prim⟩,
  ⟨.FormattedValue, .expr, .f_format_spec, .sum .expr⟩,
  ⟨.FormattedValue, .expr, .f_value, .sum .expr⟩,
  ⟨.FunctionDef, .stmt, .f_args, .prod .arguments⟩,
  ⟨.FunctionDef, .stmt, .f_body, .sum .stmt⟩,
  ⟨.FunctionDef, .stmt, .f_decorator_list, .sum .expr⟩,
  ⟨.FunctionDef, .stmt, .f_name, .prim⟩,
  ⟨.FunctionDef, .stmt, .f_returns, .sum .expr⟩,
  ⟨.FunctionDef, .stmt, .f_type_comment, .prim⟩,
  ⟨.FunctionDef, .stmt, .f_type_params, .sum .type_param⟩,
  ⟨.GeneratorExp, .expr, .f_elt, .sum .expr⟩,
  ⟨.GeneratorExp, .expr, .f_generators, .prod .comprehension⟩,
  ⟨.Global, .stmt, .f_names, .prim⟩,
  ⟨.If, .stmt, .f_body, .sum .stmt⟩,
  ⟨.If, .stmt, .f_orelse, .sum .stmt⟩,
  ⟨.If, .stmt, .f_test, .sum .expr⟩,
  ⟨.IfExp, .expr, .f_body, .sum .expr⟩,
  ⟨.IfExp, .expr, .f_orelse, .sum .expr⟩,
  ⟨.IfExp, .expr, .f_test, .sum .expr⟩,
  ⟨.Import, .stmt, .f_names, .prod .alias⟩,
  ⟨.ImportFrom, .stmt, .f_level, .prim⟩,
  ⟨.ImportFrom, .stmt, .f_module, .prim⟩,
  ⟨.ImportFrom, .stmt, .f_names, .prod .alias⟩,
  ⟨.JoinedStr, .expr, .f_values, .sum .expr⟩,
  ⟨.Lambda, .expr, .f_args, .prod .arguments⟩,
  ⟨.Lambda, .expr, .f_body, .sum .expr⟩,
  ⟨.List, .expr, .f_ctx, .prim⟩,
  ⟨.List, .expr, .f_elts, .sum .expr⟩,
  ⟨.ListComp, .expr, .f_elt, .sum .expr⟩,
  ⟨.ListComp, .expr, .f_generators, .prod .comprehension⟩,
  ⟨.Match, .stmt, .f_cases, .prod .match_case⟩,
  ⟨.Match, .stmt, .f_subject, .sum .expr⟩,
  ⟨.MatchAs, .pattern, .f_name, .prim⟩,
  ⟨.MatchAs, .pattern, .f_pattern, .sum .pattern⟩,
  ⟨.MatchClass, .pattern, .f_cls, .sum .expr⟩,
  ⟨.MatchClass, .pattern, .f_kwd_attrs, .prim⟩,
  ⟨.MatchClass, .pattern, .f_kwd_patterns, .sum .pattern⟩,
  ⟨.MatchClass, .pattern, .f_patterns, .sum .pattern⟩,
  ⟨.MatchMapping, .pattern, .f_keys, .sum .expr⟩,
  ⟨.MatchMapping, .pattern, .f_patterns, .sum .pattern⟩,
  ⟨.MatchMapping, .pattern, .f_rest, .prim⟩,
  ⟨.MatchOr, .pattern, .f_patterns, .sum .pattern⟩,
  ⟨.MatchSequence, .pattern, .f_patterns, .sum .pattern⟩,
  ⟨.MatchSingleton, .pattern, .f_value, .prim⟩,
  ⟨.MatchStar, .pattern, .f_name, .prim⟩,
  ⟨.MatchValue, .pattern, .f_value, .sum .expr⟩,
  ⟨.Name, .expr, .f_ctx, .prim⟩,
  ⟨.Name, .expr, .f_id, .prim⟩,
  ⟨.NamedExpr, .expr, .f_target, .sum .expr⟩,
  ⟨.NamedExpr, .expr, .f_value, .sum .expr⟩,
  ⟨.Nonlocal, .stmt, .f_names, .prim⟩,
  ⟨.ParamSpec, .type_param, .f_name, .prim⟩,
  ⟨.Raise, .stmt, .f_cause, .sum .expr⟩,
  ⟨.Raise, .stmt, .f_exc, .sum .expr⟩,
  ⟨.Return, .stmt, .f_value, .sum .expr⟩,
  ⟨.Set, .expr, .f_elts, .sum .expr⟩,
  ⟨.SetComp, .expr, .f_elt, .sum .expr⟩,
  ⟨.SetComp, .expr, .f_generators, .prod .comprehension⟩,
  ⟨.Slice, .expr, .f_lower, .sum .expr⟩,
  ⟨.Slice, .expr, .f_step, .sum .expr⟩,
  ⟨.Slice, .expr, .f_upper, .sum .expr⟩,
  ⟨.Starred, .expr, .f_ctx, .prim⟩,
  ⟨.Starred, .expr, .f_value, .sum .expr⟩,
  ⟨.Subscript, .expr, .f_ctx, .prim⟩,
  ⟨.Subscript, .expr, .f_slice, .sum .expr⟩,
  ⟨.Subscript, .expr, .f_value, .sum .expr⟩,
  ⟨.Try, .stmt, .f_body, .sum .stmt⟩,
  ⟨.Try, .stmt, .f_finalbody, .sum .stmt⟩,
  ⟨.Try, .stmt, .f_handlers, .sum .excepthandler⟩,
  ⟨.Try, .stmt, .f_orelse, .sum .stmt⟩,
  ⟨.TryStar, .stmt, .f_body, .sum .stmt⟩,
  ⟨.TryStar, .stmt, .f_finalbody, .sum .stmt⟩,
  ⟨.TryStar, .stmt, .f_handlers, .sum .excepthandler⟩,
  ⟨.TryStar, .stmt, .f_orelse, .sum .stmt⟩,
  ⟨.Tuple, .expr, .f_ctx, .prim⟩,
  ⟨.Tuple, .expr, .f_elts, .sum .expr⟩,
  ⟨.TypeAlias, .stmt, .f_name, .sum .expr⟩,
  ⟨.TypeAlias, .stmt, .f_type_params, .sum .type_param⟩,
  ⟨.TypeAlias, .stmt, .f_value, .sum .expr⟩,
  ⟨.TypeVar, .type_param, .f_bound, .sum .expr⟩,
  ⟨.TypeVar, .type_param, .f_name, .prim⟩,
  ⟨.TypeVarTuple, .type_param, .f_name, .prim⟩,
  ⟨.UnaryOp, .expr, .f_op, .prim⟩,
  ⟨.UnaryOp, .expr, .f_operand, .sum .expr⟩,
  ⟨.While, .stmt, .f_body, .sum .stmt⟩,
  ⟨.While, .stmt, .f_orelse, .sum .stmt⟩,
  ⟨.While, .stmt, .f_test, .sum .expr⟩,
  ⟨.With, .stmt, .f_body, .sum .stmt⟩,
  ⟨.With, .stmt, .f_items, .prod .withitem⟩,
  ⟨.With, .stmt, .f_type_comment, .prim⟩,
  ⟨.Yield, .expr, .f_value, .sum .expr⟩,
  ⟨.YieldFrom, .expr, .f_value, .sum .expr⟩,
  ⟨.alias, .prod, .f_asname, .prim⟩,
  ⟨.alias, .prod, .f_name, .prim⟩,
  ⟨.arg, .prod, .f_annotation, .sum .expr⟩,
  ⟨.arg, .prod, .f_arg, .prim⟩,
  ⟨.arg, .prod, .f_type_comment, .prim⟩,
  ⟨.arguments, .prod, .f_args, .prod .arg⟩,
  ⟨.arguments, .prod, .f_defaults, .sum .expr⟩,
  ⟨.arguments, .prod, .f_kw_defaults, .sum .expr⟩,
  ⟨.arguments, .prod, .f_kwarg, .prod .arg⟩,
  ⟨.arguments, .prod, .f_kwonlyargs, .prod .arg⟩,
  ⟨.arguments, .prod, .f_posonlyargs, .prod .arg⟩,
  ⟨.arguments, .prod, .f_vararg, .prod .arg⟩,
  ⟨.comprehension, .prod, .f_ifs, .sum .expr⟩,
  ⟨.comprehension, .prod, .f_is_async, .prim⟩,
  ⟨.comprehension, .prod, .f_iter, .sum .expr⟩,
  ⟨.comprehension, .prod, .f_target, .sum .expr⟩,
  ⟨.keyword, .prod, .f_arg, .prim⟩,
  ⟨.keyword, .prod, .f_value, .sum .expr⟩,
  ⟨.match_case, .prod, .f_body, .sum .stmt⟩,
  ⟨.match_case, .prod, .f_guard, .sum .expr⟩,
  ⟨.match_case, .prod, .f_pattern, .sum .pattern⟩,
  ⟨.withitem, .prod, .f_context_expr, .sum .expr⟩,
  ⟨.withitem, .prod, .f_optional_vars, .sum .expr⟩
]

def kindCat : List (Kind × Cat) := [
  (.AnnAssign, .stmt),
  (.Assert, .stmt),
  (.Assign, .stmt),
  (.AsyncFor, .stmt),
  (.AsyncFunctionDef, .stmt),
  (.AsyncWith, .stmt),
  (.Attribute, .expr),
  (.AugAssign, .stmt),
  (.Await, .expr),
  (.BinOp, .expr),
  (.BoolOp, .expr),
  (.Break, .stmt),
  (.Call, .expr),
  (.ClassDef, .stmt),
  (.Compare, .expr),
  (.Constant, .expr),
  (.Continue, .stmt),
  (.Delete, .stmt),
  (.Dict, .expr),
  (.DictComp, .expr),
  (.ExceptHandler, .excepthandler),
  (.Expr, .stmt),
  (.For, .stmt),
  (.FormattedValue, .expr),
  (.FunctionDef, .stmt),
  (.GeneratorExp, .expr),
  (.Global, .stmt),
  (.If, .stmt),
  (.IfExp, .expr),
  (.Import, .stmt),
  (.ImportFrom, .stmt),
  (.JoinedStr, .expr),
  (.Lambda, .expr),
  (.List, .expr),
  (.ListComp, .expr),
  (.Match, .stmt),
  (.MatchAs, .pattern),
  (.MatchClass, .pattern),
  (.MatchMapping, .pattern),
  (.MatchOr, .pattern),
  (.MatchSequence, .pattern),
  (.MatchSingleton, .pattern),
  (.MatchStar, .pattern),
  (.MatchValue, .pattern),
  (.Name, .expr),
  (.NamedExpr, .expr),
  (.Nonlocal, .stmt),
  (.ParamSpec, .type_param),
  (.Pass, .stmt),
  (.Raise, .stmt),
  (.Return, .stmt),
  (.Set, .expr),
  (.SetComp, .expr),
  (.Slice, .expr),
  (.Starred, .expr),
  (.Subscript, .expr),
  (.Try, .stmt),
  (.TryStar, .stmt),
  (.Tuple, .expr),
  (.TypeAlias, .stmt),
  (.TypeVar, .type_param),
  (.TypeVarTuple, .type_param),
  (.UnaryOp, .expr),
  (.While, .stmt),
  (.With, .stmt),
  (.Yield, .expr),
  (.YieldFrom, .expr),
  (.alias, .prod),
  (.arg, .prod),
  (.arguments, .prod),
  (.comprehension, .prod),
  (.keyword, .prod),
  (.match_case, .prod),
  (.withitem, .prod)
]

/-- `visit_K` methods of the six visitors: explicit body, or unconditional raise -/
def visits : List (Visitor × Kind × VisitHow) := [
  (.AssignTarget, .Attribute, .explicit),
  (.AssignTarget, .List, .explicit),
  (.AssignTarget, .Name, .explicit),
  (.AssignTarget, .Starred, .explicit),
  (.AssignTarget, .Subscript, .explicit),
  (.AssignTarget, .Tuple, .explicit),
  (.BranchBuilder, .BoolOp, .explicit),
  (.BranchBuilder, .Compare, .explicit),
  (.BranchBuilder, .Constant, .explicit),
  (.BranchBuilder, .IfExp, .explicit),
  (.BranchBuilder, .UnaryOp, .explicit),
  (.CFGBuilder, .AnnAssign, .explicit),
  (.CFGBuilder, .Assign, .explicit),
  (.CFGBuilder, .AugAssign, .explicit),
  (.CFGBuilder, .Break, .explicit),
  (.CFGBuilder, .Continue, .explicit),
  (.CFGBuilder, .Expr, .explicit),
  (.CFGBuilder, .For, .explicit),
  (.CFGBuilder, .FunctionDef, .explicit),
  (.CFGBuilder, .If, .explicit),
  (.CFGBuilder, .Pass, .explicit),
  (.CFGBuilder, .Return, .explicit),
  (.CFGBuilder, .While, .explicit),
  (.CFGBuilder, .With, .explicit),
  (.ExprBuilder, .Call, .explicit),
  (.ExprBuilder, .GeneratorExp, .explicit),
  (.ExprBuilder, .IfExp, .explicit),
  (.ExprBuilder, .ListComp, .explicit),
  (.ExprBuilder, .Name, .identity),
  (.ExprBuilder, .NamedExpr, .explicit),
  (.ExprBuilder, .UnaryOp, .explicit),
  (.ExprChecker, .Call, .explicit),
  (.ExprChecker, .Constant, .explicit),
  (.ExprChecker, .List, .explicit),
  (.ExprChecker, .Tuple, .explicit),
  (.ExprSynthesizer, .Attribute, .explicit),
  (.ExprSynthesizer, .BinOp, .explicit),
  (.ExprSynthesizer, .BoolOp, .raisesInternal),
  (.ExprSynthesizer, .Call, .explicit),
  (.ExprSynthesizer, .Compare, .explicit),
  (.ExprSynthesizer, .Constant, .explicit),
  (.ExprSynthesizer, .IfExp, .raisesInternal),
  (.ExprSynthesizer, .List, .explicit),
  (.ExprSynthesizer, .ListComp, .raisesInternal),
  (.ExprSynthesizer, .Name, .explicit),
  (.ExprSynthesizer, .NamedExpr, .raisesInternal),
  (.ExprSynthesizer, .Subscript, .explicit),
  (.ExprSynthesizer, .Tuple, .explicit),
  (.ExprSynthesizer, .UnaryOp, .explicit),
  (.ModifierItem, .Call, .explicit),
  (.ModifierItem, .Name, .explicit),
  (.StmtChecker, .AnnAssign, .explicit),
  (.StmtChecker, .Assign, .explicit),
  (.StmtChecker, .AugAssign, .explicit),
  (.StmtChecker, .Break, .raisesInternal),
  (.StmtChecker, .Continue, .raisesInternal),
  (.StmtChecker, .Expr, .explicit),
  (.StmtChecker, .FunctionDef, .explicit),
  (.StmtChecker, .If, .raisesInternal),
  (.StmtChecker, .Return, .explicit),
  (.StmtChecker, .While, .raisesInternal),
  (.StmtChecker, .With, .explicit)
]

/-- attribute loads of grammar fields inside the visitors (`aux`: non stmt/expr kinds, any function) -/
def reads : List (Visitor × Kind × Field × ReadHow) := [
  (.AssignTarget, .Attribute, .f_attr, .read),
  (.AssignTarget, .Attribute, .f_value, .read),
  (.AssignTarget, .List, .f_elts, .read),
  (.AssignTarget, .Name, .f_id, .read),
  (.AssignTarget, .Starred, .f_value, .read),
  (.AssignTarget, .Subscript, .f_slice, .read),
  (.AssignTarget, .Subscript, .f_value, .read),
  (.AssignTarget, .Tuple, .f_elts, .read),
  (.BranchBuilder, .BoolOp, .f_op, .read),
  (.BranchBuilder, .BoolOp, .f_values, .read),
  (.BranchBuilder, .Compare, .f_comparators, .read),
  (.BranchBuilder, .Compare, .f_left, .read),
  (.BranchBuilder, .Compare, .f_ops, .read),
  (.BranchBuilder, .Constant, .f_value, .read),
  (.BranchBuilder, .IfExp, .f_body, .read),
  (.BranchBuilder, .IfExp, .f_orelse, .read),
  (.BranchBuilder, .IfExp, .f_test, .read),
  (.BranchBuilder, .UnaryOp, .f_op, .read),
  (.BranchBuilder, .UnaryOp, .f_operand, .read),
  (.CFGBuilder, .AnnAssign, .f_target, .read),
  (.CFGBuilder, .AnnAssign, .f_value, .read),
  (.CFGBuilder, .Assign, .f_targets, .read),
  (.CFGBuilder, .AugAssign, .f_op, .read),
  (.CFGBuilder, .AugAssign, .f_target, .read),
  (.CFGBuilder, .AugAssign, .f_value, .read),
  (.CFGBuilder, .Expr, .f_value, .read),
  (.CFGBuilder, .For, .f_body, .read),
  (.CFGBuilder, .For, .f_iter, .read),
  (.CFGBuilder, .For, .f_orelse, .guard),
  (.CFGBuilder, .For, .f_target, .read),
  (.CFGBuilder, .FunctionDef, .f_args, .read),
  (.CFGBuilder, .FunctionDef, .f_body, .read),
  (.CFGBuilder, .FunctionDef, .f_decorator_list, .guard),
  (.CFGBuilder, .FunctionDef, .f_name, .read),
  (.CFGBuilder, .FunctionDef, .f_returns, .read),
  (.CFGBuilder, .FunctionDef, .f_type_params, .read),
  (.CFGBuilder, .If, .f_body, .read),
  (.CFGBuilder, .If, .f_orelse, .read),
  (.CFGBuilder, .If, .f_test, .read),
  (.CFGBuilder, .Return, .f_value, .read),
  (.CFGBuilder, .While, .f_body, .read),
  (.CFGBuilder, .While, .f_orelse, .guard),
  (.CFGBuilder, .While, .f_test, .read),
  (.CFGBuilder, .With, .f_body, .read),
  (.CFGBuilder, .With, .f_items, .read),
  (.ExprBuilder, .Call, .f_args, .read),
  (.ExprBuilder, .Call, .f_func, .read),
  (.ExprBuilder, .Call, .f_keywords, .guard),
  (.ExprBuilder, .GeneratorExp, .f_elt, .read),
  (.ExprBuilder, .GeneratorExp, .f_generators, .read),
  (.ExprBuilder, .IfExp, .f_body, .read),
  (.ExprBuilder, .IfExp, .f_orelse, .read),
  (.ExprBuilder, .IfExp, .f_test, .read),
  (.ExprBuilder, .ListComp, .f_elt, .read),
  (.ExprBuilder, .ListComp, .f_generators, .read),
  (.ExprBuilder, .NamedExpr, .f_target, .read),
  (.ExprBuilder, .NamedExpr, .f_value, .read),
  (.ExprBuilder, .UnaryOp, .f_op, .read),
  (.ExprBuilder, .UnaryOp, .f_operand, .read),
  (.ExprChecker, .Call, .f_args, .read),
  (.ExprChecker, .Call, .f_func, .read),
  (.ExprChecker, .Call, .f_keywords, .guard),
  (.ExprChecker, .Constant, .f_value, .read),
  (.ExprChecker, .List, .f_elts, .read),
  (.ExprChecker, .Tuple, .f_elts, .read),
  (.ExprSynthesizer, .Attribute, .f_attr, .read),
  (.ExprSynthesizer, .Attribute, .f_value, .read),
  (.ExprSynthesizer, .BinOp, .f_left, .read),
  (.ExprSynthesizer, .BinOp, .f_op, .read),
  (.ExprSynthesizer, .BinOp, .f_right, .read),
  (.ExprSynthesizer, .Call, .f_args, .read),
  (.ExprSynthesizer, .Call, .f_func, .read),
  (.ExprSynthesizer, .Call, .f_keywords, .guard),
  (.ExprSynthesizer, .Compare, .f_comparators, .read),
  (.ExprSynthesizer, .Compare, .f_left, .read),
  (.ExprSynthesizer, .Compare, .f_ops, .read),
  (.ExprSynthesizer, .Constant, .f_value, .read),
  (.ExprSynthesizer, .List, .f_elts, .read),
  (.ExprSynthesizer, .Name, .f_id, .read),
  (.ExprSynthesizer, .Subscript, .f_slice, .read),
  (.ExprSynthesizer, .Subscript, .f_value, .read),
  (.ExprSynthesizer, .Tuple, .f_elts, .read),
  (.ExprSynthesizer, .UnaryOp, .f_op, .read),
  (.ExprSynthesizer, .UnaryOp, .f_operand, .read),
  (.ModifierItem, .Call, .f_args, .read),
  (.ModifierItem, .Call, .f_func, .read),
  (.ModifierItem, .Call, .f_keywords, .guard),
  (.ModifierItem, .Name, .f_id, .read),
  (.StmtChecker, .AnnAssign, .f_annotation, .read),
  (.StmtChecker, .AnnAssign, .f_target, .read),
  (.StmtChecker, .AnnAssign, .f_value, .read),
  (.StmtChecker, .Assign, .f_targets, .read),
  (.StmtChecker, .Assign, .f_value, .read),
  (.StmtChecker, .AugAssign, .f_op, .read),
  (.StmtChecker, .AugAssign, .f_target, .read),
  (.StmtChecker, .AugAssign, .f_value, .read),
  (.StmtChecker, .Expr, .f_value, .read),
  (.StmtChecker, .FunctionDef, .f_args, .read),
  (.StmtChecker, .FunctionDef, .f_name, .read),
  (.StmtChecker, .FunctionDef, .f_returns, .read),
  (.StmtChecker, .FunctionDef, .f_type_params, .read),
  (.StmtChecker, .Return, .f_value, .read),
  (.aux, .ParamSpec, .f_name, .read),
  (.aux, .TypeVar, .f_bound, .read),
  (.aux, .TypeVar, .f_name, .read),
  (.aux, .TypeVarTuple, .f_name, .read),
  (.aux, .arg, .f_annotation, .read),
  (.aux, .arg, .f_arg, .read),
  (.aux, .arguments, .f_args, .read),
  (.aux, .arguments, .f_defaults, .guard),
  (.aux, .arguments, .f_kwarg, .guard),
  (.aux, .arguments, .f_kwonlyargs, .guard),
  (.aux, .arguments, .f_posonlyargs, .guard),
  (.aux, .arguments, .f_vararg, .guard),
  (.aux, .comprehension, .f_ifs, .read),
  (.aux, .comprehension, .f_is_async, .guard),
  (.aux, .comprehension, .f_iter, .read),
  (.aux, .comprehension, .f_target, .read),
  (.aux, .withitem, .f_context_expr, .read),
  (.aux, .withitem, .f_optional_vars, .guard)
]

def generic : List (Visitor × GenericHow) := [
  (.BranchBuilder, .fallback),
  (.CFGBuilder, .rejects),
  (.ExprBuilder, .other),
  (.ExprChecker, .fallback),
  (.ExprSynthesizer, .rejects)
]

def tables : Tables := ⟨grammar, kindCat, visits, reads, generic⟩

inductive Stage where | builder | checker | compiler | parsing | other deriving DecidableEq, Repr
inductive ListRead where | whole | index | test deriving DecidableEq, Repr

/-- how each stage (by source file) consumes the list-typed grammar fields it looks at outside rejections:
    `whole` (iterated / unpacked / handed on), `index` (one element by constant subscript), `test` (truth value / length) -/
def listReads : List (Stage × Kind × Field × ListRead) := [
  (.builder, .Assign, .f_targets, .whole),
  (.builder, .BoolOp, .f_values, .index),
  (.builder, .BoolOp, .f_values, .test),
  (.builder, .BoolOp, .f_values, .whole),
  (.builder, .Call, .f_args, .index),
  (.builder, .Call, .f_args, .whole),
  (.builder, .Compare, .f_comparators, .test),
  (.builder, .Compare, .f_comparators, .whole),
  (.builder, .Compare, .f_ops, .test),
  (.builder, .Compare, .f_ops, .whole),
  (.builder, .For, .f_body, .whole),
  (.builder, .FunctionDef, .f_body, .whole),
  (.builder, .GeneratorExp, .f_generators, .whole),
  (.builder, .If, .f_body, .whole),
  (.builder, .If, .f_orelse, .whole),
  (.builder, .ListComp, .f_generators, .whole),
  (.builder, .While, .f_body, .whole),
  (.builder, .With, .f_body, .whole),
  (.builder, .With, .f_items, .whole),
  (.checker, .Assign, .f_targets, .whole),
  (.checker, .Call, .f_args, .whole),
  (.checker, .Compare, .f_comparators, .whole),
  (.checker, .Compare, .f_ops, .whole),
  (.checker, .FunctionDef, .f_body, .whole),
  (.checker, .FunctionDef, .f_type_params, .whole),
  (.checker, .List, .f_elts, .index),
  (.checker, .List, .f_elts, .test),
  (.checker, .List, .f_elts, .whole),
  (.checker, .Tuple, .f_elts, .test),
  (.checker, .Tuple, .f_elts, .whole),
  (.checker, .arguments, .f_args, .whole),
  (.checker, .comprehension, .f_ifs, .test),
  (.checker, .comprehension, .f_ifs, .whole),
  (.compiler, .Tuple, .f_elts, .whole),
  (.compiler, .comprehension, .f_ifs, .whole),
  (.parsing, .List, .f_elts, .whole),
  (.parsing, .Tuple, .f_elts, .whole)
]

inductive SkipAtom where | tmpVar | isinstance | other | unanalysable deriving DecidableEq, Repr
inductive RecordHow where | always | never | guarded (skipWhen : List SkipAtom) deriving DecidableEq, Repr

/-- `CFGBuilder.visit_K`: is the statement appended to a basic block (`bb.statements.append`), and if only under
    a condition, the literals of the conjunction under which it is NOT (classified) -/
def records : List (Kind × RecordHow) := [
  (.AnnAssign, .always),
  (.Assign, .always),
  (.AugAssign, .always),
  (.Break, .never),
  (.Continue, .never),
  (.Expr, .guarded [.isinstance, .tmpVar]),
  (.For, .never),
  (.FunctionDef, .always),
  (.If, .never),
  (.Pass, .never),
  (.Return, .always),
  (.While, .never),
  (.With, .always)
]

def kindNames : List (String × Kind) := [
  ("AnnAssign", .AnnAssign),
  ("Assert", .Assert),
  ("Assign", .Assign),
  ("AsyncFor", .AsyncFor),
  ("AsyncFunctionDef", .AsyncFunctionDef),
  ("AsyncWith", .AsyncWith),
  ("Attribute", .Attribute),
  ("AugAssign", .AugAssign),
  ("Await", .Await),
  ("BinOp", .BinOp),
  ("BoolOp", .BoolOp),
  ("Break", .Break),
  ("Call", .Call),
  ("ClassDef", .ClassDef),
  ("Compare", .Compare),
  ("Constant", .Constant),
  ("Continue", .Continue),
  ("Delete", .Delete),
  ("Dict", .Dict),
  ("DictComp", .DictComp),
  ("ExceptHandler", .ExceptHandler),
  ("Expr", .Expr),
  ("For", .For),
  ("FormattedValue", .FormattedValue),
  ("FunctionDef", .FunctionDef),
  ("GeneratorExp", .GeneratorExp),
  ("Global", .Global),
  ("If", .If),
  ("IfExp", .IfExp),
  ("Import", .Import),
  ("ImportFrom", .ImportFrom),
  ("JoinedStr", .JoinedStr),
  ("Lambda", .Lambda),
  ("List", .List),
  ("ListComp", .ListComp),
  ("Match", .Match),
  ("MatchAs", .MatchAs),
  ("MatchClass", .MatchClass),
  ("MatchMapping", .MatchMapping),
  ("MatchOr", .MatchOr),
  ("MatchSequence", .MatchSequence),
  ("MatchSingleton", .MatchSingleton),
  ("MatchStar", .MatchStar),
  ("MatchValue", .MatchValue),
  ("Name", .Name),
  ("NamedExpr", .NamedExpr),
  ("Nonlocal", .Nonlocal),
  ("ParamSpec", .ParamSpec),
  ("Pass", .Pass),
  ("Raise", .Raise),
  ("Return", .Return),
  ("Set", .Set),
  ("SetComp", .SetComp),
  ("Slice", .Slice),
  ("Starred", .Starred),
  ("Subscript", .Subscript),
  ("Try", .Try),
  ("TryStar", .TryStar),
  ("Tuple", .Tuple),
  ("TypeAlias", .TypeAlias),
  ("TypeVar", .TypeVar),
  ("TypeVarTuple", .TypeVarTuple),
  ("UnaryOp", .UnaryOp),
  ("While", .While),
  ("With", .With),
  ("Yield", .Yield),
  ("YieldFrom", .YieldFrom),
  ("alias", .alias),
  ("arg", .arg),
  ("arguments", .arguments),
  ("comprehension", .comprehension),
  ("keyword", .keyword),
  ("match_case", .match_case),
  ("withitem", .withitem)
]

def fieldNames : List (String × Field) := [
  ("annotation", .f_annotation),
  ("arg", .f_arg),
  ("args", .f_args),
  ("asname", .f_asname),
  ("attr", .f_attr),
  ("bases", .f_bases),
  ("body", .f_body),
  ("bound", .f_bound),
  ("cases", .f_cases),
  ("cause", .f_cause),
  ("cls", .f_cls),
  ("comparators", .f_comparators),
  ("context_expr", .f_context_expr),
  ("conversion", .f_conversion),
  ("ctx", .f_ctx),
  ("decorator_list", .f_decorator_list),
  ("defaults", .f_defaults),
  ("elt", .f_elt),
  ("elts", .f_elts),
  ("exc", .f_exc),
  ("finalbody", .f_finalbody),
  ("format_spec", .f_format_spec),
  ("func", .f_func),
  ("generators", .f_generators),
  ("guard", .f_guard),
  ("handlers", .f_handlers),
  ("id", .f_id),
  ("ifs", .f_ifs),
  ("is_async", .f_is_async),
  ("items", .f_items),
  ("iter", .f_iter),
  ("key", .f_key),
  ("keys", .f_keys),
  ("keywords", .f_keywords),
  ("kind", .f_kind),
  ("kw_defaults", .f_kw_defaults),
  ("kwarg", .f_kwarg),
  ("kwd_attrs", .f_kwd_attrs),
  ("kwd_patterns", .f_kwd_patterns),
  ("kwonlyargs", .f_kwonlyargs),
  ("left", .f_left),
  ("level", .f_level),
  ("lower", .f_lower),
  ("module", .f_module),
  ("msg", .f_msg),
  ("name", .f_name),
  ("names", .f_names),
  ("op", .f_op),
  ("operand", .f_operand),
  ("ops", .f_ops),
  ("optional_vars", .f_optional_vars),
  ("orelse", .f_orelse),
  ("pattern", .f_pattern),
  ("patterns", .f_patterns),
  ("posonlyargs", .f_posonlyargs),
  ("rest", .f_rest),
  ("returns", .f_returns),
  ("right", .f_right),
  ("simple", .f_simple),
  ("slice", .f_slice),
  ("step", .f_step),
  ("subject", .f_subject),
  ("target", .f_target),
  ("targets", .f_targets),
  ("test", .f_test),
  ("type", .f_type),
  ("type_comment", .f_type_comment),
  ("type_params", .f_type_params),
  ("upper", .f_upper),
  ("value", .f_value),
  ("values", .f_values),
  ("vararg", .f_vararg)
]

end GuppyVerif.C32
