import GuppyVerif.Model.Coerce
/-! GENERATED on every run by harness/props/c16.py (numtable.py) from the working tree of /repo:
    tys/ty.py (NumericType.Kind), checker/expr_checker.py (try_coerce_to), std/num.py, std/bool.py.  Do not edit. -/
namespace GuppyVerif.C16Gen
open GuppyVerif.Coerce

def cfg : Cfg where
  kindValues := [("Nat", 1), ("Int", 2), ("Float", 3)]
  kindLt := ("Lt", "self.value", "other.value")
  coerceCond := ("Lt", "act.kind", "exp.kind")
  methodTemplate := "f'__{exp.kind.name.lower()}__'"
  methods := [
    ("bool", "__int__", "body:return 1 if self else 0"),
    ("bool", "__nat__", "body:return nat(1) if self else nat(0)"),
    ("float", "__float__", "noop"),
    ("float", "__int__", "unwrapop:arithmetic.conversions.trunc_s"),
    ("float", "__nat__", "unwrapop:arithmetic.conversions.trunc_u"),
    ("int", "__float__", "hugr:arithmetic.conversions.convert_s"),
    ("int", "__int__", "noop"),
    ("int", "__nat__", "hugr:arithmetic.int.is_to_u"),
    ("nat", "__float__", "hugr:arithmetic.conversions.convert_u"),
    ("nat", "__int__", "noop"),
    ("nat", "__nat__", "noop")]
  setitemIndexSlot := "fresh"

end GuppyVerif.C16Gen
