/-! GENERATED on every run by harness/props/c22.py (translate) from tracing/frozenlist.py. Do not edit. -/
namespace GuppyVerif.TraceOwn

/-- base classes of `frozenlist` -/
def frozenBases : List String := ["list"]

/-- methods overridden by `frozenlist`: (name, calling it on a real instance raises GuppyComptimeError and leaves it unchanged) -/
def frozenOverrides : List (String × Bool) := [
  ("__delitem__", true),
  ("__iadd__", true),
  ("__imul__", true),
  ("__init__", true),
  ("__setitem__", true),
  ("append", true),
  ("clear", true),
  ("copy", false),
  ("extend", true),
  ("insert", true),
  ("pop", true),
  ("remove", true),
  ("reverse", true),
  ("sort", true)
]

/-- how an argument is passed to a comptime function -/
inductive ArgMode where | owned | borrowed | byValue deriving DecidableEq, Repr

/-- `trace_function`: the `frozen=` expression of the inputs' `unpack_guppy_object` call, evaluated per mode;
    `none`: the expression was not found / could not be evaluated -/
def frozenRule : ArgMode → Option Bool
  | .owned => some true
  | .borrowed => some false
  | .byValue => some true

end GuppyVerif.TraceOwn
