/-! GENERATED on every run by harness/props/c22.py (translate) from tracing/frozenlist.py. Do not edit. -/
namespace GuppyVerif.TraceOwn

/-- base classes of `frozenlist` -/
def frozenBases : List String := ["list"]

/-- methods overridden by `frozenlist`: (name, calling it on a real instance raises GuppyComptimeError and leaves it unchanged) -/
def frozenOverrides : List (String × Bool) := [
  ("__delitem__", true),
  ("__iadd__", true),
  ("__imul__", true),
  ("__init__", true),
  ("__setitem__", true),
  ("append", true),
  ("clear", true),
  ("copy", false),
  ("extend", true),
  ("insert", true),
  ("pop", true),
  ("remove", true),
  ("reverse", true),
  ("sort", true)
]

end GuppyVerif.TraceOwn
