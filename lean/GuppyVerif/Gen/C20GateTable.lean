import GuppyVerif.Model.Gate
/-! GENERATED on every run by harness/props/c20.py `translate` from
    guppylang/src/guppylang/std/quantum/__init__.py, std/qsystem/__init__.py, std/angles.py of the repository
    under check (source AST cross-checked against the registered definition objects).  Do not edit. -/
namespace GuppyVerif.Gate.Gen

/-- one row per library function: module, name, parameter kinds, return annotation, binding -/
def table : List Row := [
  ⟨"quantum", "qubit.__new__", [], "qubit", .direct "tket.quantum.QAlloc"⟩,
  ⟨"quantum", "qubit.measure", [.qubitOwned], "bool", .body [⟨"quantum", "measure", [(.p 0)]⟩]⟩,
  ⟨"quantum", "qubit.project_z", [.qubit], "bool", .body [⟨"quantum", "project_z", [(.p 0)]⟩]⟩,
  ⟨"quantum", "qubit.discard", [.qubitOwned], "None", .body [⟨"quantum", "discard", [(.p 0)]⟩]⟩,
  ⟨"quantum", "maybe_qubit", [], "Option[qubit]", .direct "tket.quantum.TryQAlloc"⟩,
  ⟨"quantum", "h", [.qubit], "None", .direct "tket.quantum.H"⟩,
  ⟨"quantum", "cz", [.qubit, .qubit], "None", .direct "tket.quantum.CZ"⟩,
  ⟨"quantum", "cy", [.qubit, .qubit], "None", .direct "tket.quantum.CY"⟩,
  ⟨"quantum", "cx", [.qubit, .qubit], "None", .direct "tket.quantum.CX"⟩,
  ⟨"quantum", "t", [.qubit], "None", .direct "tket.quantum.T"⟩,
  ⟨"quantum", "s", [.qubit], "None", .direct "tket.quantum.S"⟩,
  ⟨"quantum", "v", [.qubit], "None", .direct "tket.quantum.V"⟩,
  ⟨"quantum", "x", [.qubit], "None", .direct "tket.quantum.X"⟩,
  ⟨"quantum", "y", [.qubit], "None", .direct "tket.quantum.Y"⟩,
  ⟨"quantum", "z", [.qubit], "None", .direct "tket.quantum.Z"⟩,
  ⟨"quantum", "tdg", [.qubit], "None", .direct "tket.quantum.Tdg"⟩,
  ⟨"quantum", "sdg", [.qubit], "None", .direct "tket.quantum.Sdg"⟩,
  ⟨"quantum", "vdg", [.qubit], "None", .direct "tket.quantum.Vdg"⟩,
  ⟨"quantum", "rz", [.qubit, .angle], "None", .rotation "tket.quantum.Rz"⟩,
  ⟨"quantum", "rx", [.qubit, .angle], "None", .rotation "tket.quantum.Rx"⟩,
  ⟨"quantum", "ry", [.qubit, .angle], "None", .rotation "tket.quantum.Ry"⟩,
  ⟨"quantum", "crz", [.qubit, .qubit, .angle], "None", .rotation "tket.quantum.CRz"⟩,
  ⟨"quantum", "toffoli", [.qubit, .qubit, .qubit], "None", .direct "tket.quantum.Toffoli"⟩,
  ⟨"quantum", "project_z", [.qubit], "bool", .measure "tket.quantum.Measure"⟩,
  ⟨"quantum", "discard", [.qubitOwned], "None", .direct "tket.quantum.QFree"⟩,
  ⟨"quantum", "measure", [.qubitOwned], "bool", .direct "tket.quantum.MeasureFree"⟩,
  ⟨"quantum", "reset", [.qubit], "None", .direct "tket.quantum.Reset"⟩,
  ⟨"quantum", "measure_array", [.other], "array[bool, N]", .opaque⟩,
  ⟨"quantum", "discard_array", [.other], "None", .opaque⟩,
  ⟨"quantum", "ch", [.qubit, .qubit], "None", .body [⟨"quantum", "ry", [(.p 1), (.divN (.neg .pi) 4)]⟩, ⟨"quantum", "cz", [(.p 0), (.p 1)]⟩, ⟨"quantum", "ry", [(.p 1), (.divN .pi 4)]⟩]⟩,
  ⟨"qsystem", "phased_x", [.qubit, .angle, .angle], "None", .body [⟨"qsystem", "_phased_x", [(.p 0), (.toFloat (.p 1)), (.toFloat (.p 2))]⟩]⟩,
  ⟨"qsystem", "zz_max", [.qubit, .qubit], "None", .body [⟨"qsystem", "zz_phase", [(.p 0), (.p 1), (.divN .pi 2)]⟩]⟩,
  ⟨"qsystem", "zz_phase", [.qubit, .qubit, .angle], "None", .body [⟨"qsystem", "_zz_phase", [(.p 0), (.p 1), (.toFloat (.p 2))]⟩]⟩,
  ⟨"qsystem", "rz", [.qubit, .angle], "None", .body [⟨"qsystem", "_rz", [(.p 0), (.toFloat (.p 1))]⟩]⟩,
  ⟨"qsystem", "measure", [.qubitOwned], "bool", .direct "tket.qsystem.Measure"⟩,
  ⟨"qsystem", "measure_and_reset", [.qubit], "bool", .measureReset "tket.qsystem.MeasureReset"⟩,
  ⟨"qsystem", "reset", [.qubit], "None", .direct "tket.qsystem.Reset"⟩,
  ⟨"qsystem", "qfree", [.qubitOwned], "None", .direct "tket.qsystem.QFree"⟩,
  ⟨"qsystem", "_measure_leaked", [.qubitOwned], "Future[int]", .direct "tket.qsystem.LazyMeasureLeaked"⟩,
  ⟨"qsystem", "measure_leaked", [.qubitOwned], "MaybeLeaked", .opaque⟩,
  ⟨"qsystem", "_phased_x", [.qubit, .float, .float], "None", .direct "tket.qsystem.PhasedX"⟩,
  ⟨"qsystem", "_zz_phase", [.qubit, .qubit, .float], "None", .direct "tket.qsystem.ZZPhase"⟩,
  ⟨"qsystem", "_rz", [.qubit, .float], "None", .direct "tket.qsystem.Rz"⟩
]

/-- halfturns of the constant `std.angles.pi` (its hugr value `Tuple(FloatVal(h))`) as numerator / denominator -/
def piHalfturnsNum : Int := 1
def piHalfturnsDen : Nat := 1

end GuppyVerif.Gate.Gen
